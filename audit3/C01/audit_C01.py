"""Audit of property C01 (signal containers keep their shape/noise contract).

Relations rather than reference values: every operation is evaluated both by the
library and by a plain (signal, noise) array-pair model; commutation, two-pol vs
two one-pol calls, noise=0 vs no noise, container kind, memory layout.
"""
import sys
del sys.path[0]
import itertools, warnings, re
import numpy as np
from opticomlib.typing import electrical_signal as E, optical_signal as O

warnings.simplefilter('ignore')
VIOL = {}


def report(clause, what):
    key = (clause, what)
    if key in VIOL:
        return
    # keep the output readable: at most 12 lines per clause
    n = sum(1 for k in VIOL if k[0] == clause)
    VIOL[key] = 1
    if n < 12:
        print(f'VIOLATION [{clause}] {what}')
    elif n == 12:
        print(f'VIOLATION [{clause}] ... further lines suppressed')


# ----------------------------------------------------------------------------
# model
# ----------------------------------------------------------------------------
class M:
    """plain pair model: s, n arrays of shape (N,) or (2,N); kind 'E' or 'O'."""
    def __init__(self, kind, s, n=None):
        self.kind, self.s, self.n = kind, np.array(s), None if n is None else np.array(n)

    @property
    def npol(self):
        return 2 if self.s.ndim == 2 else 1

    @property
    def N(self):
        return self.s.shape[-1]

    def total(self):
        return self.s if self.n is None else self.s + self.n

    def desc(self):
        return f'{self.kind}{self.npol}(N={self.N},{self.s.dtype},noise={"y" if self.n is not None else "n"})'


def build(m):
    cls = E if m.kind == 'E' else O
    if m.n is None:
        return cls(m.s.copy())
    return cls(m.s.copy(), m.n.copy())


def coerce_model(kind, v):
    """model of a non-object operand: plain array of one polarisation (or rows)."""
    if isinstance(v, M):
        return v
    if isinstance(v, str):
        toks = v.replace(',', ' ').split()
        a = np.array([complex(t.replace('i', 'j')) for t in toks])
        if np.all(a.imag == 0):
            a = a.real
            if np.all(a == np.round(a)) and '.' not in v:
                a = a.astype(int)
        return M(kind, a)
    a = np.array(v)
    if a.dtype == bool:
        a = a.astype(int)
    if a.ndim == 0:
        a = a[None]
    return M(kind, a)


def model_binop(op, a, b, strict_statement=False, reflected=False):
    """a, b are M. Equal lengths, or the length-1 `other` operand broadcasts; else ValueError.
    `other` is the right operand, or the left one for a reflected call (raw op obj).
    strict_statement=True lets a length-1 operand broadcast on either side."""
    other = a if reflected else b
    if a.N != b.N and other.N != 1 and not (strict_statement and 1 in (a.N, b.N)):
        raise ValueError
    if op == '+':
        s = a.s + b.s
    elif op == '-':
        s = a.s - b.s
    else:
        s = a.s * b.s
    if a.n is None and b.n is None:
        n = None
    else:
        if op == '*':
            if a.n is None:
                n = b.n
            elif b.n is None:
                n = a.n
            else:
                n = a.n * b.n
        else:
            an = 0 if a.n is None else a.n
            bn = 0 if b.n is None else b.n
            n = an + bn if op == '+' else an - bn
        n = np.broadcast_to(n, s.shape).astype(np.result_type(s, n))
        s = s.astype(n.dtype)
    return M(b.kind if reflected else a.kind, s, n)


def model_slice(m, k):
    if isinstance(k, (int, np.integer)):
        kk = k if k >= 0 else m.N + k
        if not 0 <= kk < m.N:
            raise IndexError
        k = slice(kk, kk + 1)
    s = m.s[..., k]
    if s.shape[-1] == 0:
        raise ValueError
    n = None if m.n is None else m.n[..., k]
    return M(m.kind, s, n)


# ----------------------------------------------------------------------------
# contract checks
# ----------------------------------------------------------------------------
def check_contract(clause, obj, kind, npol, N, ctx):
    ok = True
    cls = E if kind == 'E' else O
    if type(obj) is not cls:
        report(clause, f'{ctx}: class {type(obj).__name__}, expected {cls.__name__}'); return False
    s, n = obj.signal, obj.noise
    if not isinstance(s, np.ndarray):
        report(clause, f'{ctx}: signal is {type(s).__name__}'); return False
    shape = (N,) if npol == 1 else (2, N)
    if s.shape != shape:
        report(clause, f'{ctx}: signal shape {s.shape}, expected {shape}'); ok = False
    if n is not None:
        if not isinstance(n, np.ndarray) or n.shape != s.shape:
            report(clause, f'{ctx}: noise shape {getattr(n, "shape", None)} vs signal {s.shape}'); ok = False
        elif np.shares_memory(n, s):
            report(clause, f'{ctx}: noise shares memory with signal'); ok = False
        if n is not None and isinstance(n, np.ndarray) and n.dtype != s.dtype:
            report(clause, f'{ctx}: noise dtype {n.dtype} vs signal dtype {s.dtype}'); ok = False
    for arr, nm in [(s, 'signal'), (n, 'noise')]:
        if isinstance(arr, np.ndarray):
            if not arr.flags.writeable:
                report(clause, f'{ctx}: {nm} is read-only'); ok = False
            if any(st == 0 and d > 1 for st, d in zip(arr.strides, arr.shape)):
                report(clause, f'{ctx}: {nm} has a zero stride (rows/samples alias each other)'); ok = False
            if arr.ndim == 2 and np.shares_memory(arr[0], arr[1]):
                report(clause, f'{ctx}: {nm} rows share memory'); ok = False
    if s.dtype.kind not in 'iufc':
        report(clause, f'{ctx}: dtype {s.dtype}'); ok = False
    if kind == 'O' and getattr(obj, 'n_pol', None) != npol:
        report(clause, f'{ctx}: n_pol attribute {getattr(obj, "n_pol", None)}, expected {npol}'); ok = False
    if obj.len() != N or len(obj) != N:
        report(clause, f'{ctx}: len() {obj.len()}, expected {N}'); ok = False
    return ok


def arrays_of(v):
    out = []
    if isinstance(v, E):
        out.append(v.signal)
        if v.noise is not None:
            out.append(v.noise)
    elif isinstance(v, np.ndarray):
        out.append(v)
    return out


def snapshot(v):
    if isinstance(v, E):
        return (v.signal.tobytes(), v.signal.shape, v.signal.dtype,
                None if v.noise is None else (v.noise.tobytes(), v.noise.shape, v.noise.dtype))
    if isinstance(v, np.ndarray):
        return (v.tobytes(), v.shape, v.dtype)
    if isinstance(v, list):
        return repr(v)
    return v if not isinstance(v, np.generic) else (v.dtype, v.tobytes())


def same(a, b):
    """bit-for-bit equality of arrays (value level, nan safe)."""
    a, b = np.asarray(a), np.asarray(b)
    return a.shape == b.shape and np.array_equal(a, b, equal_nan=True)


def check_value(clause, obj, m, ctx, exact=True):
    ok = True
    if not same(obj.signal, m.s):
        if exact or not np.allclose(obj.signal, m.s, rtol=1e-12, atol=1e-12):
            report(clause, f'{ctx}: signal {obj.signal!r} expected {m.s!r}'); ok = False
    if (obj.noise is None) != (m.n is None):
        report(clause, f'{ctx}: noise present={obj.noise is not None}, expected present={m.n is not None}'); ok = False
    elif m.n is not None and not same(obj.noise, m.n):
        if exact or not np.allclose(obj.noise, m.n, rtol=1e-12, atol=1e-12):
            report(clause, f'{ctx}: noise {obj.noise!r} expected {m.n!r}'); ok = False
    return ok


def lib_binop(op, x, y):
    if op == '+':
        return x + y
    if op == '-':
        return x - y
    return x * y


def do_binop(clause, op, lx, mx, ly, my, ctx, reflected=False):
    """lx/ly library values (objects or raw operands), mx/my models. Returns (lib, model) or None."""
    sx, sy = snapshot(lx), snapshot(ly)
    kind = my.kind if reflected else mx.kind
    try:
        mres = model_binop(op, mx, my, reflected=reflected)
        merr = None
    except ValueError:
        mres, merr = None, ValueError
    try:
        lres = lib_binop(op, lx, ly)
        lerr = None
    except Exception as e:  # noqa
        lres, lerr = None, e
    if snapshot(lx) != sx or snapshot(ly) != sy:
        report(clause + '/operands-unchanged', f'{ctx}: an operand was modified')
    if merr is not None:
        if lerr is None:
            report(clause + '/length-mismatch-ValueError', f'{ctx}: no error, got {lres!r}')
        elif not isinstance(lerr, ValueError):
            report(clause + '/length-mismatch-ValueError', f'{ctx}: raised {type(lerr).__name__}: {lerr}')
        return None
    if lerr is not None:
        report(clause + '/raises', f'{ctx}: raised {type(lerr).__name__}: {lerr}')
        return None
    if not check_contract(clause + '/contract', lres, kind, mres.npol, mres.N, ctx):
        return None
    for a in arrays_of(lres):
        for b in arrays_of(lx) + arrays_of(ly):
            if np.shares_memory(a, b):
                report(clause + '/no-shared-memory', f'{ctx}: result shares memory with an operand')
    if op in '+-':
        check_value(clause + '/value', lres, mres, ctx)
        tot = lres.signal if lres.noise is None else lres.signal + lres.noise
        ref = mx.total() + my.total() if op == '+' else mx.total() - my.total()
        if not np.allclose(tot, np.broadcast_to(ref, tot.shape), rtol=1e-12, atol=1e-12):
            report(clause + '/total-field', f'{ctx}: total {tot!r} expected {ref!r}')
    else:
        check_value(clause + '/value*', lres, mres, ctx)
    return lres, mres


# ----------------------------------------------------------------------------
# generators
# ----------------------------------------------------------------------------
LENGTHS = [1, 2, 3, 5, 7, 16, 97, 1024]
DTYPES = [np.int64, np.float64, np.complex128]


def rand_arr(rng, shape, dt):
    if dt == np.int64:
        return rng.integers(-9, 10, size=shape).astype(np.int64)
    if dt == np.float64:
        return np.round(rng.normal(size=shape) * 8) / 8  # dyadic: sums are exact
    return (np.round(rng.normal(size=shape) * 8) + 1j * np.round(rng.normal(size=shape) * 8)) / 8


def rand_model(rng, kind, npol, N, dt=None, noise=None):
    dt = dt if dt is not None else DTYPES[rng.integers(3)]
    shape = (N,) if npol == 1 else (2, N)
    s = rand_arr(rng, shape, dt)
    if noise is None:
        noise = rng.random() < 0.5
    n = rand_arr(rng, shape, DTYPES[rng.integers(3)]) if noise else None
    if n is not None:
        t = np.result_type(s, n)
        s, n = s.astype(t), n.astype(t)
    return M(kind, s, n)


def to_string(a):
    """text form the library documents (no exponent; a is dyadic)."""
    def tok(v):
        if np.iscomplexobj(a):
            return f'{v.real!r}{v.imag:+}j'.replace('+-', '-')
        return repr(v.item() if hasattr(v, 'item') else v)
    out = ' '.join(tok(v) for v in a)
    assert not re.match(r'^[0-1,;\s]+$', out), out
    return out


def raw_operand(rng, N, rhs, avoid01=True):
    """a non-object operand (value, label). Strings use values that are not pure 0/1 text."""
    kinds = ['int', 'float', 'complex', 'list', 'tuple', 'str', 'list1', 'strscalar']
    if rhs:
        kinds += ['ndarray', 'npint', 'npfloat', 'npcomplex', 'nd0', 'ndview', 'ndro', 'nd1']
    k = kinds[rng.integers(len(kinds))]
    dt = DTYPES[rng.integers(3)]
    if k == 'int':
        return int(rng.integers(-5, 6)), k
    if k == 'float':
        return float(rng.integers(-20, 21)) / 4, k
    if k == 'complex':
        return complex(int(rng.integers(-5, 6)), int(rng.integers(-5, 6))), k
    if k == 'npint':
        return np.int64(rng.integers(-5, 6)), k
    if k == 'npfloat':
        return np.float64(rng.integers(-20, 21) / 4), k
    if k == 'npcomplex':
        return np.complex128(complex(int(rng.integers(-5, 6)), 2)), k
    if k == 'nd0':
        return np.array(float(rng.integers(-5, 6))), k
    a = rand_arr(rng, (N,), dt)
    if k == 'list':
        return a.tolist(), k
    if k == 'tuple':
        return tuple(a.tolist()), k
    if k == 'list1':
        return [a.tolist()[0]], k
    if k == 'nd1':
        return a[:1].copy(), k
    if k == 'ndarray':
        return a, k
    if k == 'ndview':
        return np.repeat(a, 2)[::2], k
    if k == 'ndro':
        a.setflags(write=False)
        return a, k
    if k == 'strscalar':
        v = float(rng.integers(2, 30)) / 4
        return repr(v), k
    # str
    a = a + (30 if not np.iscomplexobj(a) else 0)  # keep it away from pure 0/1 text (documented special case)
    return to_string(a), k


SLICES = [0, -1, 1, -2, np.int64(0), np.int64(-1), slice(None), slice(1, None), slice(None, -1), slice(None, 1),
          slice(None, None, 2), slice(1, None, 2), slice(None, None, -1), slice(None, None, 3), slice(-3, None),
          slice(-1, None), slice(0, 1), slice(None, None, -2), slice(2, 5), slice(-2, -1), slice(1, 1), slice(5, 2),
          slice(None, 0), slice(None, -0)]


# ----------------------------------------------------------------------------
# 1. constructors
# ----------------------------------------------------------------------------
def test_constructors():
    rng = np.random.default_rng(1)
    c = 'constructor'
    for N, dt, noise in itertools.product(LENGTHS, DTYPES, [False, True]):
        for kind, npol in [('E', 1), ('O', 1), ('O', 2)]:
            m = rand_model(rng, kind, npol, N, dt, noise)
            cls = E if kind == 'E' else O
            forms = {}
            conv = {
                'ndarray': lambda a: a.copy(),
                'list': lambda a: a.tolist(),
                'tuple': lambda a: tuple(map(tuple, a.tolist())) if a.ndim == 2 else tuple(a.tolist()),
                'fortran': lambda a: np.asfortranarray(a),
                'readonly': lambda a: (lambda b: (b.setflags(write=False), b)[1])(a.copy()),
                'view': lambda a: np.repeat(a, 2, axis=-1)[..., ::2],
            }
            if N <= 97:
                conv['str'] = lambda a: to_string(a + 30) if a.ndim == 1 else '; '.join(to_string(r + 30) for r in a)
            for name, f in conv.items():
                src_s = f(m.s)
                src_n = None if m.n is None else f(m.n)
                exp = m if name != 'str' else M(kind, m.s + 30, None if m.n is None else m.n + 30)
                snap = (snapshot(src_s), snapshot(src_n))
                try:
                    obj = cls(src_s) if src_n is None else cls(src_s, src_n)
                    obj_kw = cls(signal=src_s, noise=src_n)
                except Exception as e:
                    report(c + '/raises', f'{m.desc()} from {name}: {type(e).__name__}: {e}')
                    continue
                ctx = f'{m.desc()} from {name}'
                if check_contract(c + '/contract', obj, kind, npol, N, ctx):
                    check_value(c + '/value', obj, exp, ctx)
                    check_value(c + '/kw-vs-positional', obj_kw, exp, ctx)
                if (snapshot(src_s), snapshot(src_n)) != snap:
                    report(c + '/operands-unchanged', ctx)
                for a in arrays_of(obj):
                    for b in [src_s, src_n]:
                        if isinstance(b, np.ndarray) and np.shares_memory(a, b):
                            report(c + '/no-shared-memory', ctx)
            # n_pol forms for optical
            if kind == 'O':
                row = m.s if npol == 1 else m.s[0]
                nrow = None if m.n is None else (m.n if npol == 1 else m.n[0])
                o2 = O(row, nrow, n_pol=2)
                if check_contract(c + '/n_pol=2 from 1-D', o2, 'O', 2, N, m.desc()):
                    check_value(c + '/n_pol=2 from 1-D', o2, M('O', np.array([row, row]), None if nrow is None else np.array([nrow, nrow])), m.desc())
                    if np.shares_memory(o2.signal[0], o2.signal[1]):
                        report(c + '/n_pol=2 rows alias', m.desc())
                o1 = O(m.s, m.n, n_pol=1)
                if check_contract(c + '/n_pol=1', o1, 'O', 1, N, m.desc()):
                    check_value(c + '/n_pol=1', o1, M('O', row, nrow), m.desc())
                o1d = O(row, nrow)  # documented default n_pol = 1
                check_contract(c + '/n_pol default', o1d, 'O', 1, N, m.desc())
                if npol == 2:
                    od = O(m.s, m.n)
                    ok_ = O(m.s, m.n, n_pol=2)
                    check_value(c + '/n_pol default vs 2', od, M('O', ok_.signal, ok_.noise), m.desc())
        # scalar constructor forms
    for v in [3, -2.5, 1 + 2j, np.int64(4), np.float64(0.5), np.complex128(1j), True, '5', '2.5', '1+2j', np.array(7.0)]:
        for nv in [None, 0, 0.25, 1j, '3', np.float64(2)]:
            for kind, npol in [('E', 1), ('O', 1), ('O', 2)]:
                try:
                    if kind == 'E':
                        o = E(v) if nv is None else E(v, nv)
                    else:
                        o = O(v, n_pol=npol) if nv is None else O(v, nv, n_pol=npol)
                except Exception as e:
                    report(c + '/scalar raises', f'{kind}{npol}({v!r}, {nv!r}): {type(e).__name__}: {e}')
                    continue
                ctx = f'{kind}{npol}({v!r},{nv!r})'
                if check_contract(c + '/scalar', o, kind, npol, 1, ctx):
                    ms = coerce_model(kind, v).s
                    mn = None if nv is None else coerce_model(kind, nv).s
                    if npol == 2:
                        ms = np.array([ms, ms]); mn = None if mn is None else np.array([mn, mn])
                    check_value(c + '/scalar value', o, M(kind, ms, mn), ctx)
                    # scalar vs the same value in a length-1 array
                    arr = coerce_model(kind, v).s
                    narr = None if nv is None else coerce_model(kind, nv).s
                    try:
                        o_arr = (E(arr, narr) if kind == 'E' else O(arr, narr, n_pol=npol))
                        check_value(c + '/scalar vs length-1 array', o, M(kind, o_arr.signal, o_arr.noise), ctx)
                    except Exception as e:
                        report(c + '/scalar vs length-1 array', f'{ctx}: {type(e).__name__}: {e}')


# ----------------------------------------------------------------------------
# 2. slices and copy
# ----------------------------------------------------------------------------
def test_slices():
    rng = np.random.default_rng(2)
    for N, dt, noise in itertools.product(LENGTHS, DTYPES, [False, True]):
        for kind, npol in [('E', 1), ('O', 1), ('O', 2)]:
            m = rand_model(rng, kind, npol, N, dt, noise)
            x = build(m)
            snap = snapshot(x)
            # copy
            cp = x.copy()
            ctx = f'{m.desc()}.copy()'
            if check_contract('copy/contract', cp, kind, npol, N, ctx):
                check_value('copy/value', cp, m, ctx)
                for a in arrays_of(cp):
                    for b in arrays_of(x):
                        if np.shares_memory(a, b):
                            report('copy/no-shared-memory', ctx)
                cp.signal[...] = 99
                if cp.noise is not None:
                    cp.noise[...] = 77
                if snapshot(x) != snap:
                    report('copy/operands-unchanged', ctx)
            for k in SLICES + [slice(N - 1, None), slice(None, N), N - 1, -N, slice(-N, None), slice(None, -N + 1 or None)]:
                ctx = f'{m.desc()}[{k!r}]'
                try:
                    mr = model_slice(m, k); merr = None
                except (ValueError, IndexError) as e:
                    mr, merr = None, e
                try:
                    r = x[k]; lerr = None
                except Exception as e:
                    r, lerr = None, e
                if snapshot(x) != snap:
                    report('slice/operands-unchanged', ctx)
                if merr is not None:
                    if lerr is None:
                        report('slice/empty-or-out-of-range must not yield an object', f'{ctx}: got {r!r}')
                    elif not isinstance(lerr, (ValueError, IndexError)):
                        report('slice/error type', f'{ctx}: {type(lerr).__name__}')
                    continue
                if lerr is not None:
                    report('slice/raises', f'{ctx}: {type(lerr).__name__}: {lerr}')
                    continue
                if check_contract('slice/contract', r, kind, npol, mr.N, ctx):
                    check_value('slice/value', r, mr, ctx)
                    for a in arrays_of(r):
                        for b in arrays_of(x):
                            if np.shares_memory(a, b):
                                report('slice/no-shared-memory', ctx)
                    # composition of slices: x[k][j] == model
                    for j in [0, -1, slice(None, None, -1), slice(1, None)]:
                        try:
                            mj = model_slice(mr, j)
                        except (ValueError, IndexError):
                            continue
                        try:
                            rj = r[j]
                            if check_contract('slice/composition', rj, kind, npol, mj.N, ctx + f'[{j!r}]'):
                                check_value('slice/composition', rj, mj, ctx + f'[{j!r}]')
                        except Exception as e:
                            report('slice/composition', f'{ctx}[{j!r}]: {type(e).__name__}: {e}')
            # two-pol slice == the two one-pol slices
            if npol == 2:
                for k in SLICES[:18]:
                    try:
                        r = x[k]
                    except Exception:
                        continue
                    for p in range(2):
                        xp = O(m.s[p], None if m.n is None else m.n[p])
                        rp = xp[k]
                        if not same(r.signal[p], rp.signal) or (r.noise is not None and not same(r.noise[p], rp.noise)):
                            report('slice/two-pol vs one-pol', f'{m.desc()}[{k!r}] row {p}')


# ----------------------------------------------------------------------------
# 3. binary operators: all operand kinds, both sides
# ----------------------------------------------------------------------------
def test_binops():
    rng = np.random.default_rng(3)
    for N, dt in itertools.product(LENGTHS, DTYPES):
        for kind, npol in [('E', 1), ('O', 1), ('O', 2)]:
            for na, nb in itertools.product([False, True], repeat=2):
                a = rand_model(rng, kind, npol, N, dt, na)
                for lenb in {N, 1}:
                    b = rand_model(rng, kind, npol, lenb, None, nb)
                    for op in '+-*':
                        xa, xb = build(a), build(b)
                        do_binop(f'obj{op}obj', op, xa, a, xb, b, f'{a.desc()} {op} {b.desc()}')
                        # length-1 operand on the left ("length-1 operands broadcast")
                        do_binop(f'obj{op}obj', op, xb, b, xa, a, f'{b.desc()} {op} {a.desc()}')
                # mismatching lengths
                for lenb in {N + 1, 2 * N, max(2, N - 1)} - {N, 1}:
                    b = rand_model(rng, kind, npol, lenb, None, nb)
                    for op in '+-*':
                        do_binop(f'obj{op}obj', op, build(a), a, build(b), b, f'{a.desc()} {op} {b.desc()}')
            # raw operands
            for noise in [False, True]:
                a = rand_model(rng, kind, npol, N, dt, noise)
                xa = build(a)
                for rep in range(40):
                    for rhs in [True, False]:
                        v, label = raw_operand(rng, N, rhs)
                        mv = coerce_model(kind, v)
                        for op in '+-*':
                            if rhs:
                                do_binop(f'obj{op}raw', op, xa, a, v, mv, f'{a.desc()} {op} {label}:{v!r}'[:200])
                            else:
                                # reflected form: model is (v op a) with the object's class
                                mv.kind = kind
                                do_binop(f'raw{op}obj', op, v, mv, xa, a, f'{label}:{v!r} {op} {a.desc()}'[:200], reflected=True)
                # wrong-length raw operands must be rejected with ValueError
                for bad in [list(range(2, N + 3)), tuple(range(2, N + 3)), np.arange(2., N + 3), to_string(np.arange(2, N + 3) + 20)]:
                    for op in '+-*':
                        mv = coerce_model(kind, bad)
                        do_binop(f'obj{op}raw-bad', op, xa, a, bad, mv, f'{a.desc()} {op} len{N + 1}:{type(bad).__name__}')
                        if not isinstance(bad, np.ndarray):
                            do_binop(f'raw{op}obj-bad', op, bad, mv, xa, a, f'len{N + 1}:{type(bad).__name__} {op} {a.desc()}', reflected=True)


# ----------------------------------------------------------------------------
# 4. relations
# ----------------------------------------------------------------------------
def test_relations():
    rng = np.random.default_rng(4)
    for N, dt in itertools.product(LENGTHS[:7], DTYPES):
        for kind, npol in [('E', 1), ('O', 1), ('O', 2)]:
            for na, nb in itertools.product([False, True], repeat=2):
                a = rand_model(rng, kind, npol, N, dt, na)
                b = rand_model(rng, kind, npol, N, None, nb)
                xa, xb = build(a), build(b)
                ctx = f'{a.desc()},{b.desc()}'
                # commutation of +
                r1, r2 = xa + xb, xb + xa
                if not (same(r1.signal, r2.signal) and ((r1.noise is None and r2.noise is None) or same(r1.noise, r2.noise))):
                    report('relation/a+b == b+a', ctx)
                # a-b == -(b-a) on totals
                d1, d2 = xa - xb, xb - xa
                t1 = d1.signal + (0 if d1.noise is None else d1.noise)
                t2 = d2.signal + (0 if d2.noise is None else d2.noise)
                if not same(t1, -t2):
                    report('relation/a-b == -(b-a)', ctx)
                # noise = 0 vs no noise: same total, same signal
                cls = E if kind == 'E' else O
                z = cls(a.s, np.zeros_like(a.s))
                p = cls(a.s)
                for op in '+-':
                    u, v = lib_binop(op, z, xb), lib_binop(op, p, xb)
                    tu = u.signal + (0 if u.noise is None else u.noise)
                    tv = v.signal + (0 if v.noise is None else v.noise)
                    if not same(tu, tv) or not same(u.signal, v.signal):
                        report('relation/noise=0 vs none', ctx + op)
                # scalar vs the same value in a length-1 array / list / object
                for sc in [3, -0.75, 2 - 1j]:
                    for op in '+-*':
                        ref = lib_binop(op, xa, sc)
                        for alt, lab in [([sc], 'list1'), ((sc,), 'tuple1'), (np.array([sc]), 'nd1'), (np.array(sc), 'nd0'), (cls(sc), 'obj1'), (cls([sc]), 'obj[1]')]:
                            r = lib_binop(op, xa, alt)
                            if not (same(r.signal, ref.signal) and ((r.noise is None) == (ref.noise is None)) and (r.noise is None or same(r.noise, ref.noise))):
                                report('relation/scalar vs length-1', f'{a.desc()} {op} {lab}')
                            if r.signal.dtype != ref.signal.dtype:
                                report('relation/scalar vs length-1 dtype', f'{a.desc()} {op} {lab}: {r.signal.dtype} vs {ref.signal.dtype}')
                        # reflected
                        if op in '+*':
                            r = lib_binop(op, sc, xa)
                            if not same(r.signal, ref.signal):
                                report('relation/reflected == direct', f'{sc} {op} {a.desc()}')
                        else:
                            r = sc - xa
                            tr = r.signal + (0 if r.noise is None else r.noise)
                            tref = ref.signal + (0 if ref.noise is None else ref.noise)
                            if not same(tr, -tref):
                                report('relation/sc-x == -(x-sc)', f'{sc} - {a.desc()}')
                # container type invariance
                raw = rand_arr(rng, (N,), DTYPES[rng.integers(3)])
                for op in '+-*':
                    ref = lib_binop(op, xa, raw)
                    for alt, lab in [(raw.tolist(), 'list'), (tuple(raw.tolist()), 'tuple'), (np.asfortranarray(raw), 'F'), (raw[::-1][::-1], 'view'), (cls(raw), 'obj')]:
                        r = lib_binop(op, xa, alt)
                        if not same(r.signal, ref.signal) or r.signal.dtype != ref.signal.dtype:
                            report('relation/container invariance', f'{a.desc()} {op} {lab}')
                        if lab in ('list', 'tuple'):
                            r2 = lib_binop(op, alt, xa)
                            mm = model_binop(op, coerce_model(kind, alt), a, reflected=True)
                            if not same(r2.signal, mm.s):
                                report('relation/container invariance (left)', f'{lab} {op} {a.desc()}')
                # two-pol op == two one-pol ops
                if npol == 2:
                    for op in '+-*':
                        r = lib_binop(op, xa, xb)
                        for p in range(2):
                            ap = O(a.s[p], None if a.n is None else a.n[p])
                            bp = O(b.s[p], None if b.n is None else b.n[p])
                            rp = lib_binop(op, ap, bp)
                            if not same(r.signal[p], rp.signal) or ((r.noise is None) != (rp.noise is None)) or (r.noise is not None and not same(r.noise[p], rp.noise)):
                                report('relation/two-pol vs one-pol', f'{ctx} {op} row {p}')
                # slicing commutes with + and -
                for k in [slice(None, None, 2), slice(1, None), -1, 0, slice(None, None, -1)]:
                    try:
                        lhs = (xa + xb)[k]; rhs_ = xa[k] + xb[k]
                    except Exception as e:
                        if N > 1 or isinstance(k, int) or k.start is None:
                            report('relation/slice commutes with +', f'{ctx} [{k!r}] {type(e).__name__}: {e}')
                        continue
                    if not same(lhs.signal, rhs_.signal) or ((lhs.noise is None) != (rhs_.noise is None)) or (lhs.noise is not None and not same(lhs.noise, rhs_.noise)):
                        report('relation/slice commutes with +', f'{ctx} [{k!r}]')
                # domain transforms
                for dom in ['w', 'f', 't']:
                    for shift in [False, True]:
                        snap = snapshot(xa)
                        try:
                            y = xa(dom, shift) if shift else xa(dom)
                            y_kw = xa(domain=dom, shift=shift)
                        except Exception as e:
                            report('transform/raises', f'{a.desc()}({dom!r},{shift}): {type(e).__name__}: {e}')
                            continue
                        c2 = f'{a.desc()}({dom!r},{shift})'
                        if snapshot(xa) != snap:
                            report('transform/operands-unchanged', c2)
                        if check_contract('transform/contract', y, kind, npol, N, c2):
                            for aa in arrays_of(y):
                                for bb in arrays_of(xa):
                                    if np.shares_memory(aa, bb):
                                        report('transform/no-shared-memory', c2)
                            if (y.noise is None) != (a.n is None):
                                report('transform/noise presence', c2)
                            if not same(y.signal, y_kw.signal):
                                report('transform/kw vs positional', c2)
                            # linearity on rows: two-pol == two one-pol transforms
                            if npol == 2:
                                for p in range(2):
                                    yp = O(a.s[p], None if a.n is None else a.n[p])(dom, shift)
                                    if not np.allclose(y.signal[p], yp.signal, rtol=1e-12, atol=1e-12):
                                        report('transform/two-pol vs one-pol', c2)
                # unshifted round trip is the documented fft/ifft pair
                y = xa('w')('t')
                if check_contract('transform/round trip contract', y, kind, npol, N, a.desc()):
                    if not np.allclose(y.signal, a.s, atol=1e-9) or (a.n is not None and not np.allclose(y.noise, a.n, atol=1e-9)):
                        report('transform/round trip', a.desc())


# ----------------------------------------------------------------------------
# 5. expression trees of depth <= 6
# ----------------------------------------------------------------------------
def test_trees():
    rng = np.random.default_rng(5)

    def leaf(kind, npol, N):
        r = rng.random()
        L = N if r < 0.8 else 1
        m = rand_model(rng, kind, npol, L)
        return build(m), m

    def gen(kind, npol, N, depth):
        """returns (lib, model, text) or None when an expected error ended the branch"""
        if depth == 0 or rng.random() < 0.15:
            x, m = leaf(kind, npol, N)
            return x, m, m.desc()
        r = rng.random()
        sub = gen(kind, npol, N, depth - 1)
        if sub is None:
            return None
        x, m, txt = sub
        if r < 0.12:
            cp = x.copy()
            if check_contract('tree/copy', cp, kind, m.npol, m.N, txt):
                check_value('tree/copy', cp, m, txt)
            return cp, m, f'({txt}).copy()'
        if r < 0.30:
            k = SLICES[rng.integers(len(SLICES))]
            try:
                mk = model_slice(m, k)
            except (ValueError, IndexError):
                try:
                    y = x[k]
                    report('tree/slice must fail', f'({txt})[{k!r}] gave {y!r}')
                except (ValueError, IndexError):
                    pass
                except Exception as e:
                    report('tree/slice error type', f'({txt})[{k!r}] {type(e).__name__}')
                return None
            try:
                y = x[k]
            except Exception as e:
                report('tree/slice raises', f'({txt})[{k!r}] {type(e).__name__}: {e}')
                return None
            if not check_contract('tree/slice', y, kind, mk.npol, mk.N, f'({txt})[{k!r}]'):
                return None
            check_value('tree/slice', y, mk, f'({txt})[{k!r}]')
            return y, mk, f'({txt})[{k!r}]'
        op = '+-*'[rng.integers(3)]
        if rng.random() < 0.5:
            sub2 = gen(kind, npol, N, depth - 1)
            if sub2 is None:
                return None
            y, my, ty = sub2
        else:
            rhs = rng.random() < 0.5
            v, lab = raw_operand(rng, m.N if rng.random() < 0.9 else m.N + 1, rhs)
            y, my, ty = v, coerce_model(kind, v), lab
            if not rhs:
                res = do_binop('tree', op, y, my, x, m, f'{ty} {op} ({txt})'[:300], reflected=True)
                return None if res is None else (res[0], res[1], f'({ty} {op} {txt})')
        res = do_binop('tree', op, x, m, y, my, f'({txt}) {op} ({ty})'[:300])
        return None if res is None else (res[0], res[1], f'({txt} {op} {ty})')

    for it in range(2500):
        kind, npol = [('E', 1), ('O', 1), ('O', 2)][it % 3]
        N = [1, 2, 3, 5, 7, 16, 97][rng.integers(7)]
        gen(kind, npol, N, int(rng.integers(1, 7)))


# ----------------------------------------------------------------------------
# 6. mixed layouts of the same class (one- and two-polarisation operands)
# ----------------------------------------------------------------------------
def test_mixed_pol():
    rng = np.random.default_rng(6)
    for N in [1, 2, 3, 7]:
        for n1, n2 in itertools.product([False, True], repeat=2):
            a = rand_model(rng, 'O', 1, N, np.float64, n1)
            b = rand_model(rng, 'O', 2, N, np.float64, n2)
            for op in '+-*':
                for (x, mx, y, my) in [(build(a), a, build(b), b), (build(b), b, build(a), a)]:
                    do_binop(f'mixed-pol obj{op}obj', op, x, mx, y, my, f'{mx.desc()} {op} {my.desc()}')


def test_two_row_raw():
    rng = np.random.default_rng(8)
    for N in [1, 2, 3, 7]:
        for dt, noise in itertools.product(DTYPES, [False, True]):
            a = rand_model(rng, 'O', 2, N, dt, noise)
            xa = build(a)
            for L in {N, 1}:
                r = rand_arr(rng, (2, L), DTYPES[rng.integers(3)])
                forms = [(r.tolist(), 'list2'), (tuple(map(tuple, r.tolist())), 'tuple2'), (r, 'nd2'), (np.asfortranarray(r), 'nd2F'),
                         ([r[0], r[1]], 'list of arrays'), ((r[0].tolist(), r[1]), 'tuple mixed')]
                if not np.iscomplexobj(r) or True:
                    forms.append(('; '.join(to_string(row + 30) for row in r), 'str2'))
                for v, lab in forms:
                    mv = M('O', r + 30) if lab == 'str2' else M('O', r)
                    for op in '+-*':
                        do_binop(f'obj{op}raw2', op, xa, a, v, mv, f'{a.desc()} {op} {lab}(L={L})')
                        if not isinstance(v, np.ndarray):
                            do_binop(f'raw2{op}obj', op, v, mv, xa, a, f'{lab}(L={L}) {op} {a.desc()}', reflected=True)


def test_constructor_mixed():
    rng = np.random.default_rng(9)
    conv = [lambda a: a, lambda a: a.tolist(), lambda a: tuple(a.tolist()) if a.ndim == 1 else tuple(map(tuple, a.tolist())),
            lambda a: to_string(a + 30) if a.ndim == 1 else '; '.join(to_string(r + 30) for r in a)]
    for N in [1, 2, 3, 7]:
        for kind, npol in [('E', 1), ('O', 1), ('O', 2)]:
            for ds, dn in itertools.product(DTYPES, repeat=2):
                shape = (N,) if npol == 1 else (2, N)
                s, n = rand_arr(rng, shape, ds), rand_arr(rng, shape, dn)
                for i, j in itertools.product(range(4), repeat=2):
                    es = s + 30 if i == 3 else s
                    en = n + 30 if j == 3 else n
                    t = np.result_type(es, en)
                    cls = E if kind == 'E' else O
                    ctx = f'{kind}{npol} N={N} signal form {i} {ds.__name__}, noise form {j} {dn.__name__}'
                    try:
                        o = cls(conv[i](s), conv[j](n))
                    except Exception as e:
                        report('constructor-mixed/raises', f'{ctx}: {type(e).__name__}: {e}')
                        continue
                    if check_contract('constructor-mixed/contract', o, kind, npol, N, ctx):
                        check_value('constructor-mixed/value', o, M(kind, es.astype(t), en.astype(t)), ctx)
                        if o.signal.dtype.kind != t.kind:
                            report('constructor-mixed/dtype kind', f'{ctx}: {o.signal.dtype} expected kind {t.kind}')


def test_large():
    rng = np.random.default_rng(10)
    for N in [100003, 2 ** 17]:
        for kind, npol in [('E', 1), ('O', 1), ('O', 2)]:
            for dt in DTYPES:
                a = rand_model(rng, kind, npol, N, dt, True)
                b = rand_model(rng, kind, npol, N, None, False)
                xa, xb = build(a), build(b)
                for op in '+-*':
                    do_binop(f'large obj{op}obj', op, xa, a, xb, b, f'{a.desc()} {op} {b.desc()}')
                    do_binop(f'large obj{op}obj', op, xb, b, xa, a, f'{b.desc()} {op} {a.desc()}')
                    do_binop(f'large obj{op}raw', op, xa, a, 2.5, coerce_model(kind, 2.5), f'{a.desc()} {op} 2.5')
                    do_binop(f'large raw{op}obj', op, 3, coerce_model(kind, 3), xa, a, f'3 {op} {a.desc()}', reflected=True)
                for k in [0, -1, N - 1, slice(None, None, 2), slice(N - 1, None), slice(None, None, -1), slice(1, N, 1001)]:
                    r, mr = xa[k], model_slice(a, k)
                    if check_contract('large slice', r, kind, npol, mr.N, f'{a.desc()}[{k!r}]'):
                        check_value('large slice', r, mr, f'{a.desc()}[{k!r}]')
                y = xa('w')
                check_contract('large transform', y, kind, npol, N, a.desc())
                cp = xa.copy()
                if check_contract('large copy', cp, kind, npol, N, a.desc()):
                    check_value('large copy', cp, a, a.desc())


def test_len1_left():
    """'scalars and length-1 operands broadcast': a length-1 object on the LEFT of a longer operand."""
    rng = np.random.default_rng(7)
    for kind, npol in [('E', 1), ('O', 1), ('O', 2)]:
        for N in [2, 3, 7]:
            a = rand_model(rng, kind, npol, 1, np.float64, False)
            b = rand_model(rng, kind, npol, N, np.float64, False)
            for op in '+-*':
                for y, my, lab in [(build(b), b, 'obj'), (b.s.tolist(), coerce_model(kind, b.s.tolist()), 'list')]:
                    if npol == 2 and lab == 'list':
                        continue
                    try:
                        mres = model_binop(op, a, my, strict_statement=True)
                        r = lib_binop(op, build(a), y)
                        if check_contract('length-1 LEFT operand broadcasts', r, kind, npol, N, f'{a.desc()} {op} {lab}(N={N})'):
                            check_value('length-1 LEFT operand broadcasts', r, mres, f'{a.desc()} {op} {lab}(N={N})')
                    except Exception as e:
                        report('length-1 LEFT operand broadcasts', f'{a.desc()} {op} {lab}(N={N}): {type(e).__name__}: {e}')


if __name__ == '__main__':
    for f in [test_constructors, test_slices, test_binops, test_relations, test_trees, test_two_row_raw, test_constructor_mixed, test_large, test_mixed_pol, test_len1_left]:
        try:
            f()
        except Exception as e:
            import traceback
            traceback.print_exc()
            report('audit-crash', f'{f.__name__}: {type(e).__name__}: {e}')
    if VIOL:
        print(f'{len(VIOL)} violating (clause, input) pairs')
        sys.exit(1)
    print('PASS')
    sys.exit(0)
