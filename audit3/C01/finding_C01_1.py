# C01: "+ ... returns a new object of the same class ... total field of the result equals the sum of the
# operands' total fields ... noise present on neither/EITHER/both operands ... one- and two-polarisation layouts"
# A one-polarisation optical_signal WITH noise on the left of a two-polarisation operand without noise raises,
# although the same pair in the other order, and the same left operand without noise (or noise=None vs noise=0), work.
import sys
del sys.path[0]
import numpy as np
from opticomlib.typing import optical_signal as O
a0 = O([1., 2., 3.])                       # one polarisation, no noise
a  = O([1., 2., 3.], [0., 0., 0.])         # the same field, noise = 0
b  = O([[1., 1., 1.], [2., 2., 2.]])       # two polarisations, no noise
ref = (b + a)                              # works: [[2,3,4],[3,4,5]] with noise
ok0 = (a0 + b)                             # works: [[2,3,4],[3,4,5]]
print('b + a      ->', ref.signal.tolist(), 'noise', ref.noise.tolist())
print('a(no noise) + b ->', ok0.signal.tolist())
try:
    r = a + b
    tot = r.signal + r.noise
    assert np.array_equal(tot, ref.signal + ref.noise), tot
    print('a + b ->', tot.tolist()); sys.exit(0)
except ValueError as e:
    print('expected a + b == b + a == [[2,3,4],[3,4,5]] (noise carried); got ValueError:', e)
    sys.exit(1)
