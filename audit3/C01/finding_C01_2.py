# C01: "scalars and length-1 operands broadcast" / "for all lengths >= 1 (1, 2, ...)"
# A length-1 object broadcasts only when it is the RIGHT operand: a + b works, b + a raises ValueError.
import sys
del sys.path[0]
import numpy as np
from opticomlib.typing import electrical_signal as E
a = E([1., 2., 3.])
b = E([10.], [0.5])                 # length-1 operand that carries noise
right = a + b                       # works: signal [11,12,13], noise [0.5,0.5,0.5]
print('a + b ->', right.signal.tolist(), right.noise.tolist())
bad = 0
for name, f in [('b + a', lambda: b + a), ('b - a', lambda: b - a), ('b * a', lambda: b * a),
                ('b + [1,2,3]', lambda: b + [1, 2, 3]), ('[1,2,3] + b', lambda: [1, 2, 3] + b)]:
    try:
        r = f(); print(name, '->', r.signal.tolist(), None if r.noise is None else r.noise.tolist())
    except ValueError as e:
        bad += 1; print(name, ': expected the length-1 operand to broadcast to length 3 (as in a + b); got ValueError:', e)
sys.exit(1 if bad else 0)
