# C01: "every constructor form ... returns a new object ... that satisfies the same contract"
# relation: a scalar vs the same value in a length-1 container / its text form.
# signal and noise each accept a scalar, a length-1 list or a one-number string, but not a mixture of them.
import sys
del sys.path[0]
from opticomlib.typing import electrical_signal as E, optical_signal as O
print('E(3, 0.5)     ->', E(3, 0.5).signal, E(3, 0.5).noise)        # works
print("E('3', '0.5') ->", E('3', '0.5').signal, E('3', '0.5').noise)  # works
print('E([3], [0.5]) ->', E([3], [0.5]).signal, E([3], [0.5]).noise)  # works
bad = 0
for name, f in [("E(3, '0.5')", lambda: E(3, '0.5')), ("E('3', 0.5)", lambda: E('3', 0.5)),
                ('E(3, [0.5])', lambda: E(3, [0.5])), ('E([3], 0.5)', lambda: E([3], 0.5)),
                ("O(3, '0.5', n_pol=2)", lambda: O(3, '0.5', n_pol=2))]:
    try:
        r = f(); print(name, '->', r.signal, r.noise)
    except ValueError as e:
        bad += 1; print(name, ': expected signal [3] with noise [0.5]; got ValueError:', e)
sys.exit(1 if bad else 0)
