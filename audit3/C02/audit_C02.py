"""Audit of property C02 (time/frequency transforms on the sampling-rate FFT grid) - relations only."""
import sys, os
if sys.path and os.path.abspath(sys.path[0] or '.') == os.path.dirname(os.path.abspath(__file__)):
    del sys.path[0]
import warnings, itertools
warnings.simplefilter('ignore')
import numpy as np
from numpy.fft import fft, ifft, fftfreq, fftshift, ifftshift
from opticomlib.typing import electrical_signal, optical_signal, gv

PI = np.pi
violations = []
nchecks = [0]


def bad(clause, inp, msg):
    violations.append((clause, inp, msg))
    if len(violations) <= 200:
        print(f'VIOLATION [{clause}] input={inp}: {msg}')


def check(cond, clause, inp, msg=''):
    nchecks[0] += 1
    if not cond:
        bad(clause, inp, msg() if callable(msg) else msg)


def guard(clause, inp, fn):
    try:
        return fn()
    except Exception as e:  # loud failures are violations too
        nchecks[0] += 1
        bad(clause, inp, f'raised {type(e).__name__}: {e}')
        return None


def same(a, b):
    """bit-exact equality (shape, values) - nan-free inputs"""
    a = np.asarray(a); b = np.asarray(b)
    return a.shape == b.shape and np.array_equal(a, b)


def close(a, b, tol, scale=None):
    a = np.asarray(a); b = np.asarray(b)
    if a.shape != b.shape:
        return False
    if scale is None:
        scale = max(1e-300, float(np.max(np.abs(b))) if b.size else 1.0)
    return bool(np.all(np.abs(a - b) <= tol * scale))


LENGTHS = [1, 2, 3, 4, 5, 6, 7, 8, 9, 11, 13, 15, 16, 17, 31, 32, 33, 63, 64, 97, 100, 127, 128, 255, 256, 257, 1000, 1021, 1024]
BIG_LENGTHS = [4096, 4099, 65536, 65537]
DTYPES = [np.float64, np.complex128, np.int64, np.float32, np.complex64, np.int32]
EPS = {np.float64: 2.3e-16, np.complex128: 2.3e-16, np.int64: 2.3e-16, np.int32: 2.3e-16,
       np.float32: 2.3e-16, np.complex64: 2.3e-16}  # numpy transforms in double whatever the input


def draw(rng, shape, dtype):
    if np.issubdtype(dtype, np.integer):
        return rng.integers(-1000, 1000, size=shape).astype(dtype)
    if np.issubdtype(dtype, np.complexfloating):
        return (rng.normal(size=shape) + 1j * rng.normal(size=shape)).astype(dtype)
    return rng.normal(size=shape).astype(dtype)


def objects(rng, N, dtype):
    """yield (tag, object, signal array, noise array or None) over class / polarisations / noise."""
    for cls, npol in (('E', 1), ('O', 1), ('O', 2)):
        for noisy in (False, True):
            shape = (N,) if npol == 1 else (2, N)
            s = draw(rng, shape, dtype)
            n = draw(rng, shape, dtype) if noisy else None
            if cls == 'E':
                x = electrical_signal(s, n)
            else:
                x = optical_signal(s, n, n_pol=npol)
            yield f'{cls}{npol}{"n" if noisy else ""}/N={N}/{np.dtype(dtype).name}', x, s, n


def rows(a):
    return a if a.ndim == 2 else a[None, :]


# ---------------------------------------------------------------------------------------------
# Clause A/B/C/D/E: round trip, 'f' == 'w', Parseval, shift is a pure reordering, structure kept
# ---------------------------------------------------------------------------------------------
def transform_clauses(tag, x, s, n, tol, ptol=None):
    ptol = tol if ptol is None else ptol  # power() of single-precision samples is a single-precision number
    N = s.shape[-1]
    s0 = x.signal.copy(); n0 = None if x.noise is None else x.noise.copy()
    X = guard('A.forward', tag, lambda: x('w'))
    if X is None:
        return
    # structure
    check(type(X) is type(x), 'E.class', tag, lambda: f'{type(x).__name__} -> {type(X).__name__}')
    check(X.signal.shape == x.signal.shape, 'E.shape', tag, lambda: f'{x.signal.shape} -> {X.signal.shape}')
    check((X.noise is None) == (x.noise is None), 'E.noise-presence', tag, 'noise presence changed by the transform')
    if hasattr(x, 'n_pol'):
        check(X.n_pol == x.n_pol, 'E.n_pol', tag, lambda: f'{x.n_pol} -> {X.n_pol}')
    check(X.len() == N, 'E.len', tag, lambda: f'len {N} -> {X.len()}')
    # the input is untouched
    check(same(x.signal, s0) and (n0 is None or same(x.noise, n0)), 'E.input-untouched', tag, 'x changed by x("w")')
    # forward = DFT by definition, row-wise, for signal and noise alike (direct O(N^2) sum for small N)
    if N <= 64:
        k = np.arange(N)
        W = np.exp(-2j * PI * np.outer(k, k) / N)
        for name, arr, out in (('signal', s, X.signal), ('noise', n, X.noise)):
            if arr is None:
                continue
            ref = rows(arr.astype(complex)) @ W.T
            check(close(rows(out), ref, 50 * tol * max(1, N)), 'A.dft-definition', tag + '/' + name,
                  lambda: f'max dev {np.max(np.abs(rows(out) - ref)):.3e}')
    # 'f' is the same transform as 'w'
    F = guard('B.f', tag, lambda: x('f'))
    if F is not None:
        check(same(F.signal, X.signal) and (n is None or same(F.noise, X.noise)), 'B.f==w', tag, "x('f') differs from x('w')")
    # round trips both ways
    for first, second, cl in (('w', 't', "A.x('w')('t')"), ('t', 'w', "A.x('t')('w')"), ('f', 't', "A.x('f')('t')"), ('t', 'f', "A.x('t')('f')")):
        y = guard(cl, tag, lambda: x(first)(second))
        if y is None:
            continue
        check(close(y.signal, s, 20 * tol * np.log2(N + 1)), cl, tag + '/signal',
              lambda: f'max dev {np.max(np.abs(y.signal - s)):.3e}')
        if n is not None:
            check(y.noise is not None and close(y.noise, n, 20 * tol * np.log2(N + 1)), cl, tag + '/noise',
                  lambda: f'max dev {np.max(np.abs(y.noise - n)):.3e}')
        else:
            check(y.noise is None, cl, tag, 'noise appeared')
        check(type(y) is type(x) and y.signal.shape == x.signal.shape, cl, tag, 'type/shape changed by round trip')
    # Parseval per polarisation, signal, noise and the sum
    for name, arr, out in (('signal', s, X.signal), ('noise', n, X.noise)):
        if arr is None:
            continue
        lhs = np.sum(np.abs(rows(out)) ** 2, axis=-1)
        rhs = N * np.sum(np.abs(rows(arr).astype(complex)) ** 2, axis=-1)
        check(close(lhs, rhs, 50 * tol * np.log2(N + 1), scale=np.max(rhs) + 1e-300), 'C.parseval', tag + '/' + name,
              lambda: f'{lhs} vs {rhs}')
    pX = np.atleast_1d(X.power()); px = np.atleast_1d(x.power())
    check(close(pX, N * px, 50 * ptol * np.log2(N + 1), scale=np.max(N * px) + 1e-300), 'C.parseval-power', tag,
          lambda: f"x('w').power()={pX} vs N*x.power()={N * px}")
    Xt = x('t')
    pXt = np.atleast_1d(Xt.power())
    check(close(pXt * N, px, 50 * ptol * np.log2(N + 1), scale=np.max(px) + 1e-300), 'C.parseval-inverse', tag,
          lambda: f"N*x('t').power()={pXt * N} vs x.power()={px}")
    # shift=True only reorders
    for dom, unshift, reorder in (('w', ifftshift, fftshift), ('f', ifftshift, fftshift), ('t', fftshift, ifftshift)):
        base = x(dom)
        for sh in (True, 1, np.True_):
            Y = guard('D.shift', tag + f'/{dom}/shift={sh!r}', lambda: x(dom, shift=sh))
            if Y is None:
                continue
            ok = same(unshift(Y.signal, axes=-1), base.signal) and same(Y.signal, reorder(base.signal, axes=-1))
            if n is not None:
                ok = ok and same(unshift(Y.noise, axes=-1), base.noise) and same(Y.noise, reorder(base.noise, axes=-1))
            check(ok, 'D.shift-reorders', tag + f'/{dom}/shift={sh!r}', 'opposite numpy shift does not recover the unshifted transform')
            check(type(Y) is type(x) and Y.signal.shape == x.signal.shape, 'D.shift-structure', tag + f'/{dom}', 'type/shape changed')
        for sh in (False, 0, np.False_, None):
            Y = guard('D.noshift', tag + f'/{dom}/shift={sh!r}', lambda: x(dom, shift=sh))
            if Y is not None:
                check(same(Y.signal, base.signal) and (n is None or same(Y.noise, base.noise)), 'D.noshift', tag + f'/{dom}/shift={sh!r}', 'differs from default')
        # positional vs keyword vs default
        P = x(dom, True); K = x(domain=dom, shift=True); D0 = x(domain=dom)
        check(same(P.signal, K.signal) and same(D0.signal, base.signal), 'D.positional-keyword', tag + f'/{dom}', 'positional/keyword/default disagree')
    # the shifted spectrum, unshifted by hand, inverts to x
    Z = x('w', shift=True)
    back = type(x)(ifftshift(Z.signal, axes=-1))('t')
    check(close(back.signal, s, 20 * tol * np.log2(N + 1)), 'D.shift-roundtrip', tag, 'ifftshift(x("w",True)) does not invert to x')
    # repeated calls agree
    check(same(x('w').signal, X.signal), 'E.repeatable', tag, 'second call differs')


def run_transform_grid():
    rng = np.random.default_rng(20260927)
    for N in LENGTHS:
        for dt in DTYPES:
            for tag, x, s, n in objects(rng, N, dt):
                transform_clauses(tag, x, s, n, EPS[dt], ptol=(1.2e-7 if dt in (np.float32, np.complex64) else None))
    for N in BIG_LENGTHS:
        for dt in (np.float64, np.complex128):
            for tag, x, s, n in objects(rng, N, dt):
                if 'O2n' in tag or 'E1' in tag:
                    transform_clauses(tag, x, s, n, 2.3e-16)
    # special values: constants, impulses at first/last sample, alternating sign, zeros, huge/tiny scale
    for N in [1, 2, 3, 4, 5, 7, 8, 16, 17]:
        specials = {'zeros': np.zeros(N), 'ones': np.ones(N), 'first': np.eye(N)[0], 'last': np.eye(N)[-1],
                    'alt': (-1.0) ** np.arange(N), 'ramp': np.arange(N, dtype=float), 'big': 1e150 * np.ones(N), 'tiny': 1e-150 * np.arange(1, N + 1),
                    'jramp': 1j * np.arange(N)}
        for name, s in specials.items():
            for x, tag in ((electrical_signal(s), 'E1'), (optical_signal(s), 'O1'), (optical_signal(s, n_pol=2), 'O2'),
                           (optical_signal(np.array([s, s[::-1]]), np.array([s[::-1], s])), 'O2n')):
                if name in ('big',):  # |.|^2 overflows legitimately: only reordering/round trip
                    y = x('w')('t')
                    check(close(y.signal, x.signal, 1e-13), "A.x('w')('t')", f'{tag}/{name}/N={N}', 'round trip')
                    continue
                transform_clauses(f'{tag}/{name}/N={N}', x, x.signal, x.noise, 2.3e-16)


# ---------------------------------------------------------------------------------------------
# Relations between constructions
# ---------------------------------------------------------------------------------------------
def run_relations():
    rng = np.random.default_rng(7)
    for N in [1, 2, 3, 4, 5, 8, 9, 16, 31, 64, 101]:
        a = rng.normal(size=N) + 1j * rng.normal(size=N)
        b = rng.normal(size=N) + 1j * rng.normal(size=N)
        na = rng.normal(size=N); nb = rng.normal(size=N)
        tag = f'N={N}'
        for dom in ('w', 'f', 't'):
            for sh in (False, True):
                # two-polarisation call vs two one-polarisation calls vs electrical
                x2 = optical_signal(np.array([a, b]), np.array([na, nb]))(dom, sh)
                xa = optical_signal(a, na)(dom, sh); xb = optical_signal(b, nb)(dom, sh)
                ea = electrical_signal(a, na)(dom, sh)
                check(same(x2.signal[0], xa.signal) and same(x2.signal[1], xb.signal) and same(x2.noise[0], xa.noise) and same(x2.noise[1], xb.noise),
                      'R.2pol==2x1pol', f'{tag}/{dom}/{sh}', 'row-wise transform differs from separate one-polarisation transforms')
                check(same(ea.signal, xa.signal) and same(ea.noise, xa.noise), 'R.electrical==optical', f'{tag}/{dom}/{sh}', 'classes disagree')
                # n_pol=2 duplication
                xd = optical_signal(a, na, n_pol=2)(dom, sh)
                check(same(xd.signal[0], xa.signal) and same(xd.signal[1], xa.signal) and same(xd.noise[1], xa.noise), 'R.n_pol=2-duplicate', f'{tag}/{dom}/{sh}', 'duplicated rows transform differently')
                # noise=0 vs no noise
                z = electrical_signal(a, np.zeros(N))(dom, sh); z0 = electrical_signal(a)(dom, sh)
                check(same(z.signal, z0.signal) and z.noise is not None and not np.any(z.noise), 'R.noise=0', f'{tag}/{dom}/{sh}', 'noise=0 changes the signal transform or does not stay 0')
                # swap of roles: noise transformed exactly as a signal would be
                sw = electrical_signal(na.astype(complex), a)(dom, sh)
                check(same(sw.noise, ea.signal) and same(sw.signal, ea.noise), 'R.signal<->noise alike', f'{tag}/{dom}/{sh}', 'signal and noise are not transformed alike')
                # containers / memory layout / dtype
                ref = electrical_signal(a)(dom, sh).signal
                ro = a.copy(); ro.flags.writeable = False
                big = np.zeros(3 * N, complex); big[::3] = a
                rev = a[::-1].copy()[::-1]
                for cname, cont in (('list', list(a)), ('tuple', tuple(a)), ('readonly', ro), ('strided-view', big[::3]), ('neg-stride-view', rev)):
                    y = guard('R.container', f'{tag}/{dom}/{sh}/{cname}', lambda: electrical_signal(cont)(dom, sh))
                    if y is not None:
                        check(same(y.signal, ref), 'R.container', f'{tag}/{dom}/{sh}/{cname}', 'container changes the transform')
                        check(y.signal.flags.writeable, 'R.container-writeable', f'{tag}/{dom}/{sh}/{cname}', 'result not writeable')
                A2 = np.array([a, b])
                ref2 = optical_signal(A2)(dom, sh).signal
                F2 = np.asfortranarray(A2); T2 = np.array([a, b]).T.copy().T  # F-ordered view
                ro2 = A2.copy(); ro2.flags.writeable = False
                for cname, cont in (('fortran', F2), ('transposed-view', T2), ('readonly', ro2), ('list-of-lists', [list(a), list(b)]), ('tuple-of-arrays', (a, b))):
                    y = guard('R.container2', f'{tag}/{dom}/{sh}/{cname}', lambda: optical_signal(cont)(dom, sh))
                    if y is not None:
                        check(y.signal.shape == (2, N) and close(y.signal, ref2, 1e-15 * 64), 'R.container2', f'{tag}/{dom}/{sh}/{cname}',
                              lambda: f'shape {y.signal.shape}, dev {np.max(np.abs(y.signal - ref2)) if y.signal.shape == ref2.shape else None}')
                ints = rng.integers(-50, 50, size=N)
                r_i = electrical_signal(ints.astype(np.int64))(dom, sh).signal
                r_f = electrical_signal(ints.astype(np.float64))(dom, sh).signal
                r_c = electrical_signal(ints.astype(np.complex128))(dom, sh).signal
                check(close(r_i, r_c, 1e-14 * np.log2(N + 1), scale=np.max(np.abs(r_c)) + 1) and close(r_f, r_c, 1e-14 * np.log2(N + 1), scale=np.max(np.abs(r_c)) + 1),
                      'R.dtype-invariance', f'{tag}/{dom}/{sh}', 'int64/float64/complex128 inputs of equal value transform differently')
                # text input
                txt = ' '.join(str(int(v)) for v in np.abs(ints) + 2)
                r_t = electrical_signal(txt)(dom, sh).signal
                check(close(r_t, electrical_signal(np.abs(ints) + 2)(dom, sh).signal, 1e-14), 'R.text', f'{tag}/{dom}/{sh}', 'text input transforms differently')
        # scalar vs length-1 array
        if N == 1:
            for v in (3, 3.5, 2 - 1j, np.float64(2.5), np.int64(4), np.complex128(1j)):
                for dom in ('w', 'f', 't'):
                    for sh in (False, True):
                        for cls in (electrical_signal, optical_signal):
                            ys = guard('R.scalar', f'{cls.__name__}({v!r})/{dom}/{sh}', lambda: cls(v)(dom, sh))
                            ya = cls([v])(dom, sh)
                            if ys is not None:
                                check(same(ys.signal, ya.signal) and same(ys.signal, np.array([complex(v)])), 'R.scalar==len1', f'{cls.__name__}({v!r})/{dom}/{sh}',
                                      lambda: f'{ys.signal} vs {ya.signal}')
                        y2 = guard('R.scalar', f'optical n_pol=2 ({v!r})', lambda: optical_signal(v, v, n_pol=2)(dom, sh))
                        if y2 is not None:
                            check(y2.signal.shape == (2, 1) and y2.noise.shape == (2, 1) and np.all(y2.signal == complex(v)) and np.all(y2.noise == complex(v)), 'R.scalar-2pol', f'{v!r}/{dom}/{sh}', f'{y2.signal} {y2.noise}')
                            check(np.allclose(y2.power(), np.abs(2 * complex(v)) ** 2), 'F.power-scalar-2pol', f'{v!r}', f'{y2.power()}')
        # linearity, scale, offset, time shift, conjugate symmetry
        x = electrical_signal(a, na); y = electrical_signal(b, nb)
        X = x('w'); Y = y('w')
        S = (x + y)('w')
        check(close(S.signal, X.signal + Y.signal, 1e-14 * np.log2(N + 1)) and close(S.noise, X.noise + Y.noise, 1e-14 * np.log2(N + 1), scale=np.max(np.abs(X.noise + Y.noise)) + 1e-300),
              'R.linearity', tag, '(x+y)("w") != x("w")+y("w")')
        for kscale in (2.0, 0.5, 1024.0, 2.0 ** -40):
            Z = electrical_signal(kscale * a, kscale * na)('w')
            check(same(Z.signal, kscale * X.signal) and same(Z.noise, kscale * X.noise), 'R.scale-pow2-exact', f'{tag}/k={kscale}', 'power-of-two rescaling is not exact')
            pz = electrical_signal(kscale * a, kscale * na).power()
            check(pz == kscale ** 2 * x.power(), 'F.power-scale-pow2', f'{tag}/k={kscale}', lambda: f'{pz} vs {kscale ** 2 * x.power()}')
        for kscale in (3.0, 1e-9, 1e9, -1.0, 1j):
            Z = electrical_signal(kscale * a, kscale * na)('w')
            check(close(Z.signal, kscale * X.signal, 1e-14 * np.log2(N + 1)), 'R.scale', f'{tag}/k={kscale}', 'rescaling')
            pz = electrical_signal(kscale * a, kscale * na).power()
            check(abs(pz - abs(kscale) ** 2 * x.power()) <= 1e-13 * abs(kscale) ** 2 * x.power(), 'F.power-scale', f'{tag}/k={kscale}', lambda: f'{pz}')
        cst = 2.5 - 1j
        O = (x + cst)('w')
        d = O.signal - X.signal
        exp = np.zeros(N, complex); exp[0] = N * cst
        check(close(d, exp, 1e-13 * np.log2(N + 1), scale=np.max(np.abs(X.signal)) + N * abs(cst)), 'R.offset->DC', tag, lambda: f'{d}')
        Osh = (x + cst)('w', shift=True).signal - x('w', shift=True).signal
        expsh = np.zeros(N, complex); expsh[N // 2] = N * cst
        check(close(Osh, expsh, 1e-13 * np.log2(N + 1), scale=np.max(np.abs(X.signal)) + N * abs(cst)), 'R.offset->centre-bin(shift)', tag, 'DC bin not at index N//2 of the shifted spectrum')
        # time shift theorem ties w() to the transform
        for fs in (16e9, 1.0, 3.3e6):
            gv(sps=4, fs=fs)
            w = x.w()
            for m in {0, 1, N - 1, N, N // 2, -1, 2 * N + 1}:
                xr = electrical_signal(np.roll(a, m), np.roll(na, m))
                XR = xr('w')
                ph = np.exp(-1j * w * m / fs)
                check(close(XR.signal, X.signal * ph, 1e-12 * (1 + abs(m)), scale=np.max(np.abs(X.signal)) + 1e-300) and close(XR.noise, X.noise * ph, 1e-12 * (1 + abs(m)), scale=np.max(np.abs(X.noise)) + 1e-300),
                      'R.time-shift-theorem(w axis)', f'{tag}/m={m}/fs={fs}', 'roll(x,m)("w") != x("w")*exp(-j w m dt)')
                wsh = x.w(shift=True)
                XRs = xr('w', shift=True)
                check(close(XRs.signal, x('w', shift=True).signal * np.exp(-1j * wsh * m / fs), 1e-12 * (1 + abs(m)), scale=np.max(np.abs(X.signal)) + 1e-300),
                      'R.time-shift-theorem(shifted axis)', f'{tag}/m={m}/fs={fs}', 'shifted axis and shifted spectrum are not aligned')
        gv.clean()
        # tone at bin k lands at w()[k]
        for k in sorted({0, 1, N // 2, N - 1, (N - 1) // 2, (N + 1) // 2} & set(range(N))):
            gv(sps=2, fs=7.0)
            tone = electrical_signal(np.exp(2j * PI * k * np.arange(N) / N))
            T = tone('w')
            idx = int(np.argmax(np.abs(T.signal)))
            check(idx == k and abs(T.signal[k] - N) < 1e-10 * N, 'R.tone-bin', f'{tag}/k={k}', f'peak at {idx}')
            wk = tone.w()[k]
            expect = 2 * PI * 7.0 * (k if k < (N + 1) // 2 else k - N) / N
            check(abs(wk - expect) <= 1e-14 * 2 * PI * 7.0, 'G.w-value-at-bin', f'{tag}/k={k}', f'{wk} vs {expect}')
            Ts = tone('w', shift=True)
            idxs = int(np.argmax(np.abs(Ts.signal)))
            check(abs(tone.w(shift=True)[idxs] - expect) <= 1e-14 * 2 * PI * 7.0, 'G.w-shift-aligned-with-spectrum', f'{tag}/k={k}', f'peak at shifted index {idxs}: w={tone.w(shift=True)[idxs]} vs {expect}')
            gv.clean()
        # real input -> hermitian spectrum; x('t') of a hermitian spectrum -> (numerically) real
        R = electrical_signal(na)('w').signal
        check(close(R[(-np.arange(N)) % N], np.conj(R), 1e-14 * np.log2(N + 1)), 'R.hermitian', tag, 'real input spectrum not hermitian')
        # objects produced by operators / slicing / copy / apply
        derived = {'x+y': x + y, 'x-y': x - y, 'x*2': x * 2, '3+x': 3 + x, 'x[:]': x[:], 'copy': x.copy(), 'x[::-1]': x[::-1], 'apply(conj)': x.apply(np.conj),
                   'x+len1noise': electrical_signal(a) + electrical_signal(1.0, 0.5), 'x[0]': x[0], 'x[-1]': x[-1], 'x[N-1:]': x[N - 1:], 'x[:1]': x[:1]}
        o2 = optical_signal(np.array([a, b]), np.array([na, nb]))
        derived.update({'o2[0]': o2[0], 'o2[-1]': o2[-1], 'o2[np.int64]': o2[np.int64(0)], 'o2[:1]': o2[:1], 'o2[::2]': o2[::2], 'o2*2': o2 * 2, 'o2+o2': o2 + o2, 'o2.copy': o2.copy(),
                        'o2.apply(conj)': o2.apply(np.conj), 'o2[-1:]': o2[-1:], 'o2[[0]]': o2[[0]]})
        for name, obj in derived.items():
            M = obj.len()
            r = guard('A.derived', f'{tag}/{name}', lambda: obj('w')('t'))
            if r is None:
                continue
            check(type(r) is type(obj) and r.signal.shape == obj.signal.shape and close(r.signal, obj.signal, 1e-13 * np.log2(M + 1), scale=np.max(np.abs(obj.signal)) + 1e-300)
                  and (obj.noise is None or close(r.noise, obj.noise, 1e-13 * np.log2(M + 1), scale=np.max(np.abs(obj.noise)) + 1e-300)),
                  'A.derived-roundtrip', f'{tag}/{name}', 'round trip of a derived object')
            if hasattr(obj, 'n_pol'):
                check(r.n_pol == obj.n_pol and obj.signal.ndim == obj.n_pol, 'E.derived-n_pol', f'{tag}/{name}', f'n_pol {obj.n_pol} ndim {obj.signal.ndim} -> {r.n_pol}')
            tot = obj.signal if obj.noise is None else obj.signal + obj.noise
            pref = np.mean(tot.real ** 2 + tot.imag ** 2, axis=-1)
            check(np.shape(obj.power()) == np.shape(pref) and np.allclose(obj.power(), pref, rtol=1e-13, atol=0), 'F.derived-power', f'{tag}/{name}', lambda: f'{obj.power()} vs {pref}')
            gv(sps=3, R=2.0)
            check(same(obj.w(), 2 * PI * fftfreq(M) * gv.fs) or np.allclose(obj.w(), 2 * PI * fftfreq(M) * 6.0, rtol=4e-16, atol=0), 'G.derived-w', f'{tag}/{name}', 'w() of a derived object')
            gv.clean()


# ---------------------------------------------------------------------------------------------
# Clause G: w() axis for every gv configuration
# ---------------------------------------------------------------------------------------------
def w_reference(N, fs):
    k = np.arange(N)
    k = np.where(k < (N + 1) // 2, k, k - N)  # fftfreq convention: for even N the Nyquist bin is negative
    return 2 * PI * fs * k / N


def check_w(tag, fs_expected):
    check(gv.fs == fs_expected or abs(gv.fs - fs_expected) <= 4e-16 * abs(fs_expected), 'G.gv.fs', tag, lambda: f'gv.fs={gv.fs!r}, expected {fs_expected!r}')
    check(abs(gv.dt * gv.fs - 1) <= 4e-16, 'G.gv.dt', tag, lambda: f'dt*fs={gv.dt * gv.fs!r}')
    for N in (1, 2, 3, 4, 5, 7, 8, 9, 16, 17, 64, 127):
        for x, xt in ((electrical_signal(np.ones(N)), 'E'), (optical_signal(np.ones(N)), 'O1'), (optical_signal(np.ones((2, N))), 'O2'), (optical_signal(np.ones(N), np.ones(N), n_pol=2), 'O2n')):
            t = f'{tag}/{xt}/N={N}'
            w = guard('G.w', t, lambda: x.w())
            if w is None:
                continue
            lit = 2 * PI * fftfreq(N) * gv.fs
            ref = w_reference(N, fs_expected)
            check(w.shape == (N,), 'G.w-shape', t, lambda: f'{w.shape}')
            check(np.allclose(w, lit, rtol=4e-16, atol=0), 'G.w==2pi*fftfreq*fs', t, lambda: f'max dev {np.max(np.abs(w - lit))}')
            check(np.allclose(w, ref, rtol=1e-15, atol=0), 'G.w-independent-formula', t, lambda: f'{w} vs {ref}')
            for sh in (True, 1, np.True_):
                ws = x.w(shift=sh)
                check(same(ws, fftshift(w)) and same(ifftshift(ws), w), 'G.w-shift', t + f'/shift={sh!r}', 'w(shift=True) != fftshift(w())')
            check(same(x.w(True), x.w(shift=True)) and same(x.w(False), w) and same(x.w(shift=False), w) and same(x.w(shift=0), w) and same(x.w(None), w), 'G.w-positional-keyword', t, 'positional/keyword/default disagree')
            ws = x.w(shift=True)
            if N > 1:
                step = 2 * PI * fs_expected / N
                check(np.all(np.diff(ws) > 0) and np.allclose(np.diff(ws), step, rtol=1e-12, atol=0), 'G.w-shift-monotone-uniform', t, lambda: f'diffs {np.diff(ws)}')
            check(ws[N // 2] == 0 and w[0] == 0, 'G.w-zero-position', t, 'zero frequency misplaced')
            check(same(x('w').w(), w) and same(x('t', True).w(), w), 'G.w-after-transform', t, 'axis of the transformed object differs')
            check(x.fs() == gv.fs and x.dt() == gv.dt and x.sps() == gv.sps, 'G.accessors', t, 'fs()/dt()/sps() disagree with gv')


def run_w_axis():
    sps_vals = [1, 2, 3, 8, 16, 17, 64, np.int64(4), 5.0]
    R_vals = [1.0, 1e3, 1e9, 2.5e9, 10e9, 1 / 3, np.float64(1e9), 3]
    fs_vals = [1.0, 2.0, 16e9, 20e9, 1e12, 7 / 3 * 1e9, np.float64(8e9), 48]
    # (sps, R)
    for sps, R in itertools.product(sps_vals, R_vals):
        gv.clean(); gv(sps=sps, R=R)
        check_w(f'gv(sps={sps!r},R={R!r})', R * int(round(sps)))
    # (sps, fs)
    for sps, fs in itertools.product(sps_vals, fs_vals):
        gv.clean(); gv(sps=sps, fs=fs)
        check_w(f'gv(sps={sps!r},fs={fs!r})', fs)
        check(abs(gv.R * gv.sps - fs) <= 4e-16 * fs, 'G.gv.R', f'gv(sps={sps!r},fs={fs!r})', lambda: f'R*sps={gv.R * gv.sps} vs fs={fs}')
    # (R, fs)
    for R, fs in itertools.product(R_vals, fs_vals):
        if fs / R < 0.5:
            continue
        gv.clean(); gv(R=R, fs=fs)
        check_w(f'gv(R={R!r},fs={fs!r})', fs)
    # single arguments, on top of defaults and on top of a previous configuration
    for fs in fs_vals:
        gv.clean(); gv(fs=fs); check_w(f'gv(fs={fs!r})', fs)
        gv.clean(); gv(sps=8, R=2e9); gv(fs=fs); check_w(f'gv(sps=8,R=2e9);gv(fs={fs!r})', fs)
    for R in R_vals:
        gv.clean(); gv(R=R); check_w(f'gv(R={R!r})', R * 16)
        gv.clean(); gv(sps=4, fs=8e9); gv(R=R); check_w(f'gv(sps=4,fs=8e9);gv(R={R!r})', R * 4)
    for sps in sps_vals:
        gv.clean(); gv(sps=sps); check_w(f'gv(sps={sps!r})', 1e9 * int(round(sps)))
        gv.clean(); gv(R=5e9, fs=40e9); gv(sps=sps); check_w(f'gv(R=5e9,fs=40e9);gv(sps={sps!r})', 5e9 * int(round(sps)))
    # all three consistent; positional; with N, wavelength and custom keywords; no-argument call keeps the rate
    gv.clean(); gv(8, 2e9, 16e9); check_w('gv(8,2e9,16e9)', 16e9)
    gv.clean(); gv(sps=8, R=2e9, fs=16e9, wavelength=1310e-9, N=10, foo=3); check_w('gv(sps=8,R=2e9,fs=16e9,wavelength,N,foo)', 16e9)
    gv(); check_w('gv() after a configuration', 16e9)
    gv(N=5); check_w('gv(N=5) after a configuration', 16e9)
    gv(wavelength=1e-6); check_w('gv(wavelength=1e-6) after a configuration', 16e9)
    gv.clean(); check_w('gv.clean()', 16e9)
    # direct attribute assignment is also "currently configured"
    gv.clean(); gv.fs = 123.0; gv.dt = 1 / 123.0; check_w('gv.fs=123.0 (attribute)', 123.0)
    gv.clean()
    # call order: an object created before a reconfiguration reports the new rate; transforms do not depend on gv
    x = electrical_signal(np.arange(9.0))
    gv(sps=4, R=1.0); w1 = x.w(); X1 = x('w').signal
    gv(sps=4, R=2.0); w2 = x.w(); X2 = x('w').signal
    check(np.allclose(w2, 2 * w1, rtol=1e-15) and same(X1, X2), 'G.call-order', 'reconfigure between calls', 'w() does not follow gv or transform depends on gv')
    # sibling: gv.w / gv.dw (when a slot count is configured) agree with the object's axis
    for sps, R, N in itertools.product([1, 2, 3, 8], [1.0, 1e9, 2.5e9], [1, 2, 3, 5, 8]):
        gv.clean(); gv(sps=sps, R=R, N=N)
        x = electrical_signal(np.ones(N * sps))
        t = f'gv(sps={sps},R={R},N={N})'
        check(np.allclose(gv.w, x.w(shift=True), rtol=4e-16, atol=0), 'G.sibling gv.w', t, lambda: f'{gv.w} vs {x.w(shift=True)}')
        if N * sps > 1:
            check(np.allclose(np.diff(x.w(shift=True)), gv.dw, rtol=1e-12), 'G.sibling gv.dw', t, 'gv.dw is not the step of w()')
        gv(sps=sps + 1, R=R)  # later call without N keeps N
        x = electrical_signal(np.ones(N * (sps + 1)))
        check(np.allclose(gv.w, x.w(shift=True), rtol=4e-16, atol=0), 'G.sibling gv.w after reconfig', t, 'stale gv.w')
    gv.clean()
    # continuity / linearity in fs: fine sweep over 12 decades
    x = electrical_signal(np.ones(17)); xe = electrical_signal(np.ones(16))
    base_o = 2 * PI * fftfreq(17); base_e = 2 * PI * fftfreq(16)
    for fs in np.logspace(-3, 15, 400):
        gv(sps=2, fs=float(fs))
        wo = x.w(); we = xe.w(True)
        check(np.all(np.isfinite(wo)) and np.allclose(wo, base_o * fs, rtol=4e-16, atol=0) and np.allclose(we, fftshift(base_e) * fs, rtol=4e-16, atol=0), 'G.fs-sweep', f'fs={fs}', 'axis not proportional to fs')
        check(we[0] == -PI * fs or abs(we[0] + PI * fs) <= 4e-16 * PI * fs, 'G.nyquist-even-negative', f'fs={fs}', f'{we[0]}')
    gv.clean()
    # length sweep: every N from 1 to 300, both parities
    gv(sps=2, fs=10.0)
    for N in range(1, 301):
        x = electrical_signal(np.zeros(N))
        check(np.allclose(x.w(), w_reference(N, 10.0), rtol=1e-15, atol=0) and same(x.w(True), fftshift(x.w())), 'G.length-sweep', f'N={N}', 'axis')
        check(x.w(True)[0] == x.w().min() and x.w(True)[-1] == x.w().max(), 'G.length-sweep-ends', f'N={N}', 'first/last of the shifted axis are not min/max')
    gv.clean()


# ---------------------------------------------------------------------------------------------
# Clause F: power() = mean |signal+noise|^2 per polarisation
# ---------------------------------------------------------------------------------------------
def run_power():
    rng = np.random.default_rng(99)
    for N in [1, 2, 3, 4, 5, 8, 17, 64, 1000, 4099]:
        for dt in DTYPES:
            for tag, x, s, n in objects(rng, N, dt):
                tot = s.astype(np.complex128) if n is None else s.astype(np.complex128) + n.astype(np.complex128)
                ref = np.mean(tot.real ** 2 + tot.imag ** 2, axis=-1)
                rtol = 1e-13 if dt in (np.float64, np.complex128, np.int64, np.int32) else 5e-6
                p = guard('F.power', tag, lambda: x.power())
                if p is None:
                    continue
                check(np.shape(p) == np.shape(ref), 'F.power-shape', tag, lambda: f'{np.shape(p)} vs {np.shape(ref)}')
                check(np.allclose(p, ref, rtol=rtol, atol=0), 'F.power==mean|s+n|^2', tag, lambda: f'{p} vs {ref}')
                check(np.all(np.isreal(p)) and np.all(np.asarray(p) >= 0), 'F.power-real-nonneg', tag, f'{p}')
                for by in ('all', 'ALL', 'All'):
                    check(np.array_equal(x.power(by), p) and np.array_equal(x.power(by=by), p), 'F.power-by-all', tag + f'/{by}', 'power(by="all") differs from power()')
                ps = x.power('signal'); pn = x.power('noise')
                refs = np.mean(np.abs(s.astype(np.complex128)) ** 2, axis=-1)
                refn = np.zeros_like(refs) if n is None else np.mean(np.abs(n.astype(np.complex128)) ** 2, axis=-1)
                check(np.allclose(ps, refs, rtol=rtol, atol=0) and np.allclose(pn, refn, rtol=rtol, atol=0) and np.shape(pn) == np.shape(refs), 'F.power-by-signal/noise', tag, lambda: f'{ps} {pn} vs {refs} {refn}')
                if n is None:
                    check(np.array_equal(ps, p), 'F.power-noiseless', tag, 'power() != power("signal") without noise')
                # two-polarisation object vs its rows
                if x.signal.ndim == 2:
                    for r in (0, 1):
                        xr = optical_signal(s[r], None if n is None else n[r])
                        check(np.allclose(xr.power(), p[r], rtol=1e-15, atol=0), 'F.power-per-pol', tag + f'/row{r}', lambda: f'{xr.power()} vs {p[r]}')
                # power is invariant under reordering (shift) and reversal
                check(np.allclose(x[::-1].power(), p, rtol=rtol, atol=0), 'F.power-reversal', tag, 'power changes under time reversal')
    # noise cancelling the signal, noise=0, constant, single sample
    for N in (1, 2, 5, 8):
        a = np.arange(1, N + 1, dtype=float)
        check(np.all(electrical_signal(a, -a).power() == 0), 'F.power-cancel', f'N={N}', 'signal+noise = 0 but power != 0')
        check(electrical_signal(a, 0 * a).power() == electrical_signal(a).power(), 'F.power-noise0', f'N={N}', 'noise=0 changes power')
        check(np.array_equal(optical_signal(a, a, n_pol=2).power(), np.full(2, np.mean(4 * a ** 2))), 'F.power-2pol-dup', f'N={N}', 'n_pol=2 power')
        check(optical_signal(3 + 4j).power() == 25.0 and electrical_signal(3 + 4j).power() == 25.0 and electrical_signal(-5).power() == 25, 'F.power-scalar', 'scalar', 'power of a scalar')
        # int64 of moderate size: |.|^2 must not wrap
        for v in (46341, 2 ** 31, 3_000_000_000):
            pi_ = electrical_signal(np.full(N, v, dtype=np.int64)).power()
            check(pi_ == float(v) ** 2, 'F.power-int64', f'N={N}/v={v}', lambda: f'{pi_} vs {float(v) ** 2}')
    # Parseval in terms of power across dtypes incl. int64 input
    for N in (1, 2, 3, 8, 9):
        v = np.arange(N, dtype=np.int64) - 1
        x = electrical_signal(v, v[::-1].copy())
        check(np.isclose(x('w').power(), N * x.power(), rtol=1e-13), 'C.parseval-int64', f'N={N}', f"{x('w').power()} vs {N * x.power()}")


def run_misc():
    # invalid domain values are refused, not silently treated as a transform
    x = electrical_signal(np.arange(4.0))
    for bad_dom in ('x', '', 'time', None, 0):
        try:
            r = x(bad_dom)
            bad('H.domain-validation', repr(bad_dom), f'accepted, returned {r.signal}')
        except (ValueError, TypeError):
            pass
        nchecks[0] += 1
    # the transform result does not alias the input
    for N in (1, 2, 5):
        a = np.arange(1.0, N + 1) + 0j
        x = electrical_signal(a, a.copy())
        for dom in ('w', 't'):
            for sh in (False, True):
                y = x(dom, sh)
                check(not np.shares_memory(y.signal, x.signal) and not np.shares_memory(y.noise, x.noise) and not np.shares_memory(y.signal, y.noise), 'E.no-alias', f'N={N}/{dom}/{sh}', 'result aliases the input')


if __name__ == '__main__':
    gv.clean()
    run_transform_grid()
    run_relations()
    run_w_axis()
    run_power()
    run_misc()
    print(f'{nchecks[0]} checks')
    if violations:
        kinds = sorted({c for c, _, _ in violations})
        print(f'{len(violations)} violations in clauses: {kinds}')
        sys.exit(1)
    print('PASS')
    sys.exit(0)
