# C02 clause "power() equals the mean of |signal+noise|^2 per polarisation", real dtype int64 (BORDERLINE:
# same mechanism as the already-known wrap-around of narrow integer dtypes, but here in the default int64)
import sys; del sys.path[0]
import numpy as np
from opticomlib.typing import electrical_signal, optical_signal
v = 4_000_000_000                      # fits int64 with 9 decimal digits to spare; v**2 = 1.6e19 does not
bad = 0
for x in (electrical_signal([v, v]), optical_signal([[v, v], [1, 1]]), electrical_signal([v, 0], noise=[0, v])):
    got, exp = np.atleast_1d(x.power())[0], float(v) ** 2
    same_as_float = np.atleast_1d(type(x)(x.signal.astype(float), None if x.noise is None else x.noise.astype(float)).power())[0]
    print(f'{type(x).__name__} dtype={x.signal.dtype}: power()={got!r}, expected mean|s+n|^2={exp!r}, float64 copy gives {same_as_float!r}')
    bad += not np.isclose(got, exp, rtol=1e-12)
sys.exit(1 if bad else 0)
