"""Audit of property C03: a noise-free link built from the library's blocks returns the transmitted bits.

Clauses
  L   manual link: bits -> DAC -> MZM(CW) -> [DM | linear FIBER] -> PD -> sample at slot centre -> midway threshold == bits
  R   relations between calls that the statement makes equivalent (containers, keyword/positional, bias, DM split,
      FIBER vs DM, 1 vs 2 polarisations, noise=0 vs no noise, gv spellings, scale / offset invariance of the decision)
  O   ook.DSP on >= 32 slots of random / PRBS data returns the bits, BER_analizer('counter') == 0
  P   ppm.DSP soft and hard (estimated threshold) on PPM_ENCODER output returns the data, BER_analizer('counter') == 0
  B   BER_analizer('counter') == k/n for k flipped bits, every container type
"""
import sys
sys.path.pop(0)  # do not import from the script's own directory

import itertools
import signal as _signal
import warnings

import numpy as np

warnings.filterwarnings('ignore')

from opticomlib import gv, optical_signal, electrical_signal, binary_sequence  # noqa: E402
from opticomlib.devices import DAC, MZM, PD, DM, FIBER, SAMPLER, PRBS  # noqa: E402
from opticomlib import ook, ppm  # noqa: E402

VIOLATIONS = []


def bad(clause, what):
    VIOLATIONS.append((clause, what))
    print(f'VIOLATION [{clause}] {what}', flush=True)


class _Timeout(Exception):
    pass


def _alarm(*_):
    raise _Timeout()


_signal.signal(_signal.SIGALRM, _alarm)


def tot(x):
    return (x.signal + (x.noise if x.noise is not None else 0)).real


def s(bits):
    return ''.join(str(int(b)) for b in np.asarray(bits).ravel())


def link(slots, sps, R=10e9, shape='nrz', P=1e-3, Vpi=5.0, loss=0.0, ER=26.0, bw=0.7, npol=1, pol='x',
         D=None, fib=None, r=1.0, RL=50.0, i_dark=0.0, **kw):
    """noise-free link, 1 -> maximum of the MZM transfer, 0 -> null"""
    gv(sps=sps, R=R)
    v = DAC(slots, Vout=Vpi, pulse_shape=shape, **kw) - Vpi
    cw = optical_signal(np.ones(v.len()) * P ** 0.5, n_pol=npol)
    o = MZM(cw, v, bias=0.0, Vpi=Vpi, loss_dB=loss, ER_dB=ER, pol=pol)
    if D is not None:
        o = DM(o, D)
    if fib is not None:
        _signal.alarm(30)
        try:
            o = FIBER(o, **fib)
        finally:
            _signal.alarm(0)
    return PD(o, BW=bw * R, r=r, R_load=RL, include_noise='ase-only', i_dark=i_dark)


def decide(x, sps):
    y = tot(SAMPLER(x, sps // 2))
    return (y > (y.max() + y.min()) / 2).astype(int)


# ---------------------------------------------------------------------------------------------------------------
# L  manual link
# ---------------------------------------------------------------------------------------------------------------
def clause_L():
    rng = np.random.default_rng(0)
    fixed = ['01', '10', '001', '110', '0001000', '1110111', '01010101', '10101010', '00001111',
             '1' * 9 + '0', '0' * 9 + '1', '0' + '1' * 9, '1' + '0' * 9]
    n = 0
    for sps in (4, 5, 7, 8, 16, 17, 33, 63, 64):
        for R in (1e6, 2.5e9, 10e9, 100e9):
            T2 = (1e12 / R) ** 2
            for shape in ('nrz', 'gaussian'):
                for bw in (0.7, 1.0, 0.49 * sps):
                    if bw < 0.7:
                        continue
                    for Dk in (None, 0.00999, -0.00999):
                        for npol, pol in ((1, 'x'), (2, 'x'), (2, 'y')):
                            pats = fixed + [s(rng.integers(0, 2, rng.integers(2, 40)))] + [s(PRBS(7, len=int(rng.integers(5, 50)), seed=int(rng.integers(1, 127))).data)]
                            # random draw of the remaining device parameters, ends of the ranges included
                            ER = float(rng.choice([10.0, 10.0, 13.0, 26.0, 40.0]))
                            Vpi = float(rng.choice([0.5, 3.3, 5.0, 47.0]))
                            loss = float(rng.choice([0.0, 3.0, 20.0]))
                            P = float(10 ** rng.uniform(-9, 0))
                            r = float(rng.choice([1.0, 0.5, 0.01]))
                            RL = float(rng.choice([50.0, 1.0, 1e4]))
                            for p in pats[:: (1 if sps <= 8 else 3)]:
                                if len(p) * sps <= 16 or len(set(p)) < 2:
                                    continue
                                D = None if Dk is None else Dk * T2
                                try:
                                    x = link(p, sps, R=R, shape=shape, bw=bw, npol=npol, pol=pol, D=D, ER=ER, Vpi=Vpi, loss=loss, P=P, r=r, RL=RL)
                                    rx = s(decide(x, sps))
                                except Exception as ex:  # loud failure
                                    rx = 'EXC ' + repr(ex)[:80]
                                n += 1
                                if rx != p:
                                    bad('L', f'sps={sps} R={R:g} {shape} bw={bw:g}R D={Dk}T^2 npol={npol} pol={pol} ER={ER} Vpi={Vpi} loss={loss} P={P:.2e} r={r} RL={RL} tx={p} rx={rx}')
    # linear fibre, with the equivalent DM as a sibling
    for sps in (4, 7, 16, 64):
        for R in (10e9, 40e9):
            T2 = (1e12 / R) ** 2
            for shape in ('nrz', 'gaussian'):
                for npol, pol in ((1, 'x'), (2, 'y')):
                    for L, alpha in ((1.0, 0.0), (50.0, 0.2), (0.001, 0.0), (100, 0.25)):
                        for sgn in (1, -1, 0):
                            b2 = sgn * 0.00999 * T2 / L
                            for p in ('0001000', '1110111', '01', s(rng.integers(0, 2, 33))):
                                if len(p) * sps <= 16 or len(set(p)) < 2:
                                    continue
                                try:
                                    x = link(p, sps, R=R, shape=shape, npol=npol, pol=pol, fib=dict(length=L, alpha=alpha, beta_2=b2))
                                except _Timeout:
                                    bad('L', f'FIBER did not return: sps={sps} R={R:g} L={L} alpha={alpha} beta2={b2}')
                                    continue
                                n += 1
                                rx = s(decide(x, sps))
                                if rx != p:
                                    bad('L', f'FIBER sps={sps} R={R:g} {shape} npol={npol} L={L} alpha={alpha} beta2={b2:g} tx={p} rx={rx}')
                                xd = link(p, sps, R=R, shape=shape, npol=npol, pol=pol, D=b2 * L)
                                a, b = tot(x), tot(xd) * 10 ** (-alpha * L / 10)
                                if not np.allclose(a, b, rtol=1e-6, atol=1e-6 * np.abs(b).max()):
                                    bad('R', f'FIBER(beta2,L,alpha) != loss*DM(beta2*L): sps={sps} R={R:g} {shape} npol={npol} L={L} alpha={alpha} sgn={sgn} rel.err={np.abs(a - b).max() / np.abs(b).max():.2e}')
    # fine sweeps of one parameter over its whole range (continuity of the eye margin, both ends included)
    b = np.random.default_rng(7).integers(0, 2, 48)
    base = dict(sps=8, R=10e9, shape='nrz', P=1e-3, Vpi=5.0, loss=0.0, ER=26.0, bw=0.7, r=1.0, RL=50.0)
    sweeps = {
        'Vpi': np.linspace(0.05, 47.9, 60), 'loss': np.linspace(0, 80, 41), 'ER': np.concatenate([np.linspace(10, 12, 21), np.linspace(12, 100, 23)]),
        'P': 10.0 ** np.linspace(-15, 3, 37), 'r': np.concatenate([10.0 ** np.linspace(-6, 0, 13), [1]]), 'RL': 10.0 ** np.linspace(-3, 9, 25),
        'R': 10.0 ** np.linspace(0, 12.5, 26), 'bw': np.linspace(0.7, 3.99, 24), 'Dk': np.linspace(-0.00999, 0.00999, 41),
    }
    for shape in ('nrz', 'gaussian'):
        for name, vals in sweeps.items():
            prev = None
            for v in vals:
                kw = dict(base, shape=shape)
                if name == 'Dk':
                    kw['D'] = float(v) * 1e4
                else:
                    kw[name] = float(v)
                x = link(b, **kw)
                y = tot(SAMPLER(x, 8 // 2))
                m = (y[b == 1].min() - y[b == 0].max()) / (y.max() - y.min())
                n += 1
                if not np.isfinite(m) or m <= 0 or s(decide(x, 8)) != s(b):
                    bad('L', f'sweep {name}={v:g} {shape}: margin {m}')
                elif prev is not None and abs(m - prev) > 0.2:
                    bad('L', f'sweep {name}={v:g} {shape}: eye margin jumps {prev:.3f} -> {m:.3f}')
                prev = m
    return n


# ---------------------------------------------------------------------------------------------------------------
# R  relations
# ---------------------------------------------------------------------------------------------------------------
def clause_R():
    n = 0
    bits = [0, 1, 1, 0, 1, 0, 0, 0, 1, 1, 1, 0]
    ro = np.array(bits)
    ro.setflags(write=False)
    forms = {'str': '011010001110', 'str spaces': '0 1 1 0 1 0 0 0 1 1 1 0', 'str commas': '0,1,1,0,1,0,0,0,1,1,1,0', 'list': bits, 'tuple': tuple(bits),
             'list of bool': [bool(b) for b in bits], 'uint8': np.array(bits, np.uint8), 'int64': np.array(bits, np.int64), 'float64': np.array(bits, float),
             'bool': np.array(bits, bool), 'complex128': np.array(bits, complex), 'binary_sequence': binary_sequence(bits),
             'strided view': np.array([bits, bits]).T.ravel()[::2], 'fortran': np.asfortranarray(np.array(bits)), 'read-only': ro}
    gv(sps=8, R=1e9)
    for sh in ('nrz', 'gaussian', 'rect', 'NRZ', 'GAUSSIAN'):
        ref = DAC(bits, pulse_shape=sh).signal
        for k, v in forms.items():
            n += 1
            try:
                if not np.array_equal(DAC(v, pulse_shape=sh).signal, ref):
                    bad('R', f'DAC({k}) differs from DAC(list), pulse_shape={sh}')
            except Exception as ex:
                bad('R', f'DAC({k}) pulse_shape={sh} raises {ex!r}')
    for M in (2, 4, 8, 16):
        k_ = int(np.log2(M))
        ref = ppm.PPM_ENCODER(bits, M).data
        for k, v in forms.items():
            n += 1
            try:
                out = ppm.PPM_ENCODER(v, M)
                if not np.array_equal(out.data, ref):
                    bad('R', f'PPM_ENCODER({k}, {M}) differs from PPM_ENCODER(list)')
                if not np.array_equal(ppm.PPM_DECODER(out, M).data, np.array(bits)[: len(bits) // k_ * k_]):
                    bad('R', f'PPM_DECODER(PPM_ENCODER({k}, {M})) is not the data')
            except Exception as ex:
                bad('R', f'PPM_ENCODER({k}, {M}) raises {ex!r}')

    def close(a, b, tol=1e-9):
        a, b = np.asarray(a), np.asarray(b)
        return a.shape == b.shape and np.allclose(a, b, rtol=tol, atol=tol * np.abs(b).max())

    data = PRBS(7, len=40).data
    for sps in (4, 5, 8, 33):
        outs = {}
        for name, call in (('sps,R', dict(sps=sps, R=1e9)), ('R,fs', dict(R=1e9, fs=sps * 1e9)), ('sps,fs', dict(sps=sps, fs=sps * 1e9)),
                           ('float sps', dict(sps=float(sps), R=1e9)), ('int R', dict(sps=sps, R=10 ** 9))):
            gv(**call)
            v = DAC(data, Vout=5.0) - 5.0
            N = v.len()
            roc = np.ones(N) * 0.03
            roc.setflags(write=False)
            res = {}
            for cname, carrier in (('float64', np.ones(N) * 0.03), ('complex128', np.ones(N, complex) * 0.03), ('read-only', roc), ('list', [0.03] * N),
                                   ('2 rows', np.array([np.ones(N) * 0.03, np.zeros(N)])), ('2 rows fortran', np.asfortranarray(np.array([np.ones(N) * 0.03, np.zeros(N)]))),
                                   ('2 rows view', np.zeros((4, N))[::2] + np.array([[0.03], [0]])), ('noise zeros', None)):
                cw = optical_signal(np.ones(N) * 0.03, np.zeros(N)) if carrier is None else optical_signal(carrier)
                o = MZM(cw, v, Vpi=5.0)
                for nm, oo in (('el_input ndarray', MZM(cw, v.signal, Vpi=5.0)), ('bias split', MZM(cw, v + 2.5, bias=-2.5, Vpi=5.0)),
                               ('positional', MZM(cw, v - 1.0, 1.0, 5.0)), ('all keywords', MZM(op_input=cw, el_input=v, bias=0.0, Vpi=5.0, loss_dB=0.0, ER_dB=26.0, pol='x', BW=None))):
                    n += 1
                    if not close(oo.signal, o.signal, 1e-12):
                        bad('R', f'MZM {nm} differs: sps={sps} gv({name}) carrier={cname}')
                d2 = DM(o, 9000.0)
                n += 4
                if not close(DM(DM(o, 3000.0), 6000.0).signal, d2.signal):
                    bad('R', f'DM(DM(x,3000),6000) != DM(x,9000): sps={sps} gv({name}) carrier={cname}')
                if not close(DM(d2, -9000.0).signal, o.signal):
                    bad('R', f'DM(DM(x,D),-D) != x: sps={sps} gv({name}) carrier={cname}')
                if not close(DM(o, 0).signal, o.signal, 1e-12) or not close(DM(o, 0.0).signal, o.signal, 1e-12):
                    bad('R', f'DM(x,0) != x: sps={sps} gv({name}) carrier={cname}')
                if not close(DM(o, np.array([9000.0])).signal, d2.signal, 1e-12):
                    bad('R', f'DM(x,[D]) != DM(x,D): sps={sps} gv({name}) carrier={cname}')
                y = PD(d2, 0.7e9, include_noise='ase-only', i_dark=0.0)
                y2 = PD(d2, BW=0.7e9, r=1.0, T=300.0, R_load=50.0, include_noise='ASE-ONLY', i_dark=0.0, Fn=0)
                y3 = PD(d2, 0.7e9, 1, 300, 50, 'ase-only', 0)
                n += 3
                if not (np.array_equal(tot(y), tot(y2)) and np.array_equal(tot(y), tot(y3))):
                    bad('R', f'PD positional / keyword / upper-case option differ: sps={sps} gv({name}) carrier={cname}')
                if not close(tot(PD(d2, 0.7e9, r=0.5, R_load=100.0, include_noise='ase-only', i_dark=0.0)), tot(y)):
                    bad('R', f'PD r*R_load scale: sps={sps} gv({name}) carrier={cname}')
                yo = PD(d2, 0.7e9, include_noise='ase-only', i_dark=1e-3)
                if not close(tot(yo) - 1e-3 * 50.0, tot(y)):
                    bad('R', f'PD dark current is not a pure offset: sps={sps} gv({name}) carrier={cname}')
                res[cname] = tot(y)
                for nm, yy in (('plain', y), ('offset', yo)):
                    n += 1
                    rx, _, _ = ook.DSP(yy)
                    if s(rx.data) != s(data):
                        bad('O', f'ook.DSP {nm}: sps={sps} gv({name}) carrier={cname} rx={s(rx.data)}')
            for cname in res:
                if not close(res[cname], res['float64']):
                    bad('R', f'carrier given as {cname} differs from float64: sps={sps} gv({name})')
            outs[name] = res['float64']
        for name in outs:
            if not close(outs[name], outs['sps,R']):
                bad('R', f'gv({name}) differs from gv(sps,R): sps={sps}')
    # two polarisations detected together == the two detected alone
    gv(sps=8, R=10e9)
    v = DAC(data, Vout=5.0, pulse_shape='gaussian') - 5.0
    c2 = optical_signal(np.full(v.len(), 0.03), n_pol=2)
    E = np.array([MZM(c2, v, pol='x').signal[0], 0.5 * MZM(c2, v, pol='y').signal[1]])
    ya = tot(PD(optical_signal(E), 7e9, include_noise='ase-only', i_dark=0.0))
    yb = tot(PD(optical_signal(E[0]), 7e9, include_noise='ase-only', i_dark=0.0)) + tot(PD(optical_signal(E[1]), 7e9, include_noise='ase-only', i_dark=0.0))
    n += 1
    if not close(ya, yb):
        bad('R', 'PD(two polarisations) != PD(x) + PD(y)')
    return n


# ---------------------------------------------------------------------------------------------------------------
# O  ook.DSP
# ---------------------------------------------------------------------------------------------------------------
def clause_O():
    rng = np.random.default_rng(1)
    n = 0
    R = 10e9
    T2 = (1e12 / R) ** 2
    for sps in (4, 5, 7, 8, 16, 33, 64):
        for shape, kw in (('nrz', {}), ('gaussian', {}), ('gaussian', {'m': 2})):
            for bw in (0.7, 1.3, 0.45 * sps):
                if bw < 0.7:
                    continue
                for Dk in (0, 0.0099, -0.0099):
                    for ER, npol, pol in ((10.0, 1, 'x'), (26.0, 2, 'y')):
                        for nslots in (32, 33, 35, 64):
                            for kind in ('random', 'prbs'):
                                if sps >= 33 and (kind == 'random' or nslots == 64):
                                    continue
                                b = rng.integers(0, 2, nslots) if kind == 'random' else PRBS(7, len=nslots, seed=int(rng.integers(1, 127))).data
                                if b.min() == b.max():
                                    continue
                                x = link(b, sps, R=R, shape=shape, bw=bw, D=Dk * T2, ER=ER, npol=npol, pol=pol, **kw)
                                n += 1
                                tag = f'sps={sps} {shape}{kw} bw={bw:g}R D={Dk}T^2 ER={ER} npol={npol} slots={nslots} {kind} tx={s(b)}'
                                if s(decide(x, sps)) != s(b):
                                    bad('L', tag)
                                try:
                                    rx, e, th = ook.DSP(x)
                                    ber = ook.BER_analizer('counter', Tx=b, Rx=rx)
                                    if s(rx.data) != s(b) or ber != 0:
                                        bad('O', f'{tag} errors at {np.flatnonzero(rx.data != b).tolist()} BER={ber} threshold at {(th - e.mu0) / (e.mu1 - e.mu0):.4f} of the eye')
                                except Exception as ex:
                                    bad('O', f'{tag} raises {ex!r}')
    # keyword / positional / filter argument, read-only and complex samples
    b = PRBS(7, len=64, seed=33).data
    x = link(b, 8, R=R, shape='gaussian')
    a = tot(x)
    aro = a.copy()
    aro.setflags(write=False)
    for nm, args, kws in (('BW positional', (x, 3.9 * R), {}), ('BW keyword', (x,), {'BW': 3.9 * R}), ('input keyword', (), {'input': x, 'BW': None}),
                          ('read-only samples', (electrical_signal(aro),), {}), ('complex samples', (electrical_signal(a.astype(complex)),), {}),
                          ('noise None', (electrical_signal(a),), {}), ('noise zeros', (electrical_signal(a, np.zeros(a.size)),), {})):
        n += 1
        try:
            rx, _, _ = ook.DSP(*args, **kws)
            if s(rx.data) != s(b):
                bad('O', f'ook.DSP {nm}: rx={s(rx.data)}')
        except Exception as ex:
            bad('O', f'ook.DSP {nm} raises {ex!r}')
    return n


# ---------------------------------------------------------------------------------------------------------------
# P  ppm.DSP
# ---------------------------------------------------------------------------------------------------------------
def clause_P():
    rng = np.random.default_rng(2)
    n = 0
    R = 10e9
    T2 = (1e12 / R) ** 2

    def check(M, bits, x, tag, reps=1):
        k = int(np.log2(M))
        ref = s(np.asarray(bits)[: len(bits) // k * k])
        for dec in ('soft', 'hard'):
            wrong = []
            for _ in range(reps if dec == 'hard' else 1):  # the hard decision draws random slots when the threshold is wrong
                try:
                    rx = ppm.DSP(x, M, dec)
                    ber = ppm.BER_analizer('counter', Tx=bits, Rx=rx)
                    if s(rx.data) != ref or ber != 0:
                        wrong.append(s(rx.data))
                except Exception as ex:
                    wrong.append(repr(ex)[:60])
            if wrong:
                bad('P', f'{dec}: {tag} tx={ref} rx={wrong}')

    # all small cases
    for M in (2, 4, 8, 16):
        k = int(np.log2(M))
        for nsym in (1, 2, 3):
            nb = k * nsym
            allb = [''.join(t) for t in itertools.product('01', repeat=nb)] if nb <= 6 else [s(np.random.default_rng(q).integers(0, 2, nb)) for q in range(12)]
            for bits in allb:
                if len(set(bits)) < 2:
                    continue
                for sps in (5, 16, 64) if nb > 4 else (4, 5, 8, 16, 17, 33, 64):
                    for shape in ('nrz', 'gaussian'):
                        slots = ppm.PPM_ENCODER(bits, M)
                        if slots.len() * sps <= 16:
                            continue
                        x = link(slots, sps, R=R, shape=shape)
                        n += 1
                        if s(decide(x, sps)) != s(slots.data):
                            bad('L', f'PPM slots M={M} sps={sps} {shape} tx={s(slots.data)}')
                        check(M, [int(c) for c in bits], x, f'M={M} symbols={nsym} sps={sps} {shape} bw=0.7R', reps=4)
    # sampled larger cases and structured data
    for M in (2, 4, 8, 16):
        k = int(np.log2(M))
        for sps in (4, 5, 9, 16, 31, 64):
            for shape, kw in (('nrz', {}), ('gaussian', {}), ('gaussian', {'m': 2})):
                for bw in (0.7, 1.5, 0.45 * sps):
                    if bw < 0.7:
                        continue
                    for Dk in (0, 0.0099, -0.0099):
                        ER, npol, pol = ((10.0, 1, 'x'), (26.0, 2, 'y'))[int(rng.integers(0, 2))]
                        for nsym in (4, 9, 33):
                            if sps == 64 and nsym == 33:
                                continue
                            nb = nsym * k + int(rng.integers(0, k))
                            kind = int(rng.integers(0, 4))
                            if kind == 0:
                                bits = rng.integers(0, 2, nb)
                            elif kind == 1:
                                bits = np.arange(nb) % 2
                            elif kind == 2:
                                bits = np.zeros(nb, int)
                                bits[int(rng.integers(0, nb))] = 1
                            else:
                                bits = np.repeat(rng.integers(0, 2, nb // 5 + 1), 5)[:nb]
                            if bits.min() == bits.max():
                                bits[0] ^= 1
                            slots = ppm.PPM_ENCODER(bits, M)
                            x = link(slots, sps, R=R, shape=shape, bw=bw, D=Dk * T2, ER=ER, npol=npol, pol=pol, **kw)
                            n += 1
                            check(M, bits, x, f'M={M} symbols={nsym} sps={sps} {shape}{kw} bw={bw:g}R D={Dk}T^2 ER={ER} npol={npol}')
    # the input given in every accepted form, every letter case of the option
    for M in (2, 4, 8, 16):
        bits = np.random.default_rng(M).integers(0, 2, 48)
        x = link(ppm.PPM_ENCODER(bits, M), 8, R=1e9)
        a = tot(x)
        aro = a.copy()
        aro.setflags(write=False)
        for nm, form in (('electrical_signal', x), ('ndarray', a), ('list', list(a)), ('tuple', tuple(a)), ('complex', a.astype(complex)), ('read-only', aro), ('noise zeros', electrical_signal(a, np.zeros(a.size)))):
            for dec in ('hard', 'soft', 'HARD', 'Soft'):
                n += 1
                try:
                    if s(ppm.DSP(form, M, dec).data) != s(bits):
                        bad('P', f'ppm.DSP({nm}, {M}, {dec!r}) differs')
                except Exception as ex:
                    bad('P', f'ppm.DSP({nm}, {M}, {dec!r}) raises {ex!r}')
        if s(ppm.DSP(x, M=M, decision='hard', threshold=None).data) != s(bits):
            bad('P', f'ppm.DSP keywords M={M}')
    return n


# ---------------------------------------------------------------------------------------------------------------
# B  BER_analizer('counter')
# ---------------------------------------------------------------------------------------------------------------
def clause_B():
    n = 0
    conv = {'list': list, 'tuple': tuple, 'ndarray': np.array, 'bool': lambda a: np.array(a, bool), 'float': lambda a: np.array(a, float), 'uint8': lambda a: np.array(a, np.uint8),
            'str': s, 'str spaces': lambda a: ' '.join(map(str, a)), 'binary_sequence': binary_sequence}
    rng = np.random.default_rng(3)
    for mod in (ook, ppm):
        for nbits in (1, 2, 3, 12, 33):
            tx = rng.integers(0, 2, nbits).tolist()
            for k in sorted(set([0, 1, nbits // 2, nbits - 1, nbits])):
                if k < 0:
                    continue
                flip = rng.choice(nbits, k, replace=False)
                rx = np.array(tx)
                rx[flip] ^= 1
                rx = rx.tolist()
                for (n1, c1), (n2, c2) in itertools.product(conv.items(), repeat=2):
                    n += 1
                    try:
                        r1 = mod.BER_analizer('counter', Tx=c1(tx), Rx=c2(rx))
                        r2 = mod.BER_analizer('counter', Rx=c1(tx), Tx=c2(rx))
                        if r1 != k / nbits or r2 != k / nbits:
                            bad('B', f'{mod.__name__}: Tx as {n1}, Rx as {n2}, {k} of {nbits} flipped -> {r1}, swapped {r2}')
                    except Exception as ex:
                        bad('B', f'{mod.__name__}: Tx as {n1}, Rx as {n2}, {k} of {nbits} flipped raises {ex!r}')
    return n


if __name__ == '__main__':
    total = 0
    for f in (clause_B, clause_R, clause_L, clause_O, clause_P):
        c = f()
        total += c
        print(f'# {f.__name__}: {c} cases', flush=True)
    if VIOLATIONS:
        from collections import Counter
        print(f'FAIL: {len(VIOLATIONS)} violations in {total} cases', dict(Counter(c for c, _ in VIOLATIONS)))
        sys.exit(1)
    print(f'PASS ({total} cases)')
    sys.exit(0)
