# ppm.DSP(decision='hard', estimated threshold) on one 4-PPM symbol (bits '01' -> slots 0100, 64 samples): no slot is detected
import sys; sys.path.pop(0)
import numpy as np
from opticomlib import gv, optical_signal
from opticomlib.devices import DAC, MZM, PD, GET_EYE, SAMPLER
from opticomlib.ppm import PPM_ENCODER, DSP
gv(sps=16, R=1e9)
v = DAC(PPM_ENCODER('01', 4), Vout=5.0) - 5.0                     # NRZ drive: 1 -> 0 V (peak), 0 -> -Vpi (null)
x = PD(MZM(optical_signal(np.full(v.len(), 1e-3**0.5)), v, Vpi=5.0), BW=0.7e9, include_noise='ase-only', i_dark=0.0)
y = SAMPLER(x, gv.sps//2); y = (y.signal + y.noise).real
mid = ''.join(map(str, (y > (y.max() + y.min())/2).astype(int)))   # midway threshold: 0100
soft = ''.join(map(str, DSP(x, 4, 'soft').data))
hard = [''.join(map(str, DSP(x, 4, 'hard').data)) for _ in range(12)]
e = GET_EYE(x, nslots=8192)
print('expected: midway slots 0100, soft 01, hard 01 in every call')
print(f'got     : midway slots {mid}, soft {soft}, hard {hard}')
print(f'estimated threshold {e.threshold:.6f} = mu1 {e.mu1:.6f} (mu0 {e.mu0:.6f}); samples above it: {int((y > e.threshold).sum())}')
sys.exit(1 if any(h != '01' for h in hard) else 0)
