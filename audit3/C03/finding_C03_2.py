# ook.DSP on 35 slots of PRBS-7 (odd count: GET_EYE drops the last slot from the eye): the last 0 is decided as 1
import sys; sys.path.pop(0)
import numpy as np
from opticomlib import gv, optical_signal
from opticomlib.devices import PRBS, DAC, MZM, DM, PD, SAMPLER
from opticomlib.ook import DSP, BER_analizer
gv(sps=16, R=10e9)                                                 # slot 100 ps, T^2 = 1e4 ps^2
tx = PRBS(7, len=35)
v = DAC(tx, Vout=5.0, pulse_shape='gaussian', m=2) - 5.0
o = MZM(optical_signal(np.full(v.len(), 1e-3**0.5)), v, Vpi=5.0, ER_dB=10.0)
x = PD(DM(o, 99.0), BW=72e9, include_noise='ase-only', i_dark=0.0)  # |D| = 0.99% of T^2, BW = 7.2 R < fs/2 = 80 GHz
y = SAMPLER(x, gv.sps//2); y = (y.signal + y.noise).real
mid = (y > (y.max() + y.min())/2).astype(np.uint8)
rx, eye, th = DSP(x)
print('expected: ook.DSP == midway decision == tx, BER 0')
print('midway decision == tx:', np.array_equal(mid, tx.data), '| eye margin', (y[tx.data == 1].min() - y[tx.data == 0].max())/(y.max() - y.min()))
print('ook.DSP errors at slots', np.flatnonzero(rx.data != tx.data), 'BER', BER_analizer('counter', Tx=tx, Rx=rx))
print(f'threshold {th:.6f} lies {(th - eye.mu0)/(eye.mu1 - eye.mu0):.4f} of the eye above mu0 ({(th - eye.mu0)/eye.s0:.1f} s0); last sample {y[-1]:.6f}, mu0 {eye.mu0:.6f}, mu1 {eye.mu1:.6f}')
sys.exit(0 if np.array_equal(rx.data, tx.data) else 1)
