# residual case of C03 audit 3: ook.DSP, sps=33, 35 slots, Gaussian m=2, bw=14.85R, D=-0.99% T^2, ER=10
import sys; sys.path[0]=sys.argv[1] if len(sys.argv)>1 else "/repo"
import numpy as np
from opticomlib import gv, optical_signal, ook
from opticomlib.devices import DAC, MZM, DM, PD, SAMPLER
b = np.array([int(c) for c in '11100000010000011000010100011110010'])
sps, R = 33, 10e9
gv(sps=sps, R=R)
v = DAC(b, Vout=5.0, pulse_shape='gaussian', m=2) - 5.0
o = MZM(optical_signal(np.ones(v.len())*1e-3**0.5), v, bias=0.0, Vpi=5.0, loss_dB=0.0, ER_dB=10.0, pol='x')
o = DM(o, -0.0099*(1e12/R)**2)
x = PD(o, BW=14.85*R, include_noise='ase-only', i_dark=0.0)
rx, e, th = ook.DSP(x)
y = SAMPLER(x, sps//2); y=(y.signal+(y.noise if y.noise is not None else 0)).real
print('errors at', np.flatnonzero(rx.data != b), 'threshold at %.4f of the eye'%((th-e.mu0)/(e.mu1-e.mu0)), 's0,s1 of eye: %.4f %.4f'%(e.s0/(e.mu1-e.mu0), e.s1/(e.mu1-e.mu0)), 'last sample at %.4f'%((y[-1]-e.mu0)/(e.mu1-e.mu0)), 'kde thr %.4f'%((e.threshold-e.mu0)/(e.mu1-e.mu0)))
zeros=(y[b==0]-e.mu0)/(e.mu1-e.mu0); ones=(y[b==1]-e.mu0)/(e.mu1-e.mu0)
print('zeros max %.4f  ones min %.4f'%(zeros.max(), ones.min()))
sys.exit(1 if (rx.data!=b).any() else 0)
