"""Third audit of property C04 (PRBS): relations, invariances, exhaustive small cases."""
import sys
del sys.path[0]

import itertools
import random
import warnings

import numpy as np

import opticomlib  # noqa: F401
from opticomlib.devices import PRBS
from opticomlib.typing import binary_sequence

TAPS = {7: 6, 9: 5, 11: 9, 15: 14, 20: 3, 23: 18, 31: 28}
ORDERS = sorted(TAPS)
viol = []


def bad(clause, inp, msg):
    line = f"VIOLATION [{clause}] input={inp}: {msg}"
    if len(viol) < 200:
        print(line, flush=True)
    viol.append(line)


def call(*a, **k):
    """call PRBS; return (result, warnings list)"""
    with warnings.catch_warnings(record=True) as w:
        warnings.simplefilter("always")
        r = PRBS(*a, **k)
    return r, [x for x in w if issubclass(x.category, UserWarning)]


def bits(*a, **k):
    r, w = call(*a, **k)
    if isinstance(r, tuple):
        return np.asarray(r[0].data).astype(np.int64), int(r[1]), w
    return np.asarray(r.data).astype(np.int64), None, w


def ref(n, L, seed):
    """independent reference: recurrence a[m] = a[m-n] ^ a[m-t]; a[-j] = bit j of seed, j=0..n-1
    (a[0] = bit 0).  Returns (a[0:L], state after L steps)."""
    t = TAPS[n]
    s = seed % (1 << n)
    if s == 0:
        s = 1
    # buffer index i <-> m = i-(n-1); buf[n-1-j] = bit j
    buf = np.zeros(n + L, dtype=np.int64)
    for j in range(n):
        buf[n - 1 - j] = (s >> j) & 1
    # vectorised in blocks of t (a[m] depends on a[m-n], a[m-t]; block <= t is safe)
    i = n
    end = n + L
    while i < end:
        b = min(t, end - i)
        buf[i:i + b] = buf[i - n:i - n + b] ^ buf[i - t:i - t + b]
        i += b
    out = buf[n - 1:n - 1 + L]
    # state after L steps: bit j = a[L-j]  -> buf index (L - j) + n-1
    st = 0
    for j in range(n):
        st |= int(buf[L - j + n - 1]) << j
    return out, st


rng = random.Random(20260927)


def corner_seeds(n):
    M = 1 << n
    s = {1, 2, 3, M - 1, M - 2, M >> 1, (M >> 1) - 1, (M >> 1) + 1, 0b1010101 % M or 1,
         -1, -2, -(M - 1), -(M + 1), M + 1, 2 * M - 1, 3 * M + 5, (1 << 64) + 7, (1 << 200) + 9,
         -(1 << 100) + 3, 1 << (n - 1), (1 << TAPS[n]), (1 << (TAPS[n] - 1))}
    for k in range(n):
        s.add(1 << k)
    return sorted(s)


# ---------------------------------------------------------------- clause 1
# recurrence with the seed's bits as virtual predecessors; first output = LSB; returned state
def clause_recurrence():
    for n in ORDERS:
        M = 1 << n
        if n <= 15:
            seeds = list(range(1, M))
            lens = [n + 40]
        else:
            seeds = corner_seeds(n) + [rng.randrange(1, M) for _ in range(4000)] \
                + [rng.randrange(-(1 << 70), 1 << 70) for _ in range(500)]
            lens = [n + 40]
        for s in seeds:
            if s % M == 0:
                continue
            L = lens[0]
            a, st, w = bits(n, L, s, True)
            e, est = ref(n, L, s)
            if a.shape != (L,):
                bad("length", (n, L, s), f"got shape {a.shape}")
                continue
            if a[0] != (s % M) & 1:
                bad("first output = seed LSB", (n, L, s), f"got {a[0]}")
            if not np.array_equal(a, e):
                k = int(np.flatnonzero(a != e)[0])
                bad("recurrence", (n, L, s), f"first mismatch at {k}: got {a[k]} expected {e[k]}")
            if st != est:
                bad("returned state", (n, L, s), f"got {st} expected {est}")
            if w:
                bad("no warning for non-zero seed", (n, L, s), f"{[str(x.message) for x in w]}")
        # corner seeds for small orders too (negative / oversized)
        for s in corner_seeds(n):
            if s % M == 0:
                continue
            for L in (1, 2, 3, n - 1, n, n + 1, 2 * n + 1):
                a, st, w = bits(n, L, s, True)
                e, est = ref(n, L, s)
                if not np.array_equal(a, e) or st != est or w:
                    bad("recurrence/corner seed", (n, L, s), f"got {a[:8]}.. st={st}, expected {e[:8]}.. st={est}, warns={len(w)}")
        # long runs vs the vectorised reference
        for s in (None, 1, M - 2, rng.randrange(1, M)):
            L = 300001 if n < 31 else 1200001
            a, st, w = bits(n, L, s, True) if s is not None else bits(n, L, return_seed=True)
            e, est = ref(n, L, M - 1 if s is None else s)
            if not np.array_equal(a, e) or st != est:
                bad("recurrence/long", (n, L, s), "long run differs from the recurrence")
        print(f"  recurrence n={n} done", flush=True)


# ---------------------------------------------------------------- clause 2
# period exactly 2^n-1, 2^(n-1) ones, all non-zero states visited once per cycle
def divisors(P):
    d = set()
    i = 1
    while i * i <= P:
        if P % i == 0:
            d.add(i)
            d.add(P // i)
        i += 1
    return sorted(d)


def windows_as_states(a, n):
    """state before emitting a[m]: bit j = a[m-j]; defined for m >= n-1"""
    L = a.size
    st = np.zeros(L - n + 1, dtype=np.int64)
    for j in range(n):
        st |= a[n - 1 - j: L - j] << j
    return st  # st[i] is the state at m = i + n - 1


def clause_period():
    for n in (7, 9, 11, 15, 20, 23):
        M = 1 << n
        P = M - 1
        a, st, _ = bits(n, P + n + 5, return_seed=True)  # default seed
        a_def, _, _ = bits(n)  # default len
        if a_def.size != P:
            bad("default len", n, f"got {a_def.size}, documented {P}")
        if not np.array_equal(a_def, a[:P]):
            bad("default len vs explicit len", n, "differs")
        if not np.array_equal(a[P:], a[:n + 5]):
            bad("period", n, "a[m+P] != a[m]")
        if int(a[:P].sum()) != M >> 1:
            bad("ones per period", n, f"got {int(a[:P].sum())} expected {M >> 1}")
        r = PRBS(n, P)
        if int(r.ones()) != M >> 1 or int(r.zeros()) != (M >> 1) - 1:
            bad("ones per period (ones()/zeros())", n, f"{r.ones()} / {r.zeros()}")
        for d in divisors(P):
            if d < P and np.array_equal(a[d:P + d], a[:P]):
                bad("period exactly 2^n-1", n, f"shorter period {d}")
        states = windows_as_states(a[:P + n - 1], n)  # P consecutive states
        if np.unique(states).size != P or states.min() < 1 or states.max() > P:
            bad("all non-zero states visited", n, f"{np.unique(states).size} distinct states in one cycle")
        # every non-zero seed lies on that cycle: its output is a rotation of it
        pos = np.full(M, -1, dtype=np.int64)
        pos[states] = np.arange(P) + (n - 1)
        cyc2 = np.concatenate((a[:P], a[:P], a[:P]))
        if n <= 11:
            seeds = range(1, M)
            L = P + 3
        elif n == 15:
            seeds = list(range(1, M, 37)) + corner_seeds(n)
            L = P + 3
        else:
            seeds = corner_seeds(n)[:6] + [rng.randrange(1, M) for _ in range(2 if n == 23 else 6)]
            L = P + 3
        for s in seeds:
            sm = s % M
            if sm == 0:
                continue
            b, stb, _ = bits(n, L, s, True)
            p = int(pos[sm]) % P
            if not np.array_equal(b, cyc2[p:p + L]):
                bad("every non-zero seed on the single cycle", (n, s), "output is not the rotation of the cycle")
            if int(b[:P].sum()) != M >> 1:
                bad("ones per period", (n, s), f"got {int(b[:P].sum())}")
            if not np.array_equal(b[P:], b[:L - P]):
                bad("period", (n, s), "not periodic with 2^n-1")
            # after exactly P steps the state is the seed again
            _, stP, _ = bits(n, P, s, True)
            if stP != sm:
                bad("state after one period = seed", (n, s), f"got {stP}")
        print(f"  period n={n} done", flush=True)

    # ---- n = 31: one-step map taken from the library, M^(2^31-1) = I, 2^31-1 prime
    n = 31
    Mod = 1 << n

    def step(s, k=1):
        return bits(n, k, s, True)[1]

    cols = [step(1 << j) for j in range(n)]

    def apply(colset, s):
        r = 0
        j = 0
        while s:
            if s & 1:
                r ^= colset[j]
            s >>= 1
            j += 1
        return r

    # linearity of the library's step on sampled states (the map is GF(2)-linear by the statement)
    for _ in range(20000):
        s = rng.randrange(1, Mod)
        if step(s) != apply(cols, s):
            bad("n=31 step linear", s, "library step is not the linear map of its basis images")
            break

    def compose(A, B):  # (A after B)
        return [apply(A, b) for b in B]

    # X = M^(2^k) by squaring ; M^(2^31-1) = M^(2^31) * M^-1  <=> M^(2^31) == M
    X = cols
    for _ in range(31):
        X = compose(X, X)
    if X != cols:
        bad("n=31 period divides 2^31-1", "M^(2^31) != M", "state does not return after 2^31-1 steps")
    ident = [1 << j for j in range(n)]
    if cols == ident:
        bad("n=31 period", "M == I", "period 1")
    # 2^31-1 is prime => every non-zero state has period exactly 2^31-1 provided no non-zero fixed point
    # fixed points: (M+I)s = 0 has only s=0  <=> M+I invertible; check rank by elimination
    rows = [c ^ (1 << j) for j, c in enumerate(cols)]
    rank = 0
    rows = rows[:]
    for bit in range(n):
        piv = next((i for i in range(rank, n) if (rows[i] >> bit) & 1), None)
        if piv is None:
            continue
        rows[rank], rows[piv] = rows[piv], rows[rank]
        for i in range(n):
            if i != rank and (rows[i] >> bit) & 1:
                rows[i] ^= rows[rank]
        rank += 1
    if rank != n:
        bad("n=31 period exactly 2^31-1", "M+I singular", "a non-zero fixed state exists")
    # jump-ahead agreement between the library's long runs and powers of the map
    for _ in range(12):
        s = rng.randrange(1, Mod)
        k = rng.randrange(1, 400000)
        A = ident
        B = cols
        kk = k
        while kk:
            if kk & 1:
                A = compose(B, A)
            B = compose(B, B)
            kk >>= 1
        if step(s, k) != apply(A, s):
            bad("n=31 state after k steps", (s, k), "differs from M^k s")
    print("  period n=31 (algebraic) done", flush=True)


# ---------------------------------------------------------------- clause 3: resumption, any split
def compositions(total, maxparts):
    for k in range(1, maxparts + 1):
        for cuts in itertools.combinations(range(1, total), k - 1):
            c = (0,) + cuts + (total,)
            yield [c[i + 1] - c[i] for i in range(k)]


def run_split(n, parts, seed, use_np_state=True, kw=False):
    out = []
    st = seed
    for p in parts:
        if kw:
            r = PRBS(order=n, len=p, seed=st, return_seed=True)
        else:
            r = PRBS(n, p, st, True)
        seq, st = r
        if not use_np_state:
            st = int(st)
        out.append(seq)
    return out, st


def clause_resume():
    for n in ORDERS:
        M = 1 << n
        seeds = [None, 1, M - 1, M >> 1, rng.randrange(1, M), -rng.randrange(1, 1 << 40), M + 5]
        # exhaustive: every composition of every total <= 7 into <= 4 parts
        for total in range(1, 8):
            for s in seeds[:4]:
                whole, stw, _ = bits(n, total, s, True) if s is not None else bits(n, total, return_seed=True)
                for parts in compositions(total, 4):
                    seqs, st = run_split(n, parts, s)
                    cat = np.concatenate([q.data for q in seqs]).astype(np.int64)
                    if not np.array_equal(cat, whole) or int(st) != stw:
                        bad("resume (exhaustive small splits)", (n, s, parts), f"got {cat} expected {whole}; state {st} vs {stw}")
        # every two-way split of totals around n and around the period
        totals = [n - 1, n, n + 1, 2 * n, 2 * n + 1]
        if n <= 11:
            totals += [M - 2, M - 1, M, M + 1, 2 * (M - 1), 2 * (M - 1) + 1]
        for total in totals:
            for s in seeds:
                whole, stw, _ = bits(n, total, s, True) if s is not None else bits(n, total, return_seed=True)
                step_ = 1 if total <= 300 else max(1, total // 97)
                cutset = sorted(set(list(range(1, total, step_)) + [1, total - 1, n, total - n, M - 1 if M - 1 < total else 1]))
                for a in cutset:
                    if not (0 < a < total):
                        continue
                    for npst, kw in ((True, False), (False, True)):
                        seqs, st = run_split(n, [a, total - a], s, npst, kw)
                        cat = np.concatenate([q.data for q in seqs]).astype(np.int64)
                        if not np.array_equal(cat, whole) or int(st) != stw:
                            bad("resume (two-way split)", (n, s, a, total - a, npst, kw), "concatenation differs from one call")
                        # the library's own concatenation operator
                        j = seqs[0] + seqs[1]
                        if not isinstance(j, binary_sequence) or not np.array_equal(np.asarray(j.data), whole):
                            bad("resume (binary_sequence +)", (n, s, a, total - a), "seq1 + seq2 differs from one call")
        # random many-way splits, with length-1 pieces, one bit at a time
        for _ in range(60):
            s = rng.choice(seeds[1:] + [rng.randrange(1, M)])
            k = rng.randrange(2, 12)
            parts = [rng.choice([1, 1, 2, 3, n - 1, n, n + 1, rng.randrange(1, 400)]) for _ in range(k)]
            total = sum(parts)
            whole, stw, _ = bits(n, total, s, True)
            seqs, st = run_split(n, parts, s, use_np_state=bool(rng.getrandbits(1)))
            cat = np.concatenate([q.data for q in seqs]).astype(np.int64)
            if not np.array_equal(cat, whole) or int(st) != stw:
                bad("resume (random split)", (n, s, parts), "differs")
        for s in seeds[1:4]:
            total = 3 * n + 7
            whole, stw, _ = bits(n, total, s, True)
            seqs, st = run_split(n, [1] * total, s)
            cat = np.concatenate([q.data for q in seqs]).astype(np.int64)
            if not np.array_equal(cat, whole) or int(st) != stw:
                bad("resume (bit by bit)", (n, s), "differs")
        # the returned state is a valid non-zero n-bit integer and does not warn when reused
        for s in seeds[1:]:
            for L in (1, 2, n, 1000):
                _, st, _ = bits(n, L, s, True)
                if not (0 < st < M):
                    bad("returned state in 1..2^n-1", (n, s, L), f"{st}")
                _, _, w = bits(n, 3, st, True)
                if w:
                    bad("resuming warns", (n, s, L), "warning on a returned state")
        print(f"  resume n={n} done", flush=True)


# ---------------------------------------------------------------- invariances
def clause_invariance():
    for n in ORDERS:
        M = 1 << n
        L = 2 * n + 9
        for s in [1, 5 % M, M - 1, rng.randrange(1, M)]:
            base, st0, _ = bits(n, L, s, True)
            # seed modulo 2^n, negative and oversized representatives
            for k in (1, -1, 2, -3, 1 << 40, -(1 << 40), 1 << 300, -(1 << 300)):
                b, st, w = bits(n, L, s + k * M, True)
                if not np.array_equal(b, base) or st != st0 or w:
                    bad("seed mod 2^n", (n, s, k), "differs from the reduced seed")
            # positional / keyword / default return_seed
            v = [
                bits(n, L, s)[0],
                bits(order=n, len=L, seed=s)[0],
                bits(n, len=L, seed=s, return_seed=False)[0],
                bits(seed=s, len=L, order=n, return_seed=True)[0],
                bits(n, L, s, 1)[0],
                bits(n, L, np.int64(s), True)[0],
                bits(n, L, np.int64(s) - np.int64(M) if n < 62 else s, True)[0],
                bits(np.int64(n), L, s, True)[0],
            ]
            for i, b in enumerate(v):
                if not np.array_equal(b, base):
                    bad("call form invariance", (n, s, i), "differs")
            # no hidden state: call order and repetition do not matter
            PRBS(rng.choice(ORDERS), 17, rng.randrange(1, 100))
            again = bits(n, L, s)[0]
            if not np.array_equal(again, base):
                bad("repeated call", (n, s), "differs after interleaved calls")
        # documented default seed = 2^n - 1
        d1 = bits(n, L)[0]
        d2 = bits(n, L, None)[0]
        d3 = bits(n, L, M - 1)[0]
        d4 = bits(n, L, -1)[0]
        if not (np.array_equal(d1, d2) and np.array_equal(d1, d3) and np.array_equal(d1, d4)):
            bad("default seed = 2^n-1", n, "differs")
        r = PRBS(n, L)
        if not isinstance(r, binary_sequence) or set(np.unique(r.data)) - {0, 1} or r.data.ndim != 1:
            bad("output type", n, f"{type(r)} {r.data.dtype}")
        r2 = PRBS(n, L, return_seed=True)
        if not (isinstance(r2, tuple) and len(r2) == 2 and isinstance(r2[0], binary_sequence)):
            bad("return_seed=True returns (sequence, state)", n, f"{type(r2)}")
        # prefix consistency: shorter request is a prefix of the longer one (all lengths 1..3n)
        long_, _, _ = bits(n, 3 * n, 77 % M or 1)
        for l in range(1, 3 * n + 1):
            b = bits(n, l, 77 % M or 1)[0]
            if b.size != l or not np.array_equal(b, long_[:l]):
                bad("length / prefix", (n, l), "not the prefix of the longer call")
    print("  invariance done", flush=True)


# ---------------------------------------------------------------- zero seed
def clause_zero_seed():
    for n in ORDERS:
        M = 1 << n
        one, st1, _ = bits(n, n + 20, 1, True)
        for z in (0, M, -M, 2 * M, -7 * M, M << 40, -(M << 90), 1 << 400, False, np.int64(0), np.int64(M)):
            for L in (1, n + 20):
                b, st, w = bits(n, L, z, True)
                if len(w) != 1:
                    bad("zero seed warns", (n, z, L), f"{len(w)} UserWarnings")
                e, est = ref(n, L, 1)
                if not np.array_equal(b, e) or st != est:
                    bad("zero seed replaced by 1", (n, z, L), "output differs from seed=1")
        # non-zero multiples of smaller powers of two do not warn
        for s in (M >> 1, -(M >> 1), M + (M >> 1), 3 * M - 1):
            _, _, w = bits(n, 3, s, True)
            if w:
                bad("spurious warning", (n, s), "non-zero seed warned")
    print("  zero seed done", flush=True)


# ---------------------------------------------------------------- len / order validation
def clause_validation():
    for n in ORDERS:
        for L in (0, -1, -2, -10 ** 9, -(1 << 70), 2.0, 2.5, 0.0, -1.0, "5", [5], (5,), 1j, np.float64(3.0), float("inf")):
            for s in (None, 3):
                try:
                    with warnings.catch_warnings():
                        warnings.simplefilter("ignore")
                        r = PRBS(n, L, s)
                    bad("len must be a positive int", (n, L, s), f"accepted, returned {r!r}"[:120])
                except (TypeError, ValueError):
                    pass
                except Exception as ex:  # noqa
                    bad("len must be a positive int", (n, L, s), f"raised {type(ex).__name__}: {ex}")
    unsupported = [o for o in range(-6, 80) if o not in TAPS] + [100, 127, 128, 255, 1000, 4096]
    for o in unsupported:
        for s in (None, 0, 1, 5, -3, 1 << 70):
            for L in (None, 1, 10):
                try:
                    with warnings.catch_warnings():
                        warnings.simplefilter("ignore")
                        r = PRBS(o, L, s)
                    bad("unsupported order raises ValueError", (o, L, s), f"accepted, returned {r!r}"[:120])
                except ValueError:
                    pass
                except Exception as ex:  # noqa
                    bad("unsupported order raises ValueError", (o, L, s), f"raised {type(ex).__name__}: {ex}")
    print("  validation done", flush=True)


if __name__ == "__main__":
    clause_validation()
    clause_zero_seed()
    clause_invariance()
    clause_resume()
    clause_recurrence()
    clause_period()
    if viol:
        print(f"{len(viol)} violation(s)")
        sys.exit(1)
    print("PASS")
    sys.exit(0)
