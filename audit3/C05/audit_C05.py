"""Audit of property C05: DAC waveforms are slot-exact and SAMPLER inverts them.

Third audit: relations between calls, invariances, fine sweeps over the whole
stated range, exhaustive small cases + seeded random ones.
Prints one line per violated (clause, input); exit 1 if any, else PASS / exit 0.
"""
import sys
import os

_here = os.path.dirname(os.path.abspath(__file__))
if sys.path and os.path.abspath(sys.path[0] or '.') == _here:
    del sys.path[0]

import itertools
import warnings
import numpy as np

warnings.simplefilter('ignore')

from opticomlib import gv
from opticomlib.typing import binary_sequence, electrical_signal
from opticomlib.devices import DAC, SAMPLER

VIOL = []
SEEN = {}
MAX_PER_CLAUSE = 12


def bad(clause, inp, msg):
    n = SEEN.get(clause, 0)
    SEEN[clause] = n + 1
    VIOL.append((clause, inp, msg))
    if n < MAX_PER_CLAUSE:
        print(f'VIOLATION [{clause}] input={inp}: {msg}', flush=True)
    elif n == MAX_PER_CLAUSE:
        print(f'VIOLATION [{clause}] ... further lines for this clause suppressed', flush=True)


def setsps(sps):
    gv(sps=sps, R=1e9)
    assert gv.sps == sps


def total(y):
    """signal + noise of an electrical_signal as a numpy array"""
    return y.signal if y.noise is None else y.signal + y.noise


def same(a, b):
    a = np.asarray(a)
    b = np.asarray(b)
    return a.shape == b.shape and np.array_equal(a, b)


def expected_nrz(bits, sps, bias, Vout):
    return np.repeat(bias + Vout * np.asarray(bits, dtype=float), sps)


def expected_rz(bits, sps, bias, Vout):
    out = np.full(len(bits) * sps, float(bias))
    for k, b in enumerate(bits):
        out[k * sps: k * sps + sps // 2] = bias + Vout * b
    return out


def decide(samples, bias, Vout):
    """sign aware comparison of plain numbers with bias+Vout/2"""
    thr = bias + Vout / 2
    v = np.real(np.asarray(samples))
    return (v > thr).astype(int) if Vout > 0 else (v < thr).astype(int)


def forms(bits):
    """every accepted container form of one bit sequence"""
    b = [int(v) for v in bits]
    arr = np.array(b)
    ro = np.array(b, dtype=np.int64)
    ro.setflags(write=False)
    wide = np.zeros(2 * len(b), dtype=np.int64)
    wide[::2] = b
    rev = np.array(b[::-1], dtype=np.int64)
    col = np.asfortranarray(np.array([b, b], dtype=np.int64).T)[:, 0]
    out = {
        'str': ''.join(map(str, b)),
        'str_space': ' '.join(map(str, b)),
        'str_comma': ','.join(map(str, b)),
        'str_comma_space': ', '.join(map(str, b)),
        'list': list(b),
        'list_bool': [bool(v) for v in b],
        'list_float': [float(v) for v in b],
        'tuple': tuple(b),
        'nd_int64': arr.astype(np.int64),
        'nd_int8': arr.astype(np.int8),
        'nd_uint8': arr.astype(np.uint8),
        'nd_bool': arr.astype(bool),
        'nd_float64': arr.astype(np.float64),
        'nd_float32': arr.astype(np.float32),
        'nd_complex128': arr.astype(np.complex128),
        'nd_readonly': ro,
        'nd_strided_view': wide[::2],
        'nd_negative_stride': rev[::-1],
        'nd_fortran_column': col,
        'binary_sequence': binary_sequence(b),
        'binary_sequence_from_str': binary_sequence(''.join(map(str, b))),
    }
    if len(b) == 1:
        out['scalar_int'] = b[0]
        out['scalar_np0d'] = np.array(b[0])
    return out


SHAPES = [('nrz', {}), ('rz', {}), ('gaussian', {})]
ALL_SPS = list(range(2, 129))
CORNER_SPS = [2, 3, 4, 5, 7, 8, 9, 15, 16, 17, 31, 32, 33, 63, 64, 127, 128]

# ----------------------------------------------------------------------------
# Clause 1+2+3: length, NRZ slot-exact, RZ slot-exact  (exact comparison)
# ----------------------------------------------------------------------------
def clause_length_nrz_rz():
    rng = np.random.default_rng(5)
    # (a) exhaustive: all sequences of length 1..6 on the corner sps
    small = [list(t) for n in range(1, 7) for t in itertools.product((0, 1), repeat=n)]
    vb = [(0.0, 1.0), (1, 5), (-3.5, 2.25), (2.0, -4.0), (-47.9, 47.9), (0.1, 0.2), (-0.5, 1.0)]
    for sps in CORNER_SPS:
        setsps(sps)
        for bits in small:
            for bias, Vout in vb:
                x = DAC(bits, bias, Vout, 'nrz')
                if x.len() != len(bits) * sps or x.signal.shape != (len(bits) * sps,):
                    bad('C1 length nrz', (sps, bits), f'len {x.len()} != {len(bits) * sps}')
                elif not same(x.signal, expected_nrz(bits, sps, bias, Vout)):
                    bad('C2 nrz exact', (sps, bits, bias, Vout), 'samples differ from bias+Vout*bit')
                x = DAC(bits, bias, Vout, 'rz')
                if x.len() != len(bits) * sps or x.signal.shape != (len(bits) * sps,):
                    bad('C1 length rz', (sps, bits), f'len {x.len()} != {len(bits) * sps}')
                elif not same(x.signal, expected_rz(bits, sps, bias, Vout)):
                    bad('C3 rz exact', (sps, bits, bias, Vout), 'samples differ')
                if x.noise is not None and np.any(x.noise != 0):
                    bad('C1 noise', (sps, bits), 'DAC produced noise')
            x = DAC(bits, pulse_shape='gaussian')
            if x.len() != len(bits) * sps:
                bad('C1 length gaussian', (sps, bits), f'len {x.len()} != {len(bits) * sps}')
    # (b) every sps 2..128, random sequences (odd, even, length 1, 2, long), random Vout/bias
    for sps in ALL_SPS:
        setsps(sps)
        for n in (1, 2, 3, 17, 64, 257):
            bits = rng.integers(0, 2, n)
            bias = float(rng.uniform(-48, 48))
            Vout = float(rng.uniform(-48, 48))
            for shape, exp in (('nrz', expected_nrz), ('rz', expected_rz)):
                x = DAC(bits, bias=bias, Vout=Vout, pulse_shape=shape)
                if x.len() != n * sps:
                    bad(f'C1 length {shape}', (sps, n), f'len {x.len()} != {n * sps}')
                elif not same(x.signal, exp(bits, sps, bias, Vout)):
                    bad(f'C2/3 {shape} exact', (sps, n, bias, Vout), 'samples differ')
            T = int(rng.integers(-(-sps // 2), 2 * sps + 1))
            m = int(rng.integers(1, 5))
            x = DAC(bits, bias=bias, Vout=Vout, pulse_shape='gaussian', T=T, m=m)
            if x.len() != n * sps:
                bad('C1 length gaussian', (sps, n, T, m), f'len {x.len()} != {n * sps}')
            if not np.all(np.isfinite(x.signal)):
                bad('C1 finite gaussian', (sps, n, T, m), 'non finite samples')
    # (c) all ones / all zeros, first and last slot
    for sps in CORNER_SPS:
        setsps(sps)
        for bits in ([0] * 9, [1] * 9, [1] + [0] * 8, [0] * 8 + [1]):
            for shape, exp in (('nrz', expected_nrz), ('rz', expected_rz)):
                x = DAC(bits, 0.25, -1.5, shape)
                if not same(x.signal, exp(bits, sps, 0.25, -1.5)):
                    bad(f'C2/3 {shape} exact', (sps, bits), 'samples differ')


# ----------------------------------------------------------------------------
# Clause 4: Gaussian pulse of an isolated one (sps>=8, sps/2<=T<=2sps, m 1..4)
# ----------------------------------------------------------------------------
def gaussian_metrics(x, slot, sps, bias, Vout):
    y = (np.real(x) - bias) / Vout  # normalised, peak should be 1
    centre = slot * sps + (sps - 1) / 2
    idx = np.flatnonzero(y >= y.max() - 1e-9)
    dpos = float(np.min(np.abs(idx - centre)))
    amp = float(y.max())
    above = np.flatnonzero(y >= 0.5)
    l, r = above[0], above[-1]
    if l == 0 or r == len(y) - 1:
        w = float('nan')
    else:
        xl = l - 1 + (0.5 - y[l - 1]) / (y[l] - y[l - 1])
        xr = r + (y[r] - 0.5) / (y[r] - y[r + 1])
        w = float(xr - xl)
    return dpos, amp, w, len(above)


def clause_gaussian():
    rng = np.random.default_rng(55)
    for sps in range(8, 129):
        setsps(sps)
        Ts = range(-(-sps // 2), 2 * sps + 1)
        if sps > 40:  # both inclusive ends, T = sps, neighbours, and a random handful
            Ts = sorted(set([-(-sps // 2), -(-sps // 2) + 1, sps - 1, sps, sps + 1, 2 * sps - 1, 2 * sps]
                            + list(rng.integers(-(-sps // 2), 2 * sps + 1, 6))))
        for T in Ts:
            T = int(T)
            for m in (1, 2, 3, 4):
                for bits, slot in (('0001000', 3), ('00100', 2), ('000100000', 3)):
                    for bias, Vout in ((0.0, 1.0), (-7.5, 3.0), (2.0, -47.0)):
                        x = DAC(bits, bias, Vout, 'gaussian', T=T, m=m).signal
                        if abs(np.imag(x)).max() > 1e-9 * abs(Vout):
                            bad('C4 gaussian real', (sps, T, m), 'imaginary part present with c=0')
                        dpos, amp, w, cnt = gaussian_metrics(x, slot, sps, bias, Vout)
                        if dpos > 1.0:
                            bad('C4 peak position', (sps, T, m, bits, bias, Vout), f'peak {dpos} samples from slot centre')
                        if abs(amp - 1) > 0.05:
                            bad('C4 peak amplitude', (sps, T, m, bits, bias, Vout), f'peak/Vout = {amp}')
                        if not (abs(w - T) <= 1.0 or abs(cnt - T) <= 1.0):
                            bad('C4 half-maximum width', (sps, T, m, bits, bias, Vout), f'FWHM {w} ({cnt} samples) vs T={T}')
    # default T is sps, default m is 1, default c is 0
    for sps in (8, 9, 16, 31, 128):
        setsps(sps)
        a = DAC('0001000', pulse_shape='gaussian').signal
        for kw in ({'T': sps}, {'m': 1}, {'c': 0.0}, {'c': 0}, {'T': sps, 'm': 1, 'c': 0.0}):
            b = DAC('0001000', pulse_shape='gaussian', **kw).signal
            if not np.allclose(a, b, rtol=0, atol=1e-12):
                bad('R default gaussian kwargs', (sps, kw), 'explicit default differs from omitted')
    # pulse at the edge slots and in a length-1 sequence: peak position/amplitude still hold
    for sps in (8, 9, 16, 33, 128):
        setsps(sps)
        for T in (-(-sps // 2), sps, 2 * sps):
            for m in (1, 2, 3, 4):
                for bits, slot in (('1', 0), ('10', 0), ('01', 1), ('100', 0), ('001', 2)):
                    x = DAC(bits, 0.5, 2.0, 'gaussian', T=T, m=m).signal
                    y = (np.real(x) - 0.5) / 2.0
                    c = slot * sps + (sps - 1) / 2
                    v = y[int(np.floor(c))], y[int(np.ceil(c))]
                    if abs(max(v) - 1) > 0.05:
                        bad('C4 edge pulse amplitude', (sps, T, m, bits), f'value at slot centre {v}')
                    idx = np.flatnonzero(y >= y.max() - 1e-9)
                    if np.min(np.abs(idx - c)) > 1.0:
                        bad('C4 edge pulse position', (sps, T, m, bits), f'peak at {idx} centre {c}')
    # continuity in T: peak amplitude and width vary smoothly over the whole range
    for sps in (8, 16, 64, 128):
        setsps(sps)
        for m in (1, 2, 3, 4):
            prev = None
            for T in range(-(-sps // 2), 2 * sps + 1):
                x = DAC('0001000', pulse_shape='gaussian', T=T, m=m).signal
                _, amp, w, _ = gaussian_metrics(x, 3, sps, 0.0, 1.0)
                if prev is not None:
                    if abs(amp - prev[0]) > 0.02 or not (0.0 < w - prev[1] < 2.0):
                        bad('R3 continuity in T', (sps, m, T), f'amp {prev[0]}->{amp}, width {prev[1]}->{w}')
                prev = (amp, w)


# ----------------------------------------------------------------------------
# Clause 5: SAMPLER returns samples k, k+sps, ... of signal AND noise
# ----------------------------------------------------------------------------
def clause_sampler():
    rng = np.random.default_rng(505)
    for sps in ALL_SPS:
        setsps(sps)
        for nslots in (1, 2, 3, 10):
            N = nslots * sps
            sig = rng.normal(size=N)
            noi = rng.normal(size=N)
            variants = {
                'float64+noise': electrical_signal(sig, noi),
                'float64 no noise': electrical_signal(sig),
                'noise=0': electrical_signal(sig, np.zeros(N)),
                'complex128+noise': electrical_signal(sig + 1j * noi, noi - 1j * sig),
                'int64+noise': electrical_signal((sig * 100).astype(np.int64), (noi * 100).astype(np.int64)),
            }
            ks = range(sps) if (sps in CORNER_SPS or nslots == 3) else (0, 1, sps // 2 - 1, sps // 2, sps - 1)
            for name, x in variants.items():
                s0 = x.signal.copy()
                n0 = None if x.noise is None else x.noise.copy()
                for k in ks:
                    y = SAMPLER(x, k)
                    if not isinstance(y, electrical_signal):
                        bad('C5 sampler type', (sps, nslots, name, k), f'returned {type(y)}')
                        continue
                    if not same(y.signal, s0[k::sps]) or y.len() != nslots:
                        bad('C5 sampler signal', (sps, nslots, name, k), 'signal samples differ from x[k::sps]')
                    if n0 is None:
                        if y.noise is not None and np.any(y.noise != 0):
                            bad('C5 sampler noise', (sps, nslots, name, k), 'noise appeared')
                    elif y.noise is None or not same(y.noise, n0[k::sps]):
                        bad('C5 sampler noise', (sps, nslots, name, k), 'noise samples differ from noise[k::sps]')
                    if y.signal.dtype != x.signal.dtype:
                        bad('R2 sampler dtype', (sps, nslots, name, k), f'{x.signal.dtype} -> {y.signal.dtype}')
                # input untouched, keyword == positional, numpy integer instant == python int
                if not same(x.signal, s0) or (n0 is not None and not same(x.noise, n0)):
                    bad('R2 sampler mutates input', (sps, nslots, name), 'input changed')
                k = sps // 2
                a = SAMPLER(x, k)
                b = SAMPLER(input=x, instant=k)
                if not same(total(a), total(b)):
                    bad('R1 sampler keyword', (sps, nslots, name), 'keyword call differs')
                try:
                    c = SAMPLER(x, np.int64(k))
                    if not same(total(a), total(c)) or c.len() != nslots:
                        bad('R2 sampler numpy instant', (sps, nslots, name), 'np.int64 instant differs')
                except TypeError:
                    pass  # known: numpy scalars refused by int parameters
            # noise=0 object vs object without noise
            if not same(total(SAMPLER(variants['noise=0'], sps - 1)), total(SAMPLER(variants['float64 no noise'], sps - 1))):
                bad('R1 sampler noise=0 vs none', (sps, nslots), 'differ')
            # sampling a concatenation == concatenating the samplings; read-only / view inputs
            x = variants['float64+noise']
            ro = sig.copy(); ro.setflags(write=False)
            ron = noi.copy(); ron.setflags(write=False)
            xr = electrical_signal(sig, noi); xr.signal = ro; xr.noise = ron
            wide = np.zeros(2 * N); wide[::2] = sig
            xv = electrical_signal(sig, noi); xv.signal = wide[::2]
            for k in (0, sps - 1):
                if not same(total(SAMPLER(xr, k)), total(SAMPLER(x, k))):
                    bad('R2 sampler read-only input', (sps, nslots, k), 'differs')
                if not same(SAMPLER(xv, k).signal, SAMPLER(x, k).signal):
                    bad('R2 sampler strided view input', (sps, nslots, k), 'differs')
                if nslots >= 2:
                    h = (nslots // 2) * sps
                    a = SAMPLER(x[:h], k); b = SAMPLER(x[h:], k)
                    if not same(np.concatenate((total(a), total(b))), total(SAMPLER(x, k))):
                        bad('R1 sampler split', (sps, nslots, k), 'two half calls differ from one call')


# ----------------------------------------------------------------------------
# Clause 6: SAMPLER inverts DAC
# ----------------------------------------------------------------------------
def check_inversion(tag, bits, sps, bias, Vout, shape, ks, **kw):
    bits = np.asarray(bits).astype(int)
    x = DAC(bits, bias, Vout, shape, **kw)
    thr = bias + Vout / 2
    for k in ks:
        y = SAMPLER(x, k)
        if y.len() != len(bits):
            bad(f'C6 {tag} count', (sps, len(bits), k), f'{y.len()} samples for {len(bits)} bits')
            continue
        got = decide(total(y), bias, Vout)
        if not same(got, bits):
            bad(f'C6 {tag} numeric comparison', (sps, bits.tolist()[:12], bias, Vout, k, kw), f'decided {got.tolist()[:12]}')
        # the library's own comparison of a signal with a number (the idiom of ook.DSP: SAMPLER(x,k) > threshold)
        lib = (y > thr) if Vout > 0 else (y < thr)
        if not isinstance(lib, binary_sequence):
            bad(f'C6 {tag} operator type', (sps, k), f'{type(lib)}')
        elif not same(lib.data, bits):
            neg = 'a negative level' if min(bias, bias + Vout) < 0 else 'levels >= 0'
            bad(f'C6 {tag} signal-vs-number operator, {neg}', (sps, bits.tolist()[:12], bias, Vout, k, kw),
                f'SAMPLER(x,k) {">" if Vout > 0 else "<"} {thr} gave {lib.data.tolist()[:12]}')


def clause_inversion():
    rng = np.random.default_rng(5005)
    small = [list(t) for n in range(1, 5) for t in itertools.product((0, 1), repeat=n)]
    vb = [(0.0, 1.0), (1.0, 5.0), (0.0, 47.99), (0.0, 1e-6), (3, 2), (40.0, 7.5),
          (0.0, -1.0), (-3.0, 1.0), (-0.5, 1.0), (-10.0, 4.0), (5.0, -2.0), (1.0, -2.0), (-47.0, 47.0), (47.0, -47.0)]
    for sps in CORNER_SPS:
        setsps(sps)
        for bits in small:
            for bias, Vout in vb:
                check_inversion('nrz', bits, sps, bias, Vout, 'nrz', range(sps))
                check_inversion('rz', bits, sps, bias, Vout, 'rz', range(sps // 2))
                if sps >= 8:
                    for T in sorted({-(-sps // 2), sps}):
                        for m in (1, 4):
                            check_inversion('gaussian', bits, sps, bias, Vout, 'gaussian', [sps // 2], T=T, m=m)
    for sps in ALL_SPS:
        setsps(sps)
        for n in (1, 2, 33, 200):
            bits = rng.integers(0, 2, n)
            bias = float(rng.uniform(-48, 48)); Vout = float(rng.uniform(-48, 48))
            if abs(Vout) < 1e-3:
                Vout = 1.0
            ks = range(sps) if n <= 33 else (0, sps // 2, sps - 1)
            check_inversion('nrz', bits, sps, bias, Vout, 'nrz', ks)
            check_inversion('rz', bits, sps, bias, Vout, 'rz', range(sps // 2) if n <= 33 else (0, sps // 2 - 1))
            if sps >= 8:
                # arbitrary neighbours: only where two half-width neighbours cannot reach the threshold (T <= 1.3 sps)
                T = int(rng.integers(-(-sps // 2), int(1.3 * sps) + 1)); m = int(rng.integers(1, 5))
                check_inversion('gaussian', bits, sps, bias, Vout, 'gaussian', [sps // 2], T=T, m=m)
                # isolated ones (three empty slots around) over the whole T range
                iso = np.zeros(4 * 6, dtype=int); iso[3::8] = 1
                for T in (-(-sps // 2), sps, 2 * sps - 2):
                    check_inversion('gaussian isolated', iso, sps, bias, Vout, 'gaussian', [sps // 2], T=T, m=m)


# ----------------------------------------------------------------------------
# Clause 7: documented rejections
# ----------------------------------------------------------------------------
def expect(exc, tag, inp, f):
    try:
        r = f()
    except exc:
        return
    except Exception as e:  # wrong kind
        bad(f'C7 {tag}', inp, f'raised {type(e).__name__} instead of {exc.__name__}')
        return
    bad(f'C7 {tag}', inp, f'accepted (no {exc.__name__})')


def clause_rejections():
    for sps in (2, 8, 9, 16, 128):
        setsps(sps)
        for shape in ('nrz', 'rz', 'gaussian'):
            for v in (48, 48.0, -48, -48.0, 50, -50, 1e9, float('inf'), -float('inf'), np.nextafter(48.0, 49.0)):
                expect(ValueError, 'Vout range', (sps, shape, v), lambda: DAC('010', Vout=v, pulse_shape=shape))
                expect(ValueError, 'bias range', (sps, shape, v), lambda: DAC('010', bias=v, pulse_shape=shape))
                expect(ValueError, 'Vout range positional', (sps, shape, v), lambda: DAC('010', 0.0, v, shape))
            for v in ('5', '1.0', [1.0], (1.0,), np.array([1.0, 2.0]), 1 + 1j, 1j, {'a': 1}, b'1'):
                expect(TypeError, 'Vout type', (sps, shape, repr(v)), lambda: DAC('010', Vout=v, pulse_shape=shape))
                expect(TypeError, 'bias type', (sps, shape, repr(v)), lambda: DAC('010', bias=v, pulse_shape=shape))
            # the inclusive inside of the range is accepted
            for v in (np.nextafter(48.0, 0.0), -np.nextafter(48.0, 0.0), 47, -47, 0, 0.0, -0.0):
                for kw in ({'Vout': v}, {'bias': v}):
                    try:
                        x = DAC('010', pulse_shape=shape, **kw)
                        if not np.all(np.isfinite(x.signal)):
                            bad('C7 accepted range', (sps, shape, kw), 'non finite output')
                    except Exception as e:
                        bad('C7 accepted range', (sps, shape, kw), f'value inside (-48,48) rejected: {type(e).__name__}: {e}')
        for v in (0, -1, -sps, 2 * sps + 1, 3 * sps, 10 ** 6):
            expect(ValueError, 'T range', (sps, v), lambda: DAC('010', pulse_shape='gaussian', T=v))
        for v in (8.5, float(sps), '8', [8], None, 1j):
            expect(TypeError, 'T type', (sps, repr(v)), lambda: DAC('010', pulse_shape='gaussian', T=v))
        for v in (0, -1, -4):
            expect(ValueError, 'm range', (sps, v), lambda: DAC('010', pulse_shape='gaussian', m=v))
        for v in (1.5, 1.0, '1', [1], None, 1j):
            expect(TypeError, 'm type', (sps, repr(v)), lambda: DAC('010', pulse_shape='gaussian', m=v))
        for v in (1 + 1j, 1j, '0', [0.0], None, (0.0,)):
            expect(TypeError, 'c type', (sps, repr(v)), lambda: DAC('010', pulse_shape='gaussian', c=v))
        for v in ('triangle', '', 'gauss', 'nrz ', ' nrz', 'sinc', 'rc', 'n', 'nrzrz', None, 5, 1.0):
            expect(ValueError, 'unknown pulse shape', (sps, repr(v)), lambda: DAC('010', pulse_shape=v))
        # T at both inclusive ends and every m in 1..4 accepted
        if sps >= 8:
            for T in (-(-sps // 2), 2 * sps):
                for m in (1, 2, 3, 4):
                    try:
                        DAC('010', pulse_shape='gaussian', T=T, m=m)
                    except Exception as e:
                        bad('C7 accepted T/m', (sps, T, m), f'{type(e).__name__}: {e}')


# ----------------------------------------------------------------------------
# Relations: container invariance, concatenation, defaults, affine map, repeat
# ----------------------------------------------------------------------------
def clause_relations():
    rng = np.random.default_rng(50005)
    seqs = [[0], [1], [0, 1], [1, 0], [1, 1], [0, 0], [1, 0, 1], [0, 0, 1, 0, 0], [1, 0, 0, 1, 1, 0, 1]]
    seqs += [rng.integers(0, 2, n).tolist() for n in (10, 11, 100, 101)]  # '10' and '11'-like lengths, text '1 0 1 10' style
    for sps in (2, 3, 8, 9, 16, 127, 128):
        setsps(sps)
        for bits in seqs:
            for shape, kw in (('nrz', {}), ('rz', {}), ('gaussian', {'T': max(1, sps // 2 + 1), 'm': 2})):
                ref = DAC(np.array(bits, dtype=np.int64), -1.25, 3.5, shape, **kw).signal
                for name, f in forms(bits).items():
                    keep = f.copy() if isinstance(f, np.ndarray) else None
                    try:
                        x = DAC(f, -1.25, 3.5, shape, **kw)
                    except Exception as e:
                        bad('R2 container form rejected', (sps, bits[:8], shape, name), f'{type(e).__name__}: {e}')
                        continue
                    if x.signal.shape != ref.shape or not np.array_equal(x.signal, ref):
                        bad('R2 container invariance', (sps, bits[:8], shape, name), 'waveform differs from the int64 ndarray form')
                    if keep is not None and not same(keep, f):
                        bad('R2 input mutated', (sps, bits[:8], shape, name), 'input array changed')
                    if isinstance(f, binary_sequence) and not same(f.data, bits):
                        bad('R2 input mutated', (sps, bits[:8], shape, name), 'binary_sequence changed')
                # repeated call / call order
                again = DAC(np.array(bits, dtype=np.int64), -1.25, 3.5, shape, **kw).signal
                if not np.array_equal(again, ref):
                    bad('R2 repeated call', (sps, bits[:8], shape), 'second call differs')
                # positional vs keyword vs defaults
                a = DAC(bits, pulse_shape=shape, **kw).signal
                b = DAC(bits, 0.0, 1.0, shape, **kw).signal
                c = DAC(input=bits, bias=0.0, Vout=1.0, pulse_shape=shape, BW=None, **kw).signal
                d = DAC(bits, 0, 1, shape, **kw).signal
                if not (np.array_equal(a, b) and np.array_equal(a, c) and np.array_equal(a, d)):
                    bad('R1 defaults/positional/keyword', (sps, bits[:8], shape), 'differ')
                # affine relation with the unit waveform
                for bias, Vout in ((0.0, 2.0), (-1.25, 3.5), (7, -3), (-47.5, 47.5), (0.5, -0.0)):
                    x = DAC(bits, bias, Vout, shape, **kw).signal
                    if shape == 'gaussian':
                        ok = np.allclose(x, bias + Vout * a, rtol=0, atol=1e-9 * (abs(Vout) + 1))
                    else:
                        ok = np.array_equal(x, bias + Vout * a)
                    if not ok:
                        bad('R2 affine map bias+Vout*unit', (sps, bits[:8], shape, bias, Vout), 'differs')
                    # int vs float arguments
                    if float(bias) == bias and float(Vout) == Vout:
                        xf = DAC(bits, float(bias), float(Vout), shape, **kw).signal
                        if not np.array_equal(x, xf):
                            bad('R2 int vs float Vout/bias', (sps, bits[:8], shape, bias, Vout), 'differs')
            # aliases of the shape names
            if not np.array_equal(DAC(bits, pulse_shape='rect').signal, DAC(bits, pulse_shape='nrz').signal):
                bad('R1 rect == nrz', (sps, bits[:8]), 'differ')
            for al, base in (('NRZ', 'nrz'), ('RZ', 'rz'), ('GAUSSIAN', 'gaussian')):
                try:
                    if not np.array_equal(DAC(bits, pulse_shape=al).signal, DAC(bits, pulse_shape=base).signal):
                        bad('R2 shape letter case', (sps, bits[:8], al), 'differs')
                except Exception as e:
                    bad('R2 shape letter case', (sps, bits[:8], al), f'{type(e).__name__}')
        # concatenation: one call vs the work split in two calls
        for a, b in itertools.product(seqs[:9], repeat=2):
            for shape in ('nrz', 'rz'):
                whole = DAC(a + b, 0.5, -2.0, shape).signal
                parts = np.concatenate((DAC(a, 0.5, -2.0, shape).signal, DAC(b, 0.5, -2.0, shape).signal))
                if not np.array_equal(whole, parts):
                    bad('R1 concatenation', (sps, a, b, shape), 'DAC(a+b) != DAC(a) ++ DAC(b)')
            # binary_sequence concatenation forms
            w2 = DAC(binary_sequence(a) + binary_sequence(b), 0.5, -2.0, 'nrz').signal
            if not np.array_equal(w2, DAC(a + b, 0.5, -2.0, 'nrz').signal):
                bad('R1 concatenation binary_sequence', (sps, a, b), 'differ')
        if sps >= 8:
            # Gaussian superposition: a pulse train equals the sum of its isolated pulses (linear, away from nothing)
            bits = [0, 0, 1, 0, 1, 1, 0, 0, 0, 1, 0, 0]
            for T in (-(-sps // 2), sps, 2 * sps):
                for m in (1, 3):
                    whole = DAC(bits, pulse_shape='gaussian', T=T, m=m).signal
                    acc = np.zeros(len(bits) * sps, dtype=complex)
                    for i, v in enumerate(bits):
                        if v:
                            one = [0] * len(bits); one[i] = 1
                            acc += DAC(one, pulse_shape='gaussian', T=T, m=m).signal
                    if not np.allclose(whole, acc, rtol=0, atol=1e-9):
                        bad('R1 gaussian superposition', (sps, T, m), f'max diff {abs(whole - acc).max()}')
                    # shift invariance: the pulse of slot i is the pulse of slot j moved by (i-j)*sps
                    p2 = DAC([0, 0, 0, 0, 1, 0, 0, 0, 0, 0], pulse_shape='gaussian', T=T, m=m).signal
                    p3 = DAC([0, 0, 0, 0, 0, 1, 0, 0, 0, 0], pulse_shape='gaussian', T=T, m=m).signal
                    if not np.allclose(p2[:-sps], p3[sps:], rtol=0, atol=1e-9):
                        bad('R2 gaussian shift invariance', (sps, T, m), f'max diff {abs(p2[:-sps] - p3[sps:]).max()}')
                    # mirror symmetry of the sequence -> mirror symmetry of the waveform up to the one-sample centre offset
    # the waveform depends on sps only: not on the slot rate, nor on how sps was arrived at
    bits = [0, 1, 1, 0, 1, 0, 0]
    for sps in (2, 9, 16, 128):
        for shape, kw in (('nrz', {}), ('rz', {}), ('gaussian', {'T': sps, 'm': 2})):
            gv(sps=sps, R=1e9); ref = DAC(bits, 0.5, 2.0, shape, **kw).signal
            for setter in (lambda: gv(sps=sps, R=40e9), lambda: gv(sps=sps, fs=1.0), lambda: gv(R=2.5e9, fs=2.5e9 * sps),
                           lambda: gv(sps=float(sps), R=1e3), lambda: gv(sps=np.int64(sps), R=1e9, N=7),
                           lambda: (gv(sps=3, R=1e9), DAC(bits), gv(sps=sps, R=1e9, wavelength=1310e-9))):
                setter()
                if gv.sps != sps:
                    bad('R2 gv sps', (sps,), f'gv.sps = {gv.sps}')
                    continue
                x = DAC(bits, 0.5, 2.0, shape, **kw)
                if not np.array_equal(x.signal, ref):
                    bad('R2 invariance under slot rate / gv call form', (sps, shape), 'waveform differs')
                if not same(SAMPLER(x, sps // 2 - (shape == 'rz')).signal, x.signal[sps // 2 - (shape == 'rz')::sps]):
                    bad('R2 sampler under gv call form', (sps, shape), 'differs')
            gv.clean()
    # fine sweep of Vout and bias over the whole open range: level of a 1 is continuous and monotone
    setsps(4)
    grid = np.concatenate(([-np.nextafter(48.0, 0)], np.linspace(-47.999, 47.999, 4001), [np.nextafter(48.0, 0)]))
    unit_g = DAC('010', 0.0, 1.0, 'gaussian').signal
    for shape in ('nrz', 'rz', 'gaussian'):
        prev = None
        for v in grid:
            v = float(v)
            x = DAC('010', 0.0, v, shape).signal
            top = np.real(x[gv.sps]) if shape != 'gaussian' else np.real(x[gv.sps + gv.sps // 2])
            if shape != 'gaussian' and top != v:
                bad('R3 sweep Vout', (shape, v), f'level {top}')
            if prev is not None and not (top > prev):
                bad('R3 sweep Vout monotone', (shape, v), f'{prev} -> {top}')
            prev = top
            x = DAC('010', v, 1.0, shape).signal
            if np.real(x[0]) != v and shape != 'gaussian':
                bad('R3 sweep bias', (shape, v), f'level {x[0]}')
            if shape == 'gaussian' and not np.allclose(x - v, unit_g, rtol=0, atol=1e-12):
                bad('R3 sweep bias', (shape, v), f'offset invariance broken by {abs(x - v - unit_g).max()}')


def main():
    clause_length_nrz_rz()
    clause_gaussian()
    clause_sampler()
    clause_inversion()
    clause_rejections()
    clause_relations()
    gv.clean()
    if VIOL:
        print(f'{len(VIOL)} violations in {len(SEEN)} clauses:')
        for c, n in SEEN.items():
            print(f'   {c}: {n}')
        sys.exit(1)
    print('PASS')
    sys.exit(0)


if __name__ == '__main__':
    main()
