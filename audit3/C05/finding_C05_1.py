# C05: "sampling a DAC waveform at any instant inside the pulse ... and comparing with bias+Vout/2
# returns the input bits", for "all Vout/bias in (-48,48)".  The library's comparison of a signal
# with a number (the idiom of ook.DSP: SAMPLER(x, k) > threshold) compares magnitudes, so any
# negative level decides the wrong way round.
import sys; sys.path.pop(0)
import numpy as np
from opticomlib import gv
from opticomlib.devices import DAC, SAMPLER
gv(sps=4, R=1e9)
bits, fail = [0, 1, 1, 0], 0
for bias, Vout in ((-3.0, 1.0), (-0.5, 1.0), (1.0, 1.0)):  # the last one (levels >= 0) works
    y = SAMPLER(DAC(bits, bias, Vout, 'nrz'), 0)             # samples are exactly bias+Vout*bit
    thr = bias + Vout / 2
    got = (y > thr).data.tolist()
    ref = (y.signal > thr).astype(int).tolist()              # the same comparison on the plain numbers
    print(f'bias={bias} Vout={Vout}: samples {y.signal.tolist()} > {thr}: expected {bits} (numpy: {ref}), got {got}')
    fail |= got != bits
sys.exit(1 if fail else 0)
