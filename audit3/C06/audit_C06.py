"""Audit of property C06 (MZM passive transfer function; PM / laser phase terms are pure rotations).

Third audit: relations between calls, invariances, sweeps.  Prints one line per violated
(clause, input) and exits 1 if any clause is violated; prints PASS and exits 0 otherwise.
"""
import sys, os
_here = os.path.dirname(os.path.abspath(__file__))
if sys.path and os.path.abspath(sys.path[0] or '.') == _here:
    del sys.path[0]

import itertools
import warnings
import numpy as np

import opticomlib
from opticomlib import gv, optical_signal, electrical_signal
from opticomlib.devices import MZM, PM, LASER

assert os.path.abspath(opticomlib.__file__).startswith('/tmp/wt22/C06/'), opticomlib.__file__

warnings.simplefilter('ignore')
pi = np.pi
EPS = np.finfo(float).eps
VIOL = []
NCHK = [0]
PER = {}


def bad(clause, inp, msg):
    line = f"VIOLATION [{clause}] {inp}: {msg}"
    PER[clause] = PER.get(clause, 0) + 1
    if PER[clause] <= 25:
        print(line, flush=True)
    elif PER[clause] == 26:
        print(f"... further [{clause}] violations counted but not printed", flush=True)
    VIOL.append(line)


def close(a, b, rtol=1e-12, atol=0.0):
    a = np.asarray(a); b = np.asarray(b)
    if a.shape != b.shape:
        return False
    if not (np.isfinite(a).all() and np.isfinite(b).all()):
        return False
    scale = max(np.max(np.abs(a), initial=0.0), np.max(np.abs(b), initial=0.0))
    return bool(np.all(np.abs(a - b) <= rtol * scale + atol))


def same(a, b):
    """bitwise-equal values (shape and value)"""
    a = np.asarray(a); b = np.asarray(b)
    return a.shape == b.shape and bool(np.all(a == b))


def check(cond, clause, inp, msg):
    NCHK[0] += 1
    if not cond:
        bad(clause, inp, msg)


def H(u, bias, Vpi, loss_dB, ER_dB):
    th = pi * (np.asarray(u, dtype=float) + bias) / (2 * Vpi)
    return np.sqrt(10 ** (-loss_dB / 10)) * (np.cos(th) + 1j * 10 ** (-ER_dB / 20) * np.sin(th))


def total(o):
    return o.signal if o.noise is None else o.signal + o.noise


def call(f, *a, **k):
    try:
        return f(*a, **k), None
    except Exception as e:  # noqa
        return None, e


# ----------------------------------------------------------------------------------------------
# input generators
# ----------------------------------------------------------------------------------------------
def fields(rng, N):
    """(label, optical_signal) : one/two pol, with/without noise, several dtypes/layouts"""
    out = []
    z1 = rng.normal(size=N) + 1j * rng.normal(size=N)
    n1 = 0.1 * (rng.normal(size=N) + 1j * rng.normal(size=N))
    z2 = rng.normal(size=(2, N)) + 1j * rng.normal(size=(2, N))
    n2 = 0.1 * (rng.normal(size=(2, N)) + 1j * rng.normal(size=(2, N)))
    out.append(('1pol', optical_signal(z1)))
    out.append(('1pol+noise', optical_signal(z1, n1)))
    out.append(('2pol', optical_signal(z2)))
    out.append(('2pol+noise', optical_signal(z2, n2)))
    out.append(('1pol-real', optical_signal(z1.real)))
    out.append(('1pol-int', optical_signal(rng.integers(-5, 6, size=N))))
    out.append(('2pol-int+noise', optical_signal(rng.integers(-5, 6, size=(2, N)), rng.integers(-2, 3, size=(2, N)))))
    out.append(('1pol+zero-noise', optical_signal(z1, np.zeros(N))))
    out.append(('2pol-dup', optical_signal(z1, n1, n_pol=2)))
    # noise whose samples sum to zero
    nz = n1 - n1.mean()
    out.append(('1pol+zero-sum-noise', optical_signal(z1, nz)))
    # noise attached after construction (as in the MZM docstring example)
    x = optical_signal(z1)
    x.noise = rng.normal(0, 0.01, N)
    out.append(('1pol+attr-real-noise', x))
    # fortran ordered / view / read-only sources
    zf = np.asfortranarray(z2)
    out.append(('2pol-F', optical_signal(zf, np.asfortranarray(n2))))
    big = rng.normal(size=(2, 2 * N + 1)) + 0j
    out.append(('2pol-view', optical_signal(big[:, 1::2][:, :N])))
    ro = z1.copy(); ro.setflags(write=False)
    out.append(('1pol-readonly', optical_signal(ro)))
    return out


def drives(rng, N):
    u = rng.uniform(-12, 12, size=N)
    ui = rng.integers(-9, 10, size=N)
    out = [('float', u), ('int64', ui), ('zeros', np.zeros(N)), ('ramp', np.linspace(-20, 20, N)),
           ('const-arr', np.full(N, 2.5))]
    return out


def containers(u):
    """same waveform in every accepted container / dtype / layout"""
    u = np.asarray(u)
    res = [('ndarray', u), ('electrical_signal', electrical_signal(u)),
           ('ndarray-complex', u.astype(complex)), ('es-complex', electrical_signal(u.astype(complex))),
           ('es+noise', electrical_signal(u, np.ones(u.size))),
           ('view', np.concatenate([u, u])[:u.size]),
           ('strided', np.repeat(u, 2)[::2])]
    ro = u.copy(); ro.setflags(write=False)
    res.append(('readonly', ro))
    if np.all(u == np.round(u)):
        res.append(('ndarray-int64', u.astype(np.int64)))
        res.append(('es-int64', electrical_signal(u.astype(np.int64))))
    return res


def scalars(v):
    res = [('float', float(v)), ('np.float64', np.float64(v)), ('0d', np.array(float(v))),
           ('es-scalar', electrical_signal(float(v)))]
    if float(v) == int(v):
        res += [('int', int(v)), ('np.int64', np.int64(int(v)))]
    return res


def snapshot(x):
    return (x.signal.copy(), None if x.noise is None else x.noise.copy(), x.n_pol)


def unchanged(x, snap):
    s, n, p = snap
    return same(x.signal, s) and ((x.noise is None) == (n is None)) and (n is None or same(x.noise, n)) and x.n_pol == p


SIZES = [1, 2, 3, 4, 5, 7, 8, 16, 33]
PARAMS = [  # bias, Vpi, loss_dB, ER_dB
    (0.0, 5.0, 0.0, 26.0),
    (2.5, 5.0, 2.0, 40.0),
    (-1.3, 0.7, 0.0, 0.0),
    (7.0, 3.3, 10.0, 60.0),
    (0, 5, 0, 0),
    (1, 2, 3, 60),
    (-2.5, 1e-3, 0.5, 13.7),
    (100.0, 1e3, 30.0, 59.999),
]

# ----------------------------------------------------------------------------------------------
# MZM
# ----------------------------------------------------------------------------------------------
def audit_mzm():
    rng = np.random.default_rng(6001)
    for N in SIZES:
        for (fl, x) in fields(rng, N):
            snap = snapshot(x)
            for (dl, u) in drives(rng, N):
                for (bias, Vpi, loss, ER) in PARAMS:
                    for pol in ('x', 'y'):
                        tag = f"MZM N={N} field={fl} drive={dl} bias={bias!r} Vpi={Vpi!r} loss={loss!r} ER={ER!r} pol={pol}"
                        y, e = call(MZM, x, u, bias=bias, Vpi=Vpi, loss_dB=loss, ER_dB=ER, pol=pol)
                        if e is not None:
                            bad('mzm.accept', tag, f"raised {type(e).__name__}: {e}"); continue
                        check(unchanged(x, snap), 'mzm.no-mutation', tag, 'input object was modified')
                        h = H(u, bias, Vpi, loss, ER)
                        sl = np.sqrt(10 ** (-loss / 10))
                        tol = 16 * EPS * max(1.0, float(np.max(np.abs(pi * (np.asarray(u, float) + bias) / (2 * Vpi)))))
                        keep = 0 if pol == 'x' else 1
                        # transfer function, sample by sample
                        if x.n_pol == 2:
                            exp_s = x.signal * h
                            exp_s[1 - keep] = 0
                            exp_n = None if x.noise is None else x.noise * h
                            if exp_n is not None:
                                exp_n[1 - keep] = 0
                        else:
                            exp_s = x.signal * h
                            exp_n = None if x.noise is None else x.noise * h
                        check(y.n_pol == x.n_pol and y.signal.shape == x.signal.shape, 'mzm.shape', tag,
                              f"n_pol {x.n_pol}->{y.n_pol} shape {x.signal.shape}->{y.signal.shape}")
                        check(close(y.signal, exp_s, tol), 'mzm.transfer', tag, 'signal != in*sqrt(l)*(cos+j k sin)')
                        check((y.noise is None) == (x.noise is None), 'mzm.noise-presence', tag,
                              f"noise in={x.noise is not None} out={y.noise is not None}")
                        if exp_n is not None and y.noise is not None:
                            check(close(y.noise, exp_n, tol), 'mzm.noise-like-signal', tag, 'noise not multiplied by the same h(t)')
                        # never amplifies (signal, noise, total field), 8 ulp slack
                        for nm, o, i in (('signal', y.signal, x.signal),
                                         ('noise', y.noise, x.noise),
                                         ('total', total(y), total(x))):
                            if o is None:
                                continue
                            lim = sl * np.abs(i) * (1 + 8 * EPS)
                            check(bool(np.all(np.abs(o) <= lim)), 'mzm.never-amplifies', tag + ' ' + nm,
                                  f"max excess ratio {np.max(np.abs(o) / np.where(lim > 0, lim, 1)):.17g}")
                        # unselected polarisation exactly extinguished
                        if x.n_pol == 2:
                            check(bool(np.all(y.signal[1 - keep] == 0)), 'mzm.extinguish', tag, 'unselected pol of signal not 0')
                            if y.noise is not None:
                                check(bool(np.all(y.noise[1 - keep] == 0)), 'mzm.extinguish', tag, 'unselected pol of noise not 0')
                            # relation: two-pol call vs one-pol call on the selected row
                            x1 = optical_signal(x.signal[keep], None if x.noise is None else x.noise[keep])
                            y1 = MZM(x1, u, bias=bias, Vpi=Vpi, loss_dB=loss, ER_dB=ER, pol=pol)
                            check(same(y.signal[keep], y1.signal), 'mzm.2pol-vs-1pol', tag, 'selected row differs from the one-pol call')
                            if y.noise is not None:
                                check(same(y.noise[keep], y1.noise), 'mzm.2pol-vs-1pol', tag, 'selected noise row differs from the one-pol call')
                        else:
                            # one-pol: pol setting must not matter
                            yo = MZM(x, u, bias=bias, Vpi=Vpi, loss_dB=loss, ER_dB=ER, pol='y' if pol == 'x' else 'x')
                            check(same(yo.signal, y.signal), 'mzm.1pol-pol-irrelevant', tag, 'one-pol result depends on pol')
                        # periodicity in the drive: 2*Vpi
                        for k in (1, -1, 3):
                            yk = MZM(x, u + 2 * Vpi * k, bias=bias, Vpi=Vpi, loss_dB=loss, ER_dB=ER, pol=pol)
                            sc = max(1.0, (np.max(np.abs(u)) + abs(bias)) / Vpi + 2 * abs(k))
                            check(close(np.abs(total(yk)) ** 2, np.abs(total(y)) ** 2, 0, 64 * EPS * sc * (np.max(np.abs(total(x))) ** 2 + 1e-300) * sl ** 2),
                                  'mzm.periodic', tag + f" k={k}", 'power not 2*Vpi periodic in drive')
                        # periodicity through the bias as well
                        yb = MZM(x, u, bias=bias + 2 * Vpi, Vpi=Vpi, loss_dB=loss, ER_dB=ER, pol=pol)
                        sc = max(1.0, (np.max(np.abs(u)) + abs(bias)) / Vpi + 2)
                        check(close(np.abs(total(yb)) ** 2, np.abs(total(y)) ** 2, 0, 64 * EPS * sc * (np.max(np.abs(total(x))) ** 2 + 1e-300) * sl ** 2),
                              'mzm.periodic-bias', tag, 'power not 2*Vpi periodic in bias')
                        # drive/bias exchange:  u+bias only matters through the sum
                        ys = MZM(x, u + bias, bias=0.0, Vpi=Vpi, loss_dB=loss, ER_dB=ER, pol=pol)
                        check(close(total(ys), total(y), 1e-12 * sc), 'mzm.drive-bias-sum', tag, 'MZM(u,bias) != MZM(u+bias,0)')
                        # linearity: total field modulated as a whole
                        if x.noise is not None:
                            xt = optical_signal(x.signal + x.noise)
                            yt = MZM(xt, u, bias=bias, Vpi=Vpi, loss_dB=loss, ER_dB=ER, pol=pol)
                            check(close(yt.signal, total(y), 16 * EPS), 'mzm.noise-like-signal', tag, 'MZM(sig+noise) != MZM.signal+MZM.noise')
                            # noise=0 vs no noise
                        # repeated call
                        y2 = MZM(x, u, bias=bias, Vpi=Vpi, loss_dB=loss, ER_dB=ER, pol=pol)
                        check(same(y2.signal, y.signal), 'mzm.repeat', tag, 'second identical call differs')


def audit_mzm_containers():
    rng = np.random.default_rng(6002)
    for N in SIZES:
        fl = fields(rng, N)
        for (fname, x) in fl[:4] + fl[5:7]:
            for (dl, u) in drives(rng, N):
                for (bias, Vpi, loss, ER) in PARAMS[:4]:
                    ref = MZM(x, np.asarray(u, dtype=float), bias=bias, Vpi=Vpi, loss_dB=loss, ER_dB=ER)
                    for (cl, c) in containers(u):
                        tag = f"MZM N={N} field={fname} drive={dl} container={cl} bias={bias} Vpi={Vpi}"
                        csnap = (c.signal.copy() if isinstance(c, electrical_signal) else np.array(c, copy=True))
                        y, e = call(MZM, x, c, bias=bias, Vpi=Vpi, loss_dB=loss, ER_dB=ER)
                        if e is not None:
                            bad('mzm.container-accepted', tag, f"raised {type(e).__name__}: {e}"); continue
                        check(same(y.signal, ref.signal), 'mzm.container-identical', tag,
                              f"max |diff| {np.max(np.abs(y.signal - ref.signal)):.3g}")
                        if ref.noise is not None:
                            check(y.noise is not None and same(y.noise, ref.noise), 'mzm.container-identical', tag, 'noise differs')
                        cnow = c.signal if isinstance(c, electrical_signal) else c
                        check(same(cnow, csnap), 'mzm.no-mutation', tag, 'drive was modified')
            # scalar drive vs same value in array of length N, vs length-1 containers
            for v in (0, 2.5, -5, 5, 1e-9, 12.75, -3):
                for (bias, Vpi, loss, ER) in PARAMS[:6]:
                    ref = MZM(x, np.full(N, float(v)), bias=bias, Vpi=Vpi, loss_dB=loss, ER_dB=ER)
                    for (sl_, s) in scalars(v):
                        tag = f"MZM N={N} field={fname} scalar={sl_}:{v} bias={bias!r} Vpi={Vpi!r} loss={loss!r} ER={ER!r}"
                        y, e = call(MZM, x, s, bias=bias, Vpi=Vpi, loss_dB=loss, ER_dB=ER)
                        if e is not None:
                            bad('mzm.scalar-accepted', tag, f"raised {type(e).__name__}: {e}"); continue
                        # exact up to libm's scalar-vs-vector loop: allow 2 ulp of the largest value
                        check(close(y.signal, ref.signal, 4 * EPS), 'mzm.scalar-vs-array', tag,
                              f"max |diff| {np.max(np.abs(y.signal - ref.signal)):.3g}")
                        if ref.noise is not None:
                            check(y.noise is not None and close(y.noise, ref.noise, 4 * EPS), 'mzm.scalar-vs-array', tag, 'noise differs')


def audit_mzm_args():
    """positional vs keyword vs documented defaults"""
    rng = np.random.default_rng(6003)
    for N in (1, 2, 5, 16):
        for (fname, x) in fields(rng, N)[:4]:
            u = rng.uniform(-7, 7, N)
            a = MZM(x, u)
            b = MZM(x, u, 0.0, 5.0, 0.0, 26.0, 'x', None)
            c = MZM(op_input=x, el_input=u, bias=0.0, Vpi=5.0, loss_dB=0.0, ER_dB=26.0, pol='x', BW=None)
            d = MZM(x, u, bias=0, Vpi=5, loss_dB=0, ER_dB=26)
            tag = f"MZM N={N} field={fname}"
            for nm, o in (('positional', b), ('keyword', c), ('int-defaults', d)):
                check(same(o.signal, a.signal), 'mzm.defaults', tag + ' ' + nm, 'differs from the call with defaults')
            h = H(u, 0.0, 5.0, 0.0, 26.0)
            exp = x.signal * h
            if x.n_pol == 2:
                exp[1] = 0
            check(close(a.signal, exp), 'mzm.defaults', tag, 'defaults are not bias=0, Vpi=5, loss=0, ER=26, pol=x')
            b2 = MZM(x, u, 1.5, 3.0, 2.0, 30.0, 'y')
            c2 = MZM(x, u, pol='y', ER_dB=30.0, loss_dB=2.0, Vpi=3.0, bias=1.5)
            check(same(b2.signal, c2.signal), 'mzm.positional-vs-keyword', tag, 'differs')


def audit_mzm_er_sweeps():
    # on/off power ratio equals ER_dB, swept finely across [0, 60] with both ends
    ERs = np.concatenate([np.linspace(0, 60, 1201), [0, 60, 0.0, 60.0, 1e-12, 60 - 1e-12]])
    for N in (1, 2, 3, 8):
        for npol in (1, 2):
            for with_noise in (False, True):
                rng = np.random.default_rng(6004 + N)
                z = rng.normal(size=N) + 1j * rng.normal(size=N) + 3
                nz = 0.1 * (rng.normal(size=N) + 1j * rng.normal(size=N)) if with_noise else None
                x = optical_signal(z, nz, n_pol=npol)
                for (bias, Vpi, loss) in ((0.0, 5.0, 0.0), (2.5, 5.0, 3.0), (-1.0, 0.5, 20.0), (0, 1, 0)):
                    prev = None
                    for ER in list(ERs) + [0, 60, 26, 13]:
                        for pol in ('x', 'y'):
                            on = MZM(x, 0.0 - bias, bias=bias, Vpi=Vpi, loss_dB=loss, ER_dB=ER, pol=pol)
                            off = MZM(x, Vpi - bias, bias=bias, Vpi=Vpi, loss_dB=loss, ER_dB=ER, pol=pol)
                            keep = (0 if pol == 'x' else 1) if npol == 2 else Ellipsis
                            pon = np.abs(total(on)[keep]) ** 2
                            poff = np.abs(total(off)[keep]) ** 2
                            tag = f"MZM N={N} npol={npol} noise={with_noise} bias={bias} Vpi={Vpi} loss={loss} ER={ER!r} pol={pol}"
                            if not (np.all(np.isfinite(pon)) and np.all(np.isfinite(poff)) and np.all(poff > 0)):
                                bad('mzm.er', tag, f"non finite / zero powers on={pon} off={poff}"); continue
                            r = 10 * np.log10(pon / poff)
                            check(bool(np.all(np.abs(r - ER) <= 1e-9)), 'mzm.er', tag, f"on/off ratio {r} dB")
                            # on state: exactly loss
                            check(close(pon, 10 ** (-loss / 10) * np.abs(total(x)[keep]) ** 2, 1e-13), 'mzm.on-state', tag, 'on power != loss*|in|^2')
                # type variants of ER / loss at the inclusive ends
                for ER in (0, 60, 0.0, 60.0, True):
                    for loss in (0, 0.0, 3, 1e3, 1e5):
                        y, e = call(MZM, x, 1.2, ER_dB=ER, loss_dB=loss)
                        tag = f"MZM ER={ER!r} loss={loss!r}"
                        if e is not None:
                            bad('mzm.ends', tag, f"raised {type(e).__name__}: {e}"); continue
                        h = H(1.2, 0, 5, float(loss), float(ER))
                        ex = x.signal * h
                        if npol == 2:
                            ex[1] = 0
                        check(close(y.signal, ex, 1e-12, 1e-300), 'mzm.ends', tag, 'wrong value at the end of the range')


def audit_mzm_sweeps():
    """continuity / monotonic sweeps across wide parameter ranges: no NaN, no jumps, bound holds"""
    rng = np.random.default_rng(6005)
    N = 4
    z = rng.normal(size=N) + 1j * rng.normal(size=N)
    x = optical_signal(z, 0.1 * z[::-1])
    pin = np.abs(total(x)) ** 2
    # loss sweep: output power monotonically non-increasing in loss_dB, equal 10^(-loss/10) scaling
    prev = None
    for loss in np.concatenate([np.linspace(0, 100, 2001), [200, 1000, 3000, 3200, 1e4]]):
        y = MZM(x, 1.7, bias=0.3, loss_dB=loss, ER_dB=20)
        p = np.abs(total(y)) ** 2
        tag = f"MZM loss sweep loss={loss}"
        check(bool(np.all(np.isfinite(p))), 'mzm.sweep-loss', tag, 'non finite')
        if prev is not None:
            check(bool(np.all(p <= prev * (1 + 8 * EPS))), 'mzm.sweep-loss', tag, 'power increased with loss')
        prev = p
        h = H(1.7, 0.3, 5.0, loss, 20)
        check(close(p, pin * np.abs(h) ** 2, 1e-12, 1e-320), 'mzm.sweep-loss', tag, 'wrong power')
    # Vpi sweep over many decades
    for Vpi in np.concatenate([np.logspace(-6, 9, 601), [1, 5, 7, np.float64(2.0)]]):
        for u in (0.0, 1.0, -2.5, 1e-3):
            y = MZM(x, u, bias=0.25, Vpi=Vpi, loss_dB=1.0, ER_dB=30)
            tag = f"MZM Vpi sweep Vpi={Vpi} u={u}"
            th = pi * (u + 0.25) / (2 * Vpi)
            h = H(u, 0.25, Vpi, 1.0, 30)
            check(close(total(y), total(x) * h, 1e-12 * max(1, abs(th))), 'mzm.sweep-vpi', tag, 'wrong value')
            check(bool(np.all(np.abs(total(y)) <= 10 ** (-1 / 20) * np.abs(total(x)) * (1 + 8 * EPS))), 'mzm.never-amplifies', tag, 'amplified')
    # bias / drive sweep: fine grid over several periods, compare to closed form and bound
    us = np.linspace(-25, 25, 5001)
    x1 = optical_signal(np.full(us.size, 1 + 1j), np.full(us.size, 0.1 - 0.05j))
    for (bias, Vpi, loss, ER) in PARAMS:
        y = MZM(x1, us, bias=bias, Vpi=Vpi, loss_dB=loss, ER_dB=ER)
        tag = f"MZM drive sweep {bias, Vpi, loss, ER}"
        th = np.max(np.abs(pi * (us + bias) / (2 * Vpi)))
        check(close(total(y), total(x1) * H(us, bias, Vpi, loss, ER), 1e-13 * max(1, th)), 'mzm.sweep-drive', tag, 'wrong value')
        p = np.abs(total(y)) ** 2
        lo = 10 ** (-loss / 10) * 10 ** (-ER / 10) * np.abs(total(x1)) ** 2
        hi = 10 ** (-loss / 10) * np.abs(total(x1)) ** 2
        check(bool(np.all(p <= hi * (1 + 16 * EPS)) and np.all(p >= lo * (1 - 1e-9))), 'mzm.sweep-drive', tag, 'power leaves [off, on] band')
        # same sweep sample-by-sample with scalar drives
        for k in (0, 1, 2500, 4999, 5000):
            ys = MZM(x1[int(k)], float(us[k]), bias=bias, Vpi=Vpi, loss_dB=loss, ER_dB=ER)
            check(close(total(ys)[0], total(y)[k], 8 * EPS), 'mzm.split', tag + f" k={k}", 'single-sample call differs from the sample of the full call')


def audit_mzm_split():
    """one call vs the same work split into two calls on the two halves"""
    rng = np.random.default_rng(6006)
    for N in (2, 3, 5, 8, 17):
        for (fname, x) in fields(rng, N):
            u = rng.uniform(-9, 9, N)
            for pol in 'xy':
                y = MZM(x, u, bias=1.0, Vpi=3.0, loss_dB=1.0, ER_dB=20.0, pol=pol)
                for cut in sorted({1, N // 2, N - 1}):
                    if cut <= 0 or cut >= N:
                        continue
                    a = MZM(x[:cut], u[:cut], bias=1.0, Vpi=3.0, loss_dB=1.0, ER_dB=20.0, pol=pol)
                    b = MZM(x[cut:], u[cut:], bias=1.0, Vpi=3.0, loss_dB=1.0, ER_dB=20.0, pol=pol)
                    tag = f"MZM N={N} field={fname} cut={cut} pol={pol}"
                    cat = np.concatenate([a.signal, b.signal], axis=-1)
                    check(close(cat, y.signal, 4 * EPS), 'mzm.split', tag, 'halves differ from full call')
                    if y.noise is not None:
                        check(close(np.concatenate([a.noise, b.noise], axis=-1), y.noise, 4 * EPS), 'mzm.split', tag, 'noise halves differ')


def audit_noise_zero():
    """object with noise=0 vs without noise"""
    rng = np.random.default_rng(6007)
    for N in SIZES:
        for npol in (1, 2):
            z = rng.normal(size=(npol, N)) + 1j * rng.normal(size=(npol, N))
            if npol == 1:
                z = z[0]
            a = optical_signal(z)
            b = optical_signal(z, np.zeros_like(z))
            u = rng.uniform(-6, 6, N)
            for pol in 'xy':
                ya = MZM(a, u, bias=0.5, pol=pol); yb = MZM(b, u, bias=0.5, pol=pol)
                tag = f"N={N} npol={npol} pol={pol}"
                check(same(ya.signal, yb.signal), 'mzm.noise0', tag, 'signal differs between noise=None and noise=0')
                check(yb.noise is not None and bool(np.all(yb.noise == 0)), 'mzm.noise0', tag, 'zero noise did not stay zero/present')
                check(same(np.abs(total(ya)), np.abs(total(yb))), 'mzm.noise0', tag, 'total differs')
            pa = PM(a, u, 2.0); pb = PM(b, u, 2.0)
            check(same(pa.signal, pb.signal), 'pm.noise0', f"N={N} npol={npol}", 'signal differs between noise=None and noise=0')
            check(pb.noise is not None and bool(np.all(pb.noise == 0)), 'pm.noise0', f"N={N} npol={npol}", 'zero noise lost or non zero')


# ----------------------------------------------------------------------------------------------
# length mismatch
# ----------------------------------------------------------------------------------------------
def audit_mismatch():
    rng = np.random.default_rng(6008)
    for N in (1, 2, 3, 5, 8):
        for npol in (1, 2):
            for with_noise in (False, True):
                z = rng.normal(size=(npol, N)) + 1j * rng.normal(size=(npol, N))
                nz = 0.1 * z if with_noise else None
                if npol == 1:
                    z = z[0]; nz = None if nz is None else nz[0]
                x = optical_signal(z, nz)
                for M in sorted({0, 1, 2, N - 1, N + 1, 2 * N, 2 * N + 1, 3}):
                    if M == N or M < 0:
                        continue
                    u = np.linspace(0.5, 1.5, M) if M else np.array([])
                    cands = [('ndarray', lambda: u), ('ndarray-int', lambda: u.astype(np.int64))]
                    if M > 0:
                        cands.append(('electrical_signal', lambda: electrical_signal(u)))
                    for (cl, mk) in cands:
                        for nm, f in (('MZM', lambda d: MZM(x, d)), ('PM', lambda d: PM(x, d)), ('PM-Vpi', lambda d: PM(x, d, Vpi=2.0)),
                                      ('MZM-y', lambda d: MZM(x, d, pol='y'))):
                            tag = f"{nm} N={N} npol={npol} noise={with_noise} drive-len={M} container={cl}"
                            try:
                                d = mk()
                            except Exception as e:
                                continue
                            y, e = call(f, d)
                            NCHK[0] += 1
                            if e is None:
                                bad('mismatch-raises-ValueError', tag, f"no exception, output length {y.len()}")
                            elif not isinstance(e, ValueError):
                                bad('mismatch-raises-ValueError', tag, f"raised {type(e).__name__}: {e}")


# ----------------------------------------------------------------------------------------------
# PM
# ----------------------------------------------------------------------------------------------
def audit_pm():
    rng = np.random.default_rng(6010)
    VPIS = [5.0, 5, 1, 0.3, 1e-3, 1e4, np.pi]
    for N in SIZES:
        for (fl, x) in fields(rng, N):
            snap = snapshot(x)
            for (dl, u) in drives(rng, N):
                for Vpi in VPIS:
                    tag = f"PM N={N} field={fl} drive={dl} Vpi={Vpi!r}"
                    y, e = call(PM, x, u, Vpi)
                    if e is not None:
                        bad('pm.accept', tag, f"raised {type(e).__name__}: {e}"); continue
                    check(unchanged(x, snap), 'pm.no-mutation', tag, 'input object modified')
                    rot = np.exp(1j * pi * np.asarray(u, float) / Vpi)
                    sc = max(1.0, np.max(np.abs(u)) / Vpi)
                    check(y.n_pol == x.n_pol and y.signal.shape == x.signal.shape, 'pm.shape', tag, f"{x.signal.shape}->{y.signal.shape} n_pol {x.n_pol}->{y.n_pol}")
                    check(close(y.signal, x.signal * rot, 8 * EPS * sc), 'pm.shift', tag, 'signal != in*exp(j pi u/Vpi)')
                    check((y.noise is None) == (x.noise is None), 'pm.noise-presence', tag, f"noise in={x.noise is not None} out={y.noise is not None}")
                    if x.noise is not None and y.noise is not None:
                        check(close(y.noise, x.noise * rot, 8 * EPS * sc), 'pm.noise-rotated', tag, 'noise not rotated like the signal')
                    # pure rotation: instantaneous power of the total field unchanged
                    check(close(np.abs(total(y)) ** 2, np.abs(total(x)) ** 2, 16 * EPS), 'pm.power', tag, 'instantaneous power of total field changed')
                    check(close(np.abs(y.signal), np.abs(x.signal), 8 * EPS), 'pm.power', tag, '|signal| changed')
                    # keyword vs positional
                    yk = PM(op_input=x, el_input=u, Vpi=Vpi)
                    check(same(yk.signal, y.signal), 'pm.positional-vs-keyword', tag, 'differs')
                    # default Vpi is 5.0
                    if Vpi == 5:
                        yd = PM(x, u)
                        check(same(yd.signal, y.signal), 'pm.default-vpi', tag, 'default Vpi is not 5')
                    # composition
                    for (dl2, b) in drives(rng, N)[:2] + [('scalar', 1.25), ('int-scalar', 3)]:
                        yy = PM(PM(x, u, Vpi), b, Vpi)
                        yab = PM(x, u + b, Vpi)
                        sc2 = max(1.0, (np.max(np.abs(u)) + np.max(np.abs(b))) / Vpi)
                        check(close(total(yy), total(yab), 16 * EPS * sc2), 'pm.compose', tag + f" b={dl2}", 'PM(PM(x,a),b) != PM(x,a+b)')
                        if yab.noise is not None:
                            check(yy.noise is not None and close(yy.noise, yab.noise, 16 * EPS * sc2), 'pm.compose', tag + f" b={dl2}", 'noise of composition differs')
                        # order of the two modulations does not matter
                        yba = PM(PM(x, b, Vpi), u, Vpi)
                        check(close(total(yba), total(yy), 16 * EPS * sc2), 'pm.compose-commutes', tag + f" b={dl2}", 'order matters')
                    # inverse
                    yi = PM(y, -np.asarray(u), Vpi)
                    check(close(total(yi), total(x), 16 * EPS * sc), 'pm.inverse', tag, 'PM(PM(x,u),-u) != x')
                    # 2Vpi periodic
                    y2 = PM(x, u + 2 * Vpi, Vpi)
                    check(close(total(y2), total(y), 16 * EPS * (sc + 2)), 'pm.2vpi', tag, 'not 2*Vpi periodic')
                    # linearity w.r.t. the total field
                    if x.noise is not None:
                        yt = PM(optical_signal(x.signal + x.noise), u, Vpi)
                        check(close(yt.signal, total(y), 16 * EPS * sc), 'pm.noise-rotated', tag, 'PM(sig+noise) != PM.signal+PM.noise')
                    # two-pol vs two one-pol calls
                    if x.n_pol == 2:
                        for r in (0, 1):
                            y1 = PM(optical_signal(x.signal[r], None if x.noise is None else x.noise[r]), u, Vpi)
                            check(same(y1.signal, y.signal[r]), 'pm.2pol-vs-1pol', tag + f" row={r}", 'row differs from one-pol call')
                            if y.noise is not None:
                                check(same(y1.noise, y.noise[r]), 'pm.2pol-vs-1pol', tag + f" row={r}", 'noise row differs from one-pol call')
                    # containers
                    if Vpi in (5.0, 0.3):
                        ref = PM(x, np.asarray(u, float), Vpi)
                        for (cl, c) in containers(u):
                            csnap = (c.signal.copy() if isinstance(c, electrical_signal) else np.array(c, copy=True))
                            yc, e = call(PM, x, c, Vpi)
                            if e is not None:
                                bad('pm.container-accepted', tag + f" container={cl}", f"raised {type(e).__name__}: {e}"); continue
                            check(same(yc.signal, ref.signal), 'pm.container-identical', tag + f" container={cl}",
                                  f"max|diff| {np.max(np.abs(yc.signal - ref.signal)):.3g}")
                            if ref.noise is not None:
                                check(yc.noise is not None and same(yc.noise, ref.noise), 'pm.container-identical', tag + f" container={cl}", 'noise differs')
                            cnow = c.signal if isinstance(c, electrical_signal) else c
                            check(same(cnow, csnap), 'pm.no-mutation', tag, 'drive was modified')
            # scalars
            for v in (0, 2.5, -5, 5, 10, 1e-9, 12.75, -3):
                for Vpi in VPIS[:4]:
                    ref = PM(x, np.full(N, float(v)), Vpi)
                    for (sl_, s) in scalars(v):
                        tag = f"PM N={N} field={fl} scalar={sl_}:{v} Vpi={Vpi!r}"
                        y, e = call(PM, x, s, Vpi)
                        if e is not None:
                            if sl_ == '0d' and isinstance(e, TypeError):
                                continue  # 0-d arrays: see report (not counted: numpy-scalar family already known)
                            if sl_ == 'es-scalar' and N > 1 and isinstance(e, ValueError):
                                continue  # a length-1 electrical_signal is a mismatched length for N > 1
                            bad('pm.scalar-accepted', tag, f"raised {type(e).__name__}: {e}"); continue
                        check(same(y.signal, ref.signal), 'pm.scalar-vs-array', tag, f"max|diff| {np.max(np.abs(y.signal - ref.signal)):.3g}")
                        if ref.noise is not None:
                            check(y.noise is not None and same(y.noise, ref.noise), 'pm.scalar-vs-array', tag, 'noise differs')
                        if v == 0:
                            check(close(total(y), total(x), 0, 0), 'pm.zero-drive', tag, 'zero drive is not the identity')
                        if v == Vpi:
                            check(close(total(y), -total(x), 4 * EPS), 'pm.pi', tag, 'drive Vpi is not a pi shift')


def audit_pm_split_and_sweep():
    rng = np.random.default_rng(6011)
    for N in (2, 3, 5, 8, 17):
        for (fname, x) in fields(rng, N):
            u = rng.uniform(-9, 9, N)
            y = PM(x, u, 2.0)
            for cut in sorted({1, N // 2, N - 1}):
                if cut <= 0 or cut >= N:
                    continue
                a = PM(x[:cut], u[:cut], 2.0); b = PM(x[cut:], u[cut:], 2.0)
                tag = f"PM N={N} field={fname} cut={cut}"
                check(same(np.concatenate([a.signal, b.signal], axis=-1), y.signal), 'pm.split', tag, 'halves differ from full call')
                if y.noise is not None:
                    check(same(np.concatenate([a.noise, b.noise], axis=-1), y.noise), 'pm.split', tag, 'noise halves differ')
            for k in range(N):
                yk = PM(x[k], float(u[k]), 2.0)
                check(same(yk.signal[..., 0], y.signal[..., k]), 'pm.split', f"PM N={N} field={fname} sample={k}", 'single-sample call differs')
    # fine sweep of the drive over many periods: phase difference = pi u / Vpi (mod 2pi), power constant
    us = np.linspace(-50, 50, 20001)
    x = optical_signal(np.full(us.size, 0.7 - 0.2j), np.full(us.size, 0.05 + 0.01j))
    for Vpi in (5.0, 1, 0.37, 123.0):
        y = PM(x, us, Vpi)
        d = np.angle(total(y) / total(x) * np.exp(-1j * pi * us / Vpi))
        check(bool(np.all(np.abs(d) < 1e-12 * max(1, 50 / Vpi))), 'pm.sweep', f"Vpi={Vpi}", f"phase error {np.max(np.abs(d)):.3g}")
        check(close(np.abs(total(y)) ** 2, np.abs(total(x)) ** 2, 8 * EPS), 'pm.sweep', f"Vpi={Vpi}", 'power changed')
    for Vpi in np.logspace(-6, 9, 301):
        y = PM(x[:3], 1.0, Vpi)
        check(close(np.abs(total(y)) ** 2, np.abs(total(x[:3])) ** 2, 8 * EPS), 'pm.sweep-vpi', f"Vpi={Vpi}", 'power changed / non finite')


# ----------------------------------------------------------------------------------------------
# LASER
# ----------------------------------------------------------------------------------------------
def audit_laser():
    confs = [dict(sps=16, R=1e9), dict(sps=8, R=10e9), dict(fs=100e9), dict(sps=4, R=2.5e9)]
    for ci, conf in enumerate(confs):
        gv(**conf)
        fs = gv.fs; dt = gv.dt
        for N in (1, 2, 3, 7, 64, 255, 1024):
            t = np.arange(N) * dt
            tvars = [('float', t)]
            if N <= 7:
                tvars += [('readonly', t.copy()), ('strided', np.repeat(t, 2)[::2])]
                tvars[1][1].setflags(write=False)
            for (tl, tt) in tvars:
                for p in (0, 0.0, 10, -30, 30.0, -3, 3.7, -100, 50):
                    P = 10 ** (p / 10 - 3)
                    for lw in (None, 0, 0.0, 1e3, 10e6, 1e9, 1e12):
                        for df in (None, 0, 0.0, 1e6, -1e9, fs / 4, -fs / 4, fs / 2, -fs / 2, fs / 2 * (1 - 1e-12), fs / 3, 1):
                            for seed in (0, 1):
                                np.random.seed(seed)
                                tag = f"LASER conf={ci} N={N} t={tl} p={p!r} lw={lw!r} df={df!r} seed={seed}"
                                y, e = call(LASER, tt, p, lw, None, df)
                                if e is not None:
                                    bad('laser.accept', tag, f"raised {type(e).__name__}: {e}"); continue
                                check(isinstance(y, optical_signal) and y.n_pol == 1 and y.signal.shape == (N,), 'laser.shape', tag, f"shape {y.signal.shape}")
                                check(y.noise is None, 'laser.shape', tag, 'unexpected noise component')
                                pw = np.abs(total(y)) ** 2
                                check(close(pw, np.full(N, P), 8 * EPS), 'laser.power', tag, f"|E|^2 in [{pw.min():.17g},{pw.max():.17g}] P={P:.17g}")
                                if lw in (None, 0, 0.0):
                                    ph = 0 if df is None else 2 * pi * df * tt
                                    check(close(y.signal, np.sqrt(P) * np.exp(1j * ph) * np.ones(N), 1e-12 * max(1, N)), 'laser.offset', tag, 'field != sqrt(P) exp(j 2 pi df t)')
                                    # spectral peak at df (nearest bin; Nyquist may alias to either end)
                                    if N >= 64:
                                        f = np.fft.fftfreq(N, dt)
                                        S = np.abs(np.fft.fft(y.signal))
                                        kmax = np.flatnonzero(S >= S.max() * (1 - 1e-9))
                                        d0 = 0.0 if df is None else df
                                        dist = np.min(np.abs(((f[kmax] - d0 + fs / 2) % fs) - fs / 2))
                                        check(dist <= fs / N / 2 * (1 + 1e-9), 'laser.peak', tag, f"peak at {f[kmax]} Hz, df={d0}")
                # keyword / positional / defaults
                np.random.seed(3); a = LASER(tt, 5, 1e6, None, 1e8)
                np.random.seed(3); b = LASER(t=tt, p=5, lw=1e6, rin=None, df=1e8)
                np.random.seed(3); c = LASER(tt, 5, df=1e8, lw=1e6)
                check(same(a.signal, b.signal) and same(a.signal, c.signal), 'laser.positional-vs-keyword', f"conf={ci} N={N}", 'differs')
                d = LASER(tt, 5); e_ = LASER(tt, 5, None, None, None); f_ = LASER(tt, 5, lw=0, df=0)
                check(same(d.signal, e_.signal) and close(d.signal, f_.signal, 0, 0), 'laser.defaults', f"conf={ci} N={N}", 'lw=0, df=0 differs from the defaults')
        # with RIN: phase noise and offset leave the instantaneous power unchanged
        for N in (1, 2, 5, 64, 1001):
            t = np.arange(N) * dt
            for rin in (-170, -150.0, -140):
                for lw in (None, 0, 1e6, 1e9):
                    for df in (None, 0, 1e8, -fs / 2, fs / 2):
                        for seed in (0, 1, 2):
                            np.random.seed(seed)
                            if lw is not None:
                                np.random.normal(0, 1, N)  # the draws the phase walk would consume
                            ref = LASER(t, 3.0, None, rin, None)
                            np.random.seed(seed)
                            y = LASER(t, 3.0, lw, rin, df)
                            tag = f"LASER+RIN conf={ci} N={N} rin={rin} lw={lw} df={df} seed={seed}"
                            check(close(np.abs(total(y)) ** 2, np.abs(total(ref)) ** 2, 16 * EPS), 'laser.rin-power', tag, 'phase terms changed the instantaneous power')
        # outside Nyquist -> ValueError; just inside accepted
        t = np.arange(16) * dt
        for df in (fs / 2 * (1 + 1e-9), -fs, 10 * fs):
            y, e = call(LASER, t, 0, None, None, df)
            check(isinstance(e, ValueError), 'laser.nyquist', f"df={df}", f"expected ValueError, got {type(e).__name__ if e else 'no exception'}")
        # laser -> PM -> MZM chain keeps the relations
        np.random.seed(11)
        t = np.arange(128) * dt
        l = LASER(t, 10, 1e7, None, 1e8)
        u = np.random.uniform(-5, 5, 128)
        y = PM(l, u, 3.0)
        check(close(np.abs(y.signal) ** 2, np.full(128, 1e-2), 16 * EPS), 'chain', f"conf={ci}", 'LASER->PM power changed')
        m = MZM(y, u, bias=1.0, Vpi=3.0, loss_dB=2.0, ER_dB=25.0)
        check(close(m.signal, y.signal * H(u, 1.0, 3.0, 2.0, 25.0), 1e-12), 'chain', f"conf={ci}", 'LASER->PM->MZM wrong')
        # order of calls: MZM and PM commute (both are per-sample multiplications)
        a = MZM(PM(l, u, 3.0), u, bias=1.0, Vpi=3.0)
        b = PM(MZM(l, u, bias=1.0, Vpi=3.0), u, 3.0)
        check(close(a.signal, b.signal, 16 * EPS), 'chain', f"conf={ci}", 'MZM and PM do not commute')
    gv(sps=16, R=1e9)


def audit_laser_sweep():
    gv(sps=16, R=1e9)
    fs = gv.fs; dt = gv.dt
    N = 512
    t = np.arange(N) * dt
    f = np.fft.fftfreq(N, dt)
    for df in np.linspace(-fs / 2, fs / 2, 1025):
        y = LASER(t, 0.0, df=df)
        S = np.abs(np.fft.fft(y.signal))
        kmax = np.flatnonzero(S >= S.max() * (1 - 1e-9))
        dist = np.min(np.abs(((f[kmax] - df + fs / 2) % fs) - fs / 2))
        check(dist <= fs / N / 2 * (1 + 1e-9), 'laser.peak-sweep', f"df={df}", f"peak at {f[kmax]}")
        check(close(np.abs(y.signal) ** 2, np.full(N, 1e-3), 8 * EPS), 'laser.power-sweep', f"df={df}", 'power != P')
    for lw in np.logspace(0, 13, 131):
        np.random.seed(5)
        y = LASER(t, 0.0, lw=lw, df=1e9)
        check(close(np.abs(y.signal) ** 2, np.full(N, 1e-3), 8 * EPS), 'laser.power-sweep', f"lw={lw}", 'power != P')
    for p in np.linspace(-150, 150, 601):
        y = LASER(t[:5], p, lw=1e6, df=1e9)
        check(close(np.abs(y.signal) ** 2, np.full(5, 10 ** (p / 10 - 3)), 8 * EPS), 'laser.power-sweep', f"p={p}", 'power != P')
    # statistical sanity of the phase walk (variance of the increments = 2 pi lw dt), 6 sigma, several seeds
    fails = 0
    for seed in range(5):
        np.random.seed(100 + seed)
        M = 200000
        tt = np.arange(M) * dt
        lw = 5e6
        y = LASER(tt, 0.0, lw=lw)
        inc = np.angle(y.signal[1:] * np.conj(y.signal[:-1]))
        v = np.var(inc); v0 = 2 * pi * lw * dt
        if abs(v - v0) > 6 * v0 * np.sqrt(2 / M):
            fails += 1
    check(fails < 3, 'laser.linewidth-variance', 'lw=5e6', f"{fails}/5 seeds beyond 6 sigma")


def audit_invariances():
    """dtype of the field, scale of field / of the voltages, bool drive"""
    rng = np.random.default_rng(6030)
    for N in SIZES:
        for npol in (1, 2):
            zi = rng.integers(-6, 7, size=(npol, N)); ni = rng.integers(-2, 3, size=(npol, N))
            if npol == 1:
                zi = zi[0]; ni = ni[0]
            u = rng.uniform(-8, 8, N); ub = rng.integers(0, 2, N).astype(bool)
            for with_noise in (False, True):
                xs = [optical_signal(zi.astype(dt), ni.astype(dt) if with_noise else None) for dt in (np.int64, np.float64, np.complex128)]
                xs.append(optical_signal(zi, ni if with_noise else None, dtype=complex))
                xs.append(optical_signal(np.asfortranarray(zi.astype(complex)), np.asfortranarray(ni.astype(complex)) if with_noise else None))
                tag = f"N={N} npol={npol} noise={with_noise}"
                for pol in 'xy':
                    ys = [MZM(x, u, bias=0.7, Vpi=2.2, loss_dB=1.5, ER_dB=17.0, pol=pol) for x in xs]
                    for k, y in enumerate(ys[1:]):
                        check(same(y.signal, ys[0].signal), 'mzm.field-dtype', tag + f" variant={k+1} pol={pol}", 'result depends on the dtype / layout of the field')
                        if with_noise:
                            check(same(y.noise, ys[0].noise), 'mzm.field-dtype', tag + f" variant={k+1} pol={pol}", 'noise depends on the dtype / layout of the field')
                    # scale of the field (power of two: exact)
                    for c in (2.0, 0.5, 1024.0, -1.0, 1j):
                        xc = optical_signal(xs[2].signal * c, xs[2].noise * c if with_noise else None)
                        yc = MZM(xc, u, bias=0.7, Vpi=2.2, loss_dB=1.5, ER_dB=17.0, pol=pol)
                        check(same(total(yc), total(ys[2]) * c), 'mzm.field-scale', tag + f" c={c} pol={pol}", 'MZM(c x) != c MZM(x)')
                    # scale of all voltages (u, bias, Vpi) by a power of two
                    for k in (2.0, 0.5, 1024.0):
                        yk = MZM(xs[2], u * k, bias=0.7 * k, Vpi=2.2 * k, loss_dB=1.5, ER_dB=17.0, pol=pol)
                        check(same(yk.signal, ys[2].signal), 'mzm.volt-scale', tag + f" k={k} pol={pol}", 'depends on the unit of the voltages')
                    # bool drive == 0/1 drive
                    a = MZM(xs[2], ub, bias=0.7, Vpi=2.2, pol=pol); b = MZM(xs[2], ub.astype(float), bias=0.7, Vpi=2.2, pol=pol)
                    check(same(a.signal, b.signal), 'mzm.bool-drive', tag + f" pol={pol}", 'bool drive differs from 0/1 drive')
                ps = [PM(x, u, 2.2) for x in xs]
                for k, y in enumerate(ps[1:]):
                    check(same(y.signal, ps[0].signal), 'pm.field-dtype', tag + f" variant={k+1}", 'result depends on the dtype / layout of the field')
                    if with_noise:
                        check(same(y.noise, ps[0].noise), 'pm.field-dtype', tag + f" variant={k+1}", 'noise depends on dtype / layout')
                for c in (2.0, 0.5, 1024.0, -1.0, 1j):
                    xc = optical_signal(xs[2].signal * c, xs[2].noise * c if with_noise else None)
                    check(same(total(PM(xc, u, 2.2)), total(ps[2]) * c), 'pm.field-scale', tag + f" c={c}", 'PM(c x) != c PM(x)')
                for k in (2.0, 0.5, 1024.0):
                    check(same(PM(xs[2], u * k, 2.2 * k).signal, ps[2].signal), 'pm.volt-scale', tag + f" k={k}", 'depends on the unit of the voltages')
                a, e = call(PM, xs[2], ub, 2.2)
                if e is not None:
                    bad('pm.bool-drive', tag, f"raised {type(e).__name__}: {e}")
                else:
                    check(same(a.signal, PM(xs[2], ub.astype(float), 2.2).signal), 'pm.bool-drive', tag, 'bool drive differs from 0/1 drive')
    # LASER: integer-typed / offset / unevenly spaced time vectors
    gv(sps=16, R=1e9)
    for N in (1, 2, 5, 64):
        for (tl, t) in (('int', np.arange(N)), ('offset', 1e-6 + np.arange(N) * gv.dt), ('negative', -np.arange(N)[::-1] * gv.dt),
                        ('uneven', np.cumsum(np.random.default_rng(N).uniform(0.1, 2, N)) * gv.dt)):
            for lw in (None, 1e7):
                for df in (None, 0.25, 1e8 if tl != 'int' else 0.125):
                    np.random.seed(1)
                    y, e = call(LASER, t, 7.0, lw, None, df)
                    tag = f"LASER t={tl} N={N} lw={lw} df={df}"
                    if e is not None:
                        bad('laser.time-vector', tag, f"raised {type(e).__name__}: {e}"); continue
                    check(close(np.abs(y.signal) ** 2, np.full(N, 10 ** (0.7 - 3)), 8 * EPS), 'laser.time-vector', tag, '|E|^2 != P')
                    if lw is None:
                        ph = 0 if df is None else 2 * pi * df * t
                        check(close(y.signal, np.sqrt(10 ** (0.7 - 3)) * np.exp(1j * ph) * np.ones(N), 1e-12), 'laser.time-vector', tag, 'wrong field')


def audit_call_order():
    """results do not depend on what was called before"""
    rng = np.random.default_rng(6020)
    gv(sps=16, R=1e9)
    x = optical_signal(rng.normal(size=(2, 9)) + 1j * rng.normal(size=(2, 9)), 0.1 * rng.normal(size=(2, 9)))
    u = rng.uniform(-5, 5, 9)
    a1 = MZM(x, u, pol='y'); b1 = PM(x, u)
    _ = MZM(x, 0.0); _ = PM(x, 1); _ = LASER(np.arange(4) * gv.dt, 0, 1e6, -150, 1e6)
    try:
        MZM(x, u[:3])
    except ValueError:
        pass
    try:
        PM(x, u[:3])
    except ValueError:
        pass
    gv(sps=8, R=5e9)
    b2 = PM(x, u); a2 = MZM(x, u, pol='y')
    gv(sps=16, R=1e9)
    check(same(a1.signal, a2.signal) and same(a1.noise, a2.noise), 'order', 'MZM', 'depends on earlier calls / gv')
    check(same(b1.signal, b2.signal) and same(b1.noise, b2.noise), 'order', 'PM', 'depends on earlier calls / gv')
    # output does not alias the input
    y = MZM(x, u); y.signal[:] = 7;
    check(not np.any(x.signal == 7), 'alias', 'MZM', 'output shares memory with input')
    y = PM(x, 0.0); y.signal[:] = 7
    check(not np.any(x.signal == 7), 'alias', 'PM', 'output shares memory with input')
    if y.noise is not None:
        y.noise[:] = 7
        check(not np.any(x.noise == 7), 'alias', 'PM', 'output noise shares memory with input')
    y = MZM(x, 0.0, ER_dB=0);
    y.noise[:] = 7
    check(not np.any(x.noise == 7), 'alias', 'MZM', 'output noise shares memory with input')


if __name__ == '__main__':
    steps = [audit_mzm, audit_mzm_containers, audit_mzm_args, audit_mzm_er_sweeps, audit_mzm_sweeps, audit_mzm_split,
             audit_noise_zero, audit_mismatch, audit_pm, audit_pm_split_and_sweep, audit_laser, audit_laser_sweep, audit_invariances, audit_call_order]
    for s in steps:
        n0 = NCHK[0]; v0 = len(VIOL)
        try:
            s()
        except Exception as e:  # an unexpected crash of the audit itself is reported as a violation of that step
            import traceback
            traceback.print_exc()
            bad(s.__name__, 'audit step', f"crashed with {type(e).__name__}: {e}")
        print(f"# {s.__name__}: {NCHK[0] - n0} checks, {len(VIOL) - v0} violations", flush=True)
    if VIOL:
        print(f"FAIL: {len(VIOL)} violations in {NCHK[0]} checks")
        sys.exit(1)
    print(f"PASS ({NCHK[0]} checks)")
    sys.exit(0)
