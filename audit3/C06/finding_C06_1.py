"""C06: "mismatched lengths raise ValueError" - MZM accepts a length-1 ndarray / electrical_signal drive for a 5-sample field."""
import sys
import numpy as np
from opticomlib import optical_signal, electrical_signal
from opticomlib.devices import MZM, PM

x = optical_signal(np.ones(5, complex))          # 5 samples
fail = 0
for name, drive in (('ndarray', np.array([2.0])), ('electrical_signal', electrical_signal([2.0]))):   # 1 sample
    for dev in (PM, MZM):
        try:
            y = dev(x, drive)
            print(f"{dev.__name__}(len 5, {name} len 1): expected ValueError, got an output of length {y.len()}")
            fail = 1
        except ValueError as e:
            print(f"{dev.__name__}(len 5, {name} len 1): ValueError as expected")
sys.exit(fail)
