import sys, os
if sys.path and os.path.abspath(sys.path[0] or '.') == os.path.dirname(os.path.abspath(__file__)):
    del sys.path[0]
import warnings, itertools, signal as _sig
warnings.filterwarnings('ignore')
import numpy as np
import opticomlib
from opticomlib import optical_signal, gv
from opticomlib.devices import DM, FIBER

EPS = np.finfo(float).eps
viol = []
nchecks = 0


def report(clause, desc, detail):
    line = f'VIOLATION [{clause}] {desc}: {detail}'
    if len(viol) < 300:
        print(line, flush=True)
    viol.append(line)


class _TO(Exception):
    pass


def _alarm(*a):
    raise _TO()


_sig.signal(_sig.SIGALRM, _alarm)


def guarded(clause, desc, fn, secs=10):
    """run fn() with a timeout; loud exceptions inside the domain are reported"""
    _sig.alarm(secs)
    try:
        return fn()
    except _TO:
        report(clause, desc, 'TIMEOUT')
    except Exception as e:  # loud failure
        report(clause, desc, f'raised {type(e).__name__}: {e}')
    finally:
        _sig.alarm(0)
    return None


def fib(x, L, **kw):
    kw.setdefault('gamma', 0)
    return FIBER(x, L, **kw)


def close(clause, desc, a, b, tol):
    """a, b arrays; relative to the largest magnitude"""
    global nchecks
    nchecks += 1
    a = np.asarray(a); b = np.asarray(b)
    if a.shape != b.shape:
        report(clause, desc, f'shape {a.shape} vs {b.shape}')
        return False
    scale = max(np.abs(b).max(initial=0), np.abs(a).max(initial=0), 1e-300)
    if not (np.all(np.isfinite(a)) and np.all(np.isfinite(b))):
        report(clause, desc, 'non-finite values')
        return False
    err = np.abs(a - b).max(initial=0) / scale
    if not err <= tol:
        report(clause, desc, f'rel err {err:.3e} > tol {tol:.1e}')
        return False
    return True


def Href(N, fs, D=0.0, alphaL_dB=0.0, b3L=0.0):
    """exp(-alpha L/2 - j D w^2/2 - j b3L w^3/6), D in ps^2, b3L in ps^3, on the fft grid"""
    w = 2 * np.pi * np.fft.fftfreq(N) * fs * 1e-12  # rad/ps
    a = alphaL_dB * np.log(10) / 10
    return np.exp(-a / 2 - 0.5j * D * w ** 2 - 1j / 6 * b3L * w ** 3)


def phase_tol(N, fs, D=0.0, b3L=0.0, n=1):
    wmax = np.pi * fs * 1e-12
    ph = abs(D) * wmax ** 2 / 2 + abs(b3L) * wmax ** 3 / 6
    return n * (2e-12 + 16 * EPS * ph + 8 * EPS * np.log2(max(N, 2)))


def apply_ref(sig, H):
    return np.fft.ifft(np.fft.fft(sig, axis=-1) * H, axis=-1)


def mk(rng, N, npol, kind='complex128'):
    shape = (N,) if npol == 1 else (2, N)
    if kind == 'complex128':
        return rng.normal(size=shape) + 1j * rng.normal(size=shape)
    if kind == 'float64':
        return rng.normal(size=shape)
    if kind == 'int64':
        return rng.integers(-5, 6, size=shape).astype(np.int64)
    raise ValueError(kind)


def layout_ok(clause, desc, x, y):
    global nchecks
    nchecks += 1
    if not isinstance(y, optical_signal):
        report(clause, desc, f'output type {type(y)}'); return False
    if y.signal.shape != x.signal.shape:
        report(clause, desc, f'shape {x.signal.shape} -> {y.signal.shape}'); return False
    if y.n_pol != x.n_pol or y.len() != x.len():
        report(clause, desc, f'n_pol/len {x.n_pol},{x.len()} -> {y.n_pol},{y.len()}'); return False
    return True


def energy(sig):
    return np.sum(np.abs(sig) ** 2, axis=-1)


# ----------------------------------------------------------------------------------------------
FS_LIST = [16e9, 1e9, 40e9, 1e12, 3.3e10, 1e6]
D_LIST = [0, 0.0, 1, -1, 1e-3, 17.5, -17.5, 4000, -4000, 1e5, -1e5, 1e7]
SMALL_N = [1, 2, 3, 4, 5, 6, 7, 8, 9, 15, 16, 17, 31, 32, 33, 63, 64, 65, 127, 128, 129]


def set_fs(fs):
    gv(sps=16, fs=fs)
    assert gv.fs == fs


def check_DM_core(rng, N, npol, D, fs, kind='complex128', tag=''):
    set_fs(fs)
    raw = mk(rng, N, npol, kind)
    x = optical_signal(raw)
    before = x.signal.copy()
    desc = f'{tag}N={N} npol={npol} D={D!r} fs={fs:g} dtype={kind}'
    tol = phase_tol(N, fs, D)
    y = guarded('C1 DM filter', desc, lambda: DM(x, D))
    if y is None:
        return
    layout_ok('C9 layout DM', desc, x, y)
    if not np.array_equal(x.signal, before):
        report('R input mutated DM', desc, 'input changed')
    # C1 reference
    close('C1 DM filter', desc, y.signal, apply_ref(raw, Href(N, fs, D)), tol)
    # C2 energy (exact -> roundoff)
    close('C2 DM energy', desc, energy(y.signal), energy(raw), 1e-12 + 8 * EPS * np.log2(max(N, 2)))
    # C3 round trip
    z = guarded('C3 DM(-D) DM(D)', desc, lambda: DM(y, -D))
    if z is not None:
        close('C3 DM(-D) DM(D)', desc, z.signal, raw, 2 * tol)
        layout_ok('C9 layout DM', desc + ' roundtrip', x, z)
    # C8 retH
    r = guarded('C8 retH', desc, lambda: DM(x, D, retH=True))
    if r is not None:
        y2, H = r
        close('C8 retH out', desc, y2.signal, y.signal, 0)
        H = np.asarray(H)
        if H.shape != (N,):
            report('C8 retH', desc, f'H shape {H.shape}')
        else:
            # returned H lives on the shifted grid w(shift=True)
            wS = x.w(shift=True)
            if not np.array_equal(wS, np.fft.fftshift(x.w())):
                report('C8 retH', desc, 'w(shift) grid mismatch')
            close('C8 retH applied', desc, np.fft.ifft(np.fft.ifftshift(H) * np.fft.fft(raw, axis=-1), axis=-1), y.signal, tol)
            close('C8 retH value', desc, H, np.exp(-0.5j * (D * 1e-24) * wS ** 2), tol)
        r3 = guarded('C8 retH', desc + ' retH kw False', lambda: DM(x, D, retH=False))
        if r3 is not None:
            close('C8 retH False', desc, r3.signal, y.signal, 0)
    return x, y


def check_DM_additive(rng, N, npol, D1, D2, fs):
    set_fs(fs)
    raw = mk(rng, N, npol)
    x = optical_signal(raw)
    desc = f'N={N} npol={npol} D1={D1!r} D2={D2!r} fs={fs:g}'
    tol = phase_tol(N, fs, abs(D1) + abs(D2), n=3)

    def f():
        a = DM(DM(x, D2), D1)
        b = DM(x, D1 + D2)
        c = DM(DM(x, D1), D2)
        return a, b, c
    r = guarded('C4 DM additive', desc, f)
    if r is None:
        return
    a, b, c = r
    close('C4 DM additive', desc, a.signal, b.signal, tol)
    close('C4 DM commutes', desc, a.signal, c.signal, tol)
    layout_ok('C9 layout DM', desc, x, a)


def check_FIBER(rng, N, npol, L, alpha, b2, b3, fs, kind='complex128', Ls=None):
    set_fs(fs)
    raw = mk(rng, N, npol, kind)
    x = optical_signal(raw)
    before = x.signal.copy()
    desc = f'N={N} npol={npol} L={L!r} alpha={alpha!r} b2={b2!r} b3={b3!r} fs={fs:g} dtype={kind}'
    tol = phase_tol(N, fs, b2 * L, b3 * L, n=2)
    y = guarded('C10 FIBER filter', desc, lambda: fib(x, L, alpha=alpha, beta_2=b2, beta_3=b3))
    if y is None:
        return
    layout_ok('C9 layout FIBER', desc, x, y)
    if not np.array_equal(x.signal, before):
        report('R input mutated FIBER', desc, 'input changed')
    close('C10 FIBER filter', desc, y.signal, apply_ref(raw, Href(N, fs, b2 * L, alpha * L, b3 * L)), tol)
    # C7 power per polarisation
    pin = np.mean(np.abs(raw) ** 2, axis=-1)
    pout = np.mean(np.abs(y.signal) ** 2, axis=-1)
    exp_p = pin * 10 ** (-alpha * L / 10)
    if np.all(exp_p > 1e-290):
        close('C7 power', desc, pout, exp_p, 1e-12 + 16 * EPS * (1 + alpha * L))
        close('C7 power()', desc, np.atleast_1d(y.power('signal')), np.atleast_1d(x.power('signal') * 10 ** (-alpha * L / 10)), 1e-12 + 16 * EPS * (1 + alpha * L))
    # C5 FIBER(L,b2) == DM(b2*L)
    if alpha == 0 and b3 == 0:
        d = guarded('C5 FIBER=DM', desc, lambda: DM(x, b2 * L))
        if d is not None:
            close('C5 FIBER=DM', desc, y.signal, d.signal, tol)
    # C6 two spans
    if Ls is None:
        Ls = [(L / 2, L / 2), (L * 0.25, L * 0.75), (L * 0.999, L * 0.001)]
    for L1, L2 in Ls:
        if not (L1 > 0 and L2 > 0):
            continue
        kw = dict(alpha=alpha, beta_2=b2, beta_3=b3)
        z = guarded('C6 two spans', desc + f' L1={L1!r} L2={L2!r}', lambda: fib(fib(x, L1, **kw), L2, **kw))
        o = guarded('C6 two spans', desc + f' L1+L2', lambda: fib(x, L1 + L2, **kw))
        if z is not None and o is not None:
            ok = close('C6 two spans', desc + f' L1={L1!r} L2={L2!r}', z.signal, o.signal, tol + 16 * EPS * alpha * L)
            layout_ok('C9 layout FIBER', desc + ' two spans', x, z)
    return x, y


def main():
    rng = np.random.default_rng(20260927)

    # ---------- exhaustive small cases: DM
    for N in SMALL_N:
        for npol in (1, 2):
            for D in D_LIST:
                fs_choices = FS_LIST if N <= 9 else [16e9, 1e12]
                for fs in fs_choices:
                    check_DM_core(rng, N, npol, D, fs)
    for kind in ('float64', 'int64'):
        for N in (1, 2, 3, 8, 9, 64):
            for npol in (1, 2):
                for D in (0, 17.5, -4000):
                    check_DM_core(rng, N, npol, D, 16e9, kind)
    for N in (1, 2, 3, 4, 5, 16, 17, 64, 129):
        for npol in (1, 2):
            for D1, D2 in itertools.product([0, 1, -1, 250.5, -4000, 1e5], repeat=2):
                check_DM_additive(rng, N, npol, D1, D2, 16e9)
            check_DM_additive(rng, N, npol, 300, -300, 1e12)
            check_DM_additive(rng, N, npol, 1e-6, 2e-6, 1e12)

    # ---------- exhaustive small cases: FIBER gamma=0
    for N in (1, 2, 3, 4, 5, 7, 8, 16, 17, 64, 65):
        for npol in (1, 2):
            for L in (1e-6, 0.5, 1, 1.0, 50, 80.5, 1000):
                for alpha in (0, 0.0, 0.2, 3.0):
                    for b2 in (0, -20, 20.5):
                        for b3 in (0, 0.1, -0.1):
                            if N > 8 and (L in (1e-6, 1.0) or alpha == 0.0 and isinstance(alpha, float)):
                                continue
                            check_FIBER(rng, N, npol, L, alpha, b2, b3, 16e9 if N != 7 else 1e12)
    for kind in ('float64', 'int64'):
        for N in (1, 2, 5, 32):
            for npol in (1, 2):
                check_FIBER(rng, N, npol, 10, 0.2, -20, 0.1, 16e9, kind)
    # extreme loss / length / integer arguments
    for N, npol in ((4, 1), (5, 2), (16, 2)):
        check_FIBER(rng, N, npol, 1, 50, 0, 0, 16e9)
        check_FIBER(rng, N, npol, 100, 1, -20, 0, 16e9)      # 100 dB
        check_FIBER(rng, N, npol, 3, 1, -20, 1, 40e9)        # all ints
        check_FIBER(rng, N, npol, 1e-12, 0.2, -20, 0.1, 16e9)
        check_FIBER(rng, N, npol, 1e4, 0.0, 20, -0.1, 1e9)
        check_FIBER(rng, N, npol, 2000, 1.0, 20, -0.1, 16e9)  # 2000 dB -> tiny but representable amplitude
        check_FIBER(rng, N, npol, 7, 0.3, 0, 0.5, 1e12)

    # ---------- seeded random cases
    for seed in range(400):
        r = np.random.default_rng(seed)
        N = int(r.choice([1, 2, 3, int(r.integers(4, 40)), int(r.integers(40, 700)), 1024, 1000, 997]))
        npol = int(r.integers(1, 3))
        fs = float(10 ** r.uniform(6, 12.3))
        wmax = np.pi * fs * 1e-12
        # dispersions sized so that the band-edge phase spans 1e-3 .. 1e4 rad
        D = float(r.choice([-1, 1]) * 10 ** r.uniform(-3, 4) * 2 / wmax ** 2)
        check_DM_core(r, N, npol, D, fs, tag=f'seed={seed} ')
        D2 = float(r.choice([-1, 1]) * 10 ** r.uniform(-3, 4) * 2 / wmax ** 2)
        check_DM_additive(r, N, npol, D, D2, fs)
        L = float(10 ** r.uniform(-3, 3))
        alpha = float(r.choice([0, r.uniform(0, 1), 10 ** r.uniform(-3, 1)]))
        b2 = D / L if r.random() < 0.8 else 0.0
        b3 = float(r.choice([0, r.choice([-1, 1]) * 10 ** r.uniform(-3, 3) * 6 / wmax ** 3 / L]))
        u = float(r.uniform(0.01, 0.99))
        check_FIBER(r, N, npol, L, alpha, b2, b3, fs, Ls=[(L * u, L * (1 - u)), (L * (1 - u), L * u)])

    # ---------- RELATIONS
    relations(rng)

    print(f'{nchecks} checks')
    if viol:
        print(f'{len(viol)} violations')
        sys.exit(1)
    print('PASS')
    sys.exit(0)


def relations(rng):
    set_fs(16e9)
    TOL = 1e-11
    for N in (1, 2, 3, 4, 5, 8, 9, 64, 65):
        a = mk(rng, N, 1); b = mk(rng, N, 1)
        two = optical_signal(np.array([a, b]))
        xa, xb = optical_signal(a), optical_signal(b)
        desc = f'N={N}'
        D = 1234.5
        FK = dict(alpha=0.2, beta_2=-20, beta_3=0.1)
        # (1) two-polarisation call vs two one-polarisation calls
        y2 = guarded('R 2pol vs 2x1pol DM', desc, lambda: DM(two, D))
        if y2 is not None:
            close('R 2pol vs 2x1pol DM', desc, y2.signal[0], DM(xa, D).signal, 0)
            close('R 2pol vs 2x1pol DM', desc, y2.signal[1], DM(xb, D).signal, 0)
        f2 = guarded('R 2pol vs 2x1pol FIBER', desc, lambda: fib(two, 10, **FK))
        if f2 is not None:
            close('R 2pol vs 2x1pol FIBER', desc, f2.signal[0], fib(xa, 10, **FK).signal, 0)
            close('R 2pol vs 2x1pol FIBER', desc, f2.signal[1], fib(xb, 10, **FK).signal, 0)
        # n_pol=2 duplication of a 1D field
        dup = optical_signal(a, n_pol=2)
        yd = guarded('R n_pol=2 duplicate DM', desc, lambda: DM(dup, D))
        if yd is not None:
            close('R n_pol=2 duplicate DM', desc, yd.signal, np.array([DM(xa, D).signal] * 2), 0)
        # (1) noise = 0 vs no noise ; noise present (signal part must be unaffected)
        for npol, raw in ((1, a), (2, np.array([a, b]))):
            x0 = optical_signal(raw)
            for nm, nz in (('zeros', np.zeros_like(raw)), ('zeros-real', np.zeros(raw.shape)), ('zeros-int', np.zeros(raw.shape, dtype=int)), ('random', mk(rng, N, npol))):
                xn = optical_signal(raw, nz)
                d = desc + f' npol={npol} noise={nm}'
                yn = guarded('R noise vs none DM', d, lambda: DM(xn, D))
                if yn is not None:
                    close('R noise vs none DM', d, yn.signal, DM(x0, D).signal, 0)
                    layout_ok('C9 layout DM', d, xn, yn)
                    if yn.noise is None or yn.noise.shape != xn.noise.shape:
                        report('C9 layout DM noise', d, f'noise layout {None if yn.noise is None else yn.noise.shape}')
                yn = guarded('R noise vs none DM retH', d, lambda: DM(xn, D, True)[0])
                if yn is not None:
                    close('R noise vs none DM retH', d, yn.signal, DM(x0, D).signal, 0)
                fn = guarded('R noise vs none FIBER', d, lambda: fib(xn, 10, **FK))
                if fn is not None:
                    close('R noise vs none FIBER', d, fn.signal, fib(x0, 10, **FK).signal, 0)
                    layout_ok('C9 layout FIBER', d, xn, fn)
                    if fn.noise is None or fn.noise.shape != xn.noise.shape:
                        report('C9 layout FIBER noise', d, f'noise layout {None if fn.noise is None else fn.noise.shape}')
                # chain with noise: round trip and two spans still exact on the signal part
                z = guarded('C3 with noise', d, lambda: DM(DM(xn, D), -D))
                if z is not None:
                    close('C3 with noise', d, z.signal, raw, TOL)
                z = guarded('C6 with noise', d, lambda: fib(fib(xn, 4, **FK), 6, **FK))
                if z is not None and fn is not None:
                    close('C6 with noise', d, z.signal, fn.signal, TOL)

        # (1) positional vs keyword vs default
        for x in (xa, two):
            ref = DM(x, D).signal
            close('R kw DM', desc, DM(input=x, D=D).signal, ref, 0)
            close('R kw DM', desc, DM(x, D=D, retH=False).signal, ref, 0)
            close('R kw DM', desc, DM(x, D, True)[0].signal, ref, 0)
            ref = fib(x, 10, **FK).signal
            close('R kw FIBER', desc, FIBER(x, 10, 0.2, -20, 0.1, 0).signal, ref, 0)
            close('R kw FIBER', desc, FIBER(x, 10, 0.2, -20, 0.1).signal, ref, 0)  # gamma left at its default 0.0
            close('R kw FIBER', desc, FIBER(input=x, length=10, alpha=0.2, beta_2=-20, beta_3=0.1, gamma=0.0, phi_max=0.05, show_progress=False).signal, ref, 0)
            close('R kw FIBER', desc, FIBER(x, 10, 0.2, -20, 0.1, 0.0, 5.0).signal, ref, 0)  # phi_max must not matter
            close('R default FIBER', desc, FIBER(x, 10).signal, x.signal, 1e-13)  # all defaults: identity
            close('R default FIBER', desc, FIBER(x, 10, beta_2=-20).signal, DM(x, -200).signal, TOL)
            close('R default FIBER', desc, FIBER(x, 10, alpha=0.2).signal, x.signal * 10 ** (-0.2 * 10 / 20), 1e-13)
            close('R default FIBER', desc, FIBER(x, 10, beta_3=0.1).signal, apply_ref(x.signal, Href(N, gv.fs, 0, 0, 1.0)), TOL)
            r = guarded('R show_progress FIBER', desc, lambda: FIBER(x, 10, 0.2, -20, 0.1, show_progress=True))
            if r is not None:
                close('R show_progress FIBER', desc, r.signal, ref, 0)

        # (1)/(2) argument types: python int/float, numpy float64, 0-d array, length-1 array
        for x in (xa, two):
            ref = DM(x, 250.0).signal
            for nm, Dv in (('int', 250), ('np.float64', np.float64(250)), ('0-d array', np.array(250.0)), ('0-d int array', np.array(250)),
                           ('len-1 array', np.array([250.0])), ('np.int64', np.int64(250)), ('np.float32', np.float32(250)), ('bool*250', 250 * True)):
                d = desc + f' D as {nm}'
                keep = np.array(Dv).copy()
                try:
                    y = DM(x, Dv)
                except TypeError:
                    continue  # refused numpy scalar: known, not reported
                except Exception as e:
                    report('R D type', d, f'raised {type(e).__name__}: {e}'); continue
                close('R D type', d, y.signal, ref, 0 if nm != 'np.float32' else 1e-6)
                if not np.array_equal(np.array(Dv), keep):
                    report('R D type', d, 'D argument modified')
                try:
                    y2 = DM(x, Dv)  # repeated call
                    close('R repeated call DM', d, y2.signal, y.signal, 0)
                    yH, H = DM(x, Dv, retH=True)
                    close('R D type retH', d, yH.signal, ref, 0 if nm != 'np.float32' else 1e-6)
                    if np.asarray(H).shape != (N,):
                        report('C8 retH', d, f'H shape {np.asarray(H).shape}')
                except Exception as e:
                    report('R D type', d, f'raised {type(e).__name__}: {e}')
            ref = fib(x, 10.0, alpha=1.0, beta_2=-20.0, beta_3=1.0).signal
            for nm, conv in (('int', int), ('np.float64', np.float64), ('0-d array', np.array), ('len-1 array', lambda v: np.array([float(v)])), ('np.int64', np.int64)):
                for which in ('length', 'alpha', 'beta_2', 'beta_3', 'gamma', 'all'):
                    kw = dict(length=10.0, alpha=1.0, beta_2=-20.0, beta_3=1.0, gamma=0.0)
                    for k in kw:
                        if which in (k, 'all'):
                            kw[k] = conv(kw[k])
                    d = desc + f' FIBER {which} as {nm}'
                    _sig.alarm(10)
                    try:
                        y = FIBER(x, **kw)
                    except TypeError:
                        continue
                    except _TO:
                        report('R FIBER arg type', d, 'TIMEOUT'); continue
                    except Exception as e:
                        report('R FIBER arg type', d, f'raised {type(e).__name__}: {e}'); continue
                    finally:
                        _sig.alarm(0)
                    close('R FIBER arg type', d, y.signal, ref, 0)
            for g in (0, 0.0, -0.0, False, np.float64(0), np.int64(0), np.array(0.0)):
                d = desc + f' gamma={g!r}'
                try:
                    y = guarded('R gamma zero forms', d, lambda: FIBER(x, 10.0, 1.0, -20.0, 1.0, g))
                except TypeError:
                    continue
                if y is not None:
                    close('R gamma zero forms', d, y.signal, ref, 0)

        # (2) container / dtype / memory layout / read-only / view
        raw2 = np.array([a, b])
        base = DM(optical_signal(raw2), D).signal
        fbase = fib(optical_signal(raw2), 10, **FK).signal
        big = np.zeros((2, 2 * N), dtype=complex); big[:, ::2] = raw2
        ro = raw2.copy(); ro.flags.writeable = False
        variants = {
            'list': raw2.tolist(), 'tuple': tuple(map(tuple, raw2.tolist())), 'F-order': np.asfortranarray(raw2),
            'strided view': big[:, ::2], 'read-only': ro, 'transposed view': np.ascontiguousarray(raw2.T).T,
            'list of arrays': [a, b], 'reversed view twice': raw2[:, ::-1][:, ::-1],
        }
        for nm, v in variants.items():
            d = desc + f' container={nm}'
            x = guarded('R container', d, lambda: optical_signal(v))
            if x is None:
                continue
            y = guarded('R container DM', d, lambda: DM(x, D))
            if y is not None:
                close('R container DM', d, y.signal, base, 0 if nm not in ('F-order', 'strided view', 'transposed view', 'reversed view twice') else 1e-14)
            y = guarded('R container FIBER', d, lambda: fib(x, 10, **FK))
            if y is not None:
                close('R container FIBER', d, y.signal, fbase, 0 if nm not in ('F-order', 'strided view', 'transposed view', 'reversed view twice') else 1e-14)
        # the signal attribute itself made read-only / replaced by a view after construction
        x = optical_signal(raw2); x.signal.flags.writeable = False
        y = guarded('R read-only attr DM', desc, lambda: DM(x, D))
        if y is not None:
            close('R read-only attr DM', desc, y.signal, base, 0)
        y = guarded('R read-only attr FIBER', desc, lambda: fib(x, 10, **FK))
        if y is not None:
            close('R read-only attr FIBER', desc, y.signal, fbase, 0)
        # sliced objects (views created by the class itself)
        if N >= 4:
            xs = optical_signal(raw2)[1:N - 1]
            ys = guarded('R slice DM', desc, lambda: DM(xs, D))
            if ys is not None:
                close('R slice DM', desc, ys.signal, DM(optical_signal(raw2[:, 1:N - 1].copy()), D).signal, 0)
                layout_ok('C9 layout DM', desc + ' slice', xs, ys)
            xk = optical_signal(raw2)[np.int64(1)]
            yk = guarded('R index DM', desc, lambda: DM(xk, D))
            if yk is not None:
                layout_ok('C9 layout DM', desc + ' [k]', xk, yk)
                close('R index DM', desc, yk.signal, raw2[:, 1:2], 1e-13)  # length 1: w = 0, identity
            yk = guarded('R index FIBER', desc, lambda: fib(xk, 10, **FK))
            if yk is not None:
                layout_ok('C9 layout FIBER', desc + ' [k]', xk, yk)
                close('R index FIBER', desc, yk.signal, raw2[:, 1:2] * 10 ** (-0.2 * 10 / 20), 1e-13)
        # dtype: integer-valued field as int64 / float64 / complex128
        iv = rng.integers(-4, 5, size=(2, N))
        outs = [DM(optical_signal(iv.astype(t)), D).signal for t in (np.int64, np.float64, np.complex128)]
        close('R dtype DM', desc, outs[0], outs[2], 0); close('R dtype DM', desc, outs[1], outs[2], 0)
        outs = [fib(optical_signal(iv.astype(t)), 10, **FK).signal for t in (np.int64, np.float64, np.complex128)]
        close('R dtype FIBER', desc, outs[0], outs[2], 0); close('R dtype FIBER', desc, outs[1], outs[2], 0)
        outs = [DM(optical_signal(iv.astype(t), dtype=t), D).signal for t in (np.int64, np.float64, np.complex128)]
        close('R dtype= DM', desc, outs[0], outs[2], 0); close('R dtype= DM', desc, outs[1], outs[2], 0)
        for v in ([1, 0, 1, 1][:max(1, min(N, 4))],):
            s = ' '.join(map(str, v))
            xt = guarded('R text', desc, lambda: optical_signal(s))
            if xt is not None and len(v) > 1:
                y = guarded('R text DM', desc, lambda: DM(xt, D))
                if y is not None:
                    close('R text DM', desc, y.signal, DM(optical_signal(np.array(v, float)), D).signal, 0)
                    close('R bool DM', desc, DM(optical_signal(np.array(v, bool)), D).signal, y.signal, 0)

        # (2) linearity, scale, global phase, time invariance (circular), conjugation symmetry
        x = optical_signal(raw2); x2 = optical_signal(np.array([b, a]))
        c1, c2 = 2.5 - 1j, -0.75j
        for nm, op in (('DM', lambda s: DM(s, D).signal), ('FIBER', lambda s: fib(s, 10, **FK).signal)):
            lin = op(optical_signal(c1 * raw2 + c2 * x2.signal))
            close(f'R linearity {nm}', desc, lin, c1 * op(x) + c2 * op(x2), TOL)
            for sc in (1e-300, 1e-150, 1e-9, 1e9, 1e150, 1e155, 1e300):
                close(f'R scale {nm}', desc + f' scale={sc:g}', op(optical_signal(sc * raw2)) / sc, op(x), 1e-13)
            for k in (1, N // 2, N - 1):
                close(f'R time invariance {nm}', desc + f' shift={k}', op(optical_signal(np.roll(raw2, k, axis=-1))), np.roll(op(x), k, axis=-1), TOL)
            sw = op(x2)
            close(f'R pol swap {nm}', desc, sw, op(x)[::-1], 0)
        # DC offset: a constant field passes with only the loss
        cst = optical_signal(np.full((2, N), 3 - 2j))
        close('R DC DM', desc, DM(cst, D).signal, cst.signal, 1e-13)
        close('R DC FIBER', desc, fib(cst, 10, **FK).signal, cst.signal * 10 ** (-0.1), 1e-13)
        # conj symmetry: DM(-D)(x) == conj(DM(D)(conj x))
        close('R conj DM', desc, DM(optical_signal(raw2.conj()), D).signal.conj(), DM(x, -D).signal, TOL)

        # (2) units: fs -> k fs with D -> D/k^2 gives the same samples; order of gv calls
        ref = DM(x, D).signal
        for k in (0.5, 2.0, 4.0, 1e3, 1e-3):
            set_fs(16e9 * k)
            close('R fs scaling DM', desc + f' k={k}', DM(x, D / k ** 2).signal, ref, TOL)
            close('R fs scaling FIBER', desc + f' k={k}', fib(x, 10, beta_2=D / 10 / k ** 2).signal, ref, TOL)
        for how in ('fs only', 'R,sps', 'sps,fs', 'R,fs', 'int fs', 'attr'):
            if how == 'fs only': gv(fs=32e9)
            elif how == 'R,sps': gv(sps=8, R=4e9)
            elif how == 'sps,fs': gv(sps=4, fs=32e9)
            elif how == 'R,fs': gv(R=1e9, fs=32e9)
            elif how == 'int fs': gv(sps=32, fs=32 * 10 ** 9)
            elif how == 'attr': gv.fs = 32e9
            close('R gv route DM', desc + f' {how}', DM(x, D).signal, apply_ref(raw2, Href(N, 32e9, D)), TOL)
            close('R gv route FIBER', desc + f' {how}', fib(x, 10, **FK).signal, apply_ref(raw2, Href(N, 32e9, -200, 2.0, 1.0)), TOL)
            gv.clean()
        gv(sps=16, fs=16e9, N=3)  # N (slot count) in gv must not matter
        close('R gv.N DM', desc, DM(x, D).signal, ref, 0)
        gv.clean(); set_fs(16e9)

        # (1) split work: L into n equal spans, D into n equal parts
        for n in (2, 3, 7):
            s = x
            for _ in range(n):
                s = fib(s, 10 / n, **FK)
            close('C6 n spans', desc + f' n={n}', s.signal, fbase, TOL)
            s = x
            for _ in range(n):
                s = DM(s, D / n)
            close('C4 n parts', desc + f' n={n}', s.signal, base, TOL)
        # mixed chain: FIBER then DM(-beta2 L) compensates the dispersion, leaving the loss
        s = DM(fib(x, 10, alpha=0.2, beta_2=-20), 200)
        close('C5 FIBER+DM compensation', desc, s.signal, raw2 * 10 ** (-0.1), TOL)
        # order of spans with different parameters commutes (LTI)
        s1 = fib(fib(x, 3, alpha=0.1, beta_2=5), 8, alpha=0.3, beta_2=-20, beta_3=0.2)
        s2 = fib(fib(x, 8, alpha=0.3, beta_2=-20, beta_3=0.2), 3, alpha=0.1, beta_2=5)
        close('R span order', desc, s1.signal, s2.signal, TOL)

    # (3) continuity / monotonicity sweeps
    set_fs(16e9)
    N = 64
    raw = mk(rng, N, 2)
    x = optical_signal(raw)
    Ds = np.concatenate([np.linspace(-5000, 5000, 2001), [0.0, -0.0, 1e-300, -1e-300, 5e-324]])
    prev = None
    for D in Ds[:2001]:
        y = DM(x, float(D)).signal
        close('M sweep D energy', f'D={D}', energy(y), energy(raw), 1e-12)
        if prev is not None:
            step = np.abs(y - prev).max()
            bound = 5.0 * (np.pi * 16e9 * 1e-12) ** 2 / 2 * np.abs(raw).sum(axis=-1).max() * 1.5 + 1e-9
            if not step <= bound:
                report('M sweep D continuity', f'D={D}', f'jump {step:.3e} > {bound:.3e}')
        prev = y
    for D in Ds[2001:]:
        close('M tiny D', f'D={D!r}', DM(x, float(D)).signal, raw, 1e-13)
    # power vs length: monotone non-increasing, equal to formula across the whole range incl. tiny and huge
    Ls = np.concatenate([10 ** np.linspace(-12, 4, 400)])
    prevp = None
    for alpha in (0, 1e-6, 0.2, 5.0):
        prevp = None
        for L in Ls:
            y = guarded('M sweep L', f'L={L} alpha={alpha}', lambda: fib(x, float(L), alpha=alpha, beta_2=-20, beta_3=0.1))
            if y is None:
                continue
            p = np.mean(np.abs(y.signal) ** 2, axis=-1)
            e = np.mean(np.abs(raw) ** 2, axis=-1) * 10 ** (-alpha * L / 10)
            if np.all(e > 1e-280):
                close('M sweep L power', f'L={L} alpha={alpha}', p, e, 1e-12 + 16 * EPS * alpha * L)
            elif not np.all(np.isfinite(p)) or np.any(p > 1e-270):
                report('M sweep L power', f'L={L} alpha={alpha}', f'p={p}')
            if prevp is not None and np.any(p > prevp * (1 + 1e-12)):
                report('M sweep L monotone', f'L={L} alpha={alpha}', f'{prevp} -> {p}')
            prevp = p
    for alpha in np.concatenate([[0, 5e-324, 1e-300], 10 ** np.linspace(-8, 3, 200)]):
        y = guarded('M sweep alpha', f'alpha={alpha}', lambda: fib(x, 2.0, alpha=float(alpha), beta_2=-20))
        if y is None:
            continue
        p = np.mean(np.abs(y.signal) ** 2, axis=-1)
        e = np.mean(np.abs(raw) ** 2, axis=-1) * 10 ** (-alpha * 2.0 / 10)
        if np.all(e > 1e-280):
            close('M sweep alpha power', f'alpha={alpha}', p, e, 1e-12 + 16 * EPS * alpha * 2)
        elif not np.all(np.isfinite(p)) or np.any(p > 1e-270):
            report('M sweep alpha power', f'alpha={alpha}', f'p={p}')
    # beta2, beta3 sweeps through 0 with both signs: symmetric energy, no jump at 0
    for b in np.linspace(-50, 50, 201):
        y = fib(x, 10.0, beta_2=float(b)).signal
        close('M sweep beta2', f'b2={b}', y, DM(x, float(b) * 10.0).signal, 1e-11)
        y3 = fib(x, 10.0, beta_3=float(b)).signal
        close('M sweep beta3', f'b3={b}', y3, apply_ref(raw, Href(N, 16e9, 0, 0, b * 10.0)), 1e-11)
        close('M sweep beta3 energy', f'b3={b}', energy(y3), energy(raw), 1e-12)
    # fs sweep
    for fs in 10 ** np.linspace(3, 14, 111):
        set_fs(float(fs))
        D = 2.0 / (np.pi * fs * 1e-12) ** 2  # 1 rad at band edge
        y = DM(x, D).signal
        close('M sweep fs', f'fs={fs:g}', y, apply_ref(raw, Href(N, fs, D)), 1e-11)
        close('M sweep fs energy', f'fs={fs:g}', energy(y), energy(raw), 1e-12)
        close('M sweep fs FIBER', f'fs={fs:g}', fib(x, 3.0, beta_2=D / 3.0).signal, y, 1e-11)
    # lengths sweep: every N up to 70, and a few large/prime ones
    set_fs(16e9)
    for N in list(range(1, 71)) + [255, 256, 257, 1009, 4096, 4097, 10007]:
        for npol in (1, 2):
            raw = mk(rng, N, npol)
            x = optical_signal(raw)
            y = DM(x, 777.0)
            layout_ok('C9 layout DM', f'N={N} npol={npol}', x, y)
            close('C2 DM energy', f'N={N} npol={npol}', energy(y.signal), energy(raw), 1e-12)
            close('C3 DM(-D) DM(D)', f'N={N} npol={npol}', DM(y, -777.0).signal, raw, 1e-11)
            f = fib(x, 38.85, beta_2=20.0)
            layout_ok('C9 layout FIBER', f'N={N} npol={npol}', x, f)
            close('C5 FIBER=DM', f'N={N} npol={npol}', f.signal, y.signal, 1e-11)
            g = fib(fib(x, 30, alpha=0.2, beta_2=20.0, beta_3=0.3), 8.85, alpha=0.2, beta_2=20.0, beta_3=0.3)
            h = fib(x, 38.85, alpha=0.2, beta_2=20.0, beta_3=0.3)
            close('C6 two spans', f'N={N} npol={npol}', g.signal, h.signal, 1e-11)
            close('C7 power', f'N={N} npol={npol}', np.mean(np.abs(h.signal) ** 2, axis=-1), np.mean(np.abs(raw) ** 2, axis=-1) * 10 ** (-0.2 * 38.85 / 10), 1e-12)


if __name__ == '__main__':
    main()
