import sys; del sys.path[0]
import warnings; warnings.filterwarnings('ignore')
import numpy as np
from opticomlib import optical_signal
from opticomlib.devices import DM, FIBER

# a finite complex field of large magnitude (|E|^2 overflows float64, E itself and its FFT do not)
x = optical_signal(1e155 * np.array([1 + 1j, 2, -1j, 0.5]))
f = FIBER(x, 10, beta_2=-20.0, gamma=0).signal   # linear fibre: must equal DM(beta2*L)
d = DM(x, -200.0).signal
print('expected (DM(beta2*L)):', d)
print('got (FIBER, gamma=0)  :', f)
if not (np.all(np.isfinite(f)) and np.allclose(f / 1e155, d / 1e155, rtol=1e-12, atol=1e-12)):
    print('FAIL: FIBER with gamma=0 is not the linear filter for this field (all NaN)')
    sys.exit(1)
print('ok')
