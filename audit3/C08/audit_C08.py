"""Audit of property C08 (nonlinear FIBER) by relations. Exits 1 if any clause is violated."""
import sys, os
if sys.path and os.path.abspath(sys.path[0]) == os.path.dirname(os.path.abspath(__file__)):
    del sys.path[0]
import signal as _sig
import warnings
import itertools
import numpy as np

warnings.simplefilter("ignore")
from opticomlib import gv, optical_signal
from opticomlib.devices import FIBER

LN = np.log(10) / 10
viol = []
stats = {}


def report(clause, desc, msg):
    line = f"VIOLATION [{clause}] {desc}: {msg}"
    viol.append(line)
    print(line, flush=True)


class TO(Exception):
    pass


def _h(*a):
    raise TO()


_sig.signal(_sig.SIGALRM, _h)


def fib(x, *a, _t=20, **k):
    """FIBER under a timeout; returns output object or the exception."""
    _sig.alarm(_t)
    try:
        return FIBER(x, *a, **k)
    except TO:
        return TO("timeout")
    except Exception as e:  # loud failure
        return e
    finally:
        _sig.alarm(0)


def rel(a, b):
    n = np.linalg.norm(b)
    return np.linalg.norm(np.asarray(a) - np.asarray(b)) / (n if n > 0 else 1.0)


def stat(name, v):
    stats[name] = max(stats.get(name, 0.0), float(v))


# ---------------------------------------------------------------- reference NLSE solver (operator as in the library)
def ref_nlse(A0, L, a_db, b2, b3, g, fs, M):
    """symmetric split step, M uniform steps, loss folded exactly into the nonlinear phase (independent of FIBER)."""
    A = np.array(A0, dtype=complex)
    N = A.shape[-1]
    w = 2 * np.pi * np.fft.fftfreq(N) * fs * 1e-12
    a = a_db * LN
    h = L / M
    Dh = np.exp((-1j / 2 * b2 * w**2 - 1j / 6 * b3 * w**3) * h / 2)
    leff = h if a == 0 else -np.expm1(-a * h) / a
    for _ in range(M):
        A = np.fft.ifft(Dh * np.fft.fft(A))
        A = A * np.exp(1j * g * np.abs(A) ** 2 * leff) * np.exp(-a * h / 2)
        A = np.fft.ifft(Dh * np.fft.fft(A))
    return A


def ref_conv(A0, L, a_db, b2, b3, g, fs):
    M = 2000
    r1 = ref_nlse(A0, L, a_db, b2, b3, g, fs, M)
    r2 = ref_nlse(A0, L, a_db, b2, b3, g, fs, 2 * M)
    return r2 + (r2 - r1) / 3, rel(r1, r2)  # Richardson, and self-consistency


# ---------------------------------------------------------------- inputs
def pulses(N, P, kind, rng, zeros_first=0):
    n = np.arange(N)
    if kind == "gauss":
        x = np.sqrt(P) * np.exp(-0.5 * ((n - N / 2) / max(N / 10, 0.7)) ** 2)
    elif kind == "train":
        bits = rng.integers(0, 2, max(N // 8, 1))
        bits[rng.integers(0, len(bits))] = 1
        x = np.zeros(N)
        for k, b in enumerate(bits):
            x += b * np.exp(-0.5 * ((n - 8 * k - 4) / 1.5) ** 2)
        x = np.sqrt(P) * x / max(x.max(), 1e-300)
    elif kind == "rand":
        x = rng.normal(size=N) + 1j * rng.normal(size=N)
        x = np.sqrt(P) * x / np.abs(x).max()
    elif kind == "smoothrand":
        X = (rng.normal(size=N) + 1j * rng.normal(size=N)) * np.exp(-0.5 * (np.fft.fftfreq(N) / 0.06) ** 2)
        x = np.fft.ifft(X)
        x = np.sqrt(P) * x / np.abs(x).max()
    elif kind == "const":
        x = np.full(N, np.sqrt(P))
    elif kind == "delta":
        x = np.zeros(N)
        x[N // 2] = np.sqrt(P)
    elif kind == "zero":
        x = np.zeros(N)
    else:
        raise ValueError(kind)
    if zeros_first:
        x = np.array(x, dtype=complex if np.iscomplexobj(x) else float)
        x[:zeros_first] = 0
    return x


def check_basic(desc, x, out, L, a_db, tol=1e-9):
    """clauses A (shape, finite) and B (energy per polarisation)"""
    if isinstance(out, Exception):
        report("A-returns", desc, f"raised {type(out).__name__}: {out}")
        return False
    s_in, s_out = x.signal, out.signal
    if s_out.shape != s_in.shape:
        report("A-shape", desc, f"input shape {s_in.shape}, output shape {s_out.shape}")
        return False
    if not np.all(np.isfinite(s_out)):
        report("A-finite", desc, f"{np.sum(~np.isfinite(s_out))} non-finite samples")
        return False
    Ein = np.sum(np.abs(np.atleast_2d(s_in)) ** 2, axis=-1)
    Eout = np.sum(np.abs(np.atleast_2d(s_out)) ** 2, axis=-1)
    exp = Ein * 10 ** (-a_db * L / 10)
    for p in range(len(Ein)):
        if exp[p] == 0:
            if Eout[p] != 0:
                report("B-energy", desc, f"pol {p}: empty input, output energy {Eout[p]}")
                return False
        else:
            e = abs(Eout[p] / exp[p] - 1)
            stat("B energy rel err", e)
            if e > tol:
                report("B-energy", desc, f"pol {p}: expected {exp[p]:.12g}, got {Eout[p]:.12g} (rel {e:.2e})")
                return False
    return True


def spm(s, L, a_db, g):
    a = a_db * LN
    leff = L if a == 0 else -np.expm1(-a * L) / a   # = (1-exp(-a L))/a without cancellation
    return s * np.exp(-a * L / 2) * np.exp(1j * g * np.abs(s) ** 2 * leff)



def spm_check(desc, got, exp, phi, a_db, L):
    """closed-form SPM with loss: the scheme freezes the power over a step, so the phase of a sample lags by at most
    phi_max * alpha'L/2 (sum over steps of gamma*P_k*alpha'*h_k^2/2 with gamma*P_k*h_k <= phi_max): a constant times phi_max"""
    pk = max(np.abs(exp).max(), 1e-300)
    e = np.max(np.abs(got - exp)) / pk          # = phase error of the strongest samples, rounding-safe for tails
    bound = phi * (a_db * LN * L / 2) * 1.02 + 1e-10
    stat("C spm err / phi_max", e / phi)
    if a_db * LN * L > 1e-3:
        stat("C spm err / (phi_max*alpha'L/2)", e / (phi * a_db * LN * L / 2))
    if e > bound:
        report("C-spm-phase", desc, f"deviation from closed form {e:.3e} > phi_max*alpha'L/2 = {bound:.3e}")

rng = np.random.default_rng(8)
FS = [16e9, 320e9]

# ================================================================ 1. exhaustive small cases: A, B, C, E
print("section 1: small cases exhaustively", flush=True)
for fs in FS:
    gv(sps=16, fs=fs)
    for N in [1, 2, 3, 4, 5, 7, 8, 16, 17, 31, 32]:
        for kind in ["gauss", "rand", "const", "delta", "zero", "train"]:
            for zf in [0, 1, N // 2]:
                if zf >= N and N > 1:
                    continue
                for (L, a_db, g, P, phi) in [
                    (100, 0.5, 0.2, 0.5, 0.1),
                    (100, 0.0, 0.2, 0.5, 0.1),
                    (100, 0.5, 5.0, 0.02, 0.05),
                    (1, 0.5, 5.0, 0.5, 0.1),
                    (0.001, 0.2, 5.0, 0.5, 5e-4),
                    (100, 0.2, 0.0, 0.5, 0.1),
                    (100, 0.5, 1e-6, 1e-6, 5e-4),
                    (50, 0.25, 1.3, 0.1, 0.01),
                ]:
                    x1 = pulses(N, P, kind, rng, zf if N > 1 else 0)
                    for npol in (1, 2):
                        if npol == 1:
                            x = optical_signal(x1)
                        else:
                            x = optical_signal(np.array([x1, 0.6 * np.roll(x1, 1)[::-1]]))
                        # no dispersion: closed form
                        desc = f"fs={fs:g} N={N} {kind} zf={zf} npol={npol} L={L} alpha={a_db} g={g} P={P} phi={phi} nodisp"
                        out = fib(x, L, a_db, 0.0, 0.0, g, phi)
                        if check_basic(desc, x, out, L, a_db):
                            exp = spm(x.signal, L, a_db, g)
                            if a_db == 0 or g == 0:
                                e = rel(out.signal, exp)
                                stat("C spm exact rel err", e)
                                if e > 1e-10:
                                    report("C-spm-exact", desc, f"rel err {e:.3e}")
                            else:
                                m = np.max(np.abs(np.abs(out.signal) - np.abs(exp))) / max(np.abs(exp).max(), 1e-300)
                                if m > 1e-10:
                                    report("C-spm-modulus", desc, f"modulus err {m:.3e}")
                                spm_check(desc, out.signal, exp, phi, a_db, L)
                        # with dispersion: basic clauses only (reference checks later)
                        for (b2, b3) in [(25, 0.2), (-25, -0.2), (0, 0.2), (-25, 0)]:
                            desc2 = desc.replace("nodisp", f"b2={b2} b3={b3}")
                            out = fib(x, L, a_db, b2, b3, g, phi)
                            check_basic(desc2, x, out, L, a_db)
                    # E: one polarisation == x of (x, empty)
                    for (b2, b3) in [(0, 0), (25, 0.2), (-25, 0)]:
                        o1 = fib(optical_signal(x1), L, a_db, b2, b3, g, phi)
                        o2 = fib(optical_signal(np.array([x1, np.zeros_like(x1)])), L, a_db, b2, b3, g, phi)
                        desc3 = f"fs={fs:g} N={N} {kind} zf={zf} L={L} alpha={a_db} b2={b2} b3={b3} g={g} P={P} phi={phi}"
                        if isinstance(o1, Exception) or isinstance(o2, Exception):
                            report("E-onepol", desc3, f"raised {o1!r} / {o2!r}")
                            continue
                        if o2.signal.shape != (2, N) or o1.signal.shape != (N,):
                            report("E-onepol", desc3, f"shapes {o1.signal.shape} {o2.signal.shape}")
                            continue
                        e = rel(o2.signal[0], o1.signal)
                        stat("E onepol rel err", e)
                        if e > 1e-12:
                            report("E-onepol", desc3, f"x of two-pol differs from one-pol by {e:.3e}")
                        if np.any(o2.signal[1] != 0):
                            report("E-onepol-y", desc3, f"empty y came out with energy {np.sum(np.abs(o2.signal[1])**2):.3e}")

# ================================================================ 2. corners of phase budget: gamma*P*L = 10, phi extremes
print("section 2: heavy corners", flush=True)
gv(sps=16, fs=160e9)
for (N, L, a_db, b2, b3, g, P, phi) in [
    (16, 100, 0.5, 25, 0.2, 0.2, 0.5, 5e-4),
    (16, 100, 0.0, -25, -0.2, 0.2, 0.5, 5e-4),
    (16, 4, 0.5, 25, 0.2, 5.0, 0.5, 5e-4),
    (17, 100, 0.5, 0, 0, 0.2, 0.5, 5e-4),
    (32, 100, 0.5, 25, 0.2, 5.0, 0.02, 0.1),
    (33, 100, 0.0, 25, 0.2, 5.0, 0.02, 0.1),
    (1024, 100, 0.2, -21, 0.1, 1.3, 0.05, 0.05),
    (1000, 100, 0.5, 25, -0.2, 5.0, 0.02, 0.02),
    (997, 10, 0.0, 25, 0.2, 2.0, 0.5, 0.1),
    (4096, 80, 0.2, -20, 0.0, 1.0, 0.1, 0.1),
]:
    for kind in ["train", "rand"]:
        for npol in (1, 2):
            x1 = pulses(N, P, kind, rng, 2)
            x = optical_signal(x1) if npol == 1 else optical_signal(np.array([x1, x1[::-1] * 0.5]))
            desc = f"heavy N={N} {kind} npol={npol} L={L} alpha={a_db} b2={b2} b3={b3} g={g} P={P} phi={phi}"
            out = fib(x, L, a_db, b2, b3, g, phi, _t=120)
            check_basic(desc, x, out, L, a_db)

# ================================================================ 3. convergence to the NLSE (clause D), sampled
print("section 3: convergence to the NLSE", flush=True)
cases = []
r3 = np.random.default_rng(83)
for i in range(36):
    fs = [40e9, 160e9, 320e9][i % 3]
    N = [32, 48, 64, 33, 2, 3, 5, 16][i % 8]
    kind = ["gauss", "train", "smoothrand", "rand"][(i // 2) % 4]
    L = [100, 50, 20, 80][i % 4] if i % 5 else 100
    a_db = [0.0, 0.5, 0.2, 0.05][(i // 3) % 4]
    b2 = [25, -25, 0, -10, 3][i % 5]
    b3 = [0.2, -0.2, 0, 0.1][(i // 2) % 4]
    P = [0.5, 0.1, 0.01][i % 3]
    nlp = [0.3, 1.0, 3.0, 10.0][(i // 4) % 4]
    g = min(5.0, nlp / (P * L))
    cases.append((fs, N, kind, L, a_db, b2, b3, g, P, i % 2 + 1, [0, 3][i % 2] if N > 8 else 0))
PHIS = [0.1, 0.03, 0.01, 0.003, 0.001, 5e-4]
for (fs, N, kind, L, a_db, b2, b3, g, P, npol, zf) in cases:
    gv(sps=16, fs=fs)
    x1 = pulses(N, P, kind, r3, zf)
    s = x1 if npol == 1 else np.array([x1, 0.7 * np.roll(x1, 1)])
    x = optical_signal(s)
    desc = f"fs={fs:g} N={N} {kind} zf={zf} npol={npol} L={L} alpha={a_db} b2={b2} b3={b3} g={g:.4g} P={P}"
    M = int(max(2000, 4 * g * P * L / 5e-4 / 10))
    r1 = ref_nlse(s, L, a_db, b2, b3, g, fs, M)
    r2 = ref_nlse(s, L, a_db, b2, b3, g, fs, 2 * M)
    ref, sc = r2 + (r2 - r1) / 3, rel(r1, r2)
    errs = []
    for phi in PHIS:
        out = fib(x, L, a_db, b2, b3, g, phi, _t=120)
        if not check_basic(desc + f" phi={phi}", x, out, L, a_db):
            errs = None
            break
        errs.append(rel(out.signal, ref))
    if errs is None:
        continue
    floor = 20 * sc + 1e-9
    # "relative error bounded by a constant times phi_max": the constant depends on the input (it is about 8-17 for
    # wide-band fields whose dispersive phase per step stays large down to phi_max = 5e-4); one generous constant for all
    for phi, e in zip(PHIS, errs):
        stat("D err/phi_max", e / phi)
        if e > 60 * phi + floor:
            report("D-bound", desc + f" phi={phi}", f"rel err to NLSE {e:.3e} > 60*phi_max (ref self-consistency {sc:.1e})")
    # and it does go down with phi_max (a factor 200 in phi_max must at least halve the error; wide-band inputs plateau in between)
    if errs[-1] > 0.5 * errs[0] + floor:
        report("D-converge", desc, f"errors for phi={PHIS}: {['%.2e' % e for e in errs]} do not fall with phi_max")

# ================================================================ 4. relations
print("section 4: relations", flush=True)
r4 = np.random.default_rng(84)
gv(sps=16, fs=160e9)
par_list = [
    (100, 0.2, 20, 0.1, 0.1, 0.5, 0.02),
    (30, 0.5, -25, -0.2, 5.0, 0.05, 0.01),
    (100, 0.0, 25, 0.2, 0.05, 0.5, 0.1),
    (60, 0.3, 0, 0, 1.0, 0.1, 0.05),
    (100, 0.5, 25, 0.2, 0.0, 0.5, 0.05),
]
for (L, a_db, b2, b3, g, P, phi) in par_list:
    for kind in ["train", "smoothrand", "rand"]:
        for N in [24, 33]:
            x1 = pulses(N, P, kind, r4, 2)
            base = fib(optical_signal(x1), L, a_db, b2, b3, g, phi)
            desc = f"N={N} {kind} L={L} alpha={a_db} b2={b2} b3={b3} g={g} P={P} phi={phi}"
            if not check_basic(desc, optical_signal(x1), base, L, a_db):
                continue
            b = base.signal
            tolR = 1e-9

            def cmp(name, o, expect, tol=tolR):
                if isinstance(o, Exception):
                    report(name, desc, f"raised {type(o).__name__}: {o}")
                    return
                os_ = o.signal if hasattr(o, "signal") else o
                if os_.shape != np.shape(expect):
                    report(name, desc, f"shape {os_.shape} vs {np.shape(expect)}")
                    return
                e = rel(os_, expect)
                stat(name, e)
                if e > tol:
                    report(name, desc, f"rel difference {e:.3e} > {tol:g}")

            # repeated call, input untouched
            keep = x1.copy()
            xo = optical_signal(x1)
            sig_before = xo.signal.copy()
            o = fib(xo, L, a_db, b2, b3, g, phi)
            cmp("R-repeat", o, b, 0)
            if not np.array_equal(xo.signal, sig_before) or not np.array_equal(x1, keep):
                report("R-input-mutated", desc, "input samples changed by the call")
            # keyword / positional / defaults
            cmp("R-keyword", fib(optical_signal(x1), length=L, alpha=a_db, beta_2=b2, beta_3=b3, gamma=g, phi_max=phi), b, 0)
            cmp("R-kw-order", fib(optical_signal(x1), phi_max=phi, gamma=g, beta_3=b3, beta_2=b2, alpha=a_db, length=L), b, 0)
            if phi == 0.05:
                cmp("R-default-phi", fib(optical_signal(x1), L, a_db, b2, b3, g), b, 0)
            if a_db == 0:
                cmp("R-default-alpha", fib(optical_signal(x1), L, beta_2=b2, beta_3=b3, gamma=g, phi_max=phi), b, 0)
            if g == 0:
                cmp("R-default-gamma", fib(optical_signal(x1), L, a_db, b2, b3, phi_max=phi), b, 0)
                cmp("R-phi-irrelevant-linear", fib(optical_signal(x1), L, a_db, b2, b3, g, 5e-4), b, 1e-12)
            # int vs float parameters, numpy floats
            cmp("R-int-length", fib(optical_signal(x1), int(L), a_db, b2, b3, g, phi), b, 0)
            cmp("R-npfloat-args", fib(optical_signal(x1), np.float64(L), np.float64(a_db), np.float64(b2), np.float64(b3), np.float64(g), np.float64(phi)), b, 1e-12)
            if float(b2).is_integer():
                cmp("R-int-beta2", fib(optical_signal(x1), L, a_db, int(b2), b3, g, phi), b, 0)
            if float(g).is_integer():
                cmp("R-int-gamma", fib(optical_signal(x1), L, a_db, b2, b3, int(g), phi), b, 0)
            # containers / dtype / layout
            xc = x1.astype(complex)
            cmp("R-complex128", fib(optical_signal(xc), L, a_db, b2, b3, g, phi), b, 1e-13)
            cmp("R-list", fib(optical_signal(list(x1)), L, a_db, b2, b3, g, phi), b, 0)
            cmp("R-tuple", fib(optical_signal(tuple(x1)), L, a_db, b2, b3, g, phi), b, 0)
            ro = x1.copy(); ro.setflags(write=False)
            cmp("R-readonly", fib(optical_signal(ro), L, a_db, b2, b3, g, phi), b, 0)
            big = np.zeros(2 * N, dtype=x1.dtype); big[::2] = x1
            cmp("R-view", fib(optical_signal(big[::2]), L, a_db, b2, b3, g, phi), b, 0)
            xo = optical_signal(x1); xo.signal = big[::2]  # the attribute itself a strided view
            cmp("R-view-attr", fib(xo, L, a_db, b2, b3, g, phi), b, 1e-13)
            xo = optical_signal(x1); xo.signal = ro
            cmp("R-readonly-attr", fib(xo, L, a_db, b2, b3, g, phi), b, 0)
            # noise = 0 vs none
            o = fib(optical_signal(x1, np.zeros(N)), L, a_db, b2, b3, g, phi)
            cmp("R-noise0", o, b, 0)
            nn = 1e-3 * (r4.normal(size=N) + 1j * r4.normal(size=N))
            cmp("R-noise-present-signal", fib(optical_signal(x1, nn), L, a_db, b2, b3, g, phi), b, 1e-13)
            _se = sys.stderr; sys.stderr = open(os.devnull, "w")
            try:
                o = fib(optical_signal(x1), L, a_db, b2, b3, g, phi, True)
            finally:
                sys.stderr.close(); sys.stderr = _se
            cmp("R-show-progress", o, b, 0)
            if g == 0:   # linear fibre: the transfer function exactly
                wps = 2 * np.pi * np.fft.fftfreq(N) * gv.fs * 1e-12
                H = np.exp((-a_db * LN / 2 - 1j / 2 * b2 * wps**2 - 1j / 6 * b3 * wps**3) * L)
                cmp("R-linear-transfer", base, np.fft.ifft(H * np.fft.fft(x1)), 1e-12)
            # two polarisations: (x, 0) and (0, x) and layouts
            z = np.zeros_like(x1)
            o = fib(optical_signal(np.array([x1, z])), L, a_db, b2, b3, g, phi)
            if not isinstance(o, Exception):
                cmp("R-2pol-x", o.signal[0], b, 1e-12)
            o = fib(optical_signal(np.array([z, x1])), L, a_db, b2, b3, g, phi)
            if not isinstance(o, Exception):
                cmp("R-2pol-y", o.signal[1], b, 1e-12)
                if np.any(o.signal[0] != 0):
                    report("R-2pol-empty-x", desc, "empty x polarisation not empty at output")
            two = np.array([x1, 0.5 * x1[::-1]])
            o2 = fib(optical_signal(two), L, a_db, b2, b3, g, phi)
            if check_basic(desc + " 2pol", optical_signal(two), o2, L, a_db):
                oF = fib(optical_signal(np.asfortranarray(two)), L, a_db, b2, b3, g, phi)
                cmp("R-fortran", oF, o2.signal, 1e-13)
                xo = optical_signal(two); xo.signal = np.asfortranarray(two)
                cmp("R-fortran-attr", fib(xo, L, a_db, b2, b3, g, phi), o2.signal, 1e-13)
                oS = fib(optical_signal(two[::-1]), L, a_db, b2, b3, g, phi)
                if not isinstance(oS, Exception):
                    cmp("R-pol-swap", oS.signal[::-1], o2.signal, 1e-12)
                cmp("R-2pol-list", fib(optical_signal([list(two[0]), list(two[1])]), L, a_db, b2, b3, g, phi), o2.signal, 0)
                # two-pol call vs two one-pol calls: same scalar NLSE, differ by O(phi_max)
                oy = fib(optical_signal(two[1]), L, a_db, b2, b3, g, phi)
                if not isinstance(oy, Exception):
                    ex = rel(o2.signal[0], b); ey = rel(o2.signal[1], oy.signal)
                    stat("R-2pol-vs-1pol /phi", max(ex, ey) / phi)
                    if max(ex, ey) > 2 * phi:
                        report("R-2pol-vs-1pol", desc, f"x {ex:.3e}, y {ey:.3e} > 2*phi_max")
            # n_pol=2 duplicate
            od = fib(optical_signal(x1, n_pol=2), L, a_db, b2, b3, g, phi)
            if not isinstance(od, Exception):
                if od.signal.shape != (2, N) or not np.array_equal(od.signal[0], od.signal[1]):
                    report("R-npol2-dup", desc, "duplicated polarisations came out different")
            # symmetries of the equation (exact up to rounding when the step sequence is the same)
            th = 0.7
            cmp("R-global-phase", fib(optical_signal(x1 * np.exp(1j * th)), L, a_db, b2, b3, g, phi), b * np.exp(1j * th), 1e-9)
            for sh in (1, N // 2, N - 1):
                cmp("R-circ-shift", fib(optical_signal(np.roll(x1, sh)), L, a_db, b2, b3, g, phi), np.roll(b, sh), 1e-9)
            c = 0.37
            if g * c**-2 <= 5.0:
                cmp("R-scale", fib(optical_signal(c * x1), L, a_db, b2, b3, g / c**2, phi), c * b, 1e-9)
            if b3 == 0:
                idx = (-np.arange(N)) % N
                cmp("R-time-reversal", fib(optical_signal(x1[idx]), L, a_db, b2, b3, g, phi), b[idx], 1e-9)
            # fs scaling: fs -> 2 fs with beta2 -> beta2/4 and beta3 -> beta3/8
            gv(sps=16, fs=320e9)
            o = fib(optical_signal(x1), L, a_db, b2 / 4, b3 / 8, g, phi)
            gv(sps=16, fs=160e9)
            cmp("R-fs-scale", o, b, 1e-9)
            # composition
            for frac in (0.5, 0.123):
                o = fib(optical_signal(x1), L * frac, a_db, b2, b3, g, phi)
                if isinstance(o, Exception):
                    report("R-compose", desc, f"raised {o!r}")
                    continue
                o = fib(o, L * (1 - frac), a_db, b2, b3, g, phi)
                if g == 0:
                    cmp("R-compose-linear", o, b, 1e-10)
                else:
                    e = rel(o.signal, b)
                    stat("R-compose /phi", e / phi)
                    if e > 2 * phi:
                        report("R-compose", desc, f"L split at {frac}: differs by {e:.3e} > 2*phi_max")

# ================================================================ 5. sweeps over the whole range of each parameter
print("section 5: sweeps", flush=True)
gv(sps=16, fs=160e9)
r5 = np.random.default_rng(85)
N = 32
x1 = pulses(N, 0.5, "train", r5, 2)
x = optical_signal(x1)
phi = 0.005
base = dict(L=80.0, a=0.2, b2=-20.0, b3=0.1, g=0.1)  # gamma*P*L = 4 rad


def run(p, phi=phi):
    return fib(x, p["L"], p["a"], p["b2"], p["b3"], p["g"], phi, _t=60)


def sweep(name, key, values):
    prev = None
    pv = None
    for v in values:
        p = dict(base); p[key] = v
        desc = f"sweep {key}={v!r} (others {base})"
        o = run(p)
        if not check_basic(desc, x, o, p["L"], p["a"]):
            prev = None
            continue
        ref, sc = ref_conv(x1, p["L"], p["a"], p["b2"], p["b3"], p["g"], 160e9)
        e = rel(o.signal, ref)
        stat(f"S-{key} err/phi", e / phi)
        if e > 4 * phi + 20 * sc:
            report(f"S-{key}-ref", desc, f"rel err to NLSE {e:.3e} > 4*phi_max={4*phi}")
        prev, pv = o.signal, v


sweep("alpha", "a", [0.0, 5e-324, 1e-300, 1e-18, 1e-12, 1e-6, 1e-3] + list(np.linspace(0, 0.5, 26)[1:]))
sweep("gamma", "g", [0.0, 5e-324, 1e-300, 1e-30, 1e-12, 1e-6, 1e-3] + list(np.linspace(0, 0.25, 26)[1:]))
sweep("beta2", "b2", [-25.0, -1e-300, -0.0, 0.0, 5e-324, 1e-12, 1e-3, 25.0] + list(np.linspace(-25, 25, 21)))
sweep("beta3", "b3", [-0.2, -1e-300, 0.0, 5e-324, 1e-12, 0.2] + list(np.linspace(-0.2, 0.2, 11)))
sweep("L", "L", [1e-12, 1e-6, 1e-3, 0.1, 1, 1.0 + 2**-50, 10, 33.3, 99.999999, 100, 100.0])
# phi_max sweep including both inclusive ends
p = dict(base)
ref, sc = ref_conv(x1, p["L"], p["a"], p["b2"], p["b3"], p["g"], 160e9)
for ph in [5e-4, 5.0000001e-4, 1e-3, 0.003, 0.01, 0.03, 0.05, 0.0999999, 0.1]:
    o = run(p, ph)
    if check_basic(f"sweep phi={ph}", x, o, p["L"], p["a"]):
        e = rel(o.signal, ref)
        stat("S-phi err/phi", e / ph)
        if e > 4 * ph + 20 * sc:
            report("S-phi-ref", f"phi_max={ph} {base}", f"rel err {e:.3e}")

# no-dispersion closed form along fine sweeps of alpha, gamma, L, P (phase error <= phi_max)
for kind in ["train", "rand", "const"]:
    xs = pulses(24, 0.5, kind, r5, 1)
    for ph in [5e-4 * 20, 0.1]:
        for a_db in [0.0, 5e-324, 1e-15, 1e-9, 1e-4] + list(np.linspace(0, 0.5, 21)[1:]):
            for (g, L, sc_) in [(0.2, 100, 1.0), (5.0, 100, 0.2), (5.0, 4, 1.0), (1e-3, 100, 1.0), (0.02, 100, 1.0), (5.0, 100, 1e-3)]:
                s = xs * sc_
                o = fib(optical_signal(s), L, a_db, 0, 0, g, ph)
                desc = f"spm sweep {kind} alpha={a_db!r} g={g} L={L} amp*{sc_} phi={ph}"
                if not check_basic(desc, optical_signal(s), o, L, a_db):
                    continue
                exp = spm(s, L, a_db, g)
                spm_check(desc, o.signal, exp, ph, a_db, L)

# ================================================================ 6. random sampling of the whole domain (A, B, E + SPM)
print("section 6: random sampling", flush=True)
r6 = np.random.default_rng(86)
for i in range(150):
    fs = float(r6.choice([10e9, 40e9, 160e9, 1e12]))
    gv(sps=16, fs=fs)
    N = int(r6.choice([1, 2, 3, 5, 8, 13, 16, 31, 64, 100]))
    kind = str(r6.choice(["gauss", "train", "rand", "smoothrand", "delta", "const"]))
    P = float(r6.choice([0.5, 0.5 * r6.random(), 1e-3, 1e-9]))
    L = float(r6.choice([100, 100 * r6.random(), 1.0, 0.01]))
    a_db = float(r6.choice([0, 0.5, 0.5 * r6.random()]))
    b2 = float(r6.choice([0, 25, -25, r6.uniform(-25, 25)]))
    b3 = float(r6.choice([0, 0.2, -0.2, r6.uniform(-0.2, 0.2)]))
    g = float(r6.choice([0, 5, 5 * r6.random()]))
    if g * P * L > 10:
        g = 10 / (P * L)
    phi = float(r6.choice([5e-4, 0.1, 0.05, 10 ** r6.uniform(np.log10(5e-4), -1)]))
    if g * P * L / phi > 4000:   # keep the run time bounded
        phi = min(0.1, g * P * L / 4000)
    zf = int(r6.integers(0, max(N // 2, 1)))
    x1 = pulses(N, P, kind, r6, zf if N > 1 else 0)
    npol = int(r6.integers(1, 3))
    s = x1 if npol == 1 else np.array([x1, r6.random() * np.roll(x1, 3)])
    x = optical_signal(s)
    desc = f"rnd#{i} fs={fs:g} N={N} {kind} zf={zf} npol={npol} L={L:.6g} alpha={a_db:.4g} b2={b2:.4g} b3={b3:.4g} g={g:.4g} P={P:.4g} phi={phi:.4g}"
    o = fib(x, L, a_db, b2, b3, g, phi, _t=60)
    check_basic(desc, x, o, L, a_db)
    o1 = fib(optical_signal(x1), L, a_db, b2, b3, g, phi, _t=60)
    o2 = fib(optical_signal(np.array([x1, np.zeros_like(x1)])), L, a_db, b2, b3, g, phi, _t=60)
    if isinstance(o1, Exception) or isinstance(o2, Exception):
        report("E-onepol", desc, f"raised {o1!r} {o2!r}")
    else:
        e = rel(o2.signal[0], o1.signal)
        if e > 1e-12 or np.any(o2.signal[1] != 0):
            report("E-onepol", desc, f"differs by {e:.3e}")

# ================================================================ 7. containers, scalars, n_pol, slices, tiny amplitudes
print("section 7: containers and scalars", flush=True)
gv(sps=16, fs=160e9)
args = (50, 0.2, -20, 0.1, 2.0, 0.02)
v = [0.1, 0.5, 0.3, 0.0, 0.7, 0.25, 0.0, 0.6]
b7 = fib(optical_signal(np.array(v)), *args).signal
for name, xx in [
    ("text-space", lambda: optical_signal("0.1 0.5 0.3 0.0 0.7 0.25 0.0 0.6")),
    ("text-comma", lambda: optical_signal("0.1,0.5,0.3,0.0,0.7,0.25,0.0,0.6")),
    ("text-complex", lambda: optical_signal("0.1+0j,0.5+0j,0.3+0j,0.0+0j,0.7+0j,0.25+0j,0+0j,0.6+0j")),
    ("slice", lambda: optical_signal(np.array(v + v))[:8]),
    ("slice-2pol-x", lambda: optical_signal(optical_signal(np.array([v + v, [0.0] * 16]))[:8].signal[0])),
    ("dtype-arg", lambda: optical_signal(v, dtype=complex)),
]:
    try:
        o = fib(xx(), *args)
        if isinstance(o, Exception):
            raise o
        if o.signal.shape != b7.shape or np.abs(o.signal - b7).max() > 1e-15:
            report("R-container", name, f"differs from the ndarray input by {np.abs(o.signal - b7).max():.3e}")
    except Exception as e:
        report("R-container", name, f"raised {e!r}")
for lname, Lv in [("np.int64", np.int64(50)), ("0-d array", np.array(50.0)), ("np.float64", np.float64(50))]:
    o = fib(optical_signal(np.array(v)), Lv, *args[1:])
    if isinstance(o, Exception) or o.signal.shape != b7.shape or np.abs(o.signal - b7).max() > 1e-15:
        report("R-length-type", lname, f"{o!r}")
for xs in [0.3, np.float64(0.3), 0.3 + 0j, np.array(0.3)]:
    for n_pol in (None, 1, 2):
        xi = optical_signal(xs, n_pol=n_pol)
        o = fib(xi, 100, 0.2, 20, 0.1, 3.0, 0.01)
        desc = f"scalar input {type(xs).__name__} n_pol={n_pol}"
        if check_basic(desc, xi, o, 100, 0.2):
            if o.n_pol != xi.n_pol:
                report("A-npol", desc, f"n_pol {xi.n_pol} -> {o.n_pol}")
            spm_check(desc, o.signal, spm(xi.signal, 100, 0.2, 3.0), 0.01, 0.2, 100)  # one sample: no spectrum, pure SPM
for npol in (1, 2):
    s = np.array(v) if npol == 1 else np.array([v, v[::-1]])
    ref7 = fib(optical_signal(s * 1e-30), 100, 0.5, 25, 0.2, 5.0, 5e-4).signal / 1e-30
    for amp in [1e-300, 1e-200, 1e-170, 1e-160, 1e-154, 1e-100]:
        o = fib(optical_signal(s * amp), 100, 0.5, 25, 0.2, 5.0, 5e-4)
        if isinstance(o, Exception) or not np.all(np.isfinite(o.signal)) or np.abs(o.signal / amp - ref7).max() > 1e-12 * np.abs(ref7).max():
            report("A/B-tiny-field", f"amp={amp} npol={npol}", f"{o!r}")
for npol in (1, 2):   # n_pol attribute and type of the result
    s = np.array(v) if npol == 1 else np.array([v, v[::-1]])
    o = fib(optical_signal(s), *args)
    if type(o) is not optical_signal or o.n_pol != npol:
        report("A-type", f"npol={npol}", f"{type(o).__name__} n_pol={getattr(o, 'n_pol', None)}")

print("--- worst observed figures ---")
for k in sorted(stats):
    print(f"   {k}: {stats[k]:.3e}")
if viol:
    print(f"{len(viol)} violations")
    sys.exit(1)
print("PASS")
sys.exit(0)
