import sys, os
if sys.path and os.path.abspath(sys.path[0] or '.') == os.path.dirname(os.path.abspath(__file__)):
    del sys.path[0]
import warnings
warnings.filterwarnings('ignore')
import itertools
import numpy as np
import scipy.signal as sg
from scipy.constants import k as kB, e as qe
import opticomlib
from opticomlib import gv, optical_signal, electrical_signal
from opticomlib.devices import PD, LPF

viol = []
def bad(clause, desc, exp=None, got=None):
    s = f"VIOLATION [{clause}] {desc}"
    if exp is not None or got is not None:
        s += f" expected={exp} got={got}"
    if len(viol) < 400:
        print(s, flush=True)
    viol.append(s)

def close(a, b, rtol=1e-9, atol=0.0):
    a = np.asarray(a, dtype=float); b = np.asarray(b, dtype=float)
    if a.shape != b.shape:
        return False
    if not (np.all(np.isfinite(a)) and np.all(np.isfinite(b))):
        return False
    sc = max(np.max(np.abs(b)), np.max(np.abs(a)), 1e-300)
    return np.max(np.abs(a - b)) <= rtol * sc + atol

def setfs(fs):
    gv(sps=16, fs=fs)

def ref_filter(x, BW, fs):
    sos = sg.bessel(4, BW, 'low', fs=fs, output='sos', norm='mag')
    return sg.sosfiltfilt(sos, np.asarray(x, dtype=float), padlen=min(15, len(x) - 1))

def pd(x, BW, seed=0, **kw):
    np.random.seed(seed)
    return PD(x, BW, **kw)

OPTS = ["ase-only", "thermal-only", "shot-only", "ase-thermal", "ase-shot", "thermal-shot", "all"]
rng = np.random.default_rng(12345)

def rfield(n, npol, rng, scale=1e-2):
    sh = (n,) if npol == 1 else (2, n)
    return scale * (rng.standard_normal(sh) + 1j * rng.standard_normal(sh))

FS_LIST = [16e9, 1.0, 3, 1e3, 44.1e3, 1e12, 7e14, 1e-3, 1e18]
LENS = [17, 18, 19, 20, 31, 32, 33, 63, 64, 65, 100, 127, 257, 1000, 1024, 4097]

# ------------------------------------------------------------------ C-LEN / C-TYPE / C-DET / C-SIG
for fs in FS_LIST:
    setfs(fs)
    for n in LENS:
        for npol in (1, 2):
            for with_noise in (False, True):
                E = rfield(n, npol, rng)
                Nn = rfield(n, npol, rng, 1e-3) if with_noise else None
                x = optical_signal(E, Nn)
                Ecopy = x.signal.copy(); Ncopy = None if Nn is None else x.noise.copy()
                for bwf in (1e-3, 0.01, 0.1, 0.25, 0.4, 0.499):
                    BW = bwf * fs
                    r, Rl = 0.7, 75.0
                    tag = f"fs={fs} n={n} npol={npol} noise={with_noise} BW={bwf}fs"
                    try:
                        y1 = pd(x, BW, seed=1, r=r, R_load=Rl)
                        y2 = pd(x, BW, seed=2, r=r, R_load=Rl)
                    except Exception as ex:
                        bad("CALL", tag + f" raised {type(ex).__name__}: {ex}")
                        continue
                    if not isinstance(y1, electrical_signal) or isinstance(y1, optical_signal):
                        bad("TYPE", tag, "electrical_signal", type(y1))
                    if y1.len() != n or y1.signal.shape != (n,) or y1.noise is None or y1.noise.shape != (n,):
                        bad("LEN", tag, n, (y1.signal.shape, None if y1.noise is None else y1.noise.shape))
                        continue
                    if not np.array_equal(y1.signal, y2.signal):
                        bad("DET", tag + " signal differs between seeds")
                    if np.iscomplexobj(y1.signal) or np.iscomplexobj(y1.noise):
                        bad("REAL", tag + " complex output")
                    P = (np.abs(E) ** 2) if npol == 1 else (np.abs(E) ** 2).sum(axis=0)
                    ref = ref_filter(Rl * r * P, BW, fs)
                    if not close(y1.signal, ref, 1e-10):
                        bad("SIG", tag, "LPF(R r P)", np.max(np.abs(y1.signal - ref)))
                    if not np.all(np.isfinite(y1.noise)):
                        bad("NOISE-FINITE", tag)
                    if not np.array_equal(x.signal, Ecopy) or (Ncopy is not None and not np.array_equal(x.noise, Ncopy)):
                        bad("MUT", tag + " input mutated")

# ------------------------------------------------------------------ C-CW: CW field -> constant r P R
for fs in FS_LIST:
    setfs(fs)
    for n in [17, 18, 33, 64, 101, 1000]:
        for npol in (1, 2):
            for P in (1e-9, 1e-3, 1.0, 37.0):
                for bwf in np.concatenate([np.geomspace(1e-4, 0.4999, 25), [0.25, 0.5 - 1e-9]]):
                    for r, Rl in ((1, 50), (1.0, 50.0), (0.3, 1e-3), (1e-6, 1e6), (True, 1)):
                        ph = np.exp(1j * 0.7)
                        if npol == 1:
                            E = np.full(n, np.sqrt(P)) * ph
                        else:
                            a = 0.3
                            E = np.array([np.full(n, np.sqrt(P * a)) * ph, np.full(n, np.sqrt(P * (1 - a))) * 1j])
                        x = optical_signal(E)
                        y = pd(x, bwf * fs, r=r, R_load=Rl, include_noise='ase-only', i_dark=0)
                        exp = r * P * Rl
                        if not close(y.signal, np.full(n, exp), 1e-8):
                            bad("CW", f"fs={fs} n={n} npol={npol} P={P} BW={bwf}fs r={r} R={Rl}", exp, (y.signal.min(), y.signal.max()))
                        if not np.all(y.noise == 0):
                            bad("CW-NOISE0", f"fs={fs} n={n} ase-only/no noise/i_dark=0 noise not zero", 0, np.max(np.abs(y.noise)))

# ------------------------------------------------------------------ C-INV: phase / unitary / scaling
setfs(16e9)
for trial in range(60):
    n = int(rng.choice([17, 18, 33, 100, 255, 1024]))
    fs = float(rng.choice(FS_LIST)); setfs(fs)
    BW = float(rng.uniform(0.01, 0.49)) * fs
    for npol in (1, 2):
        E = rfield(n, npol, rng); Nn = rfield(n, npol, rng, 1e-3)
        kw = dict(r=float(rng.uniform(0.01, 1)), R_load=float(10 ** rng.uniform(-2, 4)), T=float(rng.uniform(0, 600)),
                  i_dark=float(rng.uniform(0, 1e-6)), Fn=float(rng.uniform(0, 10)))
        base = pd(optical_signal(E), BW, **kw)
        # global constant phase and time varying phase
        for phi in (np.pi, 0.3, rng.uniform(0, 2 * np.pi, n)):
            y = pd(optical_signal(E * np.exp(1j * phi)), BW, **kw)
            if not close(y.signal, base.signal, 1e-10):
                bad("PHASE", f"trial={trial} npol={npol}", 0, np.max(np.abs(y.signal - base.signal)))
        if npol == 2:
            th, a, b = rng.uniform(0, 2 * np.pi, 3)
            U = np.array([[np.cos(th) * np.exp(1j * a), -np.sin(th) * np.exp(1j * b)],
                          [np.sin(th) * np.exp(-1j * b), np.cos(th) * np.exp(-1j * a)]])
            for UU in (U, np.array([[0, 1], [1, 0]]), np.array([[1, 0], [0, -1]]), np.array([[1, 1], [1, -1]]) / np.sqrt(2)):
                y = pd(optical_signal(UU @ E), BW, **kw)
                if not close(y.signal, base.signal, 1e-10):
                    bad("UNITARY", f"trial={trial}", 0, np.max(np.abs(y.signal - base.signal)))
                # with noise: rotating signal and noise jointly leaves also the beating terms invariant
                ya = pd(optical_signal(E, Nn), BW, include_noise='ase-only', **{k: v for k, v in kw.items()})
                yb = pd(optical_signal(UU @ E, UU @ Nn), BW, include_noise='ase-only', **kw)
                if not close(ya.noise, yb.noise, 1e-9):
                    bad("UNITARY-NOISE", f"trial={trial}", 0, np.max(np.abs(ya.noise - yb.noise)))
        # linear in r, R_load, quadratic in amplitude
        for c in (2.0, 0.5, 0.125, 3.0):
            kw2 = dict(kw); kw2['r'] = kw['r'] * c
            if 0 < kw2['r'] <= 1:
                y = pd(optical_signal(E), BW, **kw2)
                if not close(y.signal, c * base.signal, 1e-12):
                    bad("LIN-r", f"trial={trial} c={c}")
            kw2 = dict(kw); kw2['R_load'] = kw['R_load'] * c
            y = pd(optical_signal(E), BW, **kw2)
            if not close(y.signal, c * base.signal, 1e-12):
                bad("LIN-R", f"trial={trial} c={c}")
            y = pd(optical_signal(E * c), BW, **kw)
            if not close(y.signal, c * c * base.signal, 1e-12):
                bad("QUAD", f"trial={trial} c={c}")
            y = pd(optical_signal(E * (-c * 1j)), BW, **kw)
            if not close(y.signal, c * c * base.signal, 1e-12):
                bad("QUAD-neg", f"trial={trial} c={c}")

# ------------------------------------------------------------------ C-REL: relations between calls / containers / dtypes
for trial in range(40):
    n = int(rng.choice([17, 18, 19, 64, 333]))
    fs = float(rng.choice(FS_LIST)); setfs(fs)
    BW = float(rng.uniform(0.01, 0.49)) * fs
    E1 = rfield(n, 1, rng); E2 = rfield(n, 2, rng); N1 = rfield(n, 1, rng, 1e-3); N2 = rfield(n, 2, rng, 1e-3)
    for opt in OPTS:
        # 1 pol vs 2 pol with empty y
        a = pd(optical_signal(E1, N1), BW, include_noise=opt)
        b = pd(optical_signal(np.array([E1, 0 * E1]), np.array([N1, 0 * N1])), BW, include_noise=opt)
        if not (close(a.signal, b.signal, 1e-12) and close(a.noise, b.noise, 1e-9)):
            bad("REL-1pol-vs-2pol0", f"trial={trial} opt={opt}", 0, (np.max(np.abs(a.signal - b.signal)), np.max(np.abs(a.noise - b.noise))))
        b = pd(optical_signal(np.array([0 * E1, E1]), np.array([0 * N1, N1])), BW, include_noise=opt)
        if not (close(a.signal, b.signal, 1e-12) and close(a.noise, b.noise, 1e-9)):
            bad("REL-1pol-vs-2pol0y", f"trial={trial} opt={opt}")
        # noise = 0 vs no noise
        for E in (E1, E2):
            a = pd(optical_signal(E), BW, include_noise=opt)
            b = pd(optical_signal(E, np.zeros_like(E)), BW, include_noise=opt)
            c = pd(optical_signal(E, 0 * E.real.astype(int)), BW, include_noise=opt)
            if not (np.array_equal(a.signal, b.signal) and close(a.noise, b.noise, 1e-12) and close(a.noise, c.noise, 1e-12)):
                bad("REL-noise0", f"trial={trial} opt={opt} shape={E.shape}")
        # letter case
        for variant in (opt.upper(), opt.title(), opt.capitalize(), opt.swapcase(), ''.join(ch.upper() if i % 2 else ch for i, ch in enumerate(opt))):
            try:
                b = pd(optical_signal(E2, N2), BW, include_noise=variant)
                a = pd(optical_signal(E2, N2), BW, include_noise=opt)
                if not (np.array_equal(a.signal, b.signal) and np.array_equal(a.noise, b.noise)):
                    bad("CASE", f"{variant}")
            except Exception as ex:
                bad("CASE", f"{variant} raised {type(ex).__name__}: {ex}")
    # two-pol signal part = sum of the one-pol signal parts
    a = pd(optical_signal(E2), BW)
    bx = pd(optical_signal(E2[0]), BW); by = pd(optical_signal(E2[1]), BW)
    if not close(a.signal, bx.signal + by.signal, 1e-12):
        bad("REL-2pol-sum", f"trial={trial}")
    # ase-only beating, two pol = sum of one pol (i_dark=0)
    a = pd(optical_signal(E2, N2), BW, include_noise='ase-only', i_dark=0)
    bx = pd(optical_signal(E2[0], N2[0]), BW, include_noise='ase-only', i_dark=0); by = pd(optical_signal(E2[1], N2[1]), BW, include_noise='ase-only', i_dark=0)
    if not close(a.noise, bx.noise + by.noise, 1e-10):
        bad("REL-2pol-sum-noise", f"trial={trial}")
    # positional vs keyword vs default
    x = optical_signal(E2, N2)
    a = pd(x, BW)
    b = pd(x, BW, r=1.0, T=300.0, R_load=50.0, include_noise='all', i_dark=10e-9, Fn=0)
    np.random.seed(0); c = PD(x, BW, 1.0, 300.0, 50.0, 'all', 10e-9, 0)
    np.random.seed(0); d = PD(input=x, BW=BW)
    b2 = pd(x, BW, r=1, T=300, R_load=50, include_noise='ALL', i_dark=1e-8, Fn=0.0)
    for nm, o in (('kw', b), ('pos', c), ('kwinput', d), ('ints', b2)):
        if not (np.array_equal(a.signal, o.signal) and close(a.noise, o.noise, 1e-12)):
            bad("REL-args", f"trial={trial} {nm}")
    # containers / dtype / memory order / views / read-only
    ref = pd(optical_signal(E2, N2), BW)
    Ef = np.asfortranarray(E2); Nf = np.asfortranarray(N2)
    Ero = E2.copy(); Ero.setflags(write=False); Nro = N2.copy(); Nro.setflags(write=False)
    big = np.zeros((2, 2 * n), complex); big[:, ::2] = E2; bigN = np.zeros((2, 2 * n), complex); bigN[:, ::2] = N2
    for nm, (ee, nn) in dict(list=(E2.tolist(), N2.tolist()), tuple=(tuple(map(tuple, E2)), tuple(map(tuple, N2))),
                             fortran=(Ef, Nf), readonly=(Ero, Nro), view=(big[:, ::2], bigN[:, ::2]),
                             rows=([E2[0], E2[1]], [N2[0], N2[1]])).items():
        try:
            o = pd(optical_signal(ee, nn), BW)
            if not (close(ref.signal, o.signal, 1e-13) and close(ref.noise, o.noise, 1e-12)):
                bad("REL-container", f"trial={trial} {nm}")
        except Exception as ex:
            bad("REL-container", f"trial={trial} {nm} raised {type(ex).__name__}: {ex}")
    # dtype: int64 / float64 / complex128 with the same values
    Ei = rng.integers(-3, 4, size=(2, n)); Ni = rng.integers(-1, 2, size=(2, n))
    for npol in (1, 2):
        ei = Ei if npol == 2 else Ei[0]; ni = Ni if npol == 2 else Ni[0]
        for opt in OPTS:
            for kw in (dict(r=1, R_load=50, i_dark=0, T=300, Fn=0), dict(r=0.5, R_load=50.0, i_dark=1e-8, T=0, Fn=3)):
                outs = []
                for dt in (np.int64, np.float64, np.complex128):
                    for use_noise in (False, True):
                        try:
                            o = pd(optical_signal(ei.astype(dt), ni.astype(dt) if use_noise else None), BW, include_noise=opt, **kw)
                            outs.append((dt.__name__, use_noise, o))
                        except Exception as ex:
                            bad("REL-dtype", f"{dt.__name__} noise={use_noise} opt={opt} raised {type(ex).__name__}: {ex}")
                for use_noise in (False, True):
                    g = [o for (d_, u, o) in outs if u == use_noise]
                    for o in g[1:]:
                        if not (close(g[0].signal, o.signal, 1e-13) and close(g[0].noise, o.noise, 1e-12)) or o.len() != n:
                            bad("REL-dtype", f"trial={trial} npol={npol} opt={opt} noise={use_noise} kw={kw}")
    # repeated calls / call order
    x = optical_signal(E2, N2)
    a = pd(x, BW, seed=5); _ = pd(optical_signal(E1), BW * 0.5, seed=9, include_noise='shot-only'); b = pd(x, BW, seed=5)
    if not (np.array_equal(a.signal, b.signal) and np.array_equal(a.noise, b.noise)):
        bad("REL-repeat", f"trial={trial}")
    # CW: truncation commutes
    xcw = optical_signal(np.full(n, 0.1 + 0.2j))
    a = pd(xcw, BW); b = pd(xcw[:n - 1], BW) if n - 1 > 16 else None
    if b is not None and not close(a.signal[:n - 1], b.signal, 1e-9):
        bad("REL-cw-trunc", f"trial={trial}")

# derived objects: slices, copies, products and sums of optical signals
for trial in range(20):
    n = int(rng.choice([40, 64, 333])); fs = float(rng.choice(FS_LIST)); setfs(fs); BW = float(rng.uniform(0.01, 0.49)) * fs
    for npol in (1, 2):
        E = rfield(n, npol, rng); Nn = rfield(n, npol, rng, 1e-3)
        for x in (optical_signal(E), optical_signal(E, Nn)):
            base = pd(x, BW)
            for nm, xx, f in (('copy', x.copy(), 1), ('slice', x[:], 1), ('2*x', 2 * x, 4), ('x*2', x * 2, 4), ('x*1j', x * 1j, 1)):
                o = pd(xx, BW)
                if o.len() != n or not close(o.signal, f * base.signal, 1e-12):
                    bad("REL-derived", f"trial={trial} npol={npol} {nm}")
            for sl in (slice(3, None), slice(None, -3), slice(1, n - 1), slice(None, None, -1), slice(None, None, 2)):
                xx = x[sl]
                o = pd(xx, BW)
                Es = E[..., sl]; P = np.abs(Es) ** 2
                if npol == 2: P = P.sum(axis=0)
                if o.len() != P.size or not close(o.signal, ref_filter(50.0 * P, BW, fs), 1e-10):
                    bad("REL-derived-slice", f"trial={trial} npol={npol} {sl}")

# ------------------------------------------------------------------ C-NOISE composition (same seed relations)
for trial in range(30):
    n = int(rng.choice([17, 33, 64, 500]))
    fs = float(rng.choice(FS_LIST)); setfs(fs)
    BW = float(rng.uniform(0.02, 0.49)) * fs
    for npol in (1, 2):
        for with_noise in (False, True):
            E = rfield(n, npol, rng); Nn = rfield(n, npol, rng, 3e-3) if with_noise else None
            kw = dict(r=float(rng.uniform(0.01, 1)), R_load=float(10 ** rng.uniform(0, 4)), T=float(rng.uniform(0, 600)),
                      i_dark=float(rng.choice([0, 1e-9, 1e-6])), Fn=float(rng.choice([0, 3, 10])))
            x = optical_signal(E, Nn)
            o = {opt: pd(x, BW, seed=trial, include_noise=opt, **kw) for opt in OPTS}
            dark = kw['i_dark'] * kw['R_load']
            r, Rl = kw['r'], kw['R_load']
            if with_noise:
                beat = r * (2 * (E * Nn.conj()).real + np.abs(Nn) ** 2)
                if npol == 2: beat = beat.sum(axis=0)
            else:
                beat = np.zeros(n)
            exp_ase = ref_filter(Rl * (beat + kw['i_dark']), BW, fs)
            tag = f"trial={trial} npol={npol} noise={with_noise} kw={kw}"
            sc = max(np.max(np.abs(exp_ase)), 1e-300)
            if not close(o['ase-only'].noise, exp_ase, 1e-9):
                bad("NOISE-ase-only", tag, 0, np.max(np.abs(o['ase-only'].noise - exp_ase)))
            beatf = exp_ase - dark
            th = o['thermal-only'].noise - dark; sh = o['shot-only'].noise - dark
            def chk(name, got, exp):
                s = max(np.max(np.abs(exp)), np.max(np.abs(got)), 1e-300)
                if np.max(np.abs(got - exp)) > 1e-8 * s + 1e-9 * (abs(dark) + np.max(np.abs(beatf))):
                    bad("NOISE-" + name, tag, 0, np.max(np.abs(got - exp)) / s)
            chk('ase-thermal', o['ase-thermal'].noise, th + beatf + dark)
            chk('ase-shot', o['ase-shot'].noise, sh + beatf + dark)
            chk('all-vs-thermal-shot', o['all'].noise, o['thermal-shot'].noise + beatf)
            # T = 0 kills the thermal term, so thermal-shot(T=0) == shot-only and all(T=0) == ase-shot
            kw0 = dict(kw); kw0['T'] = 0
            t0 = pd(x, BW, seed=trial, include_noise='thermal-only', **kw0)
            if not close(t0.noise, np.full(n, dark), 1e-9, 1e-300):
                bad("NOISE-T0", tag, dark, (t0.noise.min(), t0.noise.max()))
            for opt in OPTS:
                if not np.array_equal(o[opt].signal, o['all'].signal):
                    bad("NOISE-sig-indep", tag + f" opt={opt}")

# ------------------------------------------------------------------ C-ERR documented errors
setfs(16e9)
x = optical_signal(rfield(64, 2, rng))
def expect(exc, desc, **kw):
    try:
        PD(kw.pop('input', x), kw.pop('BW', 5e9), **kw)
    except exc:
        return
    except Exception as ex:
        bad("ERR", desc, exc.__name__, type(ex).__name__ + ": " + str(ex)); return
    bad("ERR", desc, exc.__name__, "no error")
for v in (0, 0.0, -0.5, -1, 1.0000001, 2, 1e9, float('inf'), -float('inf')):
    expect(ValueError, f"r={v}", r=v)
for v in ('1', None, [1.0], (0.5,), np.array([0.5, 0.5]), 1 + 0j, {}):
    expect(TypeError, f"r={v!r}", r=v)
for v in (-1, -1e-300, -300.0, -float('inf')):
    expect(ValueError, f"T={v}", T=v)
    expect(ValueError, f"R_load={v}", R_load=v)
for v in ('300', None, [300.0], np.array([1.0, 2.0]), 3j):
    expect(TypeError, f"T={v!r}", T=v)
    expect(TypeError, f"R_load={v!r}", R_load=v)
for v in (None, 1, 0, ['all'], b'all', ('all',), True):
    expect(TypeError, f"include_noise={v!r}", include_noise=v)
for v in ('', 'ase', 'thermal', 'shot', 'none', 'all ', ' all', 'ase_only', 'ase-only-', 'only-ase', 'shot-ase', 'thermal-ase', 'shot-thermal',
          'ase-thermal-shot', 'all-only', 'allx', 'ase-all', 'aseonly', 'ase only', 'ALL!', 'ase-only,all'):
    expect(ValueError, f"include_noise={v!r}", include_noise=v)
for v in (np.ones(64, complex), electrical_signal(np.ones(64)), [1.0] * 64, None, 1.0, '1 0 1'):
    expect(TypeError, f"input={type(v).__name__}", input=v)
# valid boundary values must be accepted
for kw in (dict(r=1), dict(r=1.0), dict(r=True), dict(r=5e-324), dict(r=1e-12), dict(T=0), dict(T=0.0), dict(T=1e9), dict(R_load=1e-9), dict(R_load=1e12), dict(R_load=1),
           dict(i_dark=0), dict(i_dark=0.0), dict(Fn=0), dict(Fn=0.0), dict(Fn=40), dict(i_dark=1.0)):
    for opt in OPTS:
        try:
            y = pd(x, 5e9, include_noise=opt, **kw)
            if y.len() != 64 or not (np.all(np.isfinite(y.signal)) and np.all(np.isfinite(y.noise))):
                bad("BOUNDARY", f"{kw} {opt} non finite / wrong length")
        except Exception as ex:
            bad("BOUNDARY", f"{kw} {opt} raised {type(ex).__name__}: {ex}")

# ------------------------------------------------------------------ C-SWEEP continuity / monotonicity
setfs(16e9)
n = 512
E = rfield(n, 2, rng)
x = optical_signal(E)
Pm = (np.abs(E) ** 2).sum(axis=0)
for name, grid in (('r', np.concatenate([np.geomspace(1e-12, 1, 400), np.linspace(1e-3, 1, 400)])),
                   ('R_load', np.geomspace(1e-6, 1e9, 400)),):
    base = ref_filter(Pm, 4e9, 16e9)
    for v in grid:
        kw = {name: float(v)}
        y = pd(x, 4e9, **kw)
        exp = base * float(v) * (50.0 if name == 'r' else 1.0)
        if not close(y.signal, exp, 1e-10):
            bad("SWEEP-" + name, f"{name}={v}")
prev = None
for T in np.concatenate([[0], np.geomspace(1e-6, 1e6, 200)]):
    y = pd(x, 4e9, T=float(T), include_noise='thermal-only', i_dark=0)
    s = np.std(y.noise)
    exp_ratio = np.sqrt(T)
    if prev is not None and prev[0] > 0:
        if not np.isclose(s / prev[1], np.sqrt(T / prev[0]), rtol=1e-9):
            bad("SWEEP-T", f"T={T}: same-seed thermal noise does not scale as sqrt(T)", np.sqrt(T / prev[0]), s / prev[1])
    elif prev is not None and prev[0] == 0 and prev[1] != 0:
        bad("SWEEP-T", "T=0 noise not zero", 0, prev[1])
    prev = (T, s)
prev = None
for Fn in np.linspace(0, 30, 121):
    y = pd(x, 4e9, Fn=float(Fn), include_noise='thermal-only', i_dark=0)
    s = np.std(y.noise)
    if prev is not None and not np.isclose(s / prev[1], 10 ** ((Fn - prev[0]) / 20), rtol=1e-9):
        bad("SWEEP-Fn", f"Fn={Fn}")
    prev = (Fn, s)
prev = None
for idk in np.concatenate([[0], np.geomspace(1e-15, 1, 100)]):
    y = pd(x, 4e9, i_dark=float(idk), include_noise='ase-only')
    if not close(y.noise, np.full(n, idk * 50.0), 1e-9, 1e-300):
        bad("SWEEP-idark", f"i_dark={idk}", idk * 50, (y.noise.min(), y.noise.max()))
# BW sweep on a CW + on a random record: finite, no sign flips on CW, DC gain 1 (mean preserved approx for CW only)
for fs in (16e9, 1.0):
    setfs(fs)
    xc = optical_signal(np.full((2, 300), 0.05 + 0.01j))
    Pc = 2 * abs(0.05 + 0.01j) ** 2
    for bwf in np.concatenate([np.linspace(1e-5, 0.49999, 700), np.geomspace(1e-12, 1e-3, 56), 0.5 - np.geomspace(1e-12, 1e-3, 40)]):
        try:
            y = pd(xc, bwf * fs, r=0.9, R_load=50.0)
        except Exception as ex:
            bad("SWEEP-BW-CW", f"fs={fs} BW={bwf}fs raised {type(ex).__name__}: {ex}"); continue
        if not close(y.signal, np.full(300, 0.9 * 50 * Pc), 1e-7):
            bad("SWEEP-BW-CW", f"fs={fs} BW={bwf}fs", 0.9 * 50 * Pc, (y.signal.min(), y.signal.max()))
        if not np.all(np.isfinite(y.noise)):
            bad("SWEEP-BW-noise-finite", f"fs={fs} BW={bwf}fs")

# ------------------------------------------------------------------ C-STAT thermal / shot variances
def neb_and_sigma(BW, fs, N):
    sos = sg.bessel(4, BW, 'low', fs=fs, output='sos', norm='mag')
    _, H = sg.sosfreqz(sos, worN=N, fs=fs, whole=True)
    G = np.abs(H) ** 4
    neb = G.mean()
    rel = np.sqrt(2 * np.sum(G ** 2)) / np.sum(G)   # relative std of the sample variance
    return neb, rel

N = 2 ** 18
stat_fail = {}
def stat(clause, key, meas, exp, rel):
    z = (meas - exp) / (exp * rel) if exp > 0 else (0 if meas == 0 else np.inf)
    stat_fail.setdefault((clause, key), []).append(z)

for fs in (16e9, 1e3, 2e12):
    setfs(fs)
    for bwf in (0.1, 0.25, 0.4):
        BW = bwf * fs
        neb, rel = neb_and_sigma(BW, fs, N)
        for npol in (1, 2):
            for case in range(3):
                for seed in range(4):
                    rr = np.random.default_rng(1000 * case + seed)
                    if case == 0:   # CW, no optical noise
                        P = 1e-3; E = np.full((npol, N), np.sqrt(P / npol)) * np.exp(1j * 0.3); Nn = None; Pn = 0
                        kw = dict(r=0.8, T=300.0, R_load=50.0, i_dark=10e-9, Fn=0)
                    elif case == 1:  # modulated, with optical noise dominating shot
                        E = np.sqrt(1e-4) * (rr.integers(0, 2, (npol, N // 16)).repeat(16, axis=1) + 0.1) * np.exp(1j * rr.uniform(0, 6, (npol, N)))
                        Nn = np.sqrt(2e-3 / 2) * (rr.standard_normal((npol, N)) + 1j * rr.standard_normal((npol, N)))
                        Pn = (np.abs(Nn) ** 2).mean(axis=1).sum()
                        kw = dict(r=0.35, T=77.0, R_load=1e3, i_dark=0.0, Fn=6.0)
                    else:           # dark only
                        E = np.zeros((npol, N), complex); Nn = np.zeros((npol, N), complex); Pn = 0
                        kw = dict(r=1.0, T=1000.0, R_load=7.0, i_dark=1e-6, Fn=10)
                    if npol == 1:
                        E_ = E[0]; Nn_ = None if Nn is None else Nn[0]
                    else:
                        E_ = E; Nn_ = Nn
                    Ps = (np.abs(E) ** 2).mean(axis=1).sum()
                    x = optical_signal(E_, Nn_)
                    dark = kw['i_dark'] * kw['R_load']
                    key = f"fs={fs} BW={bwf}fs npol={npol} case={case}"
                    np.random.seed(seed + 17)
                    yt = PD(x, BW, include_noise='thermal-only', **kw)
                    ys = PD(x, BW, include_noise='shot-only', **kw)
                    yts = PD(x, BW, include_noise='thermal-shot', **kw)
                    vt = 4 * kB * kw['T'] * 10 ** (kw['Fn'] / 10) * (fs / 2) / kw['R_load'] * kw['R_load'] ** 2 * neb
                    vs = 2 * qe * (kw['r'] * (Ps + Pn) + kw['i_dark']) * (fs / 2) * kw['R_load'] ** 2 * neb
                    stat('STAT-thermal-var', key, np.var(yt.noise), vt, rel)
                    stat('STAT-shot-var', key, np.var(ys.noise), vs, rel)
                    stat('STAT-thermal+shot-var', key, np.var(yts.noise), vt + vs, rel)
                    # means: zero-mean + dark offset (std of mean: DC bin only -> sqrt(var_in/N))
                    for nm, yy, vin in (('thermal', yt, vt / neb), ('shot', ys, vs / neb)):
                        zm = (np.mean(yy.noise) - dark) / np.sqrt(vin / N)
                        stat_fail.setdefault(('STAT-mean-' + nm, key), []).append(zm)
                    # gaussianity: excess kurtosis of white part checked at high BW only via 4th moment
                    if bwf == 0.4:
                        for nm, yy in (('thermal', yt), ('shot', ys)):
                            d = yy.noise - np.mean(yy.noise)
                            kurt = np.mean(d ** 4) / np.mean(d ** 2) ** 2 - 3
                            stat_fail.setdefault(('STAT-kurt-' + nm, key), []).append(kurt / (np.sqrt(24 / N) * 3))
for (clause, key), zs in stat_fail.items():
    zs = np.array(zs)
    if np.sum(np.abs(zs) > 6) >= 2:
        bad(clause, key + f" z-scores={np.round(zs, 1)}")

if viol:
    print(f"{len(viol)} violations")
    sys.exit(1)
print("PASS")
sys.exit(0)
