# C09 "a CW field of power P gives the constant voltage r*P*R_load ... BW in (0, fs/2)": unit DC gain is lost at narrow BW/fs
import sys; del sys.path[0]
import warnings; warnings.filterwarnings('ignore')
import numpy as np
from opticomlib import gv, optical_signal
from opticomlib.devices import PD
gv(sps=16, fs=16e9)
x = optical_signal(np.ones(1000, complex))           # CW, P = 1 W, one polarisation, no optical noise
fail = 0
for bwf in (1e-5, 1e-7, 1e-8, 3e-9, 1e-9, 1e-10):   # all inside 0 < BW < fs/2
    try:
        v = PD(x, bwf * gv.fs, r=1.0, R_load=1.0, include_noise='ase-only', i_dark=0).signal
        got = f"min={v.min():.12f} max={v.max():.12f}"; ok = np.allclose(v, 1.0, rtol=1e-9, atol=0)
    except Exception as ex:
        got = f"{type(ex).__name__}: {ex}"; ok = False
    fail |= not ok
    print(f"BW={bwf:g}*fs  expected r*P*R_load = 1.000000000000  got {got}")
sys.exit(1 if fail else 0)
