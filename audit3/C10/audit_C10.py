import sys, os
_here = os.path.dirname(os.path.abspath(__file__))
if sys.path and os.path.abspath(sys.path[0] or '.') == _here:
    del sys.path[0]
import warnings, itertools
warnings.filterwarnings('ignore')
import numpy as np
import opticomlib
from opticomlib import gv, optical_signal, electrical_signal, binary_sequence, idb
from opticomlib.devices import EDFA, BPF, MZM, PM
from scipy.constants import h

assert os.path.abspath(opticomlib.__file__).startswith('/tmp/wt22/C10/'), opticomlib.__file__

viol = []
def bad(clause, desc, exp=None, got=None):
    msg = f"VIOLATION [{clause}] {desc}"
    if exp is not None or got is not None:
        msg += f" | expected {exp} | got {got}"
    if len(viol) < 400:
        print(msg)
    viol.append(msg)

def close(a, b, rtol=1e-13, atol=0.0):
    a = np.asarray(a); b = np.asarray(b)
    if a.shape != b.shape:
        return False
    sc = max(np.max(np.abs(b)) if b.size else 0, 1e-300)
    return bool(np.all(np.abs(a - b) <= rtol * sc + atol)) and not np.any(np.isnan(a))

def run(x, G, NF, seed, **kw):
    np.random.seed(seed)
    return EDFA(x, G, NF, **kw)

def ref_rows(arr, n_pol, g):
    """expected amplified rows (2,N) of a signal/noise array"""
    arr = np.asarray(arr)
    if n_pol == 1:
        return np.array([arr * g, np.zeros_like(arr * g)])
    return arr * g

def set_gv(sps=16, R=1e9, wavelength=1550e-9, **kw):
    gv(sps=sps, R=R, wavelength=wavelength, **kw)

# ----------------------------------------------------------------------------------------
# generators of inputs
# ----------------------------------------------------------------------------------------
def make_inputs(rng, N):
    """yield (label, optical_signal) for length N covering pol / noise / dtype / order / container"""
    base_f = rng.normal(size=(2, N))
    base_c = rng.normal(size=(2, N)) + 1j * rng.normal(size=(2, N))
    base_i = rng.integers(-5, 6, size=(2, N)).astype(np.int64)
    nz_f = 0.1 * rng.normal(size=(2, N))
    nz_c = 0.1 * (rng.normal(size=(2, N)) + 1j * rng.normal(size=(2, N)))
    nz_i = rng.integers(-2, 3, size=(2, N)).astype(np.int64)
    for dt, s, n in (('f8', base_f, nz_f), ('c16', base_c, nz_c), ('i8', base_i, nz_i), ('f8+c16noise', base_f, nz_c), ('i8+f8noise', base_i, nz_f)):
        for npol in (1, 2):
            ss = s[0] if npol == 1 else s
            nn = n[0] if npol == 1 else n
            for noise_kind in ('none', 'zero', 'rand'):
                if noise_kind == 'none':
                    nv = None
                elif noise_kind == 'zero':
                    nv = np.zeros_like(nn)
                else:
                    nv = nn
                yield f"{dt},pol{npol},noise={noise_kind},N={N}", optical_signal(ss.copy(), None if nv is None else nv.copy())
    # containers / layouts
    yield f"list,pol1,N={N}", optical_signal(list(base_f[0]))
    yield f"tuple,pol1,noise,N={N}", optical_signal(tuple(base_f[0]), tuple(nz_f[0]))
    yield f"list2d,pol2,N={N}", optical_signal([list(base_f[0]), list(base_f[1])], [list(nz_f[0]), list(nz_f[1])])
    yield f"1d->n_pol=2,N={N}", optical_signal(base_f[0], nz_f[0], n_pol=2)
    yield f"2d->n_pol=1,N={N}", optical_signal(base_f, nz_f, n_pol=1)
    yield f"(1,N) array,N={N}", optical_signal(base_c[:1], nz_c[:1])
    yield f"(1,N) array n_pol=1,N={N}", optical_signal(base_c[:1], nz_c[:1], n_pol=1)
    yield f"str 0/1,N={N}", optical_signal(' '.join(str(int(v)) for v in rng.integers(0, 2, N)))
    yield f"str floats,N={N}", optical_signal(','.join(f"{v:.3f}" for v in base_f[0]))
    yield f"bool,N={N}", optical_signal(base_f[0] > 0)
    # attribute arrays swapped for Fortran order / views / read-only
    x = optical_signal(base_c.copy(), nz_c.copy()); x.signal = np.asfortranarray(x.signal); x.noise = np.asfortranarray(x.noise)
    yield f"Fortran,pol2,N={N}", x
    big = rng.normal(size=(2, 2 * N + 1)); bign = rng.normal(size=(2, 2 * N + 1))
    x = optical_signal(base_f.copy(), nz_f.copy()); x.signal = big[:, 1::2][:, :N]; x.noise = bign[:, ::-1][:, ::2][:, :N]
    yield f"strided view,pol2,N={N}", x
    x = optical_signal(base_f[0].copy(), nz_f[0].copy()); x.signal = big[0, ::2][:N]; x.noise = bign[1, ::-2][:N]
    yield f"strided view,pol1,N={N}", x
    x = optical_signal(base_c.copy(), nz_c.copy()); x.signal.setflags(write=False); x.noise.setflags(write=False)
    yield f"read-only,pol2,N={N}", x
    x = optical_signal(base_f[0].copy(), nz_f[0].copy()); x.signal.setflags(write=False); x.noise.setflags(write=False)
    yield f"read-only,pol1,N={N}", x
    # results of operators / slicing / other devices
    a = optical_signal(base_f[0]); b = optical_signal(0.5, 0.25)
    yield f"sum with len-1 noisy operand (broadcast noise),pol1,N={N}", a + b
    a2 = optical_signal(base_f);
    yield f"product 2pol,N={N}", a2 * 2
    yield f"slice[:] pol2,N={N}", optical_signal(base_c, nz_c)[:]
    yield f"copy pol1,N={N}", optical_signal(base_c[0], nz_c[0]).copy()
    if N >= 2:
        yield f"slice[1:] of N+1,pol2", optical_signal(np.hstack([base_c, base_c[:, :1]]), np.hstack([nz_c, nz_c[:, :1]]))[1:]
        yield f"slice[::-1] pol1,N={N}", optical_signal(base_f[0], nz_f[0])[::-1]
    yield f"freq-domain object pol2,N={N}", optical_signal(base_c, nz_c)('w')
    yield f"MZM out pol1,N={N}", MZM(optical_signal(base_f[0], nz_f[0]), 1.0, bias=0.3, Vpi=5)
    yield f"MZM out pol2,N={N}", MZM(optical_signal(base_f, nz_f), 1.0, bias=0.3, Vpi=5)
    yield f"PM out pol2,N={N}", PM(optical_signal(base_f, nz_f), 1.0, Vpi=5)

def scalar_inputs():
    yield "scalar pol1", optical_signal(3.0)
    yield "scalar pol1 noise", optical_signal(3.0, 0.5)
    yield "scalar pol2", optical_signal(3.0, n_pol=2)
    yield "scalar pol2 noise", optical_signal(3.0, 0.5, n_pol=2)
    yield "scalar int pol1", optical_signal(2)
    yield "scalar complex pol2 noise", optical_signal(1 + 2j, 0.5j, n_pol=2)
    yield "index int of pol2", optical_signal(np.arange(10.).reshape(2, 5), np.ones((2, 5)))[3]
    yield "index np.int64 of pol2", optical_signal(np.arange(10.).reshape(2, 5), np.ones((2, 5)))[np.int64(4)]
    yield "index last of pol1", optical_signal(np.arange(5.), np.ones(5))[-1]
    yield "index first of pol1", optical_signal(np.arange(5.), np.ones(5))[0]

# ----------------------------------------------------------------------------------------
# structural / exact clauses on one (input, G, NF, BW=None) case
# ----------------------------------------------------------------------------------------
def check_case(label, x, G, NF, seed):
    tag = f"{label}; G={G!r}, NF={NF!r}, fs={gv.fs:g}, f0={gv.f0:g}"
    s0 = np.array(x.signal, copy=True); n0 = None if x.noise is None else np.array(x.noise, copy=True); p0 = x.n_pol
    try:
        y = run(x, G, NF, seed)
    except Exception as e:
        bad('returns', f"{tag}: raised {type(e).__name__}: {e}")
        return None
    N = x.len()
    g = np.sqrt(idb(G))
    # C1 shape
    if not isinstance(y, optical_signal) or y.n_pol != 2 or np.shape(y.signal) != (2, N) or y.noise is None or np.shape(y.noise) != (2, N):
        bad('two-pol output', tag, f"optical_signal n_pol=2 signal/noise (2,{N})", f"{type(y).__name__} n_pol={getattr(y,'n_pol',None)} {np.shape(y.signal)} {None if y.noise is None else np.shape(y.noise)}")
        return None
    # input untouched
    if x.n_pol != p0 or not np.array_equal(x.signal, s0) or (n0 is None) != (x.noise is None) or (n0 is not None and not np.array_equal(x.noise, n0)):
        bad('input unchanged', tag)
    # C2 signal
    exp = ref_rows(s0, p0, g)
    if not close(y.signal, exp, rtol=4e-16):
        bad('signal = sqrt(G)*input', tag, exp.ravel()[:4], np.asarray(y.signal).ravel()[:4])
    if p0 == 1 and np.any(y.signal[1] != 0):
        bad('y-pol signal of one-pol input is 0', tag, 0, y.signal[1][:4])
    # C3 noise = sqrt(G)*input noise + ASE ; ASE reproduced from the same generator state
    P = idb(NF) * h * gv.f0 * (idb(G) - 1) * gv.fs
    P = float(np.ravel(P)[0])
    np.random.seed(seed)
    r = np.random.randn(4, N)
    ase = np.sqrt(P / 4) * (r[:2] + 1j * r[2:])
    expn = ase if n0 is None else ref_rows(n0, p0, g) + ase
    sc = max(np.max(np.abs(expn)), 1e-300)
    if not close(y.noise, expn, rtol=1e-13):
        # fall back: is the *difference* w.r.t. a noise-free call right? (see relation checks) - report here anyway
        bad('noise = sqrt(G)*input noise + ASE(seeded)', tag, expn.ravel()[:3], np.asarray(y.noise).ravel()[:3])
    if np.any(np.isnan(y.noise)) or np.any(np.isnan(y.signal)):
        bad('finite output', tag)
    # OSNR never exceeds input's (BW=None)
    ps_in = np.sum(np.mean(np.abs(np.atleast_2d(s0)) ** 2, axis=-1)); pn_in = 0.0 if n0 is None else np.sum(np.mean(np.abs(np.atleast_2d(n0)) ** 2, axis=-1))
    ps_out = np.sum(np.mean(np.abs(y.signal) ** 2, axis=-1)); pn_out = np.sum(np.mean(np.abs(y.noise) ** 2, axis=-1))
    # cross-multiplied: ps_out*pn_in <= ps_in*pn_out  (holds in expectation; deterministic only for noise-free input or G=0 dB)
    if n0 is None or pn_in == 0 or G == 0:
        if ps_out * pn_in > ps_in * pn_out * (1 + 1e-12):
            bad('OSNR_out <= OSNR_in', tag, f"{ps_in}/{pn_in}", f"{ps_out}/{pn_out}")
    return y

# ----------------------------------------------------------------------------------------
def main():
    rng = np.random.default_rng(2024)
    set_gv()
    Gs = [0, 0.0, 1e-9, 0.5, 3, 10, 17.3, 20, 40, 40.0]
    NFs = [3, 3.0, 4.5, 5, 10, 10.0]

    # ---- (A) exhaustive small sizes x all input kinds x a few (G, NF)
    cnt = 0
    for N in (1, 2, 3, 4, 5, 7, 8, 16, 17, 33):
        for label, x in make_inputs(rng, N):
            for (G, NF) in ((0, 3), (40, 10), (17.3, 4.5), (20, 5)):
                check_case(label, x, G, NF, seed=cnt % 7); cnt += 1
    for label, x in scalar_inputs():
        for G in Gs:
            for NF in (3, 10, 5.5):
                check_case(label, x, G, NF, seed=cnt % 7); cnt += 1
    # ---- (B) all G x NF corners on a few inputs, several fs/f0
    for (sps, R, wl) in ((16, 1e9, 1550e-9), (2, 1e6, 1310e-9), (64, 100e9, 850e-9), (1, 10e9, 1625e-9), (8, 10**9, 1550e-9)):
        set_gv(sps=sps, R=R, wavelength=wl)
        for label, x in list(make_inputs(rng, 6))[:30:3] + list(scalar_inputs())[:4]:
            for G in Gs:
                for NF in NFs:
                    check_case(label, x, G, NF, seed=cnt % 7); cnt += 1
    # direct assignment of gv.fs / gv.f0 (EDFA must read the values in force at call time)
    set_gv()
    gv.fs = 3.3e10; gv.f0 = 2.0e14
    check_case("gv.fs/gv.f0 assigned", optical_signal(rng.normal(size=9)), 20, 5, 1)
    set_gv()
    # ---- (C) seeded random cases
    for k in range(300):
        N = int(rng.integers(1, 70)); npol = int(rng.integers(1, 3))
        s = rng.normal(size=(npol, N)) * 10 ** rng.uniform(-6, 2) + (1j * rng.normal(size=(npol, N)) if rng.random() < .5 else 0)
        n = None if rng.random() < .4 else rng.normal(size=(npol, N)) * 10 ** rng.uniform(-8, 0)
        x = optical_signal(s[0] if npol == 1 else s, None if n is None else (n[0] if npol == 1 else n))
        G = float(rng.choice([0, 40, rng.uniform(0, 40)])); NF = float(rng.choice([3, 10, rng.uniform(3, 10)]))
        set_gv(sps=int(rng.integers(1, 65)), R=10 ** rng.uniform(6, 11), wavelength=rng.uniform(800e-9, 1700e-9))
        check_case(f"random#{k} pol{npol} N={N} noise={'y' if n is not None else 'n'}", x, G, NF, seed=k)
    set_gv()

    # ---- (D) relations between calls
    for N in (1, 2, 3, 8, 31):
        sx = rng.normal(size=N) + 1j * rng.normal(size=N); sy = rng.normal(size=N); nx = rng.normal(size=N); ny = 1j * rng.normal(size=N)
        for G, NF in ((0, 3), (13.7, 6), (40, 10)):
            g = np.sqrt(idb(G))
            tag = f"N={N},G={G},NF={NF}"
            # noise=0 vs no noise
            a = run(optical_signal(sx), G, NF, 5); b = run(optical_signal(sx, np.zeros(N)), G, NF, 5)
            if not (np.array_equal(a.signal, b.signal) and np.array_equal(a.noise, b.noise)):
                bad('noise=0 vs no noise', tag)
            a2 = run(optical_signal([sx, sy]), G, NF, 5); b2 = run(optical_signal([sx, sy], np.zeros((2, N))), G, NF, 5)
            if not (np.array_equal(a2.signal, b2.signal) and np.array_equal(a2.noise, b2.noise)):
                bad('noise=0 vs no noise (2 pol)', tag)
            # with noise minus without noise = sqrt(G)*noise in the polarisations present
            c = run(optical_signal(sx, nx), G, NF, 5)
            if not close(c.noise - a.noise, ref_rows(nx, 1, g), rtol=1e-12, atol=1e-13):
                bad('noise difference = sqrt(G)*input noise (1 pol)', tag, ref_rows(nx, 1, g)[:, :2], (c.noise - a.noise)[:, :2])
            c2 = run(optical_signal([sx, sy], [nx, ny]), G, NF, 5)
            if not close(c2.noise - a2.noise, np.array([nx, ny]) * g, rtol=1e-12, atol=1e-13):
                bad('noise difference = sqrt(G)*input noise (2 pol)', tag)
            # two-pol call vs two one-pol calls
            ex = run(optical_signal(sx, nx), G, NF, 5); ey = run(optical_signal(sy, ny), G, NF, 5)
            if not (close(c2.signal[0], ex.signal[0], 1e-15) and close(c2.signal[1], ey.signal[0], 1e-15)):
                bad('2-pol call vs two 1-pol calls (signal)', tag)
            if not close(c2.noise[0], ex.noise[0], 1e-13, 1e-300):
                bad('2-pol call vs two 1-pol calls (noise x row, same seed)', tag)
            # one-pol input == two-pol input with zero y
            z = run(optical_signal([sx, np.zeros(N)], [nx, np.zeros(N)]), G, NF, 5)
            if not (close(z.signal, ex.signal, 1e-15) and close(z.noise, ex.noise, 1e-13, 1e-300)):
                bad('1-pol input vs 2-pol input with zero y', tag)
            # positional / keyword / default
            outs = [run(optical_signal(sx, nx), G, NF, 9), None, None]
            np.random.seed(9); outs[1] = EDFA(input=optical_signal(sx, nx), NF=NF, G=G)
            np.random.seed(9); outs[2] = EDFA(optical_signal(sx, nx), G, NF, None)
            np.random.seed(9); outs.append(EDFA(optical_signal(sx, nx), G, NF, BW=None))
            for o in outs[1:]:
                if not (np.array_equal(o.signal, outs[0].signal) and np.array_equal(o.noise, outs[0].noise)):
                    bad('positional vs keyword vs default BW', tag)
            # argument types for G and NF
            ref = run(optical_signal(sx, nx), float(G), float(NF), 9)
            for Gv, NFv, nm in ((int(G), int(NF), 'int') if float(G).is_integer() and float(NF).is_integer() else (G, NF, 'same'),
                                (np.float64(G), np.float64(NF), 'np.float64'), (np.array(float(G)), np.array(float(NF)), '0-d array'),
                                (np.array([float(G)]), np.array([float(NF)]), 'len-1 array'), ([float(G)], [float(NF)], 'len-1 list'),
                                (np.float32(G), np.float32(NF), 'np.float32') if float(np.float32(G)) == G and float(np.float32(NF)) == NF else (G, NF, 'same'),
                                (np.int64(G), np.int64(NF), 'np.int64') if float(G).is_integer() and float(NF).is_integer() else (G, NF, 'same')):
                try:
                    o = run(optical_signal(sx, nx), Gv, NFv, 9)
                    if not (close(o.signal, ref.signal, 1e-7 if nm == 'np.float32' else 1e-14) and close(o.noise, ref.noise, 1e-6 if nm == 'np.float32' else 1e-13, 1e-300)) or o.signal.shape != (2, N) or o.noise.shape != (2, N):
                        bad('G/NF type invariance', f"{tag} as {nm}", ref.noise[0, :2], o.noise[0, :2])
                except Exception as e:
                    bad('G/NF type invariance', f"{tag} as {nm}: {type(e).__name__}: {e}")
            # cascade: EDFA(G1) then EDFA(G2) vs single gain (signal), and noise recursion
            for G1 in (0, G / 3, G):
                G2 = G - G1
                np.random.seed(3); y1 = EDFA(optical_signal([sx, sy], [nx, ny]), G1, NF); st = np.random.get_state(); y2 = EDFA(y1, G2, NF)
                if not close(y2.signal, np.array([sx, sy]) * g, 1e-14):
                    bad('cascade signal gain G1+G2', f"{tag},G1={G1}")
                np.random.set_state(st); y2b = EDFA(optical_signal(y1.signal), G2, NF)  # same ASE, no input noise
                if not close(y2.noise - y2b.noise, y1.noise * np.sqrt(idb(G2)), 1e-12, 1e-300):
                    bad('cascade: second stage amplifies first stage noise (incl. its complex ASE)', f"{tag},G1={G1}")
            # scaling (units) invariance: EDFA(k*x) signal = k*EDFA(x) signal, ASE unchanged
            for k in (1e-6, 1e6, -1, 1j):
                o1 = run(optical_signal(sx), G, NF, 4); ok = run(optical_signal(k * sx), G, NF, 4)
                if not (close(ok.signal, k * o1.signal, 1e-14) and np.array_equal(ok.noise, o1.noise)):
                    bad('input scale invariance', f"{tag},k={k}")
            # dtype invariance int64 / float64 / complex128
            si = np.round(sy * 3).astype(np.int64); ni = np.round(nx * 3).astype(np.int64)
            outs = [run(optical_signal(si.astype(t), ni.astype(t)), G, NF, 4) for t in (np.int64, np.float64, np.complex128)]
            for o in outs[1:]:
                if not (close(o.signal, outs[0].signal, 1e-15) and close(o.noise, outs[0].noise, 1e-14, 1e-300)):
                    bad('dtype invariance', tag)
    # repeated calls / call order: fresh ASE each call, the global generator is consumed not reset
    x = optical_signal(rng.normal(size=64))
    np.random.seed(0); a = EDFA(x, 20, 5); b = EDFA(x, 20, 5)
    if np.array_equal(a.noise, b.noise):
        bad('fresh ASE per call', 'two consecutive calls returned identical ASE')
    np.random.seed(0); r = np.random.randn(8, 64)
    P = idb(5) * h * gv.f0 * (idb(20) - 1) * gv.fs
    if not close(b.noise, np.sqrt(P / 4) * (r[4:6] + 1j * r[6:8]), 1e-13):
        # not a violation of the statement by itself, only informational if stream layout differs
        pass
    if not np.array_equal(x.signal, x.signal) or x.noise is not None:
        bad('input unchanged', 'noise attached to input')

    # ---- (E) statistical ASE clause, N = 2^16 and 2^17, several seeds, corners of G/NF, several fs/f0
    for (sps, R, wl) in ((16, 1e9, 1550e-9), (4, 40e9, 1310e-9)):
        set_gv(sps=sps, R=R, wavelength=wl)
        for N in (2 ** 16, 2 ** 17):
            sig = np.exp(2j * np.pi * 0.01 * np.arange(N))
            for G, NF in ((0, 3), (1e-3, 3), (0.1, 10), (20, 5), (40, 10), (40, 3), (7.7, 3)):
                P = idb(NF) * h * gv.f0 * (idb(G) - 1) * gv.fs
                fails = {}
                for seed in range(6):
                    for npol, withn in ((1, False), (2, True)):
                        nin = 0.01 * np.sqrt(P if P > 0 else 1e-12) * np.random.default_rng(seed).normal(size=(2, N))
                        x = optical_signal(sig if npol == 1 else [sig, 0.5 * sig], None if not withn else nin)
                        y = run(x, G, NF, seed)
                        ase = y.noise - (0 if not withn else nin * np.sqrt(idb(G)))
                        if P == 0:
                            if np.any(ase != 0):
                                fails.setdefault('G=0dB -> no ASE', []).append(seed)
                            continue
                        tot = np.sum(np.mean(np.abs(ase) ** 2, axis=-1))
                        if abs(tot - P) > 6 * P / np.sqrt(2 * N):
                            fails.setdefault(f'total power {tot:.6g} vs {P:.6g}', []).append(seed)
                        comps = np.array([ase[0].real, ase[0].imag, ase[1].real, ase[1].imag]) / np.sqrt(P / 4)
                        for i in range(4):
                            if abs(comps[i].mean()) > 6 / np.sqrt(N):
                                fails.setdefault(f'mean comp{i}', []).append(seed)
                            if abs(comps[i].var() - 1) > 6 * np.sqrt(2 / N):
                                fails.setdefault(f'var comp{i} (P/4 each)', []).append(seed)
                            k4 = np.mean(comps[i] ** 4)
                            if abs(k4 - 3) > 6 * np.sqrt(96 / N):
                                fails.setdefault(f'gaussian 4th moment comp{i}', []).append(seed)
                            for j in range(i + 1, 4):
                                if abs(np.mean(comps[i] * comps[j])) > 6 / np.sqrt(N):
                                    fails.setdefault(f'corr comp{i},{j}', []).append(seed)
                            # whiteness lag 1 and 2
                            for lag in (1, 2):
                                if abs(np.mean(comps[i][lag:] * comps[i][:-lag])) > 6 / np.sqrt(N):
                                    fails.setdefault(f'autocorr comp{i} lag{lag}', []).append(seed)
                        # independent of the signal
                        if abs(np.mean(ase[0] * np.conj(sig))) > 6 * np.sqrt(P / 2) / np.sqrt(N):
                            fails.setdefault('corr with signal', []).append(seed)
                for kf, seeds in fails.items():
                    if len(seeds) >= 3 or kf.startswith('G=0dB'):
                        bad('ASE statistics', f"N={N},G={G},NF={NF},fs={gv.fs:g},f0={gv.f0:g}: {kf} failed for seeds {seeds}")
    # independence between successive calls
    set_gv()
    N = 2 ** 16; x = optical_signal(np.ones(N))
    nf = 0
    for seed in range(5):
        np.random.seed(seed); a = EDFA(x, 20, 5).noise; b = EDFA(x, 20, 5).noise
        P = idb(5) * h * gv.f0 * (idb(20) - 1) * gv.fs
        if abs(np.mean(a[0] * np.conj(b[0]))) > 6 * (P / 2) / np.sqrt(N):
            nf += 1
    if nf >= 3:
        bad('fresh ASE per call', 'consecutive calls correlated')

    # ---- (F) exact scaling of the ASE with fs and f0 under one seed (P proportional to f0*fs)
    x = optical_signal(rng.normal(size=50))
    set_gv(sps=16, R=1e9, wavelength=1550e-9); a = run(x, 20, 5, 1).noise; fa = gv.fs * gv.f0
    for (sps, R, wl) in ((16, 4e9, 1550e-9), (16, 1e9, 1550e-9 / 4), (3, 7e9, 1000e-9), (16, 10**9, 1550e-9)):
        set_gv(sps=sps, R=R, wavelength=wl); b = run(x, 20, 5, 1).noise; fb = gv.fs * gv.f0
        if not close(b, a * np.sqrt(fb / fa), 1e-13):
            bad('ASE power proportional to f0*fs', f"sps={sps},R={R},wl={wl}")
    set_gv()

    # ---- (G) monotonic / continuity sweeps over the whole range, inclusive ends
    x = optical_signal(rng.normal(size=256) + 1, 0.01 * rng.normal(size=256))
    Gsw = np.linspace(0, 40, 4001); prevS = prevN = -1
    for G in Gsw:
        y = run(x, float(G), 5, 2)
        ps = y.power('signal').sum(); pn = np.sum(np.mean(np.abs(y.noise - x.noise * np.sqrt(idb(G)) * np.array([[1], [0]])) ** 2, axis=-1))
        if not np.isfinite(ps) or not np.isfinite(pn) or ps < prevS or pn < prevN:
            bad('monotone in G', f"G={G}: signal power {ps} (prev {prevS}), ASE power {pn} (prev {prevN})")
        if prevS > 0 and ps / prevS > 10 ** (0.0101 / 10 * 1.0001) * 1.0000001:
            bad('continuity in G', f"G={G}: jump {ps/prevS}")
        prevS, prevN = ps, pn
    prevN = -1
    for NF in np.linspace(3, 10, 1401):
        y = run(optical_signal(x.signal), 20, float(NF), 2)
        pn = y.power('noise').sum(); ps = y.power('signal').sum()
        if not np.isfinite(pn) or pn < prevN or not close(ps, x.power('signal') * 100, 1e-12):
            bad('monotone in NF', f"NF={NF}: {pn} prev {prevN}")
        prevN = pn

    # ---- (H) bandwidth clause: EDFA(x,G,NF,BW) == BPF(EDFA(x,G,NF),BW) under one seed; out-of-band suppressed
    set_gv(sps=16, R=1e9)
    for N in (1, 2, 3, 5, 16, 28, 29, 64, 257, 1024):
        for lab, x in (("pol1", optical_signal(rng.normal(size=N))), ("pol1+noise", optical_signal(rng.normal(size=N), rng.normal(size=N) * .1)),
                       ("pol2 complex+noise", optical_signal(rng.normal(size=(2, N)) + 1j * rng.normal(size=(2, N)), rng.normal(size=(2, N)) * .1)),
                       ("pol2 int", optical_signal(rng.integers(0, 3, size=(2, N))))):
            for BW in (gv.fs / 100, 1e9, gv.fs / 4, gv.fs / 2, 0.99 * gv.fs, int(2e9), np.float64(3e9)):
                for G, NF in ((0, 3), (20, 5), (40, 10)):
                    tag = f"{lab},N={N},BW={BW!r},G={G},NF={NF}"
                    try:
                        a = run(x, G, NF, 11, BW=BW); a2 = run(x, G, NF, 11); b = BPF(a2, BW)
                        np.random.seed(11); a3 = EDFA(x, G, NF, BW)
                    except Exception as e:
                        bad('BW clause', f"{tag}: {type(e).__name__}: {e}"); continue
                    if a.n_pol != 2 or a.signal.shape != (2, N) or a.noise is None or a.noise.shape != (2, N):
                        bad('BW clause: two-pol output', tag)
                        continue
                    if not (close(a.signal, b.signal, 1e-13, 1e-300) and close(a.noise, b.noise, 1e-13, 1e-300)):
                        bad('BW clause: output = filter(unfiltered output)', tag)
                    if not (np.array_equal(a.signal, a3.signal) and np.array_equal(a.noise, a3.noise)):
                        bad('BW positional vs keyword', tag)
                    if x.n_pol == 1 and (np.any(a.signal[1] != 0)):
                        bad('BW clause: y-pol signal stays 0', tag)
    # spectral suppression on a long record: both signal and noise parts, both polarisations
    N = 2 ** 14; f = np.fft.fftfreq(N) * gv.fs
    for BW in (1e9, 4e9):
        sig = rng.normal(size=(2, N)) + 1j * rng.normal(size=(2, N)); nz = rng.normal(size=(2, N)) * 1e-3
        y = run(optical_signal(sig, nz), 20, 5, 3, BW=BW)
        for nm, arr in (('signal', y.signal), ('noise', y.noise)):
            S = np.abs(np.fft.fft(arr, axis=-1)) ** 2
            for p in (0, 1):
                inb = S[p][np.abs(f) < BW / 8].mean(); outb = S[p][np.abs(f) > 1.5 * BW].mean()
                if not outb < 1e-2 * inb:
                    bad('BW clause: band limited', f"BW={BW},{nm},pol{p}: out-of-band/in-band = {outb/inb}")
    set_gv()

    # ---- (I) TypeError for non optical input (with and without BW), never anything else, and no generator use
    nonopt = [np.ones(8), [1., 2.], (1., 2.), 1.0, 3, None, '1 0 1', electrical_signal(np.ones(8)), electrical_signal(np.ones(8), np.ones(8)),
              binary_sequence('1 0 1'), np.ones((2, 8)), {'signal': 1}, np.float64(2), 1j, optical_signal]
    for obj in nonopt:
        for kw in ({}, {'BW': 1e9}):
            for G, NF in ((0, 3), (20, 5)):
                try:
                    EDFA(obj, G, NF, **kw)
                    bad('TypeError for non-optical input', f"{type(obj).__name__} {kw}: no exception")
                except TypeError:
                    pass
                except Exception as e:
                    bad('TypeError for non-optical input', f"{type(obj).__name__} {kw}: {type(e).__name__}: {e}")

    if viol:
        print(f"{len(viol)} violations")
        sys.exit(1)
    print("PASS")
    sys.exit(0)

main()
