"""Audit of property C11 (LPF/BPF linear zero-phase filters, unit DC gain, -6 dB at cutoff).

Relations between calls are used instead of reference values wherever possible.
Prints one line per violated (clause, input); exit 1 if any, PASS / exit 0 otherwise.
"""
import sys
del sys.path[0]
import itertools
import warnings
import numpy as np

warnings.simplefilter("ignore")

from opticomlib import gv, electrical_signal, optical_signal
from opticomlib.devices import LPF, BPF

VIOL = []
SEEN = set()


def bad(clause, what):
    key = (clause, what)
    if key in SEEN:
        return
    SEEN.add(key)
    VIOL.append(key)
    print(f"VIOLATION {clause}: {what}")


def close(a, b, rtol=1e-9, atol=None):
    a = np.asarray(a)
    b = np.asarray(b)
    if a.shape != b.shape:
        return False
    if atol is None:
        scale = max(np.max(np.abs(a), initial=0), np.max(np.abs(b), initial=0), 1e-300)
        atol = rtol * scale
    if not (np.all(np.isfinite(a)) and np.all(np.isfinite(b))):
        return False
    return bool(np.all(np.abs(a - b) <= atol))


def guarded(clause, desc, fn):
    try:
        return fn()
    except Exception as e:  # loud failures inside the domain are violations too
        bad(clause, f"{desc}: raised {type(e).__name__}: {e}")
        return None


ORDERS = list(range(1, 9))
LENS = [17, 18, 19, 20, 27, 28, 29, 31, 32, 33, 64, 65, 255, 256, 257, 1000]
FRACS = [0.0100001, 0.011, 0.05, 0.1, 0.2, 0.25, 0.3, 0.4, 0.44, 0.4499999]
FSS = [1.0, 16e9, 1e-3, 7.3e14, 3, 48000]


def set_fs(fs):
    gv(sps=16, fs=fs)
    assert gv.fs == fs


# ----------------------------------------------------------------------------------------------
# C11.5  length / shape / type preserved  +  C11.1 linearity + C11.2 signal/noise + containers
# ----------------------------------------------------------------------------------------------
def lpf_relations():
    rng = np.random.default_rng(11)
    for fs in FSS:
        set_fs(fs)
        for n, L in itertools.product(ORDERS, LENS):
            frac = FRACS[(n + L) % len(FRACS)]
            BW = frac * fs
            tag = f"LPF n={n} L={L} BW={frac}*fs fs={fs}"
            x = rng.standard_normal(L)
            y = rng.standard_normal(L)
            nz = rng.standard_normal(L)
            a, b = 2.5, -0.75

            Fx = guarded("C11.5", tag, lambda: LPF(x, BW, n, fs))
            if Fx is None:
                continue
            if not isinstance(Fx, electrical_signal) or Fx.signal.shape != (L,) or Fx.len() != L:
                bad("C11.5", f"{tag}: output shape {getattr(Fx, 'signal', np.zeros(0)).shape}")
                continue
            if Fx.noise is not None:
                bad("C11.2", f"{tag}: noise appeared from a noise-free ndarray")
            if np.iscomplexobj(Fx.signal):
                bad("C11.5", f"{tag}: real input gave complex output")
            Fy = LPF(y, BW, n, fs)
            Fxy = LPF(a * x + b * y, BW, n, fs)
            if not close(Fxy.signal, a * Fx.signal + b * Fy.signal):
                bad("C11.1", f"{tag}: F(ax+by) != aF(x)+bF(y)")

            # offset: F(x + c) = F(x) + c   (linearity + unit DC gain)
            c = 3.0
            Fo = LPF(x + c, BW, n, fs)
            if not close(Fo.signal, Fx.signal + c, rtol=1e-8):
                bad("C11.4", f"{tag}: F(x+c) != F(x)+c, max dev {np.max(np.abs(Fo.signal - Fx.signal - c)):.3e}")

            # constants
            for cval in (1.0, -2.0, 1e-12, 1e12, 0.0, 7):
                k = np.full(L, cval)
                Fk = LPF(k, BW, n, fs)
                if not close(Fk.signal, k.astype(float), rtol=1e-9, atol=1e-9 * abs(cval)):
                    bad("C11.4", f"{tag}: constant {cval} not passed, max dev {np.max(np.abs(Fk.signal - cval)):.3e}")

            # container / noise relations
            es = electrical_signal(x)
            Fes = LPF(es, BW, n, fs)
            if not np.array_equal(Fes.signal, Fx.signal) or Fes.noise is not None:
                bad("C11.2", f"{tag}: electrical_signal container differs from ndarray")
            esn = electrical_signal(x, nz)
            Fesn = LPF(esn, BW, n, fs)
            Fn = LPF(nz, BW, n, fs)
            if Fesn.noise is None:
                bad("C11.2", f"{tag}: noise component dropped")
            else:
                if not np.array_equal(Fesn.signal, Fx.signal):
                    bad("C11.2", f"{tag}: signal output depends on presence of noise")
                if not np.array_equal(Fesn.noise, Fn.signal):
                    bad("C11.2", f"{tag}: noise not filtered like a signal")
                if Fesn.noise.shape != (L,):
                    bad("C11.5", f"{tag}: noise shape {Fesn.noise.shape}")
            es0 = electrical_signal(x, np.zeros(L))
            Fes0 = LPF(es0, BW, n, fs)
            if not np.array_equal(Fes0.signal, Fx.signal) or Fes0.noise is None or np.any(Fes0.noise != 0):
                bad("C11.2", f"{tag}: noise=0 differs from no noise")
            # input not mutated, output not aliased
            if not np.array_equal(esn.signal, x) or not np.array_equal(esn.noise, nz):
                bad("C11.1", f"{tag}: input object mutated")
            if np.shares_memory(Fesn.signal, esn.signal) or np.shares_memory(Fesn.noise, esn.noise):
                bad("C11.1", f"{tag}: output aliases input")

            # keyword / default / positional
            set_fs(fs)
            variants = {
                "kw": lambda: LPF(input=x, BW=BW, n=n, fs=fs),
                "fs default": lambda: LPF(x, BW, n),
                "fs None": lambda: LPF(x, BW, n, None),
                "retH False": lambda: LPF(x, BW, n, fs, False),
                "retH True": lambda: LPF(x, BW, n, fs, True)[0],
                "np.float64 BW/fs": lambda: LPF(x, np.float64(BW), n, np.float64(fs)),
            }
            if float(BW).is_integer() and float(fs).is_integer():
                variants["int BW/fs"] = lambda: LPF(x, int(BW), n, int(fs))
            if n == 4:
                variants["n default"] = lambda: LPF(x, BW, fs=fs)
            for name, fn in variants.items():
                r = guarded("C11.1", f"{tag} variant {name}", fn)
                if r is not None and not np.array_equal(r.signal, Fx.signal):
                    bad("C11.1", f"{tag}: variant '{name}' differs, max dev {np.max(np.abs(r.signal - Fx.signal)):.3e}")

            # dtype / memory layout invariance
            xi = rng.integers(-50, 50, L)
            Fi = LPF(xi.astype(np.float64), BW, n, fs).signal
            ro = xi.astype(np.float64)
            ro.setflags(write=False)
            big = np.zeros(2 * L)
            big[::2] = xi
            dvars = {
                "int64": xi.astype(np.int64),
                "complex128": xi.astype(np.complex128),
                "int32": xi.astype(np.int32),
                "readonly": ro,
                "strided view": big[::2],
                "reversed view": xi[::-1].astype(float)[::-1],
                "electrical_signal int": electrical_signal(xi.astype(np.int64)),
                "electrical_signal complex": electrical_signal(xi.astype(np.complex128)),
                "electrical_signal dtype=complex": electrical_signal(xi, dtype=complex),
                "electrical_signal from list": electrical_signal(list(map(int, xi))),
                "electrical_signal from tuple": electrical_signal(tuple(map(float, xi))),
            }
            for name, v in dvars.items():
                r = guarded("C11.1", f"{tag} dtype {name}", lambda: LPF(v, BW, n, fs))
                if r is None:
                    continue
                if not np.array_equal(r.signal, Fi):
                    bad("C11.1", f"{tag}: input as {name} differs, max dev {np.max(np.abs(r.signal - Fi)):.3e}")
                if np.iscomplexobj(r.signal):
                    bad("C11.5", f"{tag}: input as {name} gave complex output")
            if not np.array_equal(ro, xi):
                bad("C11.1", f"{tag}: read-only input changed")

            # amplitude-unit invariance (exact for powers of two)
            for s in (2.0 ** 40, 2.0 ** -40):
                r = LPF(x * s, BW, n, fs)
                if not np.array_equal(r.signal, Fx.signal * s):
                    bad("C11.1", f"{tag}: scale {s} not exact")
            # frequency-unit invariance (exact for powers of two)
            for s in (2.0 ** 10, 2.0 ** -7):
                r = LPF(x, BW * s, n, fs * s)
                if not np.array_equal(r.signal, Fx.signal):
                    bad("C11.1", f"{tag}: fs/BW scale {s} changes result, max dev {np.max(np.abs(r.signal - Fx.signal)):.3e}")
            r = LPF(x, BW * 1000, n, fs * 1000)
            if not close(r.signal, Fx.signal, rtol=1e-9):
                bad("C11.1", f"{tag}: fs/BW scale 1000 changes result, max dev {np.max(np.abs(r.signal - Fx.signal)):.3e}")

            # call order / repeated calls
            again = LPF(x, BW, n, fs)
            if not np.array_equal(again.signal, Fx.signal):
                bad("C11.1", f"{tag}: repeated call differs")


def bpf_relations():
    rng = np.random.default_rng(12)
    for fs in FSS:
        set_fs(fs)
        for n, L in itertools.product(ORDERS, LENS):
            frac = FRACS[(n + 2 * L) % len(FRACS)]
            BW = 2 * frac * fs  # cutoff BW/2 either side of the carrier
            tag = f"BPF n={n} L={L} BW/2={frac}*fs fs={fs}"

            def cplx(shape):
                return rng.standard_normal(shape) + 1j * rng.standard_normal(shape)

            x1, y1, n1 = cplx(L), cplx(L), cplx(L)
            x2, y2, n2 = cplx((2, L)), cplx((2, L)), cplx((2, L))
            a, b = 1.5 - 2j, -0.25 + 0.5j

            F1 = guarded("C11.5", tag + " 1pol", lambda: BPF(optical_signal(x1), BW, n))
            F2 = guarded("C11.5", tag + " 2pol", lambda: BPF(optical_signal(x2), BW, n))
            if F1 is None or F2 is None:
                continue
            if not isinstance(F1, optical_signal) or F1.signal.shape != (L,) or F1.n_pol != 1 or F1.len() != L:
                bad("C11.5", f"{tag}: 1pol output shape {F1.signal.shape} n_pol {F1.n_pol}")
                continue
            if not isinstance(F2, optical_signal) or F2.signal.shape != (2, L) or F2.n_pol != 2 or F2.len() != L:
                bad("C11.5", f"{tag}: 2pol output shape {F2.signal.shape} n_pol {F2.n_pol}")
                continue
            if F1.noise is not None or F2.noise is not None:
                bad("C11.2", f"{tag}: noise appeared")

            # linearity
            G1 = BPF(optical_signal(y1), BW, n)
            L1 = BPF(optical_signal(a * x1 + b * y1), BW, n)
            if not close(L1.signal, a * F1.signal + b * G1.signal):
                bad("C11.1", f"{tag}: 1pol linearity")
            G2 = BPF(optical_signal(y2), BW, n)
            L2 = BPF(optical_signal(a * x2 + b * y2), BW, n)
            if not close(L2.signal, a * F2.signal + b * G2.signal):
                bad("C11.1", f"{tag}: 2pol linearity")

            # polarisations independent: two-pol call == two one-pol calls
            for p in (0, 1):
                Fp = BPF(optical_signal(x2[p]), BW, n)
                if not np.array_equal(Fp.signal, F2.signal[p]):
                    bad("C11.3", f"{tag}: pol {p} of 2-pol call differs from 1-pol call, max dev {np.max(np.abs(Fp.signal - F2.signal[p])):.3e}")
            # swapped polarisations
            Fs = BPF(optical_signal(x2[::-1]), BW, n)
            if not np.array_equal(Fs.signal, F2.signal[::-1]):
                bad("C11.3", f"{tag}: swapping polarisations changes result")
            # one empty polarisation stays empty
            xz = x2.copy()
            xz[1] = 0
            Fz = BPF(optical_signal(xz), BW, n)
            if np.any(Fz.signal[1] != 0) or not np.array_equal(Fz.signal[0], F2.signal[0]):
                bad("C11.3", f"{tag}: cross-talk between polarisations")
            # n_pol=2 from 1D duplicates
            Fd = BPF(optical_signal(x1, n_pol=2), BW, n)
            if Fd.signal.shape != (2, L) or not np.array_equal(Fd.signal[0], F1.signal) or not np.array_equal(Fd.signal[1], F1.signal):
                bad("C11.3", f"{tag}: n_pol=2 duplicated input differs from 1-pol")
            # (2,L) input reduced to one pol
            Fr = BPF(optical_signal(x2, n_pol=1), BW, n)
            if Fr.signal.shape != (L,) or not np.array_equal(Fr.signal, F2.signal[0]):
                bad("C11.3", f"{tag}: n_pol=1 of 2D input differs")

            # noise
            for (xs, ns, Fref, nm) in ((x1, n1, F1, "1pol"), (x2, n2, F2, "2pol")):
                o = optical_signal(xs, ns)
                Fo = BPF(o, BW, n)
                Fnn = BPF(optical_signal(ns), BW, n)
                if Fo.noise is None:
                    bad("C11.2", f"{tag} {nm}: noise dropped")
                    continue
                if not np.array_equal(Fo.signal, Fref.signal):
                    bad("C11.2", f"{tag} {nm}: signal output depends on presence of noise")
                if not np.array_equal(Fo.noise, Fnn.signal):
                    bad("C11.2", f"{tag} {nm}: noise not filtered like signal")
                if Fo.noise.shape != xs.shape or Fo.n_pol != Fref.n_pol:
                    bad("C11.5", f"{tag} {nm}: noise shape")
                if not np.array_equal(o.signal, xs) or not np.array_equal(o.noise, ns):
                    bad("C11.1", f"{tag} {nm}: input mutated")
                if np.shares_memory(Fo.signal, o.signal) or np.shares_memory(Fo.noise, o.noise):
                    bad("C11.1", f"{tag} {nm}: output aliases input")
                o0 = optical_signal(xs, np.zeros_like(xs))
                F0 = BPF(o0, BW, n)
                if F0.noise is None or np.any(F0.noise != 0) or not np.array_equal(F0.signal, Fref.signal):
                    bad("C11.2", f"{tag} {nm}: noise=0 differs from no noise")
                # noise only in one place: swap roles of signal and noise
                osw = optical_signal(ns, xs)
                Fsw = BPF(osw, BW, n)
                if not np.array_equal(Fsw.signal, Fo.noise) or not np.array_equal(Fsw.noise, Fo.signal):
                    bad("C11.2", f"{tag} {nm}: signal and noise not treated identically")

            # constants
            for cval in (1.0, -2 + 3j, 1e-12j, 1e12, 0.0):
                k1 = np.full(L, cval, dtype=complex)
                k2 = np.array([np.full(L, cval), np.full(L, -1j * cval)], dtype=complex)
                r1 = BPF(optical_signal(k1), BW, n).signal
                r2 = BPF(optical_signal(k2), BW, n).signal
                if not close(r1, k1, atol=1e-9 * abs(cval)) or not close(r2, k2, atol=1e-9 * abs(cval)):
                    bad("C11.4", f"{tag}: constant {cval} not passed")
            # offset
            Fo = BPF(optical_signal(x2 + (2 - 1j)), BW, n)
            if not close(Fo.signal, F2.signal + (2 - 1j), rtol=1e-8):
                bad("C11.4", f"{tag}: F(x+c) != F(x)+c")

            # keyword / default
            variants = {
                "kw": lambda: BPF(input=optical_signal(x2), BW=BW, n=n),
                "np.float64 BW": lambda: BPF(optical_signal(x2), np.float64(BW), n),
            }
            if n == 4:
                variants["n default"] = lambda: BPF(optical_signal(x2), BW)
            if float(BW).is_integer():
                variants["int BW"] = lambda: BPF(optical_signal(x2), int(BW), n)
            for name, fn in variants.items():
                r = guarded("C11.1", f"{tag} variant {name}", fn)
                if r is not None and not np.array_equal(r.signal, F2.signal):
                    bad("C11.1", f"{tag}: variant {name} differs")

            # dtype / layout
            xi = rng.integers(-50, 50, (2, L))
            ref = BPF(optical_signal(xi.astype(np.complex128)), BW, n).signal
            ro = xi.astype(np.complex128)
            ro.setflags(write=False)
            o_view = optical_signal(xi.astype(complex))
            big = np.zeros((2, 3 * L), dtype=complex)
            big[:, ::3] = xi
            o_view.signal = big[:, ::3]
            o_f = optical_signal(xi.astype(complex))
            o_f.signal = np.asfortranarray(xi.astype(complex))
            o_ro = optical_signal(xi.astype(complex))
            o_ro.signal = ro
            dvars = {
                "int64": optical_signal(xi.astype(np.int64)),
                "float64": optical_signal(xi.astype(np.float64)),
                "fortran ctor": optical_signal(np.asfortranarray(xi.astype(complex))),
                "fortran attr": o_f,
                "strided view attr": o_view,
                "readonly ctor": optical_signal(ro),
                "readonly attr": o_ro,
                "nested list": optical_signal([list(map(int, xi[0])), list(map(int, xi[1]))]),
                "dtype=complex": optical_signal(xi, dtype=complex),
                "slice copy": optical_signal(xi.astype(complex))[:],
                "copy()": optical_signal(xi.astype(complex)).copy(),
            }
            for name, v in dvars.items():
                r = guarded("C11.1", f"{tag} dtype {name}", lambda: BPF(v, BW, n))
                if r is None:
                    continue
                if r.signal.shape != (2, L):
                    bad("C11.5", f"{tag}: input as {name} gives shape {r.signal.shape}")
                elif not np.array_equal(r.signal, ref):
                    bad("C11.1", f"{tag}: input as {name} differs, max dev {np.max(np.abs(r.signal - ref)):.3e}")
            # real and imaginary parts filtered independently
            Fre = BPF(optical_signal(x2.real), BW, n).signal
            Fim = BPF(optical_signal(x2.imag), BW, n).signal
            if not close(F2.signal, Fre + 1j * Fim, rtol=1e-12):
                bad("C11.1", f"{tag}: F(re + j im) != F(re) + jF(im)")
            if np.iscomplexobj(Fre) and np.any(Fre.imag != 0):
                bad("C11.1", f"{tag}: real input gives nonzero imaginary output")
            # conj symmetry: F(conj x) = conj F(x)  (real impulse response, no frequency offset)
            Fc = BPF(optical_signal(np.conj(x2)), BW, n).signal
            if not np.array_equal(Fc, np.conj(F2.signal)):
                bad("C11.1", f"{tag}: F(conj x) != conj F(x)")

            # sibling: BPF with bandwidth 2B acts like LPF with cutoff B
            xr = rng.standard_normal(L)
            s1 = BPF(optical_signal(xr), BW, n).signal
            s2 = LPF(xr, BW / 2, n, fs).signal
            if not close(np.real(s1), s2, rtol=1e-12) or np.any(np.imag(s1) != 0):
                bad("C11.7", f"{tag}: BPF(BW) != LPF(BW/2) on a real waveform, max dev {np.max(np.abs(s1 - s2)):.3e}")

            # units
            for s in (2.0 ** 30, 2.0 ** -30):
                r = BPF(optical_signal(x2 * s), BW, n)
                if not np.array_equal(r.signal, F2.signal * s):
                    bad("C11.1", f"{tag}: amplitude scale {s}")
            set_fs(fs * 4)
            r = BPF(optical_signal(x2), BW * 4, n)
            if not np.array_equal(r.signal, F2.signal):
                bad("C11.1", f"{tag}: fs/BW scale 4 changes result")
            set_fs(fs)
            r = BPF(optical_signal(x2), BW, n)
            if not np.array_equal(r.signal, F2.signal):
                bad("C11.1", f"{tag}: repeated call after gv change differs")


# ----------------------------------------------------------------------------------------------
# C11.6/7/8  tone response away from the edges, swept finely over the whole range
# ----------------------------------------------------------------------------------------------
def tone_gain(filt, f, fs, L, complex_tone):
    t = np.arange(L) / fs
    if complex_tone:
        x = np.exp(2j * np.pi * f * t)
    else:
        x = np.cos(2 * np.pi * f * t + 0.3)
    y = filt(x)
    m = slice(L // 2 - L // 8, L // 2 + L // 8)
    if complex_tone:
        # stationary tone: output should be g*x with real non-negative g
        g = y[m] / x[m]
        return np.mean(g), np.max(np.abs(g - np.mean(g)))
    # least squares on cos/sin
    A = np.stack([np.cos(2 * np.pi * f * t[m]), np.sin(2 * np.pi * f * t[m])], axis=1)
    ci, _, _, _ = np.linalg.lstsq(A, x[m], rcond=None)
    co, _, _, _ = np.linalg.lstsq(A, y[m], rcond=None)
    zi = ci[0] - 1j * ci[1]
    zo = co[0] - 1j * co[1]
    return zo / zi, 0.0


def tones():
    fs_list = [1.0, 16e9, 1e-3, 7.3e14]
    for fs in fs_list:
        set_fs(fs)
        for n in ORDERS:
            fr = np.concatenate([[0.0100001, 0.4499999], np.linspace(0.0101, 0.4499, 45 if fs == 1.0 else 7)])
            for frac in fr:
                B = frac * fs
                L = int(max(4000, 60 / frac))
                L += (n % 2)  # odd and even lengths
                tag = f"n={n} cutoff={frac:.7f}*fs fs={fs} L={L}"
                lpf = lambda x: LPF(x, B, n, fs).signal
                bpf1 = lambda x: BPF(optical_signal(x), 2 * B, n).signal
                bpf2 = lambda x: BPF(optical_signal(np.array([x, 1j * x])), 2 * B, n).signal[1] / 1j
                bpfn = lambda x: BPF(optical_signal(np.zeros_like(x), x), 2 * B, n).noise

                # -6 dB at cutoff
                g, _ = tone_gain(lpf, B, fs, L, False)
                dB = 20 * np.log10(abs(g))
                if not abs(dB + 6.0) < 0.05:
                    bad("C11.7", f"LPF {tag}: gain at cutoff {dB:.4f} dB")
                if abs(np.angle(g)) > 1e-6:
                    bad("C11.9", f"LPF {tag}: phase at cutoff {np.angle(g):.3e} rad")
                for nm, f_ in (("1pol", bpf1), ("2pol-y", bpf2), ("noise", bpfn)):
                    for sgn in (+1, -1):
                        g, ripple = tone_gain(f_, sgn * B, fs, L, True)
                        dB = 20 * np.log10(abs(g))
                        if not abs(dB + 6.0) < 0.05:
                            bad("C11.7", f"BPF {nm} {tag}: gain at carrier{sgn:+d}*BW/2 {dB:.4f} dB")
                        if abs(np.angle(g)) > 1e-6 or ripple > 1e-6:
                            bad("C11.9", f"BPF {nm} {tag}: phase {np.angle(g):.3e} ripple {ripple:.3e}")

                # monotone attenuation + no power increase, tones over (0, fs/2]
                freqs = np.concatenate([np.linspace(0, 0.5, 26), [frac * 0.5, frac * 0.999, frac, frac * 1.001, frac * 1.5]])
                freqs = np.unique(freqs[freqs <= 0.5])
                prev = None
                for f in freqs:
                    gl, _ = tone_gain(lpf, f * fs, fs, L, False) if 0 < f < 0.5 else (None, None)
                    gb, _ = tone_gain(bpf1, f * fs, fs, L, True)
                    gbn, _ = tone_gain(bpf1, -f * fs, fs, L, True)
                    if abs(gb) > 1 + 1e-9 or abs(gbn) > 1 + 1e-9 or (gl is not None and abs(gl) > 1 + 1e-9):
                        bad("C11.6", f"{tag}: tone at {f}*fs gains power: {abs(gb)}")
                    if abs(abs(gb) - abs(gbn)) > 1e-9:
                        bad("C11.8", f"BPF {tag}: response not symmetric about the carrier at {f}*fs")
                    if gl is not None and abs(abs(gl) - abs(gb)) > 1e-7:
                        bad("C11.8", f"{tag}: LPF and BPF disagree at {f}*fs: {abs(gl)} vs {abs(gb)}")
                    if prev is not None and abs(gb) > prev + 1e-10:
                        bad("C11.8", f"{tag}: attenuation not monotone at {f}*fs: {prev} -> {abs(gb)}")
                    if not np.isfinite(abs(gb)):
                        bad("C11.8", f"{tag}: non-finite gain at {f}*fs")
                    prev = abs(gb)


def cutoff_continuity():
    """Sweep cutoff finely over the whole stated range; output must vary continuously and monotonically."""
    fs = 1.0
    set_fs(fs)
    L = 2001
    x = np.zeros(L)
    x[L // 2] = 1.0
    step = np.zeros(L)
    step[L // 2:] = 1.0
    for n in ORDERS:
        fr = np.linspace(0.0100001, 0.4499999, 1761)
        prev_peak = None
        prev_y = None
        for frac in fr:
            y = LPF(x, frac, n, fs).signal
            if not np.all(np.isfinite(y)):
                bad("C11.8", f"sweep n={n} cutoff={frac}: non-finite output")
                continue
            pk = y[L // 2]
            if abs(np.sum(y) - 1.0) > 1e-9:
                bad("C11.4", f"sweep n={n} cutoff={frac}: impulse response sums to {np.sum(y)}")
            if np.argmax(np.abs(y)) != L // 2:
                bad("C11.9", f"sweep n={n} cutoff={frac}: peak displaced to {np.argmax(np.abs(y)) - L // 2}")
            if not close(y[: L // 2][::-1][:900], y[L // 2 + 1:][:900], atol=1e-12):
                bad("C11.9", f"sweep n={n} cutoff={frac}: impulse response asymmetric")
            if prev_peak is not None:
                if pk < prev_peak - 1e-12:
                    bad("C11.8", f"sweep n={n} cutoff={frac}: peak of impulse response decreases with cutoff")
                if np.max(np.abs(y - prev_y)) > 0.02:
                    bad("C11.8", f"sweep n={n} cutoff={frac}: jump {np.max(np.abs(y - prev_y))}")
            prev_peak, prev_y = pk, y
            s = LPF(step, frac, n, fs).signal
            # zero delay: the step response crosses 1/2 at the step (between L//2-1 and L//2, antisymmetric)
            mid = s[L // 2 - 1] + s[L // 2]
            if abs(mid - 1.0) > 1e-9:
                bad("C11.9", f"sweep n={n} cutoff={frac}: step response not antisymmetric about the step ({mid})")


# ----------------------------------------------------------------------------------------------
# C11.9 symmetric pulses, both parities, both filters, noise and pols
# ----------------------------------------------------------------------------------------------
def symmetry():
    rng = np.random.default_rng(19)
    for fs in (1.0, 16e9):
        set_fs(fs)
        for n in ORDERS:
            for frac in (0.02, 0.1, 0.3, 0.4499):
                for L in (1500, 1501):
                    for w in (1, 2, 5, 6):
                        # pulse of width w centred in the record (centre may be a half-sample instant)
                        x = np.zeros(L)
                        st = (L - w) // 2
                        x[st:st + w] = 1.0
                        c2 = 2 * st + w - 1  # twice the centre index
                        y = LPF(x, frac * fs, n, fs).signal
                        idx = np.arange(max(0, c2 - (L - 1)), min(L - 1, c2) + 1)
                        keep = (idx > 300) & (idx < L - 300)
                        idx = idx[keep]
                        if not close(y[idx], y[c2 - idx], atol=1e-11):
                            bad("C11.9", f"LPF n={n} cutoff={frac}*fs L={L} w={w}: response not symmetric, {np.max(np.abs(y[idx] - y[c2 - idx])):.3e}")
                        z = BPF(optical_signal(np.array([x, 1j * x]), np.array([2 * x, x])), 2 * frac * fs, n)
                        for arr in (z.signal[0], z.signal[1], z.noise[0], z.noise[1]):
                            if not close(arr[idx], arr[c2 - idx], atol=1e-11):
                                bad("C11.9", f"BPF n={n} cutoff={frac}*fs L={L} w={w}: response not symmetric")
            # time reversal relation away from the edges
            L = 3000
            x = np.zeros(L)
            x[1200:1800] = rng.standard_normal(600)
            for frac in (0.05, 0.4499):
                a = LPF(x, frac * fs, n, fs).signal
                b = LPF(x[::-1], frac * fs, n, fs).signal[::-1]
                if not close(a[600:2400], b[600:2400], atol=1e-10):
                    bad("C11.9", f"LPF n={n} cutoff={frac}: time reversal not commuting, {np.max(np.abs(a - b)[600:2400]):.3e}")


# ----------------------------------------------------------------------------------------------
# C11.10 retH
# ----------------------------------------------------------------------------------------------
def reth():
    import scipy.signal as sg
    from numpy.fft import fft, ifft, fftshift, fftfreq
    rng = np.random.default_rng(110)
    for fs in FSS:
        set_fs(fs)
        for n in ORDERS:
            for L in (17, 18, 33, 64, 257, 1000, 1001):
                for frac in (0.0100001, 0.1, 0.25, 0.4499999):
                    B = frac * fs
                    tag = f"retH n={n} L={L} cutoff={frac}*fs fs={fs}"
                    x = rng.standard_normal(L)
                    r = guarded("C11.10", tag, lambda: LPF(x, B, n, fs, True))
                    if r is None:
                        continue
                    if not (isinstance(r, tuple) and len(r) == 2):
                        bad("C11.10", f"{tag}: not a pair")
                        continue
                    out, H = r
                    if not np.array_equal(out.signal, LPF(x, B, n, fs).signal):
                        bad("C11.10", f"{tag}: output differs with retH")
                    r2 = LPF(x, B, n=n, fs=fs, retH=True)
                    if not np.array_equal(r2[1], H):
                        bad("C11.10", f"{tag}: keyword retH differs")
                    r3 = LPF(electrical_signal(x, x), B, n, fs, True)
                    if not np.array_equal(r3[1], H) or r3[0].noise is None or not np.array_equal(r3[0].noise, out.signal):
                        bad("C11.10", f"{tag}: retH with noisy container differs")
                    if fs == gv.fs:
                        r4 = LPF(x, B, n, retH=True)
                        if not np.array_equal(r4[1], H):
                            bad("C11.10", f"{tag}: retH with default fs differs")
                    H = np.asarray(H)
                    if H.shape != (L,):
                        bad("C11.10", f"{tag}: H shape {H.shape}")
                        continue
                    f = fftshift(fftfreq(L, 1 / fs))
                    sos = sg.bessel(n, B, fs=fs, output="sos", norm="mag")
                    _, Href = sg.sosfreqz(sos, worN=f, fs=fs)
                    if not close(H, Href, atol=1e-9):
                        bad("C11.10", f"{tag}: H is not the single-pass prototype on the fft grid, max dev {np.max(np.abs(H - Href)):.3e}")
                    i0 = np.argmin(np.abs(f))
                    if abs(H[i0] - 1) > 1e-9:
                        bad("C11.10", f"{tag}: H(0) = {H[i0]}")
                    # hermitian (real impulse response)
                    if L % 2 == 1 and not close(H[::-1], np.conj(H), atol=1e-9):
                        bad("C11.10", f"{tag}: H not hermitian on the shifted grid")
                    # interpolate |H|^2 at the cutoff: -6 dB two-pass / -3 dB single pass
                    _, Hc = sg.sosfreqz(sos, worN=[B], fs=fs)
                    if abs(20 * np.log10(abs(Hc[0])) + 3.0103) > 1e-6:
                        bad("C11.10", f"{tag}: prototype not -3 dB at cutoff")
            # long record: |H|^2 describes the filtering of the object away from edges (circular approx.)
            L = 4096
            for frac in (0.05, 0.3):
                x = np.zeros(L)
                x[L // 2 - 200:L // 2 + 200] = rng.standard_normal(400)
                out, H = LPF(x, frac * fs, n, fs, True)
                pred = ifft(fft(x) * np.abs(np.fft.ifftshift(H)) ** 2).real
                if not close(out.signal, pred, atol=1e-7):
                    bad("C11.10", f"retH n={n} cutoff={frac}: |H|^2 does not predict output, dev {np.max(np.abs(out.signal - pred)):.3e}")


# ----------------------------------------------------------------------------------------------
# exhaustive small cases: every length 17..44 x every order x 23 cutoffs over the whole range
# ----------------------------------------------------------------------------------------------
def small_exhaustive():
    rng = np.random.default_rng(3)
    set_fs(1.0)
    for L in range(17, 45):
        for n in ORDERS:
            for frac in np.linspace(0.0100001, 0.4499999, 23):
                tag = f"small L={L} n={n} cutoff={frac:.5f}*fs"
                x = rng.standard_normal((2, L)) + 1j * rng.standard_normal((2, L))
                nz = 1j * rng.standard_normal((2, L))
                F = guarded("C11.5", tag, lambda: BPF(optical_signal(x, nz), 2 * frac, n))
                if F is None:
                    continue
                if F.signal.shape != (2, L) or F.noise is None or F.noise.shape != (2, L):
                    bad("C11.5", f"{tag}: shape")
                    continue
                for p in (0, 1):
                    a = BPF(optical_signal(x[p]), 2 * frac, n).signal
                    b = BPF(optical_signal(nz[p]), 2 * frac, n).signal
                    if not (np.array_equal(a, F.signal[p]) and np.array_equal(b, F.noise[p])):
                        bad("C11.3", f"{tag}: pol {p} / noise not independent")
                    lr = LPF(x[p].real, frac, n, 1.0).signal
                    li = LPF(electrical_signal(x[p].imag, nz[p].imag), frac, n, 1.0)
                    if lr.shape != (L,) or not close(lr + 1j * li.signal, a, atol=1e-12) or not close(1j * li.noise, b, atol=1e-12):
                        bad("C11.7", f"{tag}: LPF(cutoff) and BPF(2*cutoff) disagree")
                k = BPF(optical_signal(np.full((2, L), 1 - 2j)), 2 * frac, n).signal
                if np.max(np.abs(k - (1 - 2j))) > 1e-9:
                    bad("C11.4", f"{tag}: constant not passed ({np.max(np.abs(k - (1 - 2j))):.3e})")
    # unusual but real dtypes / text containers must agree with float64
    set_fs(16e9)
    xb = rng.integers(0, 2, 40)
    ref = LPF(xb.astype(float), 3e9).signal
    txt = " ".join(map(str, xb))
    for name, v in {"bool": xb.astype(bool), "float32": xb.astype(np.float32), "uint8": xb.astype(np.uint8),
                    "int8": xb.astype(np.int8), ">f8": xb.astype(">f8"), "text": electrical_signal(txt),
                    "text,": electrical_signal(txt.replace(" ", ","))}.items():
        r = guarded("C11.1", f"LPF input as {name}", lambda: LPF(v, 3e9))
        if r is not None and not np.array_equal(r.signal, ref):
            bad("C11.1", f"LPF input as {name} differs from float64")
    for name, v in {"text": optical_signal(txt), "bool": optical_signal(xb.astype(bool)), ">c16": optical_signal(xb.astype(">c16"))}.items():
        r = guarded("C11.1", f"BPF input as {name}", lambda: BPF(v, 6e9))
        if r is not None and not close(r.signal, ref, atol=1e-13):
            bad("C11.1", f"BPF input as {name} differs from LPF of float64")
    x = rng.standard_normal(40)
    ref = LPF(x, 3e9, 4, 16e9).signal
    for fs in (1e-300, 1e-30, 1e30, 1e300):
        r = guarded("C11.1", f"LPF fs={fs}", lambda: LPF(x, 3 / 16 * fs, 4, fs))
        if r is not None and not close(r.signal, ref, atol=1e-13):
            bad("C11.1", f"LPF at fs={fs} differs from the same normalised cutoff at 16e9")

# ----------------------------------------------------------------------------------------------
# C11.x  order sweep and call-order state (tic/toc, gv) interplay
# ----------------------------------------------------------------------------------------------
def state():
    rng = np.random.default_rng(5)
    set_fs(16e9)
    L = 300
    x = rng.standard_normal(L)
    o = optical_signal(rng.standard_normal((2, L)) + 1j * rng.standard_normal((2, L)))
    ref_l = LPF(x, 3e9, 5).signal
    ref_b = BPF(o, 3e9, 5).signal
    # interleave calls of different kinds and gv changes
    for k in range(5):
        gv(sps=8, R=1e9)
        LPF(x, 3e9, 3, fs=16e9)
        gv(sps=16, R=1e9)
        if not np.array_equal(LPF(x, 3e9, 5).signal, ref_l):
            bad("C11.1", "LPF result depends on call history")
        if not np.array_equal(BPF(o, 3e9, 5).signal, ref_b):
            bad("C11.1", "BPF result depends on call history")
    # LPF fs default follows gv.fs at call time, not import time
    gv(sps=32, R=1e9)
    a = LPF(x, 3e9, 5).signal
    b = LPF(x, 3e9, 5, fs=32e9).signal
    if not np.array_equal(a, b):
        bad("C11.1", "LPF default fs is not the current gv.fs")
    a = BPF(o, 3e9, 5).signal
    gv(sps=16, R=2e9)
    b = BPF(o, 3e9, 5).signal
    if not np.array_equal(a, b):
        bad("C11.1", "BPF does not follow gv.fs")
    # filtering the output object again (container produced by the filter itself), with noise
    gv(sps=16, R=1e9)
    es = electrical_signal(x, rng.standard_normal(L))
    y1 = LPF(es, 3e9, 4)
    y2 = LPF(y1, 3e9, 4)
    y2b = LPF(y1.signal, 3e9, 4)
    if not np.array_equal(y2.signal, y2b.signal):
        bad("C11.2", "LPF of an LPF output object differs from LPF of its samples")
    ob = optical_signal(o.signal, o.signal[::-1])
    z1 = BPF(ob, 3e9, 4)
    z2 = BPF(z1, 3e9, 4)
    z2b = BPF(optical_signal(z1.signal), 3e9, 4)
    if not np.array_equal(z2.signal, z2b.signal) or z2.noise is None:
        bad("C11.2", "BPF of a BPF output object differs from BPF of its samples")
    # sliced / arithmetic containers
    ob2 = (ob * 2 + ob)[10:200]
    r1 = BPF(ob2, 3e9, 4)
    r2 = BPF(optical_signal(ob2.signal.copy(), ob2.noise.copy()), 3e9, 4)
    if r1.signal.shape != (2, 190) or not np.array_equal(r1.signal, r2.signal) or not np.array_equal(r1.noise, r2.noise):
        bad("C11.5", "BPF of a sliced/arithmetic container differs")
    es2 = (es * 2 + es)[10:200]
    r1 = LPF(es2, 3e9, 4)
    r2 = LPF(electrical_signal(es2.signal.copy(), es2.noise.copy()), 3e9, 4)
    if r1.signal.shape != (190,) or not np.array_equal(r1.signal, r2.signal) or not np.array_equal(r1.noise, r2.noise):
        bad("C11.5", "LPF of a sliced/arithmetic container differs")


if __name__ == "__main__":
    for fn in (small_exhaustive, lpf_relations, bpf_relations, state, reth, symmetry, cutoff_continuity, tones):
        try:
            fn()
        except Exception as e:
            import traceback
            traceback.print_exc()
            bad("HARNESS", f"{fn.__name__} crashed: {type(e).__name__}: {e}")
    if VIOL:
        print(f"{len(VIOL)} violation(s)")
        sys.exit(1)
    print("PASS")
    sys.exit(0)
