"""Audit of property C12 (PPM encode/decode bijection, HDD/SDD emit valid codewords).

Relations are used instead of reference values wherever possible: round trips,
split calls, container/dtype/view invariance, noise=0 vs no noise, keyword vs positional.
Prints one line per violated (clause, input); exit 1 on any violation, PASS / exit 0 otherwise.
"""
import sys
del sys.path[0]
import itertools
import warnings
import numpy as np

warnings.simplefilter('ignore')

from opticomlib.ppm import PPM_ENCODER, PPM_DECODER, HDD, SDD
from opticomlib.devices import DAC
from opticomlib.typing import binary_sequence, electrical_signal, gv

ORDERS = [2, 4, 8, 16, 32, 64, 128, 256]
VIOL = []
SEEN = set()


def viol(clause, what, detail=''):
    key = (clause, what)
    if key in SEEN:
        return
    SEEN.add(key)
    VIOL.append(key)
    print(f'VIOLATION [{clause}] {what} {detail}'[:300])


def call(clause, what, f):
    """run f, report an exception as a violation, return result or None"""
    try:
        return f()
    except Exception as e:  # noqa
        viol(clause, what, f'raised {type(e).__name__}: {e}')
        return None


def bits_of(n, L):
    return [(n >> (L - 1 - i)) & 1 for i in range(L)]


def reference_encode(b, M):
    k = M.bit_length() - 1
    n = len(b) // k
    out = np.zeros(n * M, dtype=np.uint8)
    for s in range(n):
        v = 0
        for bit in b[s * k:(s + 1) * k]:
            v = 2 * v + int(bit)
        out[s * M + v] = 1
    return out


def containers(b):
    """every accepted container type / dtype / memory layout holding the bits b (a python list of 0/1)"""
    a = np.array(b, dtype=np.int64)
    out = {
        'list_int': list(b),
        'list_bool': [bool(v) for v in b],
        'list_float': [float(v) for v in b],
        'list_npint': [np.int64(v) for v in b],
        'tuple_int': tuple(b),
        'nd_int64': a.copy(),
        'nd_uint8': a.astype(np.uint8),
        'nd_bool': a.astype(bool),
        'nd_float64': a.astype(np.float64),
        'nd_complex128': a.astype(np.complex128),
        'nd_int8': a.astype(np.int8),
        'nd_float32': a.astype(np.float32),
    }
    # a strided view, a reversed view and a read-only array
    wide = np.zeros(2 * len(b), dtype=np.int64)
    wide[::2] = a
    wide[1::2] = 1 - a
    out['nd_view_stride2'] = wide[::2]
    out['nd_view_reversed'] = a[::-1].copy()[::-1]
    ro = a.copy()
    ro.setflags(write=False)
    out['nd_readonly'] = ro
    fo = np.asfortranarray(np.vstack([a, 1 - a]).T)[:, 0]  # column of an F-ordered matrix
    out['nd_fortran_col'] = fo
    if len(b) > 0:
        out['str_plain'] = ''.join(str(v) for v in b)
        out['str_spaces'] = ' '.join(str(v) for v in b)
        out['str_commas'] = ','.join(str(v) for v in b)
        out['str_groups'] = ' '.join(''.join(str(v) for v in b[i:i + 4]) for i in range(0, len(b), 4))
        out['binseq_from_str'] = binary_sequence(''.join(str(v) for v in b))
        out['binseq_slice'] = binary_sequence([1] + list(b) + [0])[1:-1]
    out['binseq'] = binary_sequence(np.array(b, dtype=np.uint8))
    return out


def data_of(x):
    if not isinstance(x, binary_sequence):
        return None
    return np.asarray(x.data)


# ----------------------------------------------------------------------------------------------
# Clause E1/E2/D1: encoder = one ON slot per block at the big-endian value; decoder round trip.
#                  exhaustive over every bit string of length <= 12, every M in {2..256}
# ----------------------------------------------------------------------------------------------
def check_encoder_decoder_exhaustive():
    cont_names = None
    for M in ORDERS:
        k = M.bit_length() - 1
        for L in range(0, 13):
            for n in range(2 ** L):
                b = bits_of(n, L)
                what = f'M={M} b={"".join(map(str, b))!r}'
                ref = reference_encode(b, M)
                enc = call('E1 encoder one ON slot per block at big-endian position', what + ' list',
                           lambda: PPM_ENCODER(list(b), M))
                if enc is None:
                    continue
                e = data_of(enc)
                if e is None or e.shape != ref.shape or not np.array_equal(e.astype(int), ref):
                    viol('E1 encoder one ON slot per block at big-endian position', what, f'got {e} expected {ref}')
                    continue
                if e.size and not np.all(e.reshape(-1, M).sum(-1) == 1):
                    viol('E1 exactly one ON slot in each block', what, f'got {e}')
                dec = call('D1 decoder(encoder(b)) == b truncated', what, lambda: PPM_DECODER(enc, M))
                if dec is None:
                    continue
                d = data_of(dec)
                tb = np.array(b[:L // k * k], dtype=int)
                if d is None or d.ndim != 1 or d.shape != tb.shape or not np.array_equal(d.astype(int), tb):
                    viol('D1 decoder(encoder(b)) == b truncated', what, f'got {d} expected {tb}')
                # container invariance: all containers for short strings, a rotating one for the rest
                if L <= 6 or n % 37 == 0:
                    cs = containers(b)
                    for name, c in cs.items():
                        if L == 0 and name.startswith('str'):
                            continue
                        r = call('E3 encoder same result for every container', what + ' ' + name,
                                 lambda: PPM_ENCODER(c, M))
                        if r is not None and not (data_of(r) is not None and np.array_equal(data_of(r), e)):
                            viol('E3 encoder same result for every container', what + ' ' + name, f'got {data_of(r)}')
                    # decoder containers on the encoded word
                    cs = containers([int(v) for v in e])
                    for name, c in cs.items():
                        if e.size == 0 and name.startswith('str'):
                            continue
                        r = call('D2 decoder same result for every container', what + ' ' + name,
                                 lambda: PPM_DECODER(c, M))
                        if r is not None and not (data_of(r) is not None and np.array_equal(data_of(r), d)):
                            viol('D2 decoder same result for every container', what + ' ' + name, f'got {data_of(r)}')


def check_encoder_decoder_random():
    rng = np.random.default_rng(12)
    for M in ORDERS:
        k = M.bit_length() - 1
        for trial in range(12):
            L = int(rng.integers(1, 4000)) if trial < 10 else [k * 1000, k * 1000 + k - 1][trial - 10]
            b = rng.integers(0, 2, L)
            if trial == 3:
                b[:] = 1
            if trial == 4:
                b[:] = 0
            what = f'M={M} random L={L} trial={trial}'
            ref = reference_encode(b.tolist(), M)
            enc = call('E1 encoder (long)', what, lambda: PPM_ENCODER(b, M))
            if enc is None:
                continue
            if not np.array_equal(enc.data, ref):
                viol('E1 encoder (long)', what)
            # keyword vs positional, numpy integer M
            for lab, f in (('kw', lambda: PPM_ENCODER(input=b, M=M)), ('np.int64 M', lambda: PPM_ENCODER(b, np.int64(M)))):
                r = call('E4 encoder keyword / numpy-int M', what + ' ' + lab, f)
                if r is not None and not np.array_equal(r.data, ref):
                    viol('E4 encoder keyword / numpy-int M', what + ' ' + lab)
            dec = call('D1 round trip (long)', what, lambda: PPM_DECODER(enc, M))
            if dec is not None and not np.array_equal(dec.data, b[:L // k * k]):
                viol('D1 round trip (long)', what)
            r = call('D1 round trip (long) kw', what, lambda: PPM_DECODER(input=enc.data, M=np.int64(M)))
            if r is not None and not np.array_equal(r.data, b[:L // k * k]):
                viol('D1 round trip (long) kw', what)
            # inputs not modified
            b0 = b.copy()
            PPM_ENCODER(b, M)
            if not np.array_equal(b, b0):
                viol('E5 encoder leaves its input unchanged', what)
            e0 = enc.data.copy()
            PPM_DECODER(enc, M); HDD(enc, M)
            if not np.array_equal(enc.data, e0):
                viol('D3 decoder/HDD leave their input unchanged', what)
            # split relation: one call vs two calls at a symbol boundary
            ns = L // k
            for cut_sym in sorted({0, 1, ns // 2, max(ns - 1, 0), ns}):
                cut = cut_sym * k
                e1 = PPM_ENCODER(b[:cut], M); e2 = PPM_ENCODER(b[cut:], M)
                if not np.array_equal(np.concatenate([e1.data, e2.data]), ref):
                    viol('E6 encoder(b1+b2) == encoder(b1)+encoder(b2)', what + f' cut={cut}')
                cat = call('E6 concatenation of sequences', what + f' cut={cut}', lambda: e1 + e2)
                if cat is not None and not np.array_equal(cat.data, ref):
                    viol('E6 encoder(b1)+encoder(b2) with the + of binary_sequence', what + f' cut={cut}')
                d1 = PPM_DECODER(ref[:cut_sym * M], M); d2 = PPM_DECODER(ref[cut_sym * M:], M)
                if not np.array_equal(np.concatenate([d1.data, d2.data]).astype(int), b[:ns * k]):
                    viol('D4 decoder(c1+c2) == decoder(c1)+decoder(c2)', what + f' cut={cut}')
            # encoder is a bijection: decode(encode) already checked; encode(decode(c)) == c on valid codewords
            sym = rng.integers(0, M, 50)
            c = np.zeros(50 * M, dtype=np.uint8); c[np.arange(50) * M + sym] = 1
            r = call('B1 encoder(decoder(c)) == c', what, lambda: PPM_ENCODER(PPM_DECODER(c, M), M))
            if r is not None and not np.array_equal(r.data, c):
                viol('B1 encoder(decoder(c)) == c', what)


# ----------------------------------------------------------------------------------------------
# HDD: exhaustive over every slot pattern of up to 16 slots for M <= 8
# ----------------------------------------------------------------------------------------------
def hdd_check(pattern, out, M, clause_prefix, what):
    p = np.asarray(pattern).astype(int)
    o = data_of(out)
    if o is None or o.shape != p.shape:
        viol(clause_prefix + ' H1 output has the input length', what, f'got {o}')
        return
    o = o.astype(int)
    if not np.all((o == 0) | (o == 1)):
        viol(clause_prefix + ' H1 output is binary', what, f'got {o}')
        return
    if p.size == 0:
        return
    P = p.reshape(-1, M); O = o.reshape(-1, M)
    if not np.all(O.sum(-1) == 1):
        viol(clause_prefix + ' H1 exactly one ON slot per symbol', what, f'in {p} out {o}')
        return
    one = P.sum(-1) == 1
    if not np.array_equal(O[one], P[one]):
        viol(clause_prefix + ' H2 symbols with exactly one ON slot unchanged', what, f'in {p} out {o}')
    many = P.sum(-1) > 1
    if np.any((O[many] == 1) & (P[many] == 0)):
        viol(clause_prefix + ' H3 keeps one of the slots that were ON', what, f'in {p} out {o}')


def check_hdd_exhaustive():
    np.random.seed(2024)
    for M in (2, 4, 8):
        for L in range(0, 17, M):
            for n in range(2 ** L):
                p = np.array(bits_of(n, L), dtype=np.uint8)
                what = f'M={M} pattern={"".join(map(str, p))!r}'
                out = call('H HDD', what, lambda: HDD(p, M))
                if out is not None:
                    hdd_check(p, out, M, 'HDD', what)


def check_hdd_seeds_and_containers():
    rng = np.random.default_rng(5)
    # all seeds: every small pattern for many seeds; the kept slot must always be one that was ON
    pats = []
    for M in (2, 4, 8):
        for L in (M, 2 * M):
            if L > 16:
                continue
            for n in range(0, 2 ** L, max(1, 2 ** L // 64)):
                pats.append((M, np.array(bits_of(n, L), dtype=np.uint8)))
    for M in ORDERS:
        for trial in range(4):
            ns = int(rng.integers(1, 40))
            p = (rng.random(ns * M) < [0.0, 1.0 / M, 0.5, 1.0][trial]).astype(np.uint8)
            pats.append((M, p))
        p = np.zeros(3 * M, np.uint8); p[[0, M - 1, M, 2 * M - 1, 2 * M, 3 * M - 1]] = 1  # first and last slot ON
        pats.append((M, p))
    for M, p in pats:
        reached = set()
        for seed in list(range(40)) + [2 ** 32 - 1, 123456789]:
            what = f'M={M} seed={seed} pattern={"".join(map(str, p[:64]))!r}'
            np.random.seed(seed)
            out = call('H HDD seeds', what, lambda: HDD(p, M))
            if out is None:
                continue
            hdd_check(p, out, M, 'HDD(seed)', what)
            np.random.seed(seed)
            out2 = HDD(p, M)
            if not np.array_equal(out.data, out2.data):
                viol('H4 HDD reproducible under the numpy seed', what)
            # HDD of its own output is the identity (valid codeword)
            out3 = HDD(out, M)
            if not np.array_equal(out3.data, out.data):
                viol('H5 HDD identity on valid codewords (idempotent)', what)
            reached.add(tuple(out.data.tolist()))
        # containers give the same result under the same seed
        cs = containers([int(v) for v in p])
        np.random.seed(7); ref = HDD(p, M).data
        for name, c in cs.items():
            what = f'M={M} container={name} pattern={"".join(map(str, p[:64]))!r}'
            np.random.seed(7)
            r = call('H6 HDD same result for every container', what, lambda: HDD(c, M))
            if r is not None and not (data_of(r) is not None and np.array_equal(data_of(r), ref)):
                viol('H6 HDD same result for every container', what, f'got {data_of(r)} expected {ref}')
        np.random.seed(7)
        r = call('H6 HDD keyword/np.int64 M', f'M={M}', lambda: HDD(input=p, M=np.int64(M)))
        if r is not None and not np.array_equal(r.data, ref):
            viol('H6 HDD keyword / numpy-int M', f'M={M}')

    # identity on valid codewords, all M, long, every container
    for M in ORDERS:
        k = M.bit_length() - 1
        for ns in (1, 2, 3, 257):
            b = rng.integers(0, 2, ns * k)
            cw = PPM_ENCODER(b, M)
            for name, c in containers([int(v) for v in cw.data]).items():
                what = f'M={M} ns={ns} container={name}'
                r = call('H7 HDD identity on valid codewords', what, lambda: HDD(c, M))
                if r is not None and not np.array_equal(data_of(r), cw.data):
                    viol('H7 HDD identity on valid codewords', what)
            # split relation on valid codewords
            h = np.concatenate([HDD(cw.data[:M], M).data, HDD(cw.data[M:], M).data]) if ns > 1 else HDD(cw, M).data
            if not np.array_equal(h, cw.data):
                viol('H7 HDD split call on valid codewords', f'M={M} ns={ns}')
            # decode(HDD(encode(b))) == b
            r = PPM_DECODER(HDD(cw, M), M)
            if not np.array_equal(r.data, b):
                viol('H8 decoder(HDD(encoder(b))) == b', f'M={M} ns={ns}')


# ----------------------------------------------------------------------------------------------
# rejections
# ----------------------------------------------------------------------------------------------
def expect_value_error(clause, what, f):
    try:
        r = f()
    except ValueError:
        return
    except Exception as e:  # noqa
        viol(clause, what, f'raised {type(e).__name__}: {e} instead of ValueError')
        return
    viol(clause, what, f'accepted, returned {data_of(r)}')


def check_rejections():
    gv(sps=4, R=1e9)
    bad_orders = [m for m in range(-8, 260) if m < 2 and m != 1 or (m > 2 and m & (m - 1))]
    for M in bad_orders:
        n = 24 * max(abs(M), 1)
        for name, c in (('list', [0] * n), ('str', '0' * n), ('binseq', binary_sequence([0] * n)), ('nd', np.zeros(n, int))):
            expect_value_error('R1 HDD rejects orders that are not powers of two', f'M={M} {name}', lambda: HDD(c, M))
            expect_value_error('R1 HDD rejects orders that are not powers of two', f'M=np.int64({M}) {name}', lambda: HDD(c, np.int64(M)))
        x = np.zeros(n * gv.sps)
        for name, c in (('elec', electrical_signal(x)), ('nd', x), ('list', x.tolist())):
            expect_value_error('R2 SDD rejects orders that are not powers of two', f'M={M} {name}', lambda: SDD(c, M))
            expect_value_error('R2 SDD rejects orders that are not powers of two', f'M=np.int64({M}) {name}', lambda: SDD(c, np.int64(M)))
    for M in ORDERS:
        for n in sorted({1, M - 1, M + 1, 2 * M - 1, 2 * M + 1, 3 * M + M // 2, 5 * M - 1}):
            if n % M == 0:
                continue
            for name, c in (('list', [0, 1] * n), ('tuple', (1,) * n), ('str', '1' * n), ('binseq', binary_sequence([1] * n)), ('nd', np.ones(n, int))):
                c = c[:n]
                expect_value_error('R3 HDD rejects lengths that are not whole symbols', f'M={M} len={n} {name}', lambda: HDD(c, M))
        for sps in (1, 2, 3, 4, 16):
            gv(sps=sps, R=1e9)
            for n in sorted({1, sps, M * sps - 1, M * sps + 1, M * sps + sps, 2 * M * sps - sps, 3 * M * sps + 1, (M - 1) * sps, M * (sps + 1)}):
                if n % (M * sps) == 0 or n <= 0:
                    continue
                x = np.linspace(0, 1, n)
                for name, c in (('elec', lambda: electrical_signal(x)), ('elec+noise', lambda: electrical_signal(x, x * 0)), ('nd', lambda: x), ('list', lambda: x.tolist())):
                    expect_value_error('R4 SDD rejects lengths that are not whole symbols', f'M={M} sps={sps} len={n} {name}', lambda: SDD(c(), M))
    gv(sps=16, R=1e9)


# ----------------------------------------------------------------------------------------------
# SDD
# ----------------------------------------------------------------------------------------------
def check_sdd_argmax():
    rng = np.random.default_rng(77)
    for sps in (1, 2, 3, 5, 8, 16, 33):
        gv(sps=sps, R=1e9)
        for M in ORDERS:
            for trial in range(5):
                ns = [1, 2, 3, 7, 20][trial]
                # per-slot levels with a unique, well separated maximum; waveform = level + bounded ripple
                lev = rng.random((ns, M))
                win = rng.integers(0, M, ns)
                if trial == 0:
                    win[:] = 0
                if trial == 1:
                    win[:] = M - 1
                lev[np.arange(ns), win] = 2.0 + rng.random(ns)
                ripple = 0.2 * (rng.random((ns * M, sps)) - 0.5)
                x = (np.repeat(lev.ravel(), sps).reshape(-1, sps) + ripple).ravel()
                # independent reference: slot of largest sum of squares (energy) == largest sum here (all positive, separated)
                en = (x ** 2).reshape(-1, sps).sum(-1).reshape(-1, M)
                assert np.array_equal(en.argmax(-1), win)
                ref = np.zeros(ns * M, np.uint8); ref[np.arange(ns) * M + win] = 1
                what = f'sps={sps} M={M} ns={ns} trial={trial}'
                variants = {
                    'elec': lambda: electrical_signal(x),
                    'elec_noise0': lambda: electrical_signal(x, np.zeros_like(x)),
                    'elec_split_noise': lambda: electrical_signal(x - ripple.ravel(), ripple.ravel()),
                    'nd': lambda: x,
                    'list': lambda: x.tolist(),
                    'tuple': lambda: tuple(x.tolist()),
                    'nd_readonly': lambda: (lambda a: (a.setflags(write=False), a)[1])(x.copy()),
                    'nd_view': lambda: np.vstack([x, -x]).T[:, 0],
                    'nd_complex128': lambda: x.astype(np.complex128),
                    'elec_complex128': lambda: electrical_signal(x.astype(np.complex128)),
                    'nd_float32': lambda: x.astype(np.float32),
                    'scaled_1e-9': lambda: electrical_signal(x * 1e-9),
                    'scaled_1e6': lambda: electrical_signal(x * 1e6),
                    'offset_-100': lambda: electrical_signal(x - 100.0),
                    'offset_+1e3': lambda: electrical_signal(x + 1e3),
                    'int64_levels': lambda: electrical_signal(np.round(x * 1000).astype(np.int64)),
                }
                for name, mk in variants.items():
                    r = call('S1 SDD turns ON exactly the slot of largest integrated energy', what + ' ' + name, lambda: SDD(mk(), M))
                    if r is None:
                        continue
                    o = data_of(r)
                    if o is None or o.shape != ref.shape or not np.array_equal(o.astype(int), ref):
                        viol('S1 SDD turns ON exactly the slot of largest integrated energy', what + ' ' + name, f'got {o} expected {ref}')
                r = call('S1 SDD keyword', what, lambda: SDD(input=electrical_signal(x), M=np.int64(M)))
                if r is not None and not np.array_equal(r.data, ref):
                    viol('S1 SDD keyword / numpy-int M', what)
                # split in two calls
                if ns > 1:
                    cut = (ns // 2) * M * sps
                    r = np.concatenate([SDD(electrical_signal(x[:cut]), M).data, SDD(electrical_signal(x[cut:]), M).data])
                    if not np.array_equal(r, ref):
                        viol('S2 SDD one call vs two calls', what)
                x0 = x.copy(); e = electrical_signal(x); SDD(e, M)
                if not np.array_equal(e.signal, x0):
                    viol('S3 SDD leaves its input unchanged', what)


def check_sdd_waveforms():
    rng = np.random.default_rng(3)
    for sps in (1, 2, 3, 4, 5, 8, 16, 32):
        gv(sps=sps, R=1e9)
        for M in ORDERS:
            k = M.bit_length() - 1
            seqs = [np.ones(k, int), np.zeros(k, int), np.array([1] * k + [0] * k), np.array([0] * k + [1] * k + [1] * k + [0] * k)]
            seqs.append(rng.integers(0, 2, k * (64 if M <= 16 else 8)))
            for b in seqs:
                cw = PPM_ENCODER(b, M)
                shapes = [('nrz', {}), ('rect', {}), ('rz', {}), ('gaussian', {}), ('gaussian', {'m': 2}), ('gaussian', {'m': 3}),
                          ('gaussian', {'T': max(1, sps // 2)}), ('nrz', {'bias': 0.3}), ('nrz', {'Vout': 5}), ('rz', {'bias': -0.2, 'Vout': 2.5}),
                          ('gaussian', {'bias': 1.0, 'Vout': 0.01})]
                for ps, kw in shapes:
                    what = f'sps={sps} M={M} pulse_shape={ps} {kw} b={"".join(map(str, b[:16]))!r}'
                    x = call('S4 SDD identity on the noiseless waveform of a valid codeword (DAC)', what, lambda: DAC(cw, pulse_shape=ps, **kw))
                    if x is None:
                        continue
                    r = call('S4 SDD identity on the noiseless waveform of a valid codeword', what, lambda: SDD(x, M))
                    if r is not None and not np.array_equal(data_of(r), cw.data):
                        viol('S4 SDD identity on the noiseless waveform of a valid codeword', what,
                             f'{int(np.sum(r.data != cw.data)) // 2} of {cw.data.size // M} symbols moved')
                    # round trip through decoder
                    if r is not None and np.array_equal(data_of(r), cw.data):
                        d = PPM_DECODER(r, M)
                        if not np.array_equal(d.data, b):
                            viol('S5 decoder(SDD(DAC(encoder(b)))) == b', what)
                # valid codeword given directly as samples (identity "on valid codewords")
                if sps == 1:
                    for name, c in (('uint8', cw.data), ('float', cw.data.astype(float)), ('bool', cw.data.astype(bool)), ('elec', electrical_signal(cw.data))):
                        r = call('S6 SDD identity on valid codewords (1 sample per slot)', f'M={M} {name}', lambda: SDD(c, M))
                        if r is not None and not np.array_equal(data_of(r), cw.data):
                            viol('S6 SDD identity on valid codewords (1 sample per slot)', f'M={M} {name}')
    gv(sps=16, R=1e9)


def main():
    check_encoder_decoder_exhaustive()
    check_encoder_decoder_random()
    check_hdd_exhaustive()
    check_hdd_seeds_and_containers()
    check_rejections()
    check_sdd_argmax()
    check_sdd_waveforms()
    if VIOL:
        print(f'{len(VIOL)} violations')
        sys.exit(1)
    print('PASS')
    sys.exit(0)


if __name__ == '__main__':
    main()
