# C12 "SDD ... identity on valid codewords and on their noiseless waveforms", quantified over "all sps and pulse shapes for SDD":
# at sps=1 the gaussian pulse shape cannot even produce the noiseless waveform of a codeword (DAC raises ValueError).
import sys; del sys.path[0]
import warnings; warnings.simplefilter('ignore')
import numpy as np
from opticomlib.typing import gv
from opticomlib.devices import DAC
from opticomlib.ppm import PPM_ENCODER, SDD
gv(sps=1, R=1e9)
cw = PPM_ENCODER('0110', 4)                      # valid codeword 0100 0010
try:
    out = SDD(DAC(cw, pulse_shape='gaussian'), 4).data
except Exception as e:
    print('expected SDD(DAC(cw, "gaussian"), 4) ==', cw.data, '; got', type(e).__name__, e); sys.exit(1)
print('expected', cw.data, 'got', out); sys.exit(0 if np.array_equal(out, cw.data) else 1)
