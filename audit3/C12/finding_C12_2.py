# C12 "SDD ... identity on valid codewords and on their noiseless waveforms", quantified over "all sps and pulse shapes for SDD":
# at sps=1 the 'rz' waveform of every codeword is identically zero, so SDD turns ON slot 0 of every symbol (silent).
import sys; del sys.path[0]
import warnings; warnings.simplefilter('ignore')
import numpy as np
from opticomlib.typing import gv
from opticomlib.devices import DAC
from opticomlib.ppm import PPM_ENCODER, SDD
gv(sps=1, R=1e9)
cw = PPM_ENCODER('0110', 4)                      # valid codeword 0100 0010
x = DAC(cw, pulse_shape='rz')
out = SDD(x, 4).data
print('waveform', x.signal)
print('expected SDD(DAC(cw, "rz"), 4) ==', cw.data, '; got', out)
sys.exit(0 if np.array_equal(out, cw.data) else 1)
