"""Audit of property C13 (third audit, relation based).

Prints one line per violated (clause, input); exit 1 if any, PASS / exit 0 otherwise.
"""
import sys
del sys.path[0]

import warnings
import itertools
import numpy as np
from scipy.constants import h, k as kB, e as qe, c, pi
from scipy.integrate import quad
from scipy.optimize import minimize_scalar
from scipy.special import erfc, log_ndtr

warnings.simplefilter('ignore')

import opticomlib
from opticomlib import utils as U, ook, ppm
from opticomlib.typing import eye, gv, optical_signal, electrical_signal

VIOL = []
SEEN = {}
import os
MAX_PER_CLAUSE = int(os.environ.get('AUDIT_MAX', '6'))   # lines printed per clause


def viol(clause, inp, msg):
    SEEN[clause] = SEEN.get(clause, 0) + 1
    if SEEN[clause] <= MAX_PER_CLAUSE:
        line = f"VIOLATION [{clause}] input={inp}: {msg}"
        print(line, flush=True)
        VIOL.append(line)
    elif SEEN[clause] == MAX_PER_CLAUSE + 1:
        print(f"VIOLATION [{clause}] ... further violations of this clause suppressed", flush=True)


def Qf(x):
    return 0.5 * erfc(np.asarray(x, dtype=float) / np.sqrt(2))


def guarded(clause, inp, f):
    try:
        return f()
    except Exception as ex:  # loud failure inside the domain
        viol(clause, inp, f"raised {type(ex).__name__}: {ex}")
        return None


# ---------------------------------------------------------------------------------------------
# reference error integrals
# ---------------------------------------------------------------------------------------------
def ook_pe(x, d, s0, s1):
    return 0.5 * (Qf((d - x) / s1) + Qf(x / s0))


def ook_min(d, s0, s1):
    """minimum over thresholds in [0,d] of the two gaussian error integral"""
    g = np.linspace(0, d, 20001)
    v = ook_pe(g, d, s0, s1)
    i = int(np.argmin(v))
    lo, hi = g[max(i - 1, 0)], g[min(i + 1, len(g) - 1)]
    r = minimize_scalar(lambda x: ook_pe(x, d, s0, s1), bounds=(lo, hi), method='bounded', options={'xatol': 1e-14 * d})
    return min(v[i], float(r.fun))


def ppm_ser_hard(x, d, s0, s1, M):
    """1 - P(ON > x) P(OFF < x)^(M-1), without cancellation"""
    x = np.asarray(x, dtype=float)
    la = log_ndtr((d - x) / s1)           # log P(ON > x)
    lb = (M - 1) * log_ndtr(x / s0)       # log P(OFF < x)^(M-1)
    return -np.expm1(la + lb)


def ppm_hard_min(d, s0, s1, M):
    g = np.linspace(0, d, 20001)
    v = ppm_ser_hard(g, d, s0, s1, M)
    i = int(np.argmin(v))
    lo, hi = g[max(i - 1, 0)], g[min(i + 1, len(g) - 1)]
    r = minimize_scalar(lambda x: float(ppm_ser_hard(x, d, s0, s1, M)), bounds=(lo, hi), method='bounded', options={'xatol': 1e-14 * d})
    return min(v[i], float(r.fun)), (g[i] if v[i] <= r.fun else float(r.x))


def ppm_ser_soft(d, s0, s1, M):
    """P(symbol error) = 1 - E_x[ P(OFF < d + s1 x)^(M-1) ], computed as an integral of the complement"""
    f = lambda x: -np.expm1((M - 1) * log_ndtr((d + s1 * x) / s0)) * np.exp(-x * x / 2) / np.sqrt(2 * pi)
    x0 = -d / s1
    pts = sorted(set([max(-38.0, x0 - 8 * s0 / s1), max(-38.0, x0), min(38.0, max(-38.0, x0 + 8 * s0 / s1))]))
    edges = [-38.0] + [p for p in pts if -38 < p < 38] + [38.0]
    tot = 0.0
    for a, b in zip(edges[:-1], edges[1:]):
        if b > a:
            tot += quad(f, a, b, epsabs=0, epsrel=1e-10, limit=200)[0]
    return tot


SOFT_ABS = 3e-8     # known: soft value is computed as 1 - quad(...)


# ---------------------------------------------------------------------------------------------
# sample sets
# ---------------------------------------------------------------------------------------------
rng = np.random.default_rng(20260927)
S_PAIRS = [(1.0, 1.0), (0.1, 0.1), (1.0, 2.0), (2.0, 1.0), (1.0, 10.0), (10.0, 1.0), (1e-3, 1e-3), (3.0, 0.5), (1e3, 2e3)]
RATIOS = [1e-6, 1e-3, 0.1, 0.5, 1.0, 2.0, 3.0, 5.0, 8.0, 10.0, 12.0, 14.0, 16.0, 16.5, 17.0, 18.0, 19.0, 20.0]
MS = [2, 4, 8, 16, 32, 64, 128, 256]


def clause_ook_theory():
    # C13.1  ook.theory_BER(mu,s,s) = Q(mu/2s)
    for s in [1e-6, 0.1, 1.0, 7.0, 1e4]:
        for rr in RATIOS:
            mu = rr * s
            v = guarded('C13.1 ook equal sigma', (mu, s), lambda: float(ook.theory_BER(mu, s, s)))
            if v is None:
                continue
            ref = float(Qf(mu / 2 / s))
            if not (ref * (1 - 1e-12) <= v <= ref * (1 + 1e-2)):
                viol('C13.1 ook equal sigma = Q(mu/2s)', (mu, s), f"got {v!r}, Q(mu/2s)={ref!r}")
    # C13.2 general: min over thresholds, within grid error, never below
    cases = [(rr * max(s0, s1) if k else rr * min(s0, s1), s0, s1) for (s0, s1) in S_PAIRS for rr in RATIOS for k in (0, 1)]
    for _ in range(150):
        s0, s1 = 10 ** rng.uniform(-3, 3), 10 ** rng.uniform(-3, 3)
        cases.append((rng.uniform(0, 20) * min(s0, s1), s0, s1))
    for mu, s0, s1 in cases:
        if mu <= 0:
            continue
        v = guarded('C13.2 ook general', (mu, s0, s1), lambda: float(ook.theory_BER(mu, s0, s1)))
        if v is None:
            continue
        ref = ook_min(mu, s0, s1)
        gref = float(np.min(ook_pe(np.linspace(0, mu, 1000), mu, s0, s1)))   # the stated 1000-point grid
        if not np.isfinite(v) or v < ref * (1 - 1e-9) or abs(v - gref) > 1e-11 * gref:
            viol('C13.2 ook general = min_threshold error integral (1000-point grid, never below the true minimum)', (mu, s0, s1), f"got {v!r}, grid minimum {gref!r}, true minimum over [0,mu] {ref!r}")
        if mu <= 20 * min(s0, s1) and v > ref * (1 + 2e-2):
            viol('C13.2 ook grid error small for mu <= 20 min(s0,s1)', (mu, s0, s1), f"got {v!r}, true minimum {ref!r}")
        if not (0 <= v <= 0.5):
            viol('C13.6 bound M/(2(M-1)) (ook: 1/2)', (mu, s0, s1), f"got {v!r}")


def clause_ppm_theory():
    cases = [(rr * min(s0, s1), s0, s1) for (s0, s1) in S_PAIRS[:6] for rr in [1e-3, 0.5, 2.0, 5.0, 8.0, 12.0, 20.0]]
    for _ in range(25):
        s0, s1 = 10 ** rng.uniform(-2, 2), 10 ** rng.uniform(-2, 2)
        cases.append((rng.uniform(0, 20) * min(s0, s1), s0, s1))
    for mu, s0, s1 in cases:
        for M in MS:
            inp = (mu, s0, s1, M)
            vs = guarded('C13.3 ppm soft', inp, lambda: float(ppm.theory_BER(mu, s0, s1, M, 'soft')))
            vh = guarded('C13.4 ppm hard', inp, lambda: float(ppm.theory_BER(mu, s0, s1, M, 'hard')))
            vd = guarded('C13.3 ppm default decision', inp, lambda: float(ppm.theory_BER(mu, s0, s1, M)))
            if vs is None or vh is None or vd is None:
                continue
            if vd != vs:
                viol("C13.3 default decision is 'soft'", inp, f"default {vd!r} != soft {vs!r}")
            fac = M / 2 / (M - 1)
            if M == 2:
                ref = float(Qf(mu / np.hypot(s0, s1)))
                if abs(vs - ref) > SOFT_ABS:
                    viol('C13.3 ppm soft M=2 = Q(mu/sqrt(s0^2+s1^2))', inp, f"got {vs!r}, expected {ref!r}")
            refs = fac * ppm_ser_soft(mu, s0, s1, M)
            if abs(vs - refs) > SOFT_ABS:
                viol('C13.3b ppm soft = symbol error integral', inp, f"got {vs!r}, expected {refs!r}")
            refh = fac * ppm_hard_min(mu, s0, s1, M)[0]
            EPS1 = 2.3e-16 * M   # float64 resolution of 1 - p^(M-1)
            grefh = fac * float(np.min(ppm_ser_hard(np.linspace(0, mu, 1000), mu, s0, s1, M)))
            if abs(vh - grefh) > 1e-9 * grefh + EPS1:
                viol('C13.4c ppm hard = minimum over the 1000-point grid', inp, f"got {vh!r}, expected {grefh!r}")
            if vh < refh * (1 - 1e-9) - EPS1 or vh > refh * (1 + 2e-2) + EPS1:
                viol('C13.4b ppm hard = min_threshold of the error integral', inp, f"got {vh!r}, expected {refh!r}")
            if vs > vh + SOFT_ABS:
                viol('C13.4 soft <= hard', inp, f"soft {vs!r} > hard {vh!r}")
            for name, v in (('soft', vs), ('hard', vh)):
                if not np.isfinite(v) or v > fac * (1 + 1e-12) or v < -SOFT_ABS:
                    viol('C13.6 bound M/(2(M-1))', inp + (name,), f"got {v!r}, bound {fac!r}")


def clause_monotone_mu():
    # C13.5  non-increasing in mu, fine sweep over the whole range (0, 20 s]
    for s0, s1 in [(1.0, 1.0), (1.0, 3.0), (3.0, 1.0), (0.01, 0.05), (50.0, 20.0)]:
        s = min(s0, s1)
        mu = np.concatenate([[1e-12 * s, 1e-6 * s], np.linspace(1e-3 * s, 20 * s, 801)])
        v = guarded('C13.5 ook monotone', (s0, s1), lambda: np.asarray(ook.theory_BER(mu, s0, s1), dtype=float))
        if v is not None:
            if not np.all(np.isfinite(v)):
                viol('C13.5 ook finite over the sweep', (s0, s1), f"non finite at mu={mu[~np.isfinite(v)][:3]}")
            inc = np.diff(v)
            bad = np.where(inc > 1e-15 * v[:-1] + 1e-300)[0]
            if len(bad):
                i = bad[0]
                viol('C13.5 ook non-increasing in mu', (s0, s1, mu[i], mu[i + 1]), f"{v[i]!r} -> {v[i+1]!r}")
        for M in [2, 4, 16, 256]:
            for dec in ['hard', 'soft']:
                mm = mu if dec == 'hard' else mu[::8]
                v = guarded('C13.5 ppm monotone', (s0, s1, M, dec), lambda: np.asarray(ppm.theory_BER(mm, s0, s1, M, dec), dtype=float))
                if v is None:
                    continue
                if not np.all(np.isfinite(v)):
                    viol('C13.5 ppm finite over the sweep', (s0, s1, M, dec), f"non finite at mu={mm[~np.isfinite(v)][:3]}")
                tol = 4e-16 if dec == 'hard' else SOFT_ABS
                inc = np.diff(v)
                bad = np.where(inc > tol)[0]
                if len(bad):
                    i = bad[0]
                    viol('C13.5 ppm non-increasing in mu', (s0, s1, M, dec, mm[i], mm[i + 1]), f"{v[i]!r} -> {v[i+1]!r}")


def clause_vectorise():
    # C13.7 element-wise vectorisation, container / dtype / layout invariance
    mu = np.array([[0.5, 1.0, 2.0], [3.0, 5.0, 8.0]])
    s0 = np.array([[1.0, 0.5, 0.25], [1.0, 2.0, 0.7]])
    s1 = np.array([[0.3, 0.5, 1.25], [2.0, 1.0, 0.7]])

    def funcs():
        yield 'ook', lambda a, b, c_: ook.theory_BER(a, b, c_)
        for M in (2, 8):
            for dec in ('soft', 'hard'):
                yield f'ppm{M}{dec}', (lambda a, b, c_, M=M, dec=dec: ppm.theory_BER(a, b, c_, M, dec))
                yield f'ppm{M}{dec}kw', (lambda a, b, c_, M=M, dec=dec: ppm.theory_BER(mu1=a, s0=b, s1=c_, M=M, decision=dec))

    for name, f in funcs():
        ref = np.array([[float(f(float(mu[i, j]), float(s0[i, j]), float(s1[i, j]))) for j in range(3)] for i in range(2)])
        variants = {
            'ndarray2d': (mu, s0, s1),
            'fortran': (np.asfortranarray(mu), np.asfortranarray(s0), np.asfortranarray(s1)),
            'view': (np.repeat(mu, 2, axis=1)[:, ::2], s0, s1),
            'lists': (mu.tolist(), s0.tolist(), s1.tolist()),
            'tuple': (tuple(map(tuple, mu)), s0, s1),
        }
        ro = [a.copy() for a in (mu, s0, s1)]
        for a in ro:
            a.setflags(write=False)
        variants['readonly'] = tuple(ro)
        for vn, args in variants.items():
            before = [np.array(a, dtype=float).copy() for a in args]
            out = guarded('C13.7 vectorise', (name, vn), lambda: np.asarray(f(*args), dtype=float))
            if out is None:
                continue
            if out.shape != ref.shape or not np.array_equal(out, ref):
                viol('C13.7 vectorise element-wise', (name, vn), f"got {out!r}, element-wise {ref!r}")
            for a, b in zip(args, before):
                if not np.array_equal(np.array(a, dtype=float), b):
                    viol('C13.7 input left unchanged', (name, vn), 'input modified')
        # scalar vs length-1 array vs 0-d array, python vs numpy scalars
        for m_, a_, b_ in [(1.0, 0.1, 0.1), (3.0, 1.0, 2.0), (2, 1, 1), (20, 1, 1)]:
            r0 = guarded('C13.7 scalar', (name, m_, a_, b_), lambda: float(f(m_, a_, b_)))
            if r0 is None:
                continue
            alts = {
                'len1': lambda: f(np.array([m_]), np.array([a_]), np.array([b_])),
                'len1-mu-only': lambda: f(np.array([m_]), a_, b_),
                '0d': lambda: f(np.array(m_), np.array(a_), np.array(b_)),
                'np.float64': lambda: f(np.float64(m_), np.float64(a_), np.float64(b_)),
                'float': lambda: f(float(m_), float(a_), float(b_)),
                'int64-array': (lambda: f(np.array([m_], dtype=np.int64), np.array([a_], dtype=np.int64), np.array([b_], dtype=np.int64))) if all(isinstance(q, int) for q in (m_, a_, b_)) else None,
            }
            for an, g in alts.items():
                if g is None:
                    continue
                r = guarded('C13.7 scalar vs array', (name, an, m_, a_, b_), lambda: np.asarray(g(), dtype=float))
                if r is None:
                    continue
                if r.size != 1 or float(r.ravel()[0]) != r0:
                    viol('C13.7 scalar call = same value in an array', (name, an, m_, a_, b_), f"{r!r} vs scalar {r0!r}")
        # broadcasting mu (3,) against s (2,1)
        a = np.array([1.0, 2.0, 4.0]); b = np.array([[1.0], [0.5]])
        out = guarded('C13.7 broadcast', name, lambda: np.asarray(f(a, b, 1.0), dtype=float))
        if out is not None:
            ref2 = np.array([[float(f(x, float(y), 1.0)) for x in a] for y in b[:, 0]])
            if out.shape != (2, 3) or not np.array_equal(out, ref2):
                viol('C13.7 broadcasting', name, f"{out!r} vs {ref2!r}")
        # units: scale invariance (power of two scaling is exact in floating point)
        for k in (2.0 ** -20, 2.0 ** 10):
            out = guarded('C13.7 scale', (name, k), lambda: np.asarray(f(mu * k, s0 * k, s1 * k), dtype=float))
            if out is not None and not np.allclose(out, ref, rtol=1e-12, atol=1e-15):
                viol('C13.7 invariance under the unit of mu, s0, s1', (name, k), f"{out!r} vs {ref!r}")


def clause_estimators():
    # C13.8 estimator modes depend only on mu1-mu0, s0, s1, M and agree with theory_BER
    offsets = [0.0, 0.5, -0.25, 1.0, -3.0, 64.0, -1024.0]
    cases = [(1.0, 0.1, 0.1), (1.0, 0.25, 0.125), (2.0, 1.0, 3.0), (5.0, 2.0, 0.5), (0.125, 1.0, 1.0), (12.0, 1.0, 1.0), (16.0, 1.0, 1.0), (3, 1, 1)]
    for d, s0, s1 in cases:
        ref_ook = float(ook.theory_BER(d, s0, s1))
        for off in offsets:
            for typ in ('float', 'np.float64', 'int'):
                if typ == 'int' and not all(float(q).is_integer() for q in (d, s0, s1, off)):
                    continue
                conv = {'float': float, 'np.float64': np.float64, 'int': int}[typ]
                ey = eye(mu0=conv(off), mu1=conv(off + d), s0=conv(s0), s1=conv(s1))
                inp = (d, s0, s1, off, typ)
                v = guarded('C13.8 ook estimator', inp, lambda: float(ook.BER_analizer('estimator', eye_obj=ey)))
                if v is not None and not np.isclose(v, ref_ook, rtol=1e-9 * (1 + abs(off) / d), atol=0):
                    viol('C13.8 ook estimator = theory_BER(mu1-mu0,s0,s1)', inp, f"{v!r} vs {ref_ook!r}")
                th = guarded('C13.9 ook THRESHOLD_EST', inp, lambda: float(ook.THRESHOLD_EST(ey)))
                if th is not None:
                    step = d / 999
                    if not (off - 1e-12 <= th <= off + d + 1e-12):
                        viol('C13.9 threshold in [mu0,mu1]', inp, f"{th!r}")
                    if s0 == s1 and abs(th - (off + d / 2)) > 0.51 * step + 1e-9 * abs(off):
                        viol('C13.9 ook threshold is the midpoint for equal sigmas', inp, f"{th!r} vs {off + d/2!r}")
                    root = float(U.optimum_threshold(off, off + d, s0 ** 2, s1 ** 2, 'ook'))
                    if off <= root <= off + d and abs(th - root) > 1.01 * step + 1e-9 * abs(off):
                        viol('C13.9 ook threshold solves N0 = N1 (grid error)', inp, f"{th!r} vs root {root!r}")
                for M in (2, 4, 64, 256):
                    th = guarded('C13.9 ppm THRESHOLD_EST', inp + (M,), lambda: float(ppm.THRESHOLD_EST(ey, M)))
                    if th is not None and not (off - 1e-12 <= th <= off + d + 1e-12):
                        viol('C13.9 threshold in [mu0,mu1]', inp + (M,), f"{th!r}")
                    for dec in ('soft', 'hard', 'Soft', 'HARD'):
                        ref = float(ppm.theory_BER(d, s0, s1, M, dec.lower()))
                        v = guarded('C13.8 ppm estimator', inp + (M, dec), lambda: float(ppm.BER_analizer('estimator', eye_obj=ey, M=M, decision=dec)))
                        if v is None:
                            continue
                        tol = SOFT_ABS if dec.lower() == 'soft' else 1e-9 * (1 + abs(off) / d) * ref + 1e-15
                        if abs(v - ref) > tol:
                            viol('C13.8 ppm estimator = theory_BER(mu1-mu0,s0,s1,M)', inp + (M, dec), f"{v!r} vs {ref!r}")
                    v = guarded('C13.8 ppm estimator default decision', inp + (M,), lambda: float(ppm.BER_analizer('estimator', eye_obj=ey, M=M)))
                    if v is not None and abs(v - float(ppm.theory_BER(d, s0, s1, M))) > SOFT_ABS:
                        viol('C13.8 ppm estimator default decision soft', inp + (M,), f"{v!r}")

    # C13.9b ppm.THRESHOLD_EST is the minimiser of the hard symbol error (the root of (M-1)N0=N1 at high SNR)
    for s0, s1 in [(1.0, 1.0), (1.0, 2.0), (0.5, 0.25)]:
        for rr in [4.0, 8.0, 12.0, 14.0, 16.0, 16.5, 17.0, 18.0, 19.0, 20.0]:
            for M in (2, 4, 256):
                for off in (0.0, 1.0):
                    d = rr * min(s0, s1)
                    ey = eye(mu0=off, mu1=off + d, s0=s0, s1=s1)
                    th = guarded('C13.9b', (d, s0, s1, M), lambda: float(ppm.THRESHOLD_EST(ey, M)))
                    if th is None:
                        continue
                    pmin, xmin = ppm_hard_min(d, s0, s1, M)
                    step = d / 999
                    here = float(ppm_ser_hard(th - off, d, s0, s1, M))
                    # the threshold returned must be (nearly) as good as the best grid point
                    if abs(th - off - xmin) > 2 * step and here > pmin * 1.05 + 1e-300:
                        root = float(U.optimum_threshold(off, off + d, s0 ** 2, s1 ** 2, 'ppm', M))
                        viol('C13.9b ppm THRESHOLD_EST minimises the symbol error / solves (M-1)N0=N1 within the grid error',
                             (off, off + d, s0, s1, M), f"returned {th!r}, optimum {off + xmin!r} (closed form {root!r}); error prob there {here:.3e} vs minimum {pmin:.3e}")
                    v = float(ppm.BER_analizer('estimator', eye_obj=ey, M=M, decision='hard'))
                    ref = M / 2 / (M - 1) * pmin
                    if abs(v - ref) > 2e-2 * ref + 2.3e-16 * M:
                        viol('C13.8b ppm hard estimator = min of the error integral', (off, off + d, s0, s1, M), f"{v!r} vs {ref!r}")


def clause_optimum_threshold():
    # C13.10 optimum_threshold solves (M-1) N(r;mu0,S0) = N(r;mu1,S1); offset / unit invariance; midpoint
    def gaus(x, m, S):
        return np.exp(-0.5 * (x - m) ** 2 / S) / np.sqrt(2 * pi * S)

    cases = []
    for d, s0, s1 in itertools.product([1e-3, 0.5, 1.0, 3.0, 8.0, 20.0], [0.5, 1.0, 2.0], [0.5, 1.0, 2.0, 2.0000001]):
        cases.append((d * min(s0, s1), s0, s1))
    for mod, Ms in (('ook', [None, 2, 7]), ('OOK', [None]), ('ppm', MS), ('PPM', [4])):
        for d, s0, s1 in cases:
            for M in Ms:
                for off in (0.0, 1.0, -2.0):
                    inp = (off, off + d, s0 ** 2, s1 ** 2, mod, M)
                    th = guarded('C13.10 optimum_threshold', inp, lambda: float(U.optimum_threshold(off, off + d, s0 ** 2, s1 ** 2, mod, M)))
                    if th is None:
                        continue
                    Meff = 2 if mod.lower() == 'ook' else M
                    if d ** 2 + 2 * (s1 ** 2 - s0 ** 2) * np.log(s1 / s0 * (Meff - 1)) < 0:
                        continue   # (M-1) N0 = N1 has no real solution: nothing to solve
                    if not np.isfinite(th):
                        viol('C13.10 optimum_threshold finite', inp, f"{th!r}")
                        continue
                    lhs = np.log(Meff - 1) + (-0.5 * (th - off) ** 2 / s0 ** 2 - np.log(s0))
                    rhs = (-0.5 * (th - off - d) ** 2 / s1 ** 2 - np.log(s1))
                    if abs(lhs - rhs) > 1e-7 * (1 + abs(lhs)):
                        viol('C13.10 optimum_threshold solves (M-1)N0 = N1', inp, f"thr {th!r}: log lhs {lhs!r} log rhs {rhs!r}")
                    if s0 == s1 and Meff == 2 and abs(th - (off + d / 2)) > 1e-12 * (1 + abs(off) + d):
                        viol('C13.10 midpoint for equal sigmas (ook)', inp, f"{th!r}")
                    # depends only on mu1-mu0 (offset) and on the unit
                    th0 = float(U.optimum_threshold(0.0, d, s0 ** 2, s1 ** 2, mod, M))
                    if abs((th - off) - th0) > 1e-9 * (abs(th0) + abs(off) + d):
                        viol('C13.10 optimum_threshold offset invariance', inp, f"{th - off!r} vs {th0!r}")
                    thk = float(U.optimum_threshold(off * 8, (off + d) * 8, 64 * s0 ** 2, 64 * s1 ** 2, mod, M))
                    if abs(thk - 8 * th) > 1e-9 * (abs(thk) + d):
                        viol('C13.10 optimum_threshold unit invariance', inp, f"{thk!r} vs {8*th!r}")
    # continuity in S1 across S0 (the repaired 0/0): sweep S1 finely through S0
    for M in (2, 16):
        S1 = 1.0 + np.linspace(-1e-6, 1e-6, 41)
        th = np.array([float(U.optimum_threshold(0.0, 6.0, 1.0, q, 'ppm', M)) for q in S1])
        if not np.all(np.isfinite(th)) or np.max(np.abs(np.diff(th))) > 1e-6:
            viol('C13.10 optimum_threshold continuous through S0 == S1', M, f"{th!r}")


# ---------------------------------------------------------------------------------------------
# receiver model
# ---------------------------------------------------------------------------------------------
def model(P, M, ER, amplify, G, NF, BWo, r, BWe, RL, T, NFel, f0):
    er = np.inf if np.isinf(ER) else 10 ** (ER / 10)
    p = 10 ** (P / 10 - 3)
    pon = p * M / (1 + (M - 1) / er)
    poff = pon / er
    if amplify:
        g = 10 ** (G / 10)
        pase = 10 ** (NF / 10) * h * f0 * (g - 1) * BWo
        l = BWe / BWo
    else:
        g, pase, l = 1.0, 0.0, 1.0
    muA = r * pase * RL
    mu = np.array([r * g * poff * RL + muA, r * g * pon * RL + muA])
    S = 4 * kB * T * BWe * RL * 10 ** (NFel / 10) + 2 * qe * mu * BWe * RL + 2 * muA * (mu - muA) * l + muA ** 2 * (1 - l / 2) * l
    return mu, S, pase


def model_ber(mu, S, M, mod, dec, thr):
    d = mu[1] - mu[0]
    s0, s1 = np.sqrt(S)
    if mod == 'ook':
        if thr is not None:
            return float(ook_pe(thr * d, d, s0, s1)) if s0 > 0 else float(0.5 * Qf((1 - thr) * d / s1))
        if s0 == 0:
            return float(0.5 * Qf(d / s1))
        return ook_min(d, s0, s1)
    fac = M / 2 / (M - 1)
    if dec == 'hard':
        if s0 == 0:
            return fac * float(Qf(d / s1)) if thr is None else fac * float(Qf((1 - thr) * d / s1))
        if thr is not None:
            return fac * float(ppm_ser_hard(thr * d, d, s0, s1, M))
        return fac * ppm_hard_min(d, s0, s1, M)[0]
    if s0 == 0:
        return fac * float(Qf(d / s1))
    return fac * ppm_ser_soft(d, s0, s1, M)


def receiver_cases():
    F0 = c / 1550e-9
    base = dict(ER=np.inf, G=20.0, NF=5.0, BWo=50e9, r=1.0, BWe=5e9, RL=50.0, T=300.0, NFel=0.0)
    corner = dict(ER=[3.0, 10.0, np.inf], G=[0.0, 40.0], NF=[3.0, 10.0], BWo=[5e9 * (1 + 1e-9), 1e12], r=[1e-3, 1.0],
                  RL=[10.0, 1e4], T=[0.0, 400.0], NFel=[0.0, 6.0], BWe=[1e8, 5e9])
    cases = []
    for amp in (False, True):
        cases.append(dict(base, amplify=amp))
        for key, vals in corner.items():
            for v in vals:
                cases.append(dict(base, amplify=amp, **{key: v}))
        # pairs of corners with T = 0 and ER = inf / 3
        for ER in (3.0, np.inf):
            for G in (0.0, 40.0):
                cases.append(dict(base, amplify=amp, T=0.0, ER=ER, G=G))
    r2 = np.random.default_rng(7)
    for _ in range(30):
        BWe = 10 ** r2.uniform(8, 10)
        cases.append(dict(amplify=bool(r2.integers(2)), ER=float(r2.choice([3.0, 6.0, 13.0, 30.0, np.inf])), G=r2.uniform(0, 40), NF=r2.uniform(3, 10),
                          BWo=BWe * r2.uniform(1.01, 50), r=r2.uniform(0.05, 1), BWe=BWe, RL=10 ** r2.uniform(1, 4), T=r2.uniform(0, 400), NFel=r2.uniform(0, 8)))
    for cs in cases:
        if cs['BWo'] <= cs['BWe']:
            cs['BWo'] = cs['BWe'] * 2
    return F0, cases


def call_tb(P, mod, M, dec, thr, cs, F0, how='kw'):
    kw = dict(ER=cs['ER'], amplify=cs['amplify'], f0=F0, r=cs['r'], BW_el=cs['BWe'], R_L=cs['RL'], T=cs['T'], NF_el=cs['NFel'])
    if cs['amplify']:
        kw.update(G=cs['G'], NF=cs['NF'], BW_opt=cs['BWo'])
    if how == 'kw':
        return U.theory_BER(P_avg=P, modulation=mod, M=M, decision=dec, threshold=thr, **kw)
    return U.theory_BER(P, mod, M, dec, thr, cs['ER'], cs['amplify'], F0, kw.get('G'), kw.get('NF'), kw.get('BW_opt'), cs['r'], cs['BWe'], cs['RL'], cs['T'], cs['NFel'])


def clause_receiver_model():
    F0, cases = receiver_cases()
    wl = c / F0
    mods = [('ook', None, None), ('ppm', 2, 'hard'), ('ppm', 4, 'soft'), ('ppm', 16, 'hard'), ('ppm', 256, 'soft'), ('ppm', 256, 'hard')]
    Ps = [-50.0, -37.5, -25.0, -10.0, 0.0]
    for ci, cs in enumerate(cases):
        for mod, M, dec in mods:
            Meff = 2 if mod == 'ook' else M
            for P in Ps:
                inp = dict(cs, P_avg=P, modulation=mod, M=M, decision=dec)
                mu_r, S_r, pase_r = model(P, Meff, cs['ER'], cs['amplify'], cs['G'], cs['NF'], cs['BWo'], cs['r'], cs['BWe'], cs['RL'], cs['T'], cs['NFel'], F0)
                # C13.11a levels / variances / ASE power of the helper functions
                if cs['amplify']:
                    args = (P, mod, M, cs['ER'], True, wl, cs['G'], cs['NF'], cs['BWo'], cs['r'])
                else:
                    args = (P, mod, M, cs['ER'], False, wl, None, None, None, cs['r'])
                av = guarded('C13.11a average_voltages', inp, lambda: U.average_voltages(*args, cs['RL']))
                nv = guarded('C13.11a noise_variances', inp, lambda: U.noise_variances(*args, cs['BWe'], cs['RL'], cs['T'], cs['NFel']))
                pa = guarded('C13.11a p_ase', inp, lambda: U.p_ase(*args[4:9]))
                if av is None or nv is None or pa is None:
                    continue
                mu_c = np.asarray(av[0], dtype=float)
                if not np.allclose(mu_c, mu_r, rtol=1e-10, atol=0):
                    viol('C13.11a average_voltages levels', inp, f"{mu_c!r} vs {mu_r!r}")
                if not np.isclose(float(av[1]), cs['r'] * pase_r * cs['RL'], rtol=1e-10, atol=0):
                    viol('C13.11a average_voltages ASE offset', inp, f"{av[1]!r} vs {cs['r'] * pase_r * cs['RL']!r}")
                if not np.allclose(np.asarray(nv, dtype=float), S_r, rtol=1e-10, atol=0):
                    viol('C13.11a noise_variances', inp, f"{nv!r} vs {S_r!r}")
                if not np.isclose(float(pa), pase_r, rtol=1e-12, atol=0):
                    viol('C13.11a p_ase', inp, f"{pa!r} vs {pase_r!r}")
                if np.isinf(cs['ER']) and not cs['amplify'] and mu_c[0] != 0:
                    viol('C13.11a OFF level with ER=inf', inp, f"{mu_c[0]!r}")
                # keyword call of the helpers = positional call
                if ci < 6:
                    kw = dict(P_avg=P, modulation=mod, M=M, ER=cs['ER'], amplify=cs['amplify'], wavelength=wl, r=cs['r'], R_L=cs['RL'])
                    if cs['amplify']:
                        kw.update(G=cs['G'], NF=cs['NF'], BW_opt=cs['BWo'])
                    nv2 = guarded('C13.11a noise_variances kw', inp, lambda: U.noise_variances(BW_el=cs['BWe'], T=cs['T'], NF_el=cs['NFel'], **kw))
                    if nv2 is not None and not np.array_equal(np.asarray(nv2), np.asarray(nv)):
                        viol('C13.11a noise_variances keyword = positional', inp, f"{nv2!r} vs {nv!r}")

                # C13.11b theory_BER = error integral on those levels and variances
                for thr in ((None, 0.5, 0.2) if dec != 'soft' else (None,)):
                    if ci >= 12 and thr is not None and P not in (-50.0, -25.0):
                        continue
                    v = guarded('C13.11b theory_BER', dict(inp, threshold=thr), lambda: float(call_tb(P, mod, M, dec, thr, cs, F0)))
                    if v is None:
                        continue
                    ref = model_ber(mu_c, np.asarray(nv, dtype=float), Meff, mod, dec, thr)
                    if dec == 'soft':
                        ok = abs(v - ref) <= SOFT_ABS
                    else:
                        EPS1 = 2.3e-16 * Meff
                        ok = np.isfinite(v) and (ref * (1 - 1e-7) - EPS1 <= v <= ref * (1 + 1e-2) + EPS1)
                    if not ok:
                        viol('C13.11b theory_BER = error integral on the model levels/variances', dict(inp, threshold=thr), f"got {v!r}, expected {ref!r}")
                    fac = Meff / 2 / (Meff - 1)
                    if not (v <= fac * (1 + 1e-12)) or v < -SOFT_ABS:
                        viol('C13.6 bound M/(2(M-1))', dict(inp, threshold=thr), f"{v!r}")

        # C13.12 monotone decrease with received power, fine sweep over the whole range [-50, 0]
        if ci < 70:
            P = np.linspace(-50, 0, 201)
            for mod, M, dec in mods[:4] + mods[5:]:
                inp = dict(cs, modulation=mod, M=M, decision=dec)
                v = guarded('C13.12 sweep', inp, lambda: np.asarray(call_tb(P, mod, M, dec, None, cs, F0), dtype=float))
                if v is None:
                    continue
                if v.shape != P.shape:
                    viol('C13.12 vectorised over P_avg', inp, f"shape {v.shape}")
                    continue
                if not np.all(np.isfinite(v)):
                    j = np.where(~np.isfinite(v))[0]
                    viol('C13.12 theory_BER finite over P_avg in [-50,0]', inp, f"{len(j)} non finite values, first at P_avg={P[j[0]]} dBm: {v[j[0]]!r}")
                    continue
                tol = SOFT_ABS if dec == 'soft' else 1e-6 * v[:-1] + 4e-16
                bad = np.where(np.diff(v) > tol)[0]
                if len(bad):
                    i = bad[0]
                    viol('C13.12 theory_BER decreases with received power', dict(inp, P=(P[i], P[i + 1])), f"{v[i]!r} -> {v[i+1]!r}")
                # scalar call = element of the array call, positional = keyword
                for i in (0, 77, 200):
                    a = guarded('C13.13', inp, lambda: float(call_tb(float(P[i]), mod, M, dec, None, cs, F0)))
                    b = guarded('C13.13', inp, lambda: float(call_tb(float(P[i]), mod, M, dec, None, cs, F0, how='pos')))
                    l1 = guarded('C13.13', inp, lambda: np.asarray(call_tb(np.array([P[i]]), mod, M, dec, None, cs, F0)))
                    if a is None or b is None or l1 is None:
                        continue
                    if not (a == v[i] == b) or l1.shape != (1,) or l1[0] != a:
                        viol('C13.13 scalar = array element = positional call', dict(inp, P=P[i]), f"{a!r} {v[i]!r} {b!r} {l1!r}")


def clause_receiver_relations():
    F0 = c / 1550e-9
    # amplifier with G = 0 dB adds nothing: same as unamplified
    for mod, M, dec in [('ook', None, None), ('ppm', 8, 'hard'), ('ppm', 8, 'soft')]:
        for P in (-50, -30.0, -12.5, 0):
            for ER in (3, 10.0, np.inf):
                for T in (0, 300):
                    inp = (P, mod, M, dec, ER, T)
                    a = guarded('C13.13 G=0', inp, lambda: float(U.theory_BER(P, mod, M, dec, ER=ER, amplify=True, G=0, NF=5, BW_opt=50e9, T=T)))
                    b = guarded('C13.13 unamplified', inp, lambda: float(U.theory_BER(P, mod, M, dec, ER=ER, amplify=False, T=T)))
                    if a is None or b is None:
                        continue
                    if not (np.isfinite(a) and np.isfinite(b)):
                        viol('C13.13 theory_BER finite (T, ER corners)', inp, f"G=0dB: {a!r}, unamplified: {b!r}")
                    elif abs(a - b) > 1e-12 * abs(b) + (SOFT_ABS if dec == 'soft' else 0):
                        viol('C13.13 amplifier with G = 0 dB = unamplified', inp, f"{a!r} vs {b!r}")
    # modulation / decision letter case, integer vs float power, numpy scalars
    ref = float(U.theory_BER(-30.0, 'ppm', 4, 'hard'))
    for mod in ('ppm', 'PPM', 'Ppm'):
        for dec in ('hard', 'HARD', 'Hard'):
            for P in (-30, -30.0, np.float64(-30), np.int64(-30)):
                for M in (4, np.int64(4)):
                    v = guarded('C13.13 spelling', (mod, dec, type(P).__name__, type(M).__name__), lambda: float(U.theory_BER(P, mod, M, dec)))
                    if v is not None and v != ref:
                        viol('C13.13 letter case / number type invariance', (mod, dec, type(P).__name__), f"{v!r} vs {ref!r}")
    ref = float(U.theory_BER(-30.0, 'ook'))
    for mod in ('OOK', 'Ook'):
        v = guarded('C13.13 spelling', mod, lambda: float(U.theory_BER(-30.0, mod)))
        if v is not None and v != ref:
            viol('C13.13 letter case', mod, f"{v!r} vs {ref!r}")
    # ook ignores M and decision
    v = guarded('C13.13 ook ignores M', None, lambda: float(U.theory_BER(-30.0, 'ook', M=16, decision='soft')))
    if v is not None and v != ref:
        viol('C13.13 ook ignores M / decision', None, f"{v!r} vs {ref!r}")
    # containers and layouts of P_avg
    P = np.linspace(-45, -15, 12).reshape(3, 4)
    ref = np.array([[float(U.theory_BER(float(x), 'ook')) for x in row] for row in P])
    ro = P.copy(); ro.setflags(write=False)
    for name, arg in {'2d': P, 'fortran': np.asfortranarray(P), 'list': P.tolist(), 'readonly': ro, 'view': np.repeat(P, 2, 1)[:, ::2]}.items():
        v = guarded('C13.13 containers', name, lambda: np.asarray(U.theory_BER(arg, 'ook'), dtype=float))
        if v is not None and (v.shape != ref.shape or not np.array_equal(v, ref)):
            viol('C13.13 container / layout invariance of P_avg', name, f"{v!r} vs {ref!r}")
    Pi = np.arange(-40, -19, 5)
    v = guarded('C13.13 int64 P', None, lambda: np.asarray(U.theory_BER(Pi, 'ook'), dtype=float))
    if v is not None and not np.array_equal(v, np.array([float(U.theory_BER(float(x), 'ook')) for x in Pi])):
        viol('C13.13 int64 P_avg = float64 P_avg', None, f"{v!r}")
    # documented defaults: the four functions describe the same (unamplified, 1550 nm) receiver when called with P_avg only
    # (average_voltages and p_ase document amplify default True; noise_variances documents "Default: `False`")
    for fn, nm in ((lambda: U.noise_variances(-30.0, 'ook'), 'noise_variances'),):
        try:
            out = fn()
        except Exception as ex:
            viol("C13.13 sibling called like theory_BER(P,'ook') (amplify documented default False)", nm, f"raised {type(ex).__name__}: {ex}")
            continue
    S = guarded('C13.13 defaults', None, lambda: U.noise_variances(-30.0, 'ook', amplify=False))
    mu = guarded('C13.13 defaults', None, lambda: U.average_voltages(-30.0, 'ook', amplify=False)[0])
    if S is not None and mu is not None:
        refd = ook_min(mu[1] - mu[0], np.sqrt(S[0]), np.sqrt(S[1]))
        v = float(U.theory_BER(-30.0, 'ook'))
        if not (refd * (1 - 1e-9) <= v <= refd * (1 + 1e-2)):
            viol('C13.13 defaults of the helpers and of theory_BER give one model', None, f"{v!r} vs {refd!r}")
    # default f0 of theory_BER vs default wavelength of the helpers (amplified)
    kw = dict(G=25.0, NF=5.0, BW_opt=40e9)
    for P in (-45.0, -35.0):
        v = float(U.theory_BER(P, 'ook', amplify=True, **kw))
        mu = U.average_voltages(P, 'ook', amplify=True, **kw)[0]
        S = U.noise_variances(P, 'ook', amplify=True, **kw)
        refd = ook_min(mu[1] - mu[0], np.sqrt(S[0]), np.sqrt(S[1]))
        vv = float(U.theory_BER(P, 'ook', amplify=True, f0=c / 1550e-9, **kw))
        if abs(v - vv) > 1e-4 * vv:
            viol('C13.13 default f0 = c / default wavelength', P, f"{v!r} vs {vv!r}")
        if not (refd * (1 - 1e-4) <= v <= refd * (1 + 1e-2)):
            viol('C13.13 defaults (amplified) give one model', P, f"{v!r} vs {refd!r}")


def clause_cross():
    # C13.15 the estimators of ook / ppm fed with the model's levels and deviations agree with utils.theory_BER,
    #        and the closed-form optimum threshold is at least as good as the grid minimum (OOK)
    F0 = c / 1550e-9
    wl = c / F0
    confs = [dict(amplify=False), dict(amplify=True, G=20.0, NF=5.0, BW_opt=50e9), dict(amplify=True, G=40.0, NF=10.0, BW_opt=6e9),
             dict(amplify=False, ER=3.0), dict(amplify=True, G=10.0, NF=3.0, BW_opt=1e11, ER=10.0, T=0.0)]
    for cf in confs:
        hk = {k: v for k, v in cf.items() if k != 'T'}
        for P in np.linspace(-50, 0, 21):
            for mod, M, dec in [('ook', None, None), ('ppm', 4, 'hard'), ('ppm', 4, 'soft'), ('ppm', 256, 'hard'), ('ppm', 256, 'soft')]:
                inp = dict(cf, P_avg=float(P), modulation=mod, M=M, decision=dec)
                mu = guarded('C13.15', inp, lambda: U.average_voltages(P, mod, M, wavelength=wl, **hk)[0])
                S = guarded('C13.15', inp, lambda: U.noise_variances(P, mod, M, wavelength=wl, **cf))
                tb = guarded('C13.15', inp, lambda: float(U.theory_BER(P, mod, M, dec, f0=F0, **cf)))
                if mu is None or S is None or tb is None:
                    continue
                ey = eye(mu0=float(mu[0]), mu1=float(mu[1]), s0=float(S[0] ** 0.5), s1=float(S[1] ** 0.5))
                Meff = 2 if mod == 'ook' else M
                if mod == 'ook':
                    est = guarded('C13.15', inp, lambda: float(ook.BER_analizer('estimator', eye_obj=ey)))
                    th_est = guarded('C13.15', inp, lambda: float(ook.THRESHOLD_EST(ey)))
                else:
                    est = guarded('C13.15', inp, lambda: float(ppm.BER_analizer('estimator', eye_obj=ey, M=M, decision=dec)))
                    th_est = guarded('C13.15', inp, lambda: float(ppm.THRESHOLD_EST(ey, M)))
                if est is None or th_est is None:
                    continue
                tol = SOFT_ABS if dec == 'soft' else 2e-2 * tb + 2.3e-16 * Meff
                if not np.isfinite(est) or abs(est - tb) > tol:
                    viol('C13.15 estimator on the model levels = utils.theory_BER', inp, f"estimator {est!r} vs theory_BER {tb!r}")
                if not (mu[0] <= th_est <= mu[1]):
                    viol('C13.9 threshold in [mu0,mu1]', inp, f"{th_est!r} not in [{mu[0]!r},{mu[1]!r}]")
                if mod == 'ook':
                    root = float(U.optimum_threshold(mu[0], mu[1], S[0], S[1], 'ook'))
                    rel = (root - mu[0]) / (mu[1] - mu[0])
                    if 1e-6 < rel < 1 - 1e-6:
                        tb_opt = guarded('C13.15', inp, lambda: float(U.theory_BER(P, mod, M, dec, threshold=rel, f0=F0, **cf)))
                        if tb_opt is not None and (tb_opt > tb * (1 + 1e-9) or ((mu[1] - mu[0]) <= 20 * min(S) ** 0.5 and tb_opt < tb * (1 - 2e-2))):
                            viol('C13.15 BER at the closed-form optimum threshold <= grid minimum (and within the grid error)', inp, f"{tb_opt!r} vs {tb!r}")
                        if (mu[1] - mu[0]) <= 20 * min(S) ** 0.5 and abs(th_est - root) > 1.01 * (mu[1] - mu[0]) / 999:
                            viol('C13.15 ook.THRESHOLD_EST = optimum_threshold within one grid step', inp, f"{th_est!r} vs {root!r}")
    # C13.16 utils.theory_BER vectorises over its other arguments too
    P = np.array([-40.0, -30.0, -25.0])
    Mv = np.array([[2], [16]])
    out = guarded('C13.16', 'P x M', lambda: np.asarray(U.theory_BER(P, 'ppm', Mv, 'hard')))
    if out is not None:
        ref = np.array([[float(U.theory_BER(float(p), 'ppm', int(m), 'hard')) for p in P] for m in Mv[:, 0]])
        if out.shape != (2, 3) or not np.array_equal(out, ref):
            viol('C13.16 theory_BER broadcasts P_avg against M', None, f"{out!r} vs {ref!r}")
    ERv = np.array([3.0, 10.0, np.inf])
    out = guarded('C13.16', 'P x ER', lambda: np.asarray(U.theory_BER(P, 'ook', ER=ERv)))
    if out is not None:
        ref = np.array([float(U.theory_BER(float(p), 'ook', ER=float(q))) for p, q in zip(P, ERv)])
        if not np.array_equal(out, ref):
            viol('C13.16 theory_BER element-wise over (P_avg, ER)', None, f"{out!r} vs {ref!r}")
    out = guarded('C13.16', 'decision array', lambda: np.asarray(U.theory_BER(-30.0, 'ppm', 4, ['hard', 'soft'])))
    if out is not None:
        ref = np.array([float(U.theory_BER(-30.0, 'ppm', 4, q)) for q in ('hard', 'soft')])
        if not np.array_equal(out, ref):
            viol('C13.16 theory_BER element-wise over decision', None, f"{out!r} vs {ref!r}")
    # the helpers accept arrays of P_avg: column k equals the scalar call
    mu = guarded('C13.16', 'average_voltages array', lambda: U.average_voltages(P, 'ppm', 8, ER=13.0, amplify=True, G=15.0, NF=4.0, BW_opt=3e10)[0])
    S = guarded('C13.16', 'noise_variances array', lambda: U.noise_variances(P, 'ppm', 8, ER=13.0, amplify=True, G=15.0, NF=4.0, BW_opt=3e10))
    if mu is not None and S is not None:
        for k, p in enumerate(P):
            m1 = U.average_voltages(float(p), 'ppm', 8, ER=13.0, amplify=True, G=15.0, NF=4.0, BW_opt=3e10)[0]
            S1 = U.noise_variances(float(p), 'ppm', 8, ER=13.0, amplify=True, G=15.0, NF=4.0, BW_opt=3e10)
            if np.shape(mu) != (2, 3) or not np.array_equal(np.asarray(mu)[:, k], m1) or not np.array_equal(np.asarray(S)[:, k], S1):
                viol('C13.16 helpers element-wise over P_avg', float(p), f"{np.asarray(mu)[:, k]!r} vs {m1!r}; {np.asarray(S)[:, k]!r} vs {S1!r}")
    # calls do not depend on call order / global state (gv) : repeat after changing gv
    a = float(U.theory_BER(-33.0, 'ook', amplify=True, G=20, NF=5, BW_opt=5e10))
    gv(sps=8, R=2.5e9, wavelength=1310e-9)
    b = float(U.theory_BER(-33.0, 'ook', amplify=True, G=20, NF=5, BW_opt=5e10))
    pa = float(U.p_ase(True, 1550e-9, 20, 5, 5e10)); gv(sps=16, R=1e9, wavelength=1550e-9)
    pb = float(U.p_ase(True, 1550e-9, 20, 5, 5e10))
    if a != b or pa != pb:
        viol('C13.16 independent of global state', None, f"{a!r} {b!r} {pa!r} {pb!r}")


def clause_devices():
    # C13.14 noise powers of the EDFA / PD device models agree with p_ase / noise_variances
    from opticomlib.devices import EDFA, PD, LPF
    gv(sps=16, R=1e9, N=2 ** 13)
    n = len(gv.t)
    for seed in (1, 2, 3):
        np.random.seed(seed)
        for G, NF in ((20.0, 5.0), (40.0, 3.0), (3.0, 10.0)):
            x = optical_signal(np.zeros(n))
            y = EDFA(x, G=G, NF=NF)
            got = float(np.sum(y.power('noise')))
            ref = float(U.p_ase(True, gv.wavelength, G, NF, gv.fs))
            # total power of 4n gaussians: relative sd sqrt(2/(4n)) = 0.2 %
            if abs(got / ref - 1) > 6 * np.sqrt(2 / (4 * n)):
                viol('C13.14 EDFA ASE power = p_ase(BW=fs)', (seed, G, NF), f"{got!r} vs {ref!r}")
        y = EDFA(optical_signal(np.zeros(n)), G=0.0, NF=5.0)
        if float(np.sum(y.power('noise'))) != 0.0:
            viol('C13.14 EDFA with G = 0 dB adds no ASE (p_ase = 0)', seed, f"{float(np.sum(y.power('noise')))!r}")
    # PD thermal and shot: compare with the model scaled by the noise-equivalent bandwidth of the same LPF
    B = 4e9
    acc = {'th': [], 'sh': [], 'neb': []}
    p_in = 1e-3
    for seed in range(8):
        np.random.seed(100 + seed)
        w = electrical_signal(np.zeros(n), noise=np.random.randn(n))
        acc['neb'].append(float(LPF(w, B).noise.var()) * gv.fs / 2 / B)
        x = optical_signal(np.full(n, np.sqrt(p_in)))
        acc['th'].append(float(PD(x, B, r=0.8, T=350.0, R_load=75.0, include_noise='thermal-only', i_dark=0.0, Fn=3.0).noise.var()))
        acc['sh'].append(float(PD(x, B, r=0.8, T=350.0, R_load=75.0, include_noise='shot-only', i_dark=0.0).noise.var()))
    neb = np.mean(acc['neb'])
    S_all = U.noise_variances(10 * np.log10(p_in * 1e3), 'ook', ER=0.0, amplify=False, r=0.8, BW_el=B, R_L=75.0, T=350.0, NF_el=3.0)
    S_noT = U.noise_variances(10 * np.log10(p_in * 1e3), 'ook', ER=0.0, amplify=False, r=0.8, BW_el=B, R_L=75.0, T=0.0, NF_el=3.0)
    th_ref = float(S_all[1] - S_noT[1]) * neb
    sh_ref = float(S_noT[1]) * neb
    if abs(np.mean(acc['th']) / th_ref - 1) > 0.03:
        viol('C13.14 PD thermal noise power = 4kTB R_L Fn (x NEB/B of its filter)', None, f"{np.mean(acc['th'])!r} vs {th_ref!r}")
    if abs(np.mean(acc['sh']) / sh_ref - 1) > 0.03:
        viol('C13.14 PD shot noise power = 2 e mu B R_L (x NEB/B of its filter)', None, f"{np.mean(acc['sh'])!r} vs {sh_ref!r}")


if __name__ == '__main__':
    for fn in (clause_ook_theory, clause_ppm_theory, clause_monotone_mu, clause_vectorise, clause_estimators,
               clause_optimum_threshold, clause_receiver_relations, clause_receiver_model, clause_cross, clause_devices):
        print(f"-- {fn.__name__}", flush=True)
        try:
            fn()
        except Exception as ex:
            import traceback
            traceback.print_exc()
            viol('AUDIT', fn.__name__, f"audit routine crashed: {type(ex).__name__}: {ex}")
    if VIOL or SEEN:
        print(f"FAIL: {sum(SEEN.values())} violations in {len(SEEN)} clauses")
        sys.exit(1)
    print('PASS')
    sys.exit(0)
