# C13 finding 1: utils.theory_BER is nan at T = 0 with ER = inf and no optical amplifier (or G = 0 dB)
# quantifier: "ER in [3, inf] dB, amplified/unamplified receivers with G in [0,40] dB, ... T in [0,400]"
import sys; del sys.path[0]
import numpy as np
from scipy.constants import e
from opticomlib.utils import theory_BER, average_voltages, noise_variances, Q
P = -50.0
mu = average_voltages(P, 'ook', amplify=False)[0]             # [0, 1e-6] V
S = noise_variances(P, 'ook', amplify=False, T=0)             # [0, 2*e*mu1*B*R_L]: the OFF level is noise free
expected = 0.5*float(Q((mu[1]-mu[0])/S[1]**0.5))              # error integral, threshold just above the OFF level
got = [float(theory_BER(P, 'ook', T=0)), float(theory_BER(P, 'ppm', M=4, decision='hard', T=0)),
       float(theory_BER(P, 'ook', T=0, amplify=True, G=0, NF=5, BW_opt=50e9))]
print('levels', mu, 'variances', S)
print('expected ook BER', expected, '(finite, 1.03e-4); T=1e-9 gives', float(theory_BER(P, 'ook', T=1e-9)))
print('got (ook, 4-ppm hard, ook with a 0 dB amplifier):', got)
sys.exit(1 if any(np.isnan(got)) else 0)
