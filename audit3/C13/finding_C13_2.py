# C13 finding 2: ppm.THRESHOLD_EST leaves the optimum for mu1-mu0 > 16.4 s (inside "mu in (0, 20*s]")
# the threshold must solve (M-1)*N(r;mu0,S0) = N(r;mu1,S1) within the 1000-point grid (midpoint for M=2, equal sigmas)
import sys; del sys.path[0]
from opticomlib import ppm, ook
from opticomlib.typing import eye
from opticomlib.utils import optimum_threshold
bad = 0
for d in (16.0, 17.0, 18.0, 20.0):
    ey = eye(mu0=0.0, mu1=d, s0=1.0, s1=1.0)
    got = ppm.THRESHOLD_EST(ey, 2)
    root = optimum_threshold(0.0, d, 1.0, 1.0, 'ppm', 2)      # = d/2
    sib = ook.THRESHOLD_EST(ey)                                # same optimum for M = 2, found correctly
    step = d/999
    print(f'mu1-mu0={d}: ppm.THRESHOLD_EST={got:.4f}  expected {root:.4f} +- {step:.4f}  (ook.THRESHOLD_EST={sib:.4f})'
          f'  hard estimator BER={ppm.BER_analizer("estimator", eye_obj=ey, M=2, decision="hard"):.3e}')
    bad += abs(got-root) > 2*step
sys.exit(1 if bad else 0)
