# C13 finding 3: noise_variances documents amplify "Default: `False`" (as theory_BER has it) but its signature says True:
# noise_variances(P,'ook'), the sibling of theory_BER(P,'ook'), dies with TypeError instead of giving the thermal+shot variances
import sys; del sys.path[0]
import inspect
from opticomlib.utils import theory_BER, noise_variances, average_voltages, p_ase
print('theory_BER(-30, "ook") =', float(theory_BER(-30, 'ook')), ' (amplify default',
      inspect.signature(theory_BER).parameters['amplify'].default, ')')
bad = 0
for f in (noise_variances,):
    print(f.__name__, 'amplify default =', inspect.signature(f).parameters['amplify'].default)
    try:
        print(f.__name__, '->', f(-30, 'ook'), ' expected', f(-30, 'ook', amplify=False))
    except Exception as ex:
        print(f.__name__ + '(-30, "ook") raised', type(ex).__name__, ex, '; expected', f(-30, 'ook', amplify=False))
        bad += 1
sys.exit(1 if bad else 0)
