import sys, os
if sys.path and os.path.abspath(sys.path[0] or '.') == os.path.dirname(os.path.abspath(__file__)):
    del sys.path[0]

import warnings, itertools, signal as _sig, copy, io, contextlib, struct
warnings.filterwarnings('ignore')
import numpy as np
from numpy.fft import fftshift, fftfreq
from scipy.constants import c, pi

import opticomlib
from opticomlib import gv, binary_sequence, electrical_signal, optical_signal, eye
from opticomlib import devices as dv, ook, ppm, utils as ut
import opticomlib.lab as lab

VIOL = []
LOUD = {}


def viol(clause, what):
    line = f'VIOLATION [{clause}] {what}'
    if line not in VIOL:
        VIOL.append(line)
        print(line, flush=True)


class _TO(Exception):
    pass


def _alarm(*a):
    raise _TO()


_sig.signal(_sig.SIGALRM, _alarm)


def timed(f, *a, _t=20, **k):
    _sig.setitimer(_sig.ITIMER_REAL, _t)
    try:
        return f(*a, **k)
    finally:
        _sig.setitimer(_sig.ITIMER_REAL, 0)


# ----------------------------------------------------------------------------------------------
# Part 1: gv call histories
# ----------------------------------------------------------------------------------------------
DEF = dict(sps=16, R=1e9, fs=16e9, dt=1 / 16e9, wavelength=1550e-9, f0=c / 1550e-9, N=None, t=None, dw=None, w=None)
CORE = set(DEF)


def close(a, b, rel=1e-12):
    return abs(a - b) <= rel * max(abs(a), abs(b))


def check_grid(tag, given, customs):
    """invariants of the statement for the values now in force"""
    s = gv.sps
    if not (isinstance(s, (int, np.integer)) and not isinstance(s, bool) and s >= 1):
        viol('gv.sps-integer', f'{tag}: sps={s!r} ({type(s).__name__})')
        return
    if not close(gv.fs, gv.R * s):
        viol('gv.fs=R*sps', f'{tag}: fs={gv.fs!r} R={gv.R!r} sps={s}')
    if gv.dt != 1 / gv.fs:
        viol('gv.dt=1/fs', f'{tag}: dt={gv.dt!r} 1/fs={1/gv.fs!r}')
    if gv.f0 != c / gv.wavelength:
        viol('gv.f0=c/wavelength', f'{tag}: f0={gv.f0!r} wavelength={gv.wavelength!r}')
    # the values handed over are the ones in force
    for k_ in ('sps', 'R', 'fs', 'wavelength', 'N'):
        if k_ in given:
            if not close(float(getattr(gv, k_)), float(given[k_])):
                viol('gv.value-in-force', f'{tag}: {k_} given {given[k_]!r}, in force {getattr(gv, k_)!r}')
    if gv.N is not None:
        n = gv.N * s
        if gv.t is None or gv.w is None or gv.dw is None:
            viol('gv.t/w-present', f'{tag}: N={gv.N} but t/w/dw is None')
        else:
            if len(gv.t) != n or len(gv.w) != n:
                viol('gv.len(t,w)=N*sps', f'{tag}: len(t)={len(gv.t)} len(w)={len(gv.w)} N*sps={n}')
            if not close(gv.dw, 2 * pi * gv.fs / n, 1e-15):
                viol('gv.dw', f'{tag}: dw={gv.dw!r} expected {2*pi*gv.fs/n!r}')
            wref = 2 * pi * fftshift(fftfreq(n)) * gv.fs
            if len(gv.w) == n and not np.allclose(gv.w, wref, rtol=1e-13, atol=0):
                viol('gv.w-on-current-fs', f'{tag}: w differs from 2*pi*fftshift(fftfreq(n))*fs')
            if len(gv.t) == n and n > 0:
                # t on the current fs: starts at 0, ascending, spans the N*sps*dt window of the *current* dt
                if gv.t[0] != 0 or (n > 1 and not np.all(np.diff(gv.t) > 0)) or not (gv.t[-1] <= n * gv.dt * (1 + 1e-12)) \
                        or (n > 1 and not gv.t[-1] >= (n - 1) * gv.dt * (1 - 1e-12)):
                    viol('gv.t-on-current-fs', f'{tag}: t[0]={gv.t[0]} t[-1]={gv.t[-1]} n*dt={n*gv.dt}')
    else:
        if gv.t is not None or gv.w is not None or gv.dw is not None:
            viol('gv.no-N-no-grid', f'{tag}: N is None but t/w/dw set')
    for k_, v_ in customs.items():
        if not hasattr(gv, k_) or getattr(gv, k_) is not v_:
            viol('gv.custom-persists', f'{tag}: custom {k_} lost or changed')
    extra = set(vars(gv)) - CORE - set(customs)
    if extra:
        viol('gv.no-stray-attrs', f'{tag}: unexpected attributes {sorted(extra)}')


def check_clean(tag):
    gv.clean()
    for k_, v_ in DEF.items():
        g = getattr(gv, k_)
        if not ((g is None and v_ is None) or (g is not None and v_ is not None and g == v_ and type(g) == type(v_))):
            viol('gv.clean-restores-defaults', f'{tag}: {k_}={g!r} ({type(g).__name__}) default {v_!r}')
    extra = set(vars(gv)) - CORE
    if extra:
        viol('gv.clean-removes-customs', f'{tag}: left {sorted(extra)}')


def gv_histories():
    rng = np.random.default_rng(2024)
    Rs = [1e9, 2.5e9, 10e9, 1e6, 3e9, 1.25e9, 40e9, 622.08e6, 1.0, 155.52e6, 10**9, np.float64(2e9), 1e10 / 3]
    spss = [1, 2, 3, 7, 8, 16, 64, 128, 1000, np.int64(4), np.int32(32), 8.0]
    Ns = [1, 2, 3, 7, 64, 128, 1000, np.int64(5)]
    wls = [1550e-9, 1310e-9, 850e-9, 1.0]
    customs_pool = [('alpha', 0.5), ('beta', None), ('G', 20), ('fun', len), ('cls', dict), ('sig', electrical_signal([1, 2])),
                    ('arr', np.arange(3)), ('_x', 0), ('T', 300.0), ('BW', 5e9), ('lam', lambda z: z), ('flag', False), ('zero', 0)]
    subsets = [(), ('sps',), ('R',), ('fs',), ('sps', 'R'), ('sps', 'fs'), ('R', 'fs'), ('sps', 'R', 'fs')]

    def make_call(sub):
        """values commensurate with what is in force"""
        kw = {}
        if sub == ('sps',):
            kw['sps'] = spss[rng.integers(len(spss))]
        elif sub == ('R',):
            kw['R'] = Rs[rng.integers(len(Rs))]
        elif sub == ('fs',):
            kw['fs'] = gv.R * int(spss[rng.integers(len(spss))])
        elif sub == ('sps', 'R'):
            kw['sps'] = spss[rng.integers(len(spss))]; kw['R'] = Rs[rng.integers(len(Rs))]
        elif sub == ('sps', 'fs'):
            kw['sps'] = spss[rng.integers(len(spss))]; kw['fs'] = Rs[rng.integers(len(Rs))] * int(kw['sps'])
        elif sub == ('R', 'fs'):
            kw['R'] = Rs[rng.integers(len(Rs))]; kw['fs'] = kw['R'] * int(spss[rng.integers(len(spss))])
        elif sub == ('sps', 'R', 'fs'):
            kw['sps'] = spss[rng.integers(len(spss))]; kw['R'] = Rs[rng.integers(len(Rs))]; kw['fs'] = kw['R'] * int(kw['sps'])
        return kw

    def run(history, tag):
        gv.clean()
        customs = {}
        wl_in_force = 1550e-9
        for step, (sub, wl, N, cust) in enumerate(history):
            if sub == 'clean':
                check_clean(f'{tag}#{step}')
                customs = {}
                continue
            kw = make_call(sub)
            given = dict(kw)
            if wl is not None:
                kw['wavelength'] = wl; given['wavelength'] = wl
            if N is not None:
                kw['N'] = N; given['N'] = N
            for k_, v_ in cust:
                kw[k_] = v_; customs[k_] = v_
            before_N = gv.N
            try:
                r = gv(**kw)
            except Exception as e:
                viol('gv.call-raises', f'{tag}#{step}: gv({kw}) raised {type(e).__name__}: {e}')
                gv.clean(); return
            if r is not gv:
                viol('gv.returns-self', f'{tag}#{step}')
            if N is None and gv.N != before_N:
                viol('gv.N-retained', f'{tag}#{step}: N {before_N} -> {gv.N} without being passed')
            check_grid(f'{tag}#{step} gv({ {k:(v if not callable(v) and not hasattr(v,"signal") else "<obj>") for k,v in kw.items()} })', given, customs)
        check_clean(f'{tag}#end')

    # exhaustive: every ordered pair / triple of call kinds, N given in the first call only
    n_hist = 0
    kinds = subsets + ['clean']
    for a, b in itertools.product(kinds, repeat=2):
        for N0 in (None, 1, 7):
            h = []
            h.append((a, None, N0, [('alpha', 0.5)]) if a != 'clean' else ('clean', None, None, []))
            h.append((b, None, None, []) if b != 'clean' else ('clean', None, None, []))
            run(h, f'pair{n_hist}'); n_hist += 1
    for a, b, d in itertools.product(kinds, repeat=3):
        h = []
        for i, x in enumerate((a, b, d)):
            h.append(('clean', None, None, []) if x == 'clean' else (x, 1310e-9 if i == 1 else None, 3 if i == 0 else None, [('G', 20)] if i == 0 else []))
        run(h, f'triple{n_hist}'); n_hist += 1
    # random long histories
    for k in range(400):
        L = int(rng.integers(1, 9))
        h = []
        for i in range(L):
            if rng.random() < 0.15:
                h.append(('clean', None, None, [])); continue
            sub = subsets[rng.integers(len(subsets))]
            wl = wls[rng.integers(len(wls))] if rng.random() < 0.3 else None
            N = Ns[rng.integers(len(Ns))] if rng.random() < 0.35 else None
            cust = [customs_pool[j] for j in rng.choice(len(customs_pool), size=int(rng.integers(0, 3)), replace=False)]
            h.append((sub, wl, N, cust))
        run(h, f'rand{k}')
    # positional vs keyword vs default
    gv.clean(); gv(8, 1e9, None, 1550e-9, 5); a = {k: (v.copy() if isinstance(v, np.ndarray) else v) for k, v in vars(gv).items()}
    gv.clean(); gv(sps=8, R=1e9, N=5); b = {k: (v.copy() if isinstance(v, np.ndarray) else v) for k, v in vars(gv).items()}
    for k_ in a:
        same = np.array_equal(a[k_], b[k_]) if isinstance(a[k_], np.ndarray) else a[k_] == b[k_]
        if not same:
            viol('gv.positional=keyword', f'{k_}: {a[k_]!r} vs {b[k_]!r}')
    # split call: gv(sps, R, N) == gv(sps, R); gv(N=N)   and == gv(N=N); gv(sps, R)
    for sps_, R_, N_ in itertools.product([1, 2, 8, 33], [1e9, 2.5e9], [1, 2, 9]):
        gv.clean(); gv(sps=sps_, R=R_, N=N_); one = (gv.t.copy(), gv.w.copy(), gv.dw, gv.fs, gv.dt)
        for order in (0, 1):
            gv.clean()
            if order == 0:
                gv(sps=sps_, R=R_); gv(sps=sps_, R=R_, N=N_) if False else gv(N=N_, sps=sps_, R=R_)
            else:
                gv(N=N_); gv(sps=sps_, R=R_)
            two = (gv.t, gv.w, gv.dw, gv.fs, gv.dt)
            if not (np.array_equal(one[0], two[0]) and np.array_equal(one[1], two[1]) and one[2:] == two[2:]):
                viol('gv.one-call=two-calls', f'sps={sps_} R={R_} N={N_} order {order}')
    gv.clean()
    return n_hist + 400


# ----------------------------------------------------------------------------------------------
# Part 2: purity / seedability / aliasing of devices, codecs, DSP
# ----------------------------------------------------------------------------------------------
def arrays_of(obj, out=None, depth=0):
    """every ndarray reachable from obj (signals, sequences, eyes, containers)"""
    if out is None:
        out = []
    if depth > 4:
        return out
    if isinstance(obj, np.ndarray):
        out.append(obj)
    elif isinstance(obj, (electrical_signal, binary_sequence, eye)):
        for v in vars(obj).values():
            arrays_of(v, out, depth + 1)
    elif isinstance(obj, (list, tuple)):
        for v in obj:
            if isinstance(v, (np.ndarray, electrical_signal, binary_sequence, eye, list, tuple, dict)):
                arrays_of(v, out, depth + 1)
    elif isinstance(obj, dict):
        for v in obj.values():
            arrays_of(v, out, depth + 1)
    return out


def fingerprint(obj, depth=0):
    """bit-exact, hashable picture of a value (execution times excluded)"""
    if isinstance(obj, np.ndarray):
        return ('nd', str(obj.dtype), obj.shape, np.ascontiguousarray(obj).tobytes())
    if isinstance(obj, (electrical_signal, binary_sequence, eye)):
        return (type(obj).__name__,) + tuple((k, fingerprint(v, depth + 1)) for k, v in sorted(vars(obj).items()) if k != 'execution_time')
    if isinstance(obj, (list, tuple)):
        return (type(obj).__name__,) + tuple(fingerprint(v, depth + 1) for v in obj)
    if isinstance(obj, dict):
        return ('dict',) + tuple((k, fingerprint(v, depth + 1)) for k, v in sorted(obj.items()))
    if isinstance(obj, (float, np.floating)):
        return ('f', type(obj).__name__, struct.pack('<d', float(obj)))
    if isinstance(obj, (complex, np.complexfloating)):
        return ('c', struct.pack('<dd', obj.real, obj.imag))
    if isinstance(obj, (int, np.integer, bool, np.bool_, str, type(None))):
        return ('s', type(obj).__name__, obj if not isinstance(obj, np.generic) else obj.item())
    if callable(obj):
        return ('callable', id(obj))
    return ('obj', repr(obj))


def gv_fp():
    return tuple((k, fingerprint(v)) for k, v in sorted(vars(gv).items()))


def describe_diff(a, b):
    if type(a) != type(b):
        return f'type {type(a).__name__} vs {type(b).__name__}'
    if isinstance(a, np.ndarray):
        if a.shape != b.shape or a.dtype != b.dtype:
            return f'shape/dtype {a.shape}{a.dtype} vs {b.shape}{b.dtype}'
        d = np.abs(a.astype(complex) - b.astype(complex))
        return f'max|diff|={np.nanmax(d):.3g} at {np.nanargmax(d)}'
    if isinstance(a, (electrical_signal, binary_sequence, eye)):
        for k in vars(a):
            if k != 'execution_time' and fingerprint(getattr(a, k)) != fingerprint(getattr(b, k, None)):
                return f'.{k}: ' + describe_diff(getattr(a, k), getattr(b, k, None))
    if isinstance(a, (tuple, list)):
        for i, (x, y) in enumerate(zip(a, b)):
            if fingerprint(x) != fingerprint(y):
                return f'[{i}]: ' + describe_diff(x, y)
    return f'{a!r} vs {b!r}'


def call(case, args, kwargs):
    f = case['f']
    with contextlib.redirect_stdout(io.StringIO()):
        if case.get('timeout'):
            return timed(f, *args, _t=case['timeout'], **kwargs)
        return timed(f, *args, _t=60, **kwargs)


def freeze(objs):
    flags = []
    for a in arrays_of(objs):
        flags.append((a, a.flags.writeable))
        try:
            a.flags.writeable = False
        except ValueError:
            pass
    return flags


def thaw(flags):
    for a, w in flags:
        try:
            a.flags.writeable = w
        except ValueError:
            pass


def purity_check(case, seeds=(0, 1, 4294967295)):
    """one case = (name, f, build() -> (args, kwargs), random?)"""
    name = case['name']
    try:
        args, kwargs = case['build']()
    except Exception as e:
        LOUD[name] = f'build: {type(e).__name__}: {e}'
        return None
    inp = (args, kwargs)
    fp_in0 = fingerprint(inp)
    fp_gv0 = gv_fp()
    np.random.seed(seeds[0])
    try:
        out1 = call(case, args, kwargs)
    except _TO:
        LOUD[name] = 'timeout'
        return None
    except Exception as e:
        LOUD[name] = f'{type(e).__name__}: {e}'
        if gv_fp() != fp_gv0:
            viol('pure.gv-unchanged(after exception)', name)
        if fingerprint(inp) != fp_in0:
            viol('pure.args-unchanged(after exception)', name + ': ' + describe_diff(case['build']()[0], args))
        return None
    if gv_fp() != fp_gv0:
        viol('pure.gv-unchanged', name)
    if fingerprint(inp) != fp_in0:
        viol('pure.args-unchanged', name + ': ' + describe_diff(case['build']()[0], args))
    # aliasing: outputs vs inputs and vs the arrays held by gv
    ins = arrays_of(inp) + arrays_of(dict(vars(gv)))
    for o in arrays_of(out1):
        for i_ in ins:
            if o.size and i_.size and np.may_share_memory(o, i_) and np.shares_memory(o, i_):
                viol('pure.no-alias', f'{name}: an output array shares memory with an input/gv array')
    # and functionally: scribbling over the output leaves the inputs alone, scribbling over the inputs leaves a second output alone
    fp1 = fingerprint(out1)
    # repeat after the same seed
    for s in seeds:
        np.random.seed(s); a = call(case, args, kwargs)
        st_after_a = np.random.get_state()[1][:4].copy(), np.random.get_state()[2]
        np.random.seed(s); b = call(case, args, kwargs)
        if fingerprint(a) != fingerprint(b):
            viol('seed.reproducible', f'{name} seed={s}: ' + describe_diff(a, b))
        if s == seeds[0] and fingerprint(a) != fp1:
            viol('seed.reproducible', f'{name} seed={s} (third call): ' + describe_diff(a, out1))
    if not case.get('random'):
        # deterministic: no seed, different generator position
        np.random.seed(99); np.random.rand(17); d = call(case, args, kwargs)
        if fingerprint(d) != fp1:
            viol('det.history-independent(rng position)', f'{name}: ' + describe_diff(d, out1))
    # read-only inputs
    fl = freeze(inp)
    try:
        np.random.seed(seeds[0]); r = call(case, args, kwargs)
        if fingerprint(r) != fp1:
            viol('pure.readonly-input-same-result', f'{name}: ' + describe_diff(r, out1))
    except Exception as e:
        viol('pure.readonly-input-accepted', f'{name}: {type(e).__name__}: {e}')
    finally:
        thaw(fl)
    # output scribble
    for o in arrays_of(out1):
        if o.flags.writeable and o.size:
            try:
                o[...] = 0 if o.dtype != object else None
            except Exception:
                pass
    if fingerprint(inp) != fp_in0:
        viol('pure.no-alias(write to output changed input)', name)
    if gv_fp() != fp_gv0:
        viol('pure.no-alias(write to output changed gv)', name)
    return fp1


def sigs(kind, n, rng, n_pol=1, noise='none', dtype=float):
    """signal family"""
    shape = (n,) if n_pol == 1 else (2, n)
    if dtype is int:
        s = rng.integers(0, 5, shape).astype(np.int64)
    elif dtype is complex:
        s = rng.normal(size=shape) + 1j * rng.normal(size=shape)
    else:
        s = np.abs(rng.normal(size=shape)) + 0.1
    if noise == 'none':
        nz = None
    elif noise == 'zero':
        nz = np.zeros(shape, dtype=s.dtype)
    else:
        nz = 0.01 * rng.normal(size=shape) if dtype is not complex else 0.01 * (rng.normal(size=shape) + 1j * rng.normal(size=shape))
        if dtype is int:
            nz = rng.integers(0, 2, shape).astype(np.int64)
    if kind == 'e':
        return electrical_signal(s, nz)
    return optical_signal(s, nz)


def ook_wave(nbits, rng, noise=0.02, dup=True):
    bits = rng.integers(0, 2, nbits)
    bits[:8] = [0, 1, 0, 0, 1, 1, 0, 1]
    x = dv.DAC(bits, Vout=1.0, pulse_shape='gaussian')
    if noise:
        x.noise = rng.normal(0, noise, x.len())
    return bits, x


def ppm_wave(nsym, M, rng, noise=0.02):
    bits = rng.integers(0, 2, nsym * int(np.log2(M)))
    slots = ppm.PPM_ENCODER(bits, M)
    x = dv.DAC(slots, Vout=1.0, pulse_shape='gaussian')
    if noise:
        x.noise = rng.normal(0, noise, x.len())
    return bits, slots, x


def build_cases():
    cases = []

    def add(name, f, build, random=False, timeout=None):
        cases.append(dict(name=name, f=f, build=build, random=random, timeout=timeout))

    R = lambda s: np.random.default_rng(s)
    sps = gv.sps

    # PRBS
    for order, ln, seed in [(7, None, None), (7, 1, None), (9, 20, 5), (31, 10, 0), (15, 3, 2 ** 15), (7, 200, 124)]:
        add(f'PRBS({order},{ln},{seed})', dv.PRBS, lambda o=order, l=ln, s=seed: ((o,), dict(len=l, seed=s)))
    add('PRBS(return_seed)', dv.PRBS, lambda: ((7, 10), dict(return_seed=True)))
    # DAC
    for cont in ('str', 'list', 'tuple', 'nd', 'ndbool', 'bs', 'view', 'one'):
        for ps in ('nrz', 'rz', 'rect', 'gaussian', 'NRZ', 'RZ', 'GAUSSIAN'):
            def b(cont=cont, ps=ps):
                bits = [0, 1, 1, 0, 1, 0, 0, 1, 1, 1, 0]
                x = {'str': '01101001110', 'list': bits, 'tuple': tuple(bits), 'nd': np.array(bits), 'ndbool': np.array(bits, bool),
                     'bs': binary_sequence(bits), 'view': np.array(bits * 2)[::2], 'one': np.array([1])}[cont]
                return (x,), dict(pulse_shape=ps, Vout=2, bias=-0.5)
            add(f'DAC[{cont},{ps}]', dv.DAC, b)
    add('DAC[BW]', dv.DAC, lambda: ((binary_sequence('0110100111010'),), dict(BW=gv.R * 0.75)))
    add('DAC[gauss kw]', dv.DAC, lambda: (('0110100',), dict(pulse_shape='gaussian', c=1.5, m=2, T=max(1, gv.sps // 2))))
    add('DAC[None]', dv.DAC, lambda: (('0110100',), dict(Vout=None, bias=None)))
    # LASER
    for n in (1, 2, 3, 64, 129):
        add(f'LASER[n={n}]', dv.LASER, lambda n=n: ((np.arange(n) * gv.dt, 10.0), {}))
        add(f'LASER[n={n},df]', dv.LASER, lambda n=n: ((np.arange(n) * gv.dt, 0), dict(df=gv.fs / 8)))
        add(f'LASER[n={n},lw,rin]', dv.LASER, lambda n=n: ((np.arange(n) * gv.dt, 3.0), dict(lw=1e6, rin=-150, df=-gv.fs / 16)), random=True)
    add('LASER[gv.t]', dv.LASER, lambda: ((gv.t if gv.t is not None else np.arange(32) * gv.dt, 0.0), dict(lw=1e5)), random=True)
    add('LASER[int t]', dv.LASER, lambda: ((np.arange(16), 0.0), {}))
    # optical devices on the signal family
    fam = []
    for n_pol in (1, 2):
        for noise in ('none', 'zero', 'rand'):
            for dt_ in (float, complex, int):
                for n in (1, 2, 3, 31, 64):
                    fam.append((n_pol, noise, dt_, n))
    for (n_pol, noise, dt_, n) in fam:
        tag = f'{n_pol}pol,{noise},{dt_.__name__},n={n}'
        mk = lambda n_pol=n_pol, noise=noise, dt_=dt_, n=n: sigs('o', n, R(n + 7 * n_pol), n_pol, noise, dt_)
        add(f'PM[scalar;{tag}]', dv.PM, lambda mk=mk: ((mk(), 2.5), dict(Vpi=5)))
        add(f'PM[npscalar;{tag}]', dv.PM, lambda mk=mk: ((mk(), np.float64(2.5)), {}))
        add(f'PM[nd;{tag}]', dv.PM, lambda mk=mk, n=n: ((mk(), np.linspace(0, 5, n)), {}))
        add(f'PM[es;{tag}]', dv.PM, lambda mk=mk, n=n: ((mk(), electrical_signal(np.linspace(0, 5, n), np.ones(n))), {}))
        add(f'MZM[scalar;{tag}]', dv.MZM, lambda mk=mk: ((mk(), 1.0), dict(bias=2.5, pol='y')))
        add(f'MZM[nd;{tag}]', dv.MZM, lambda mk=mk, n=n: ((mk(), np.linspace(-2, 2, n)), dict(loss_dB=2, ER_dB=30)))
        add(f'MZM[es;{tag}]', dv.MZM, lambda mk=mk, n=n: ((mk(), electrical_signal(np.linspace(-2, 2, n))), {}))
        add(f'EDFA[{tag}]', dv.EDFA, lambda mk=mk: ((mk(), 20, 5), {}), random=True)
        add(f'DM[{tag}]', dv.DM, lambda mk=mk: ((mk(), 400.0), {}))
        add(f'DM[retH;{tag}]', dv.DM, lambda mk=mk: ((mk(), np.array([400.0])[0]), dict(retH=True)))
        add(f'FIBER[lin;{tag}]', dv.FIBER, lambda mk=mk: ((mk(), 5.0), dict(alpha=0.2, beta_2=-20, beta_3=0.1)), timeout=10)
        if n >= 3 and dt_ is not int:
            add(f'FIBER[nl;{tag}]', dv.FIBER, lambda mk=mk: ((mk() * 0.05, 2.0), dict(alpha=0.2, beta_2=-20, gamma=1.5)), timeout=15)
        for inc in ('all', 'ase-only', 'thermal-only', 'shot-only', 'ASE-Shot', 'thermal-shot', 'ase-thermal'):
            if n in (2, 31) or inc == 'all':
                add(f'PD[{inc};{tag}]', dv.PD, lambda mk=mk, inc=inc: ((mk(), gv.fs / 4), dict(include_noise=inc, r=0.9)), random=(inc != 'ase-only'))
        if n >= 2:
            add(f'BPF[{tag}]', dv.BPF, lambda mk=mk: ((mk(), gv.fs / 4), {}))
            add(f'MZM[BW;{tag}]', dv.MZM, lambda mk=mk: ((mk(), 1.0), dict(BW=gv.fs / 4)))
            add(f'EDFA[BW;{tag}]', dv.EDFA, lambda mk=mk: ((mk(), 10, 4, gv.fs / 4), {}), random=True)
        if n >= 31 and dt_ is not int:
            add(f'FBG[{tag}]', dv.FBG, lambda mk=mk: ((mk(),), dict(fc=gv.f0, vdneff=1e-4, kL=2, print_params=False)), timeout=60)
    add('FBG[apod,retH]', dv.FBG, lambda: ((sigs('o', 64, R(1), 1, 'none', complex),), dict(landa_D=gv.wavelength, dneff=1e-4, N=2000, apodization='gaussian', F=2.0, retH=True, filtfilt=False)), timeout=60)
    # electrical devices
    for noise in ('none', 'zero', 'rand'):
        for dt_ in (float, complex, int):
            for n in (1, 2, 3, 31, 64, 10 * sps):
                tag = f'{noise},{dt_.__name__},n={n}'
                mk = lambda noise=noise, dt_=dt_, n=n: sigs('e', n, R(n), 1, noise, dt_)
                if n >= 2:
                    add(f'LPF[{tag}]', dv.LPF, lambda mk=mk: ((mk(), gv.fs / 5), {}))
                    add(f'LPF[retH,fs;{tag}]', dv.LPF, lambda mk=mk: ((mk(), 1.0), dict(n=2, fs=8.0, retH=True)))
                    if noise == 'none':
                        add(f'LPF[nd;{tag}]', dv.LPF, lambda mk=mk: ((mk().signal, gv.fs / 5), {}))
                        add(f'LPF[view;{tag}]', dv.LPF, lambda mk=mk: ((np.repeat(mk().signal, 2)[::2], gv.fs / 5), {}))
                if dt_ is not complex and n >= 2:
                    add(f'ADC[{tag}]', dv.ADC, lambda mk=mk: ((mk(),), dict(n=3)))
                    add(f'ADC[n;{tag}]', dv.ADC, lambda mk=mk: ((mk(),), dict(n=8, otype='n')))
                    add(f'ADC[fs;{tag}]', dv.ADC, lambda mk=mk: ((mk(), gv.fs / 2), {}))
                    if noise == 'none':
                        add(f'ADC[nd;{tag}]', dv.ADC, lambda mk=mk: ((mk().signal,), {}))
                        add(f'ADC[rev view;{tag}]', dv.ADC, lambda mk=mk: ((mk().signal[::-1],), {}))
                for inst in (0, 1, sps // 2, sps - 1, np.int64(0)):
                    add(f'SAMPLER[{inst};{tag}]', dv.SAMPLER, lambda mk=mk, inst=inst: ((mk(), inst), {}))
    # GET_EYE / DSP
    for nbits, nz in [(32, 0.02), (64, 0.05), (33, 0.02), (64, 0.0)]:
        add(f'GET_EYE[{nbits},{nz}]', dv.GET_EYE, lambda nbits=nbits, nz=nz: ((ook_wave(nbits, R(nbits), nz)[1],), {}), random=True)
        add(f'GET_EYE[resamp;{nbits},{nz}]', dv.GET_EYE, lambda nbits=nbits, nz=nz: ((ook_wave(nbits, R(nbits), nz)[1],), dict(sps_resamp=32, nslots=16)), random=True)
        add(f'GET_EYE[nd;{nbits},{nz}]', dv.GET_EYE, lambda nbits=nbits, nz=nz: ((ook_wave(nbits, R(nbits), 0)[1].signal,), {}), random=True)
        add(f'ook.DSP[{nbits},{nz}]', ook.DSP, lambda nbits=nbits, nz=nz: ((ook_wave(nbits, R(nbits), nz)[1],), {}), random=True)
        add(f'ook.DSP[BW;{nbits},{nz}]', ook.DSP, lambda nbits=nbits, nz=nz: ((ook_wave(nbits, R(nbits), nz)[1], gv.R * 0.9), {}), random=True)
    for M in (2, 4, 8):
        for nsym, nz in [(16, 0.02), (17, 0.05), (32, 0.0)]:
            add(f'ppm.DSP[hard;M={M},{nsym},{nz}]', ppm.DSP, lambda M=M, nsym=nsym, nz=nz: ((ppm_wave(nsym, M, R(nsym), nz)[2], M), {}), random=True)
            add(f'ppm.DSP[HARD thr;M={M},{nsym},{nz}]', ppm.DSP, lambda M=M, nsym=nsym, nz=nz: ((ppm_wave(nsym, M, R(nsym), nz)[2], M, 'HARD', 0.5), {}), random=True)
            add(f'ppm.DSP[soft;M={M},{nsym},{nz}]', ppm.DSP, lambda M=M, nsym=nsym, nz=nz: ((ppm_wave(nsym, M, R(nsym), nz)[2], M), dict(decision='Soft')))
            add(f'ppm.DSP[soft nd;M={M},{nsym}]', ppm.DSP, lambda M=M, nsym=nsym: ((ppm_wave(nsym, M, R(nsym), 0)[2].signal, M, 'soft'), {}))
            add(f'SDD[M={M},{nsym},{nz}]', ppm.SDD, lambda M=M, nsym=nsym, nz=nz: ((ppm_wave(nsym, M, R(nsym), nz)[2], M), {}))
            add(f'SDD[nd;M={M},{nsym}]', ppm.SDD, lambda M=M, nsym=nsym: ((ppm_wave(nsym, M, R(nsym), 0)[2].signal, M), {}))
            add(f'SDD[list;M={M},{nsym}]', ppm.SDD, lambda M=M, nsym=nsym: ((list(ppm_wave(nsym, M, R(nsym), 0)[2].signal), M), {}))
    # codecs
    for M in (2, 4, 8, 16, 256):
        k = int(np.log2(M))
        for cont in ('str', 'list', 'tuple', 'nd', 'ndbool', 'bs', 'view'):
            def conv(bits, cont=cont):
                bits = [int(v) for v in bits]
                return {'str': ''.join(map(str, bits)), 'list': bits, 'tuple': tuple(bits), 'nd': np.array(bits, dtype=np.int64), 'ndbool': np.array(bits, bool),
                        'bs': binary_sequence(bits), 'view': np.repeat(np.array(bits, dtype=np.uint8), 2)[::2]}[cont]
            for nb in (k, 3 * k, 3 * k + 1, 20 * k):
                add(f'PPM_ENCODER[{cont},M={M},{nb}]', ppm.PPM_ENCODER, lambda conv=conv, nb=nb, M=M: ((conv(R(nb).integers(0, 2, nb)), M), {}))
                add(f'PPM_DECODER[{cont},M={M},{nb}]', ppm.PPM_DECODER, lambda conv=conv, nb=nb, M=M: ((conv(ppm.PPM_ENCODER(R(nb).integers(0, 2, nb), M).data), M), {}))
            if M <= 16:
                add(f'HDD[{cont},M={M}]', ppm.HDD, lambda conv=conv, M=M: ((conv(R(M).integers(0, 2, 12 * M)), M), {}), random=True)
                add(f'HDD[clean;{cont},M={M}]', ppm.HDD, lambda conv=conv, M=M: ((conv(ppm.PPM_ENCODER(R(M).integers(0, 2, 24), M).data), M), {}))
                add(f'HDD[zeros;{cont},M={M}]', ppm.HDD, lambda conv=conv, M=M: ((conv(np.zeros(3 * M, int)), M), {}), random=(M > 1))
    # estimators
    def mkeye():
        return eye(mu0=0.1, mu1=1.1, s0=0.1, s1=0.12, threshold=None, execution_time=0)
    add('ook.THRESHOLD_EST', ook.THRESHOLD_EST, lambda: ((mkeye(),), {}))
    add('ook.BER[est]', ook.BER_analizer, lambda: (('estimator',), dict(eye_obj=mkeye())))
    for ct, cr in itertools.product(('bs', 'nd', 'list', 'str'), repeat=2):
        def b(ct=ct, cr=cr):
            tx = [0, 1, 1, 0, 1, 0, 0, 1, 1, 1]; rx = [0, 1, 0, 0, 1, 0, 1, 1]
            cv = lambda v, c_: {'bs': binary_sequence(v), 'nd': np.array(v), 'list': v, 'str': ''.join(map(str, v))}[c_]
            return ('counter',), dict(Tx=cv(tx, ct), Rx=cv(rx, cr))
        add(f'ook.BER[count {ct},{cr}]', ook.BER_analizer, b)
        add(f'ppm.BER[count {ct},{cr}]', ppm.BER_analizer, b)
    for M in (2, 4, 16):
        add(f'ppm.THRESHOLD_EST[M={M}]', ppm.THRESHOLD_EST, lambda M=M: ((mkeye(), M), {}))
        for dec in ('hard', 'soft', 'Hard', 'SOFT'):
            add(f'ppm.BER[est {dec},M={M}]', ppm.BER_analizer, lambda M=M, dec=dec: (('Estimator',), dict(eye_obj=mkeye(), M=M, decision=dec)))
        add(f'ppm.theory_BER[M={M}]', ppm.theory_BER, lambda M=M: ((np.array([1.0, 0.8]), np.array([0.1, 0.1]), np.array([0.1, 0.2]), M, 'hard'), {}))
        add(f'ppm.theory_BER[soft M={M}]', ppm.theory_BER, lambda M=M: ((1.0, 0.1, np.array([0.1, 0.2]), M), {}))
    add('ook.theory_BER', ook.theory_BER, lambda: ((np.array([1.0, 0.8]), np.array([0.1, 0.1]), np.array([0.1, 0.2])), {}))
    # utils that process samples
    xs = lambda: np.abs(R(5).normal(size=40)) + 0.5
    for nm, f, b in [
        ('db', ut.db, lambda: ((xs(),), {})), ('dbm', ut.dbm, lambda: ((xs(),), {})), ('idb', ut.idb, lambda: ((xs(),), {})), ('idbm', ut.idbm, lambda: ((xs(),), {})),
        ('gaus', ut.gaus, lambda: ((xs(), 0.5, 2.0), {})), ('Q', ut.Q, lambda: ((xs(),), {})), ('phase', ut.phase, lambda: ((np.exp(1j * xs() * 5),), {})),
        ('tau_g', ut.tau_g, lambda: ((np.exp(1j * xs() * 5), gv.fs), {})), ('dispersion', ut.dispersion, lambda: ((np.exp(1j * xs() * 5), gv.fs, gv.f0), {})),
        ('rcos', ut.rcos, lambda: ((np.linspace(-1, 1, 41), 0.5, 2), {})), ('rcos[int]', ut.rcos, lambda: ((np.arange(-3, 4), 1, 1), {})),
        ('norm', ut.norm, lambda: ((xs(),), {})), ('nearest', ut.nearest, lambda: ((xs(), 0.7), {})),
        ('shortest_int', ut.shortest_int, lambda: ((xs(), 50), {})), ('shortest_int[1]', ut.shortest_int, lambda: ((xs()[:3], 1), {})),
        ('str2array', ut.str2array, lambda: (('1 0 1 10',), dict(dtype=int))), ('dec2bin', ut.dec2bin, lambda: ((5, 4), {})),
        ('optimum_threshold', ut.optimum_threshold, lambda: ((0.1, 1.0, np.array([0.01, 0.02]), np.array([0.01, 0.03]), 'ook'), {})),
        ('utils.theory_BER', ut.theory_BER, lambda: ((np.array([-30.0, -25.0]), 'ppm'), dict(M=4, decision='hard'))),
        ('noise_variances', ut.noise_variances, lambda: ((np.array([-30.0]), 'ook'), dict(amplify=False))),
    ]:
        add('utils.' + nm, f, b)

    # DSP functions of lab.py
    for nbits, shift, nz in [(16, 0, 0.0), (16, 5, 0.05), (32, 37, 0.02), (8, 63, 0.0)]:
        def bsync(nbits=nbits, shift=shift, nz=nz, nd=False):
            r_ = R(nbits + shift)
            bits = r_.integers(0, 2, nbits); bits[:4] = [1, 0, 1, 1]
            x = np.kron(np.tile(bits, 3), np.ones(gv.sps)) + nz * r_.normal(size=3 * nbits * gv.sps)
            x = np.roll(x, shift)
            return ((x, bits, gv.sps) if nd else (electrical_signal(x), binary_sequence(bits))), {}
        add(f'SYNC[{nbits},{shift},{nz}]', lab.SYNC, bsync)
        add(f'SYNC[nd;{nbits},{shift},{nz}]', lab.SYNC, lambda b=bsync: b(nd=True))
        def beye(nbits=nbits, nz=nz, nd=False):
            r_ = R(nbits)
            bits = r_.integers(0, 2, 2 * nbits); bits[:4] = [1, 0, 1, 1]
            x = np.kron(bits, np.ones(gv.sps)) + (nz + 0.01) * r_.normal(size=2 * nbits * gv.sps)
            return ((x, bits) if nd else (electrical_signal(x, 0 * x), binary_sequence(bits))), {}
        add(f'GET_EYE_v2[{nbits},{nz}]', lab.GET_EYE_v2, beye)
        add(f'GET_EYE_v2[nd;{nbits},{nz}]', lab.GET_EYE_v2, lambda b=beye: b(nd=True))
    # scalar parameters held in numpy arrays (0-d, length-1 view of a longer array): they are arguments too
    def held(v, kind):
        if kind == '0d':
            return np.array(v)
        big = np.array([v, v, v]); return big[1:2] if kind == 'view1' else big[1]
    for kind in ('0d', 'view1', 'elem'):
        o = lambda: sigs('o', 32, R(2), 1, 'rand', complex)
        e_ = lambda: sigs('e', 32, R(2), 1, 'rand', float)
        add(f'param[{kind}] dec2bin', ut.dec2bin, lambda kind=kind: ((held(5, kind), 4), {}))
        add(f'param[{kind}] DM.D', dv.DM, lambda kind=kind: ((o(), held(400.0, kind)), {}))
        add(f'param[{kind}] PM.Vpi', dv.PM, lambda kind=kind: ((o(), 2.0, held(5.0, kind)), {}))
        add(f'param[{kind}] MZM', dv.MZM, lambda kind=kind: ((o(), 1.0), dict(bias=held(2.5, kind), Vpi=held(5.0, kind), loss_dB=held(1.0, kind), ER_dB=held(30.0, kind))))
        add(f'param[{kind}] EDFA', dv.EDFA, lambda kind=kind: ((o(), held(20.0, kind), held(5.0, kind), held(gv.fs / 4, kind)), {}), random=True)
        add(f'param[{kind}] BPF', dv.BPF, lambda kind=kind: ((o(), held(gv.fs / 4, kind)), {}))
        add(f'param[{kind}] LPF', dv.LPF, lambda kind=kind: ((e_(), held(gv.fs / 4, kind)), {}))
        add(f'param[{kind}] PD', dv.PD, lambda kind=kind: ((o(), held(gv.fs / 4, kind)), dict(i_dark=held(1e-8, kind), Fn=held(1.0, kind))), random=True)
        add(f'param[{kind}] LASER', dv.LASER, lambda kind=kind: ((np.arange(16) * gv.dt, held(3.0, kind)), dict(lw=held(1e6, kind), rin=held(-150.0, kind), df=held(1e8, kind))), random=True)
        add(f'param[{kind}] FIBER lin', dv.FIBER, lambda kind=kind: ((o(), held(5.0, kind)), dict(alpha=held(0.2, kind), beta_2=held(-20.0, kind), beta_3=held(0.1, kind))), timeout=10)
        add(f'param[{kind}] FIBER nl', dv.FIBER, lambda kind=kind: ((o() * 0.05, held(2.0, kind)), dict(alpha=held(0.2, kind), beta_2=held(-20.0, kind), gamma=held(1.5, kind), phi_max=held(0.05, kind))), timeout=15)
        add(f'param[{kind}] FIBER short', dv.FIBER, lambda kind=kind: ((o() * 0.001, held(0.5, kind)), dict(beta_2=held(-20.0, kind), gamma=held(1.5, kind))), timeout=15)
        add(f'param[{kind}] ADC', dv.ADC, lambda kind=kind: ((e_(),), dict(n=held(3, kind))))
        add(f'param[{kind}] HDD.M', ppm.HDD, lambda kind=kind: (('0100 0111 0000', held(4, kind)), {}), random=True)
        add(f'param[{kind}] ENC.M', ppm.PPM_ENCODER, lambda kind=kind: (('01111000', held(4, kind)), {}))
        add(f'param[{kind}] DEC.M', ppm.PPM_DECODER, lambda kind=kind: (('0100000100101000', held(4, kind)), {}))
        add(f'param[{kind}] shortest_int', ut.shortest_int, lambda kind=kind: ((np.arange(10.0), held(50.0, kind)), {}))
        add(f'param[{kind}] rcos', ut.rcos, lambda kind=kind: ((np.linspace(-1, 1, 9), held(0.5, kind), held(2.0, kind)), {}))
        add(f'param[{kind}] gaus', ut.gaus, lambda kind=kind: ((np.linspace(-1, 1, 9), held(0.5, kind), held(2.0, kind)), {}))
        add(f'param[{kind}] ook.theory_BER', ook.theory_BER, lambda kind=kind: ((held(1.0, kind), held(0.1, kind), held(0.1, kind)), {}))
    return cases


def device_purity():
    total = 0
    confs = [
        ('default', lambda: gv.clean()),
        ('sps8,N', lambda: (gv.clean(), gv(sps=8, R=1e9, N=32, alpha=0.5, arr=np.arange(4.0)))),
        ('sps5,fs', lambda: (gv.clean(), gv(sps=5, fs=50e9, wavelength=1310e-9))),
    ]
    results = {}
    for cname, setc in confs:
        setc()
        cases = build_cases()
        fps = {}
        for case in cases:
            fp = purity_check(case)
            fps[case['name']] = fp
            total += 1
        # order independence: replay in two other orders, deterministic blocks without reseeding
        for perm_seed in (1, 2):
            order = np.random.default_rng(perm_seed).permutation(len(cases))
            if perm_seed == 2:
                order = np.arange(len(cases))[::-1]
            for i in order:
                case = cases[i]
                if fps[case['name']] is None:
                    continue
                if perm_seed == 2 and (i % 3):
                    continue
                args, kwargs = case['build']()
                if case.get('random'):
                    np.random.seed(0)
                try:
                    o = call(case, args, kwargs)
                except Exception as e:
                    viol('det.order-independent', f"[{cname}] {case['name']}: raised {type(e).__name__} in another order")
                    continue
                if fingerprint(o) != fps[case['name']]:
                    viol('det.order-independent' if not case.get('random') else 'seed.order-independent', f"[{cname}] {case['name']} (order {perm_seed})")
        results[cname] = fps
    gv.clean()
    return total


# ----------------------------------------------------------------------------------------------
# Part 3: relations (layout / container / split invariance) where the statement makes them identities
# ----------------------------------------------------------------------------------------------
def relations():
    gv.clean(); gv(sps=8, R=1e9)
    rng = np.random.default_rng(3)
    n = 64
    base = rng.normal(size=(2, n)) + 1j * rng.normal(size=(2, n))
    nz = 0.01 * (rng.normal(size=(2, n)) + 1j * rng.normal(size=(2, n)))
    variants = {
        'C': (base.copy(), nz.copy()),
        'F': (np.asfortranarray(base), np.asfortranarray(nz)),
        'view': (np.repeat(base, 2, axis=1)[:, ::2], np.repeat(nz, 2, axis=1)[:, ::2]),
        'rev-rev': (base[:, ::-1][:, ::-1], nz[:, ::-1][:, ::-1]),
        'list': (base.tolist(), nz.tolist()),
    }
    devs = {
        'PM': lambda x: dv.PM(x, np.linspace(0, 3, n)),
        'MZM': lambda x: dv.MZM(x, np.linspace(0, 3, n), bias=1.0),
        'BPF': lambda x: dv.BPF(x, gv.fs / 4),
        'EDFA': lambda x: dv.EDFA(x, 15, 5, gv.fs / 3),
        'DM': lambda x: dv.DM(x, 300),
        'FIBER': lambda x: timed(dv.FIBER, x * 0.05, 2.0, alpha=0.2, beta_2=-20, gamma=1.5, _t=15),
        'PD': lambda x: dv.PD(x, gv.fs / 4),
    }
    for dn, f in devs.items():
        ref = None
        for vn, (s, z) in variants.items():
            x = optical_signal(s, z)
            np.random.seed(5)
            o = f(x)
            got = (np.asarray(o.signal), None if o.noise is None else np.asarray(o.noise))
            if ref is None:
                ref = got
            else:
                for a, b in zip(ref, got):
                    if (a is None) != (b is None) or (a is not None and not np.allclose(a, b, rtol=1e-10, atol=1e-13 * (np.abs(a).max() + 1e-300))):
                        viol('rel.layout-invariance', f'{dn}: memory layout {vn} changes the result')
    # two-polarisation call == two one-polarisation calls for the deterministic per-polarisation devices
    for dn in ('PM', 'BPF', 'DM'):
        x2 = optical_signal(base, nz)
        o2 = devs[dn](x2)
        for p in (0, 1):
            o1 = devs[dn](optical_signal(base[p], nz[p]))
            if not np.allclose(o2.signal[p], o1.signal, rtol=1e-10, atol=1e-12):
                viol('rel.2pol=2x1pol', f'{dn} signal pol {p}')
    # noise=0 vs no noise (signal part), deterministic devices
    for dn in ('PM', 'MZM', 'BPF', 'DM', 'FIBER'):
        a = devs[dn](optical_signal(base))
        b = devs[dn](optical_signal(base, np.zeros_like(base)))
        if fingerprint(a.signal) != fingerprint(b.signal):
            viol('rel.noise0=none', f'{dn}: ' + describe_diff(a.signal, b.signal))
    # device output never depends on what the caller later does to the input (aliasing, functional form)
    x = optical_signal(base, nz)
    outs = {dn: (np.random.seed(1), f(x))[1] for dn, f in devs.items()}
    snap = {dn: fingerprint(o) for dn, o in outs.items()}
    x.signal[...] = 0; x.noise[...] = 0
    for dn, o in outs.items():
        if fingerprint(o) != snap[dn]:
            viol('pure.no-alias(write to input changed output)', dn)
    e = electrical_signal(np.abs(base[0]) + 0.0, nz[0].real)
    outs = {'LPF': dv.LPF(e, gv.fs / 4), 'ADC': dv.ADC(e), 'SAMPLER': dv.SAMPLER(e, 3), 'SDD': ppm.SDD(e, 4), 'LPFnd': dv.LPF(e.signal, gv.fs / 4), 'ADCnd': dv.ADC(e.signal, otype='n')}
    snap = {dn: fingerprint(o) for dn, o in outs.items()}
    e.signal[...] = 0; e.noise[...] = 0
    for dn, o in outs.items():
        if fingerprint(o) != snap[dn]:
            viol('pure.no-alias(write to input changed output)', dn)
    b = binary_sequence(rng.integers(0, 2, 24))
    outs = {'ENC': ppm.PPM_ENCODER(b, 4), 'DEC': ppm.PPM_DECODER(ppm.PPM_ENCODER(b, 4), 4), 'HDD': ppm.HDD(ppm.PPM_ENCODER(b, 4), 4), 'DAC': dv.DAC(b)}
    hin = ppm.PPM_ENCODER(b, 4); hout = ppm.HDD(hin, 4); hs = fingerprint(hout); hin.data[...] = 0
    if fingerprint(hout) != hs:
        viol('pure.no-alias(write to input changed output)', 'HDD')
    snap = {dn: fingerprint(o) for dn, o in outs.items()}
    b.data[...] = 0
    for dn, o in outs.items():
        if fingerprint(o) != snap[dn]:
            viol('pure.no-alias(write to input changed output)', dn)

    # an argument left at its documented default == the default written out == given by keyword
    gv.clean(); gv(sps=8, R=1e9)
    xo = lambda: optical_signal(base, nz); xe = lambda: electrical_signal(np.abs(base[0]), nz[0].real)
    pairs = {
        'PD': (lambda: dv.PD(xo(), 2e9), lambda: dv.PD(xo(), 2e9, 1.0, 300.0, 50.0, 'all', 10e-9, 0), lambda: dv.PD(input=xo(), BW=2e9, r=1.0, T=300.0, R_load=50.0, include_noise='all', i_dark=10e-9, Fn=0)),
        'LPF': (lambda: dv.LPF(xe(), 2e9), lambda: dv.LPF(xe(), 2e9, 4, gv.fs, False), lambda: dv.LPF(input=xe(), BW=2e9, n=4, fs=gv.fs)),
        'BPF': (lambda: dv.BPF(xo(), 2e9), lambda: dv.BPF(xo(), 2e9, 4), lambda: dv.BPF(input=xo(), BW=2e9, n=4)),
        'MZM': (lambda: dv.MZM(xo(), 1.0), lambda: dv.MZM(xo(), 1.0, 0.0, 5.0, 0.0, 26.0, 'x', None), lambda: dv.MZM(op_input=xo(), el_input=1.0, bias=0.0, Vpi=5.0, loss_dB=0.0, ER_dB=26.0, pol='x', BW=None)),
        'PM': (lambda: dv.PM(xo(), 1.0), lambda: dv.PM(xo(), 1.0, 5.0), lambda: dv.PM(op_input=xo(), el_input=1.0, Vpi=5.0)),
        'EDFA': (lambda: dv.EDFA(xo(), 10, 5), lambda: dv.EDFA(xo(), 10, 5, None), lambda: dv.EDFA(input=xo(), G=10, NF=5, BW=None)),
        'DAC': (lambda: dv.DAC('0110'), lambda: dv.DAC('0110', 0.0, 1.0, 'nrz', None), lambda: dv.DAC(input='0110', bias=0.0, Vout=1.0, pulse_shape='nrz', BW=None)),
        'DACg': (lambda: dv.DAC('0110', pulse_shape='gaussian'), lambda: dv.DAC('0110', 0.0, 1.0, 'gaussian', None, c=0.0, m=1, T=gv.sps), lambda: dv.DAC('0110', pulse_shape='gaussian', T=gv.sps)),
        'ADC': (lambda: dv.ADC(xe()), lambda: dv.ADC(xe(), None, 8, 'v'), lambda: dv.ADC(input=xe(), fs=None, n=8, otype='v')),
        'FIBER': (lambda: timed(dv.FIBER, xo(), 3.0, _t=10), lambda: timed(dv.FIBER, xo(), 3.0, 0.0, 0.0, 0.0, 0.0, 0.05, False, _t=10), lambda: timed(dv.FIBER, input=xo(), length=3.0, alpha=0.0, beta_2=0.0, beta_3=0.0, gamma=0.0, _t=10)),
        'DM': (lambda: dv.DM(xo(), 100), lambda: dv.DM(xo(), 100, False), lambda: dv.DM(input=xo(), D=100, retH=False)),
        'PRBS': (lambda: dv.PRBS(7), lambda: dv.PRBS(7, 127, 127, False), lambda: dv.PRBS(order=7, len=None, seed=None)),
        'LASER': (lambda: dv.LASER(np.arange(8) * gv.dt, 0), lambda: dv.LASER(np.arange(8) * gv.dt, 0, None, None, None), lambda: dv.LASER(t=np.arange(8) * gv.dt, p=0)),
        'ppm.DSP': (lambda: ppm.DSP(ppm_wave(16, 4, np.random.default_rng(1))[2], 4), lambda: ppm.DSP(ppm_wave(16, 4, np.random.default_rng(1))[2], 4, 'hard', None), lambda: ppm.DSP(input=ppm_wave(16, 4, np.random.default_rng(1))[2], M=4, decision='hard')),
        'ook.DSP': (lambda: ook.DSP(ook_wave(32, np.random.default_rng(1))[1]), lambda: ook.DSP(ook_wave(32, np.random.default_rng(1))[1], None), lambda: ook.DSP(input=ook_wave(32, np.random.default_rng(1))[1], BW=None)),
        'GET_EYE': (lambda: dv.GET_EYE(ook_wave(32, np.random.default_rng(1))[1]), lambda: dv.GET_EYE(ook_wave(32, np.random.default_rng(1))[1], 4096, None), lambda: dv.GET_EYE(input=ook_wave(32, np.random.default_rng(1))[1], nslots=4096)),
    }
    for nm, fs_ in pairs.items():
        fps_ = []
        for f in fs_:
            np.random.seed(11)
            with contextlib.redirect_stdout(io.StringIO()):
                fps_.append(fingerprint(f()))
        if len(set(fps_)) != 1:
            viol('rel.default=explicit=keyword', nm)
    gv.clean()
    gv.clean(); gv(sps=8, R=1e9)
    # a gv that changed between two calls is honoured by the second call (result depends on the *current* gv only):
    # f under conf A, then conf B, then conf A again gives the first result
    def under(conf):
        gv.clean(); gv(**conf)
        np.random.seed(3)
        x = dv.DAC('0110100111010010', pulse_shape='gaussian')
        l = dv.LASER(np.arange(x.len()) * gv.dt, 3.0, lw=1e6)
        y = dv.PD(dv.EDFA(dv.MZM(l, x, bias=2.5), 10, 5, gv.fs / 4), gv.R)
        return fingerprint((x, l, y, dv.SAMPLER(y, 1), ppm.SDD(y, 2), dv.LPF(y, gv.R / 2)))
    A = dict(sps=8, R=1e9); B = dict(sps=16, R=2.5e9, wavelength=1310e-9, N=16)
    a1 = under(A); b1 = under(B); a2 = under(A); b2 = under(B)
    if a1 != a2 or b1 != b2:
        viol('det.depends-on-current-gv-only', 'chain result under gv A differs after a detour through gv B')
    if a1 == b1:
        viol('sanity', 'gv had no effect on the chain')
    gv.clean()


if __name__ == '__main__':
    n1 = gv_histories()
    print(f'# gv histories checked: {n1}', flush=True)
    n2 = device_purity()
    print(f'# device/codec/DSP cases checked: {n2} (x3 gv configurations incl.)', flush=True)
    relations()
    print('# relations checked', flush=True)
    if LOUD:
        kinds = {}
        for k, v in LOUD.items():
            kinds.setdefault(v.split(':')[0] + ':' + v.split(':', 1)[-1][:70], []).append(k)
        print(f'# {len(LOUD)} cases raised (not purity violations by themselves):')
        for k, v in kinds.items():
            print('#   ', k, '<-', len(v), 'cases e.g.', v[0])
    if VIOL:
        print(f'{len(VIOL)} violation lines')
        sys.exit(1)
    print('PASS')
    sys.exit(0)
