import sys
if sys.path and sys.path[0] not in ('', None): del sys.path[0]
import numpy as np
from opticomlib import dec2bin          # public integer -> bits codec primitive (PPM_DECODER is built on it)

symbols = np.array([5, 3, 6])           # decimal PPM symbols held in an array, shared between calls
n = symbols[0:1]                        # the first symbol (a length-1 view; np.array(5) behaves the same)
first = dec2bin(n, 4)
second = dec2bin(n, 4)                  # deterministic block, same argument
print('expected: symbols stay [5 3 6] and both calls give [0 1 0 1]')
print('got     : symbols =', symbols, ' first =', first, ' second =', second)
bad = (not np.array_equal(symbols, [5, 3, 6])) or (not np.array_equal(first, second))
sys.exit(1 if bad else 0)
