"""Audit of property C15: binary_sequence is a closed, immutable-by-operation algebra over {0,1}.

Prints one line per violated (clause, input); exit 1 if any, PASS / exit 0 otherwise.
"""
import sys, os
_here = os.path.dirname(os.path.abspath(__file__))
if sys.path and os.path.abspath(sys.path[0] or '.') == _here:
    del sys.path[0]

import itertools, warnings
import numpy as np

warnings.simplefilter('ignore')

from opticomlib.typing import binary_sequence as B, electrical_signal as E

VIOL = []
SEEN = set()
MAXPER = 8  # lines printed per clause


def bad(clause, inp, msg):
    VIOL.append((clause, inp, msg))
    n = sum(1 for v in VIOL if v[0] == clause)
    if n <= MAXPER:
        print(f'VIOLATION {clause}: input={inp} :: {msg}')
    elif n == MAXPER + 1:
        print(f'VIOLATION {clause}: ... (further lines for this clause suppressed)')


def valid(obj):
    """a valid sequence: binary_sequence whose data is a 1-D uint8 ndarray of 0/1"""
    return (isinstance(obj, B) and isinstance(obj.data, np.ndarray) and obj.data.ndim == 1
            and obj.data.dtype == np.uint8 and bool(np.all((obj.data == 0) | (obj.data == 1))))


def bits_of(obj):
    return [int(v) for v in obj.data]


def all_bitlists(maxlen, minlen=0):
    for n in range(minlen, maxlen + 1):
        for t in itertools.product((0, 1), repeat=n):
            yield list(t)


def s_of(bits):
    return ''.join(map(str, bits))


rng = np.random.default_rng(15)

# ---------------------------------------------------------------------------------------------
# containers: every accepted form of the same bits
# ---------------------------------------------------------------------------------------------

def ro(arr):
    arr = np.array(arr)
    arr.setflags(write=False)
    return arr


def strided(bits, dtype=np.int64):
    big = np.zeros(2 * len(bits) + 1, dtype=dtype)
    big[1::2] = bits
    return big[1::2]


def fview(bits):
    m = np.asfortranarray(np.array([bits, bits], dtype=np.int64).T)  # (n,2) Fortran
    return m[:, 0]


CONTAINERS = {
    'list': lambda b: list(b),
    'tuple': lambda b: tuple(b),
    'list_bool': lambda b: [bool(v) for v in b],
    'list_float': lambda b: [float(v) for v in b],
    'list_npint': lambda b: [np.int64(v) for v in b],
    'arr_int64': lambda b: np.array(b, dtype=np.int64),
    'arr_uint8': lambda b: np.array(b, dtype=np.uint8),
    'arr_int8': lambda b: np.array(b, dtype=np.int8),
    'arr_bool': lambda b: np.array(b, dtype=bool),
    'arr_float64': lambda b: np.array(b, dtype=np.float64),
    'arr_float32': lambda b: np.array(b, dtype=np.float32),
    'arr_complex': lambda b: np.array(b, dtype=np.complex128),
    'arr_object': lambda b: np.array(b, dtype=object),
    'arr_readonly': lambda b: ro(np.array(b, dtype=np.int64)),
    'arr_strided': lambda b: strided(b),
    'arr_reversed_view': lambda b: np.array(b[::-1], dtype=np.int64)[::-1],
    'arr_fortran_col': lambda b: fview(b),
}
# string forms need at least one character (the empty string is a known exclusion)
STR_CONTAINERS = {
    'str': lambda b: s_of(b),
    'str_spaces': lambda b: ' '.join(map(str, b)),
    'str_commas': lambda b: ','.join(map(str, b)),
    'str_comma_space': lambda b: ', '.join(map(str, b)),
    'str_padded': lambda b: ' ' + s_of(b) + ' ',
    'str_groups': lambda b: ' '.join(s_of(b)[i:i + 4] for i in range(0, len(b), 4)),
    'np_str': lambda b: np.str_(s_of(b)),
}


def forms(bits):
    for k, f in CONTAINERS.items():
        yield k, f(bits)
    if len(bits) > 0:
        for k, f in STR_CONTAINERS.items():
            yield k, f(bits)


def snapshot(x):
    if isinstance(x, np.ndarray):
        return ('arr', x.dtype, x.shape, x.tolist())
    if isinstance(x, B):
        return ('B', x.data.dtype, x.data.shape, x.data.tolist())
    if isinstance(x, E):
        return ('E', x.signal.tolist(), None if x.noise is None else x.noise.tolist())
    return ('py', type(x), x if isinstance(x, str) else list(x) if hasattr(x, '__iter__') else x)


def same_snapshot(a, b):
    return repr(a) == repr(b)


# ---------------------------------------------------------------------------------------------
# C15.1 construction from every container form; stored data 1-D uint8
# ---------------------------------------------------------------------------------------------

def check_construct(bits):
    for name, c in forms(bits):
        before = snapshot(c)
        try:
            a = B(c)
        except Exception as e:
            bad('C15.1-construct', f'{name}:{s_of(bits)!r}', f'expected sequence {bits}, raised {type(e).__name__}: {e}')
            continue
        if not valid(a):
            bad('C15.1-construct', f'{name}:{s_of(bits)!r}', f'not a valid 1-D uint8 0/1 array: dtype={a.data.dtype} shape={a.data.shape}')
        elif bits_of(a) != bits:
            bad('C15.1-construct', f'{name}:{s_of(bits)!r}', f'expected {bits}, got {bits_of(a)}')
        if len(a) != len(bits) or a.len() != len(bits):
            bad('C15.1-construct', f'{name}:{s_of(bits)!r}', f'len {len(a)}/{a.len()} != {len(bits)}')
        if not same_snapshot(before, snapshot(c)):
            bad('C15.1-construct', f'{name}:{s_of(bits)!r}', 'constructor modified its argument')
        if isinstance(c, np.ndarray) and np.shares_memory(a.data, c):
            bad('C15.1-construct', f'{name}:{s_of(bits)!r}', 'stored data shares memory with the argument')


def check_scalars():
    scal = {
        '0': 0, '1': 1, 'True': True, 'False': False, '0.0': 0.0, '1.0': 1.0, '-0.0': -0.0,
        'np.int64(1)': np.int64(1), 'np.uint8(0)': np.uint8(0), 'np.bool_(True)': np.bool_(True),
        'np.float64(1)': np.float64(1), 'np.float32(0)': np.float32(0), 'np.array(1)': np.array(1),
        'np.array(0.)': np.array(0.), 'np.array(True)': np.array(True), "'1'": '1', "'0'": '0',
        '1+0j': 1 + 0j,
    }
    for name, v in scal.items():
        exp = [int(bool(v))] if not isinstance(v, str) else [int(v)]
        try:
            a = B(v)
        except Exception as e:
            bad('C15.1-scalar', name, f'expected {exp}, raised {type(e).__name__}: {e}')
            continue
        if not valid(a) or bits_of(a) != exp:
            bad('C15.1-scalar', name, f'expected {exp}, got {a.data!r}')


# ---------------------------------------------------------------------------------------------
# C15.2 anything else raises ValueError / TypeError
# ---------------------------------------------------------------------------------------------

def check_reject():
    badin = {
        "'2'": '2', "'012'": '012', "'1 0 2'": '1 0 2', "'abc'": 'abc', "'1a'": '1a', "'0.5'": '0.5', "'-1'": '-1',
        "'1;0'": '1;0', "'10;01'": '10;01', "'1+1j'": '1+1j', "'1e0'": '1e0', "';'": ';', "'1;'": '1;',
        '[2]': [2], '[0,1,2]': [0, 1, 2], '[-1]': [-1], '[0.5]': [0.5], '[1.0000001]': [1.0000001], '[1e-300]': [1e-300],
        '[255]': [255], '[256]': [256], '[257]': [257], '[2**64]': [2 ** 64], '[1j]': [1j], '[1+1j]': [1 + 1j],
        '2': 2, '-1': -1, '0.5': 0.5, '256': 256, '257': 257, '1j': 1j, 'np.int64(2)': np.int64(2), 'np.uint8(255)': np.uint8(255),
        '[[1,0],[0,1]]': [[1, 0], [0, 1]], '[[1,0]]': [[1, 0]], '[[1]]': [[1]], '[[]]': [[]], 'arr2d': np.eye(2, dtype=int),
        'arr(1,1,1)': np.ones((1, 1, 1)), 'ragged': [[1, 0], [1]],
        'None': None, '[None]': [None], "['1','0']": ['1', '0'], "['a']": ['a'], "b'10'": b'10', 'set': {0, 1}, 'dict': {0: 1},
        'object()': object(), 'gen': (v for v in [1, 0]), '[[1,0],2]': [[1, 0], 2],
        'uint8 wrap 256->0': np.array([256, 1]), 'int8 -1': np.array([-1], dtype=np.int8), 'float inf': [np.inf], 'arr 2': np.array([2]),
        'arr float 0.999': np.array([0.999]), '[1, 0, 3.0]': [1, 0, 3.0], '(0,1,2)': (0, 1, 2),
    }
    for name, v in badin.items():
        try:
            a = B(v)
        except (ValueError, TypeError):
            continue
        except BaseException as e:
            bad('C15.2-reject', name, f'expected ValueError/TypeError, raised {type(e).__name__}: {e}')
            continue
        bad('C15.2-reject', name, f'expected ValueError/TypeError, got {a!r}')
    # same for the right/left operand of +
    a = B('101')
    for name, v in badin.items():
        if name == 'gen':
            v = (q for q in [1, 0])
        for order in ('a+v', 'v+a'):
            try:
                r = a + v if order == 'a+v' else v + a
            except (ValueError, TypeError):
                continue
            except BaseException as e:
                bad('C15.2-reject+', f'{order} v={name}', f'expected ValueError/TypeError, raised {type(e).__name__}: {e}')
                continue
            if not valid(r):
                bad('C15.2-reject+', f'{order} v={name}', f'returned an invalid object {r!r}')
            else:
                bad('C15.2-reject+', f'{order} v={name}', f'expected ValueError/TypeError, got {r!r}')
        if bits_of(a) != [1, 0, 1]:
            bad('C15.2-reject+', name, 'operand changed by failed concatenation')
            a = B('101')


# ---------------------------------------------------------------------------------------------
# C15.3 concatenation
# ---------------------------------------------------------------------------------------------

def check_concat(abits, bbits, containers=True):
    a = B(abits)
    b = B(bbits)
    tag = f'a={s_of(abits)!r} b={s_of(bbits)!r}'
    others = [('binary_sequence', b)]
    if containers:
        others += list(forms(bbits))
    for name, o in others:
        before_o = snapshot(o)
        for order in ('a+o', 'o+a'):
            exp = abits + bbits if order == 'a+o' else bbits + abits
            try:
                r = a + o if order == 'a+o' else o + a
            except Exception as e:
                bad('C15.3-concat', f'{order} {tag} o={name}', f'expected {exp}, raised {type(e).__name__}: {e}')
                continue
            if not valid(r):
                bad('C15.3-concat', f'{order} {tag} o={name}', f'result not valid: {r!r} dtype={getattr(getattr(r, "data", None), "dtype", None)}')
                continue
            if len(r) != len(abits) + len(bbits):
                bad('C15.3-len', f'{order} {tag} o={name}', f'len {len(r)} != {len(abits)}+{len(bbits)}')
            if bits_of(r) != exp:
                bad('C15.3-concat', f'{order} {tag} o={name}', f'expected {exp}, got {bits_of(r)}')
            # (a+b)[:len(a)] == a  through the library's own == and slicing
            first, second = (a, o) if order == 'a+o' else (o, a)
            try:
                nfirst = len(abits) if order == 'a+o' else len(bbits)
                pre = r[:nfirst]
                post = r[nfirst:]
                ok1 = (pre == first) if isinstance(first, B) else (pre == B(first))
                ok2 = (post == second) if isinstance(second, B) else (post == B(second))
                if ok1 is not True and ok1 is not np.True_ or not ok1:
                    bad('C15.3-prefix', f'{order} {tag} o={name}', f'(x+y)[:len(x)] == x gave {ok1!r}')
                if not ok2:
                    bad('C15.3-suffix', f'{order} {tag} o={name}', f'(x+y)[len(x):] == y gave {ok2!r}')
            except Exception as e:
                bad('C15.3-prefix', f'{order} {tag} o={name}', f'raised {type(e).__name__}: {e}')
            if bits_of(a) != abits or a.data.dtype != np.uint8:
                bad('C15.3-operands', f'{order} {tag} o={name}', f'left operand changed to {a.data!r}')
                a = B(abits)
            if not same_snapshot(before_o, snapshot(o)):
                bad('C15.3-operands', f'{order} {tag} o={name}', 'other operand changed')
            if np.shares_memory(r.data, a.data) or (isinstance(o, np.ndarray) and np.shares_memory(r.data, o)) or (isinstance(o, B) and np.shares_memory(r.data, o.data)):
                bad('C15.3-operands', f'{order} {tag} o={name}', 'result shares memory with an operand')


# ---------------------------------------------------------------------------------------------
# C15.4 inversion, C15.6 ones/zeros
# ---------------------------------------------------------------------------------------------

def check_invert_counts(bits):
    a = B(bits)
    tag = s_of(bits)
    try:
        na = ~a
        nna = ~na
    except Exception as e:
        bad('C15.4-invert', repr(tag), f'raised {type(e).__name__}: {e}')
        return
    if not valid(na) or bits_of(na) != [1 - v for v in bits]:
        bad('C15.4-invert', repr(tag), f'~a = {na!r}')
    if not valid(nna) or not (nna == a) or bits_of(nna) != bits:
        bad('C15.4-involution', repr(tag), f'~~a = {nna!r}')
    if bits_of(a) != bits or a.data.dtype != np.uint8:
        bad('C15.4-operand', repr(tag), f'a changed by ~ to {a.data!r}')
    if np.shares_memory(na.data, a.data):
        bad('C15.4-operand', repr(tag), '~a shares memory with a')
    o, z, n = a.ones(), a.zeros(), a.len()
    if not (o + z == n) or not (o + z == len(a)):
        bad('C15.6-ones+zeros', repr(tag), f'ones={o!r} zeros={z!r} len={n!r}')
    if o != sum(bits) or z != len(bits) - sum(bits):
        bad('C15.6-counts', repr(tag), f'ones={o!r} zeros={z!r} expected {sum(bits)}, {len(bits) - sum(bits)}')
    if not (na.ones() == a.zeros()) or not (na.zeros() == a.ones()):
        bad('C15.6-ones(~a)==zeros(a)', repr(tag), f'ones(~a)={na.ones()!r} zeros(a)={a.zeros()!r}')
    if o < 0 or z < 0:
        bad('C15.6-counts', repr(tag), f'negative count ones={o!r} zeros={z!r}')


# ---------------------------------------------------------------------------------------------
# C15.5 indexing and slicing
# ---------------------------------------------------------------------------------------------

def all_slices(n, steps=(None, 1, 2, 3, -1, -2, -3)):
    rngv = [None] + list(range(-n - 2, n + 3))
    for st in steps:
        for a in rngv:
            for b in rngv:
                yield slice(a, b, st)


def check_slices(bits, slices):
    a = B(bits)
    tag = s_of(bits)
    for s in slices:
        exp = bits[s]
        try:
            r = a[s]
        except Exception as e:
            bad('C15.5-slice', f'{tag!r}[{s}]', f'expected {exp}, raised {type(e).__name__}: {e}')
            continue
        if not valid(r) or bits_of(r) != exp:
            bad('C15.5-slice', f'{tag!r}[{s}]', f'expected {exp}, got {r!r}')
        elif np.shares_memory(r.data, a.data):
            bad('C15.5-slice', f'{tag!r}[{s}]', 'slice shares memory with the sequence')
    if bits_of(a) != bits:
        bad('C15.5-operand', repr(tag), 'a changed by slicing')
    # slices with numpy integer bounds
    n = len(bits)
    for s in (slice(np.int64(0), np.int64(n)), slice(np.int64(1), None, np.int64(2)), slice(None, np.int32(-1)), slice(np.uint8(0), np.uint8(min(n, 3)))):
        exp = bits[slice(*(None if v is None else int(v) for v in (s.start, s.stop, s.step)))]
        try:
            r = a[s]
            if not valid(r) or bits_of(r) != exp:
                bad('C15.5-slice', f'{tag!r}[{s}]', f'expected {exp}, got {r!r}')
        except Exception as e:
            bad('C15.5-slice', f'{tag!r}[{s}]', f'expected {exp}, raised {type(e).__name__}: {e}')
    # integer indexing: every position, from both ends, python and numpy integers
    for k in range(-n, n):
        for kk in (k, np.int64(k), np.int32(k), np.intp(k)) + ((np.uint8(k),) if 0 <= k < 256 else ()):
            try:
                r = a[kk]
            except Exception as e:
                bad('C15.5-index', f'{tag!r}[{kk!r}]', f'raised {type(e).__name__}: {e}')
                continue
            if not valid(r) or bits_of(r) != [bits[k]]:
                bad('C15.5-index', f'{tag!r}[{kk!r}]', f'expected [{bits[k]}], got {r!r}')
    for k in (n, -n - 1, n + 5):
        try:
            r = a[k]
            bad('C15.5-index', f'{tag!r}[{k}]', f'out-of-range index returned {r!r}')
        except IndexError:
            pass
        except Exception as e:
            bad('C15.5-index', f'{tag!r}[{k}]', f'out-of-range index raised {type(e).__name__}')


# ---------------------------------------------------------------------------------------------
# C15.7 random expressions of +, ~, slicing against a list model
# ---------------------------------------------------------------------------------------------

def rand_bits(r, maxlen):
    n = int(r.integers(0, maxlen + 1))
    return [int(v) for v in r.integers(0, 2, n)]


def rand_slice(r, n):
    def bnd():
        return None if r.random() < 0.25 else int(r.integers(-n - 2, n + 3))
    st = [None, 1, 2, 3, -1, -2, -3][int(r.integers(0, 7))]
    return slice(bnd(), bnd(), st)


def build(r, depth, leaves):
    """returns (lib_value, model_list, text)"""
    if depth == 0 or r.random() < 0.2:
        bits = rand_bits(r, 6)
        kind = int(r.integers(0, 4))
        a = B(bits)
        leaves.append((a, list(bits)))
        return a, list(bits), f"B('{s_of(bits)}')"
    op = int(r.integers(0, 4))
    if op == 0:
        x, mx, tx = build(r, depth - 1, leaves)
        y, my, ty = build(r, depth - 1, leaves)
        return x + y, mx + my, f'({tx}+{ty})'
    if op == 1:
        x, mx, tx = build(r, depth - 1, leaves)
        return ~x, [1 - v for v in mx], f'~{tx}'
    if op == 2:
        x, mx, tx = build(r, depth - 1, leaves)
        s = rand_slice(r, len(mx))
        return x[s], mx[s], f'{tx}[{s.start}:{s.stop}:{s.step}]'
    # + with a raw container on either side
    x, mx, tx = build(r, depth - 1, leaves)
    bits = rand_bits(r, 5)
    names = list(CONTAINERS) + (list(STR_CONTAINERS) if bits else [])
    nm = names[int(r.integers(0, len(names)))]
    c = (CONTAINERS.get(nm) or STR_CONTAINERS.get(nm))(bits)
    if r.random() < 0.5:
        return x + c, mx + bits, f'({tx}+{nm}{bits})'
    return c + x, bits + mx, f'({nm}{bits}+{tx})'


def check_expressions(n_expr, seed):
    r = np.random.default_rng(seed)
    for i in range(n_expr):
        leaves = []
        try:
            v, m, t = build(r, int(r.integers(1, 6)), leaves)
        except Exception as e:
            bad('C15.7-expr', f'seed={seed} i={i}', f'raised {type(e).__name__}: {e}')
            continue
        if not valid(v) or bits_of(v) != m:
            bad('C15.7-expr', t, f'expected {m}, got {v!r}')
        for a, bits in leaves:
            if not valid(a) or bits_of(a) != bits:
                bad('C15.7-operands', t, f'leaf {bits} changed to {a!r}')
            if a is not v and np.shares_memory(a.data, v.data):
                bad('C15.7-operands', t, 'result shares memory with a leaf')


# ---------------------------------------------------------------------------------------------
# C15.8 threshold comparison of electrical_signal
# ---------------------------------------------------------------------------------------------

def thr_forms_scalar(t):
    out = {
        'float': float(t), 'np.float64': np.float64(t), 'arr0d': np.array(float(t)), 'list1': [float(t)], 'tuple1': (float(t),),
        'arr1': np.array([float(t)]), 'E1': E(float(t)), 'E1_noise0': E(float(t), 0.0), 'arr1_ro': ro([float(t)]),
        'arr1_complex': np.array([complex(t)]), 'complex': complex(t),
    }
    if float(t).is_integer() and abs(t) < 2 ** 62:
        out.update({'int': int(t), 'np.int64': np.int64(int(t)), 'arr1_int': np.array([int(t)]), 'str': str(int(t)) if int(t) > 1 else None})
        if int(t) in (0, 1):
            out['bool'] = bool(t)
    return {k: v for k, v in out.items() if v is not None}


def thr_forms_array(tarr):
    tarr = np.asarray(tarr, dtype=float)
    out = {
        'list': tarr.tolist(), 'tuple': tuple(tarr.tolist()), 'arr': tarr.copy(), 'arr_ro': ro(tarr), 'arr_strided': strided(tarr, float),
        'E': E(tarr), 'E_noise0': E(tarr, np.zeros_like(tarr)), 'arr_complex': tarr.astype(complex),
    }
    if np.all(tarr == np.round(tarr)):
        out['arr_int64'] = tarr.astype(np.int64)
    return out


def cmp_check(clause, tag, x, thr, exp_gt, exp_lt, n, reflect=False):
    for opname, exp in (('>', exp_gt), ('<', exp_lt)):
        try:
            if not reflect:
                r = (x > thr) if opname == '>' else (x < thr)
            else:  # thr on the left: python swaps the operator
                r = (thr < x) if opname == '>' else (thr > x)
        except Exception as e:
            bad(clause, f'{tag} op={opname} reflect={reflect}', f'raised {type(e).__name__}: {e}')
            continue
        if not valid(r):
            bad(clause, f'{tag} op={opname} reflect={reflect}', f'not a valid binary_sequence: {r!r}')
            continue
        if len(r) != n:
            bad(clause + '-len', f'{tag} op={opname} reflect={reflect}', f'length {len(r)} != {n}')
            continue
        if exp is not None and bits_of(r) != [int(v) for v in exp]:
            bad(clause, f'{tag} op={opname} reflect={reflect}', f'expected {[int(v) for v in exp]}, got {bits_of(r)}')


def sig_forms(sig, noise):
    """the same non-negative real samples in several containers / dtypes / layouts"""
    sig = np.asarray(sig)
    out = {}
    nz = None if noise is None else np.asarray(noise)
    out['arr'] = (sig.copy(), None if nz is None else nz.copy())
    out['list'] = (sig.tolist(), None if nz is None else nz.tolist())
    out['tuple'] = (tuple(sig.tolist()), None if nz is None else tuple(nz.tolist()))
    out['readonly'] = (ro(sig), None if nz is None else ro(nz))
    out['strided'] = (strided(sig, sig.dtype), None if nz is None else strided(nz, nz.dtype))
    out['complex128'] = (sig.astype(complex), None if nz is None else nz.astype(complex))
    return out


def check_compare(seed):
    r = np.random.default_rng(seed)
    # ---- systematic corner signals: non-negative real, noise absent / zero / non-negative
    grids = [np.array([0.0]), np.array([1.0]), np.array([0.0, 1.0]), np.array([0.5, 0.5, 0.5]),
             np.array([0.0, 0.25, 0.5, 0.75, 1.0]), np.array([0, 1, 2, 3, 4, 5, 6], dtype=np.int64),
             np.array([1e-300, 1e300, 0.0, np.inf]), np.array([2 ** 53, 2 ** 53 + 1, 2 ** 62], dtype=np.int64)]
    for n in (1, 2, 3, 7, 64, 1001):
        grids.append(r.random(n))
        grids.append(r.integers(0, 5, n).astype(np.int64))
    for sig in grids:
        n = sig.size
        noises = [None, np.zeros(n, dtype=sig.dtype)]
        if np.all(np.isfinite(sig.astype(float))) and sig.dtype != np.int64:
            noises.append(r.random(n) * 0.3)
        elif sig.dtype == np.int64 and sig.max() < 100:
            noises.append(r.integers(0, 3, n).astype(np.int64))
            noises.append(r.random(n))
        for noise in noises:
            z = sig if noise is None else sig + noise
            # scalar thresholds: every sample value (exact equality at the boundary), 0, midpoints, above the maximum
            zf = z[np.isfinite(z.astype(float))]
            cand = sorted(set([0.0, 0.5, 1.0, 2.0] + [float(v) for v in zf[:8]] + [float(zf.max()) + 1 if zf.size else 1.0]))
            for t in cand:
                if not np.isfinite(t):
                    continue
                for sname, (s_c, n_c) in sig_forms(sig, noise).items():
                    try:
                        x = E(s_c) if n_c is None else E(s_c, n_c)
                    except Exception as e:
                        bad('C15.8-cmp', f'sig={sname}{sig[:6]} noise={None if noise is None else noise[:6]}', f'constructor raised {type(e).__name__}: {e}')
                        continue
                    for tname, tv in thr_forms_scalar(t).items():
                        if tname == 'str':
                            continue
                        # exact reference: compare z with the float threshold (ints above 2**53 are compared as numpy does)
                        tref = np.asarray(tv.signal if isinstance(tv, E) else tv)
                        tref = tref.real if np.iscomplexobj(tref) else tref
                        zz = x.signal.real if x.noise is None else (x.signal + x.noise).real  # the samples as stored (complex128 rounds ints above 2**53)
                        exp_gt, exp_lt = zz > tref, zz < tref
                        tag = f'sig[{sname},{sig.dtype}]={sig[:6].tolist()} noise={None if noise is None else noise[:6].tolist()} thr[{tname}]={t!r}'
                        cmp_check('C15.8-cmp-scalar', tag, x, tv, np.broadcast_to(exp_gt, (n,)), np.broadcast_to(exp_lt, (n,)), n)
                        if tname in ('float', 'int', 'bool', 'list1', 'tuple1', 'complex'):
                            cmp_check('C15.8-cmp-scalar', tag, x, tv, np.broadcast_to(exp_gt, (n,)), np.broadcast_to(exp_lt, (n,)), n, reflect=True)
            # array thresholds (same length): equal to the samples, shifted, random
            if np.all(np.isfinite(z.astype(float))):
                zf = z.astype(float)
                for tarr in (zf.copy(), np.roll(zf, 1), zf[::-1].copy(), r.random(n) * (zf.max() + 1), np.zeros(n), np.floor(zf)):
                    x = E(sig) if noise is None else E(sig, noise)
                    for tname, tv in thr_forms_array(tarr).items():
                        tref = np.asarray(tv.signal if isinstance(tv, E) else tv)
                        tref = tref.real if np.iscomplexobj(tref) else tref
                        tag = f'sig[{sig.dtype}]={sig[:6].tolist()} noise={None if noise is None else noise[:6].tolist()} thr[{tname}]={np.asarray(tarr)[:6].tolist()}'
                        cmp_check('C15.8-cmp-array', tag, x, tv, z > tref, z < tref, n)
                        if tname in ('list', 'tuple'):
                            cmp_check('C15.8-cmp-array', tag, x, tv, z > tref, z < tref, n, reflect=True)

    # ---- relations
    for n in (1, 2, 5, 16, 333):
        sig = r.random(n)
        noise = r.random(n) * 0.2
        thr = float(r.random())
        tarr = r.random(n)
        x = E(sig, noise)
        x0 = E(sig)
        xz = E(sig, np.zeros(n))
        # noise = 0 vs no noise
        for t in (thr, tarr, [thr]):
            if bits_of(x0 > t) != bits_of(xz > t) or bits_of(x0 < t) != bits_of(xz < t):
                bad('C15.8-rel-noise0', f'n={n}', 'noise=zeros and noise=None disagree')
        # slicing commutes with comparison; the work split in two and concatenated
        full = x > thr
        fulla = x > tarr
        for k in range(0, n + 1):
            if 0 < k < n:
                left, right = x[:k] > thr, x[k:] > thr
                if bits_of(left + right) != bits_of(full):
                    bad('C15.8-rel-split', f'n={n} k={k}', '(x[:k]>t)+(x[k:]>t) != (x>t)')
                lefta, righta = x[:k] > tarr[:k], x[k:] > tarr[k:]
                if bits_of(lefta + righta) != bits_of(fulla):
                    bad('C15.8-rel-split', f'n={n} k={k}', 'array threshold: split comparison differs')
        for k in range(-n, n):
            if bits_of(x[k] > thr) != bits_of(full[k]):
                bad('C15.8-rel-index', f'n={n} k={k}', f'(x[k]>t)={bits_of(x[k] > thr)} but (x>t)[k]={bits_of(full[k])}')
        # scale invariance: (c*x > c*t) == (x > t) for c a power of two (exact in floating point)
        for c in (2.0, 0.5, 1024.0, 2.0 ** -20):
            xs = E(sig * c, noise * c)
            if bits_of(xs > thr * c) != bits_of(full) or bits_of(xs > tarr * c) != bits_of(fulla):
                bad('C15.8-rel-scale', f'n={n} c={c}', 'comparison not invariant under a common power-of-two scale')
        # > and < are never both 1, and both 0 exactly at equality
        g, l = np.array(bits_of(x > tarr)), np.array(bits_of(x < tarr))
        if np.any(g & l) or np.any((g | l) == 0):
            bad('C15.8-rel-exclusive', f'n={n}', 'gt/lt not complementary off the boundary')
        # operands unchanged
        if not np.array_equal(x.signal, sig) or not np.array_equal(x.noise, noise):
            bad('C15.8-operands', f'n={n}', 'signal changed by comparison')

    # ---- complex / negative signals and thresholds: validity and length only
    for n in (1, 2, 9, 100):
        for mk in (lambda: r.normal(size=n), lambda: r.normal(size=n) + 1j * r.normal(size=n), lambda: r.integers(-5, 5, n)):
            sig = mk()
            for noise in (None, mk()):
                x = E(sig) if noise is None else E(sig, noise)
                thrs = [0, 0.0, -1.0, 1 + 1j, -2j, np.float64(0.3), np.complex128(1j), [0.5], (1j,), np.array(-0.5), mk(), list(mk()), tuple(mk()), E(mk()), E(mk(), mk())]
                for tv in thrs:
                    cmp_check('C15.8-cmp-complex', f'n={n} sig.dtype={np.asarray(sig).dtype} thr={type(tv).__name__}', x, tv, None, None, n)
                    if isinstance(tv, (int, float, complex, list, tuple)) and not isinstance(tv, np.generic):
                        cmp_check('C15.8-cmp-complex', f'n={n} sig.dtype={np.asarray(sig).dtype} thr={type(tv).__name__}', x, tv, None, None, n, reflect=True)

    # ---- text / boolean signals
    for txt, vals in (('1 0 1', [1, 0, 1]), ('101', [1, 0, 1]), ('0.2 0.7', [0.2, 0.7]), ('1', [1]), ('3,4,5', [3, 4, 5])):
        x = E(txt)
        for t in (0, 0.5, 1, 3.5, 4):
            cmp_check('C15.8-cmp-text', f'signal={txt!r} thr={t}', x, t, np.array(vals) > t, np.array(vals) < t, len(vals))
    x = E([True, False, True], [False, True, True])  # 0/1 + 0/1 -> 1, 1, 2
    cmp_check('C15.8-cmp-bool', 'bool signal+bool noise thr=1', x, 1, [0, 0, 1], [0, 0, 0], 3)
    cmp_check('C15.8-cmp-bool', 'bool signal+bool noise thr=True', x, True, [0, 0, 1], [0, 0, 0], 3)


def check_compare_signed_noise(seed):
    """non-negative real .signal, non-negative real threshold, zero-mean real noise: the statement says the
    result equals the element-wise comparison of signal+noise with the threshold."""
    r = np.random.default_rng(seed)
    cases = [(np.array([0.1]), np.array([-0.5]), 0.2),
             (np.array([0.0, 1.0]), np.array([-0.6, 0.1]), 0.5),
             (np.array([0, 1], dtype=np.int64), np.array([-2, 0], dtype=np.int64), 1)]
    for n in (8, 1000):
        bits = r.integers(0, 2, n).astype(float)
        cases.append((bits, r.normal(0, 0.4, n), 0.5))
    for sig, noise, thr in cases:
        x = E(sig, noise)
        z = sig + noise
        n = sig.size
        for tname, tv in (('scalar', thr), ('array', np.full(n, float(thr)))):
            for opname, got, exp in (('>', x > tv, z > thr), ('<', x < tv, z < thr)):
                nbad = int(np.sum(np.array(bits_of(got)) != exp.astype(int)))
                if nbad:
                    k = int(np.flatnonzero(np.array(bits_of(got)) != exp.astype(int))[0])
                    bad('C15.8b-cmp-signed-noise', f'n={n} op={opname} thr[{tname}]={thr} first at k={k}: signal={sig[k]} noise={noise[k]:.4g}',
                        f'{nbad}/{n} decisions differ from (signal+noise {opname} thr); at k: expected {int(exp[k])}, got {bits_of(got)[k]}')


# ---------------------------------------------------------------------------------------------

def main():
    # C15.1 / C15.4 / C15.6: all bit strings up to length 12
    check_scalars()
    for bits in all_bitlists(12):
        check_invert_counts(bits)
        if len(bits) <= 7 or (len(bits) <= 12 and hash(tuple(bits)) % 16 == 0):
            check_construct(bits)
        else:
            # the plain forms for every string
            for c in (s_of(bits), bits, tuple(bits), np.array(bits)):
                a = B(c)
                if not valid(a) or bits_of(a) != bits:
                    bad('C15.1-construct', repr(c), f'expected {bits}, got {a!r}')
    check_reject()

    # C15.3: all pairs up to length 4 with every container, all pairs up to 6 plain, random long
    small = list(all_bitlists(4))
    for abits in small:
        for bbits in small:
            check_concat(abits, bbits, containers=(len(abits) <= 3 and len(bbits) <= 3))
    mid = list(all_bitlists(6, 5))
    for abits in mid[::3]:
        for bbits in mid[::5]:
            check_concat(abits, bbits, containers=False)
    r = np.random.default_rng(1503)
    for _ in range(150):
        la, lb = (int(v) for v in r.choice([0, 1, 2, 7, 8, 9, 12, 13, 255, 256, 257, 1000], 2))
        check_concat([int(v) for v in r.integers(0, 2, la)], [int(v) for v in r.integers(0, 2, lb)], containers=(la + lb < 40))
    for ln in (10 ** 5, 10 ** 6):
        bits = r.integers(0, 2, ln)
        a = B(bits)
        s = B(''.join(map(str, bits.tolist())))
        if not valid(a) or not valid(s) or not (a == s) or not np.array_equal(a.data, bits):
            bad('C15.1-construct', f'random length {ln}', 'string and array forms differ')
        c = a + s
        if len(c) != 2 * ln or not (c[:ln] == a) or not (c[ln:] == s):
            bad('C15.3-concat', f'random length {ln}', 'a+b wrong')
        if not (~~a == a) or not (a.ones() + a.zeros() == len(a)) or not ((~a).ones() == a.zeros()) or a.ones() != int(bits.sum()):
            bad('C15.4-invert', f'random length {ln}', 'inversion / counts wrong')
        # more than 255 ones, more than 65535 ones: counts must not wrap
        o = B(np.ones(ln, dtype=np.uint8))
        if o.ones() != ln or o.zeros() != 0 or (~o).zeros() != ln:
            bad('C15.6-counts', f'all ones length {ln}', f'ones={o.ones()!r} zeros={o.zeros()!r}')

    # C15.5: every slice of every string up to length 5, then of samples up to 12 and a long one
    for bits in all_bitlists(5):
        check_slices(bits, all_slices(len(bits)))
    for n in range(6, 13):
        for _ in range(3):
            bits = [int(v) for v in r.integers(0, 2, n)]
            check_slices(bits, all_slices(n, steps=(None, 1, 2, -1, -3, 5, -n, n)))
    bits = [int(v) for v in r.integers(0, 2, 300)]
    check_slices(bits, [rand_slice(r, 300) for _ in range(2000)])

    # C15.7
    for seed in (1, 2, 3):
        check_expressions(1500, seed)

    # C15.8
    for seed in (81, 82):
        check_compare(seed)
    check_compare_signed_noise(83)

    if VIOL:
        clauses = sorted(set(v[0] for v in VIOL))
        print(f'FAIL: {len(VIOL)} violations in clauses {clauses}')
        sys.exit(1)
    print('PASS')
    sys.exit(0)


if __name__ == '__main__':
    main()
