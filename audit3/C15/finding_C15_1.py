# C15: a non-negative real signal whose zero-mean noise takes a sample below zero is decided by |signal+noise|, not signal+noise
import sys; sys.path.pop(0)
import numpy as np
from opticomlib.typing import electrical_signal
sig, noise, thr = np.array([0.0, 1.0, 0.1]), np.array([-0.6, 0.1, -0.5]), 0.5   # signal >= 0, threshold >= 0, real
x = electrical_signal(sig, noise)
z = sig + noise                                                                  # [-0.6, 1.1, -0.4]
fail = 0
for name, got, exp in (('x > thr', (x > thr).data, z > thr), ('x < thr', (x < thr).data, z < thr),
                       ('x > [thr]*3', (x > [thr]*3).data, z > thr)):
    if not np.array_equal(got, exp.astype(np.uint8)):
        print(f'{name}: expected {exp.astype(int)} (signal+noise = {z} against {thr}), got {got}')
        fail = 1
# effect on a receiver: OFF level 0 with N(0, 0.4) noise and threshold 0.5 is read as 1 twice as often
n = np.random.default_rng(0).normal(0, 0.4, 200000)
p_lib, p_ref = (electrical_signal(np.zeros(n.size), n) > 0.5).ones() / n.size, np.mean(n > 0.5)
print(f'P(1 | OFF) by the library {p_lib:.4f}, by (signal+noise > thr) {p_ref:.4f}')
sys.exit(fail)
