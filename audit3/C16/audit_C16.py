"""Audit of property C16 (FBG is a passive reflector matching coupled-mode closed forms).

Third audit: relations between calls, invariances, fine sweeps.
Prints one line per violated (clause, input); exit 1 if any, else PASS / exit 0.
"""
import sys
import os
if sys.path and os.path.abspath(sys.path[0] or '.') == os.path.dirname(os.path.abspath(__file__)):
    del sys.path[0]

import io
import contextlib
import warnings
import functools
import numpy as np
from numpy.fft import fft, ifft, ifftshift
from scipy.integrate import quad
from scipy.interpolate import CubicSpline

import opticomlib
from opticomlib import gv, optical_signal
from opticomlib.devices import FBG

warnings.simplefilter('ignore')
c = 299792458.0
pi = np.pi

TOL_H = 5e-3      # |H| <= 1 + TOL_H       (solver rtol is 1e-3)
TOL_R = 1e-2      # reflectivity vs closed forms
TOL_EQ = 1e-6     # equivalent specifications of the same grating
VIOL = []


def bad(clause, inp, msg):
    line = f"VIOLATION {clause} | {inp} | {msg}"
    VIOL.append(line)
    print(line, flush=True)


def call(x, **kw):
    kw.setdefault('print_params', False)
    kw.setdefault('retH', True)
    return FBG(x, **kw)


def safe(clause, inp, fn):
    try:
        return fn()
    except Exception as e:  # loud failure inside the domain
        bad(clause, inp, f"raised {type(e).__name__}: {e}")
        return None


BUILTIN = {
    'uniform': lambda z: 1.0 + 0 * z,
    'rcos': lambda z: 0.5 * (1 + np.cos(2 * pi * z)),
    'gaussian': lambda z: np.exp(-4 * np.log(2) * (3 * z) ** 2),
    'parabolic': lambda z: 1 - (2 * z) ** 2,
}


def integral(f):
    return quad(f, -0.5, 0.5, limit=200)[0]


def closed_uniform(n, vd, kL, fc, neff=1.45):
    lD = c / fc
    L = kL * lD / (pi * vd)
    f = np.fft.fftshift(np.fft.fftfreq(n)) * gv.fs + gv.f0
    lam = c / f
    d = 2 * pi * neff * (1 / lam - 1 / lD) * L
    k = pi * vd / lam * L
    g = np.sqrt((k ** 2 - d ** 2).astype(complex))
    return (np.sinh(g) ** 2 / (np.cosh(g) ** 2 - d ** 2 / k ** 2)).real


def check_H(clause, inp, H, n):
    a = np.abs(H)
    if H.shape != (n,):
        bad(clause, inp, f"H shape {H.shape} != ({n},)")
        return False
    if not np.isfinite(a).all():
        bad(clause, inp, "H has non-finite values")
        return False
    if a.max() > 1 + TOL_H:
        bad(clause, inp, f"max|H| = {a.max():.6f} > 1")
        return False
    return True


def check_filter(clause, inp, x, y, H):
    """output == ifft(fft(input) * ifftshift(H)) per polarisation; energy never grows."""
    if not isinstance(y, optical_signal):
        bad(clause, inp, f"output type {type(y)}")
        return
    if y.n_pol != x.n_pol or y.signal.shape != x.signal.shape:
        bad(clause, inp, f"output n_pol/shape {y.n_pol}/{y.signal.shape} != input {x.n_pol}/{x.signal.shape}")
        return
    xs = np.atleast_2d(x.signal)
    ys = np.atleast_2d(y.signal)
    for p in range(xs.shape[0]):
        ref = ifft(fft(xs[p].astype(complex)) * ifftshift(H))
        sc = max(np.abs(xs[p]).max(), 1e-300)
        err = np.abs(ys[p] - ref).max() / sc
        if not err < 1e-10:
            bad(clause, inp, f"pol {p}: output differs from input filtered by H, rel err {err:.2e}")
        ein = np.sum(np.abs(xs[p]) ** 2)
        eout = np.sum(np.abs(ys[p]) ** 2)
        if not eout <= ein * (1 + 2 * TOL_H) + 1e-300:
            bad(clause, inp, f"pol {p}: energy out {eout:.6g} > in {ein:.6g}")


def rand_signal(rng, n, n_pol, kind):
    if kind == 'ones':
        s = np.ones(n)
    elif kind == 'real':
        s = rng.standard_normal(n)
    elif kind == 'int':
        s = rng.integers(-5, 6, n)
    else:
        s = rng.standard_normal(n) + 1j * rng.standard_normal(n)
    if n_pol == 2:
        s2 = np.roll(s, 3) * (0.5 + 0.5j) if kind not in ('int', 'real', 'ones') else np.roll(s, 3) * 2
        s = np.array([s, s2])
    return s


def smooth_callable(rng):
    """random smooth strictly positive profile on [-0.5, 0.5]"""
    kind = rng.integers(0, 4)
    if kind == 0:
        a, b, ph = rng.uniform(0.1, 0.8), rng.uniform(0.5, 4), rng.uniform(0, 2 * pi)
        return (lambda z: 1 + a * np.sin(2 * pi * b * z + ph)), f"1+{a:.3f}sin(2pi*{b:.3f}z+{ph:.3f})"
    if kind == 1:
        w, z0 = rng.uniform(0.15, 0.6), rng.uniform(-0.3, 0.3)
        return (lambda z: 0.05 + np.exp(-((z - z0) / w) ** 2)), f"0.05+gauss(z0={z0:.3f},w={w:.3f})"
    if kind == 2:
        zz = np.linspace(-0.5, 0.5, 7)
        vv = rng.uniform(0.2, 1.5, 7)
        cs = CubicSpline(zz, np.log(vv))
        return (lambda z: np.exp(cs(z))), f"exp(spline({np.round(vv, 3).tolist()}))"
    co = rng.uniform(0.3, 1.2)
    return np.poly1d([co]), f"poly1d([{co:.3f}])"


# --------------------------------------------------------------------------
def clause_bounds_and_filter():
    """C1 |H|<=1, C2 output = filtered input / energy / polarisations; corners + random."""
    rng = np.random.default_rng(1601)
    # systematic corners
    cases = []
    for fs in (20e9, 400e9):
        for n in (2 ** 8, 2 ** 12):
            for vd in (1e-5, 1e-3):
                for kL in (0.1, 8):
                    for F in (-20, 0, 20):
                        cases.append((fs, n, vd, kL, F))
    apos = list(BUILTIN)
    for i, (fs, n, vd, kL, F) in enumerate(cases):
        if n == 2 ** 12 and vd == 1e-5 and kL == 8 and fs == 400e9 and F != 0:
            pass  # slow but still included
        gv(fs=fs)
        apo = apos[i % 4]
        n_pol = 1 + i % 2
        x = optical_signal(rand_signal(rng, n, n_pol, ('ones', 'real', 'int', 'cplx')[i % 4]))
        inp = f"fs={fs:g} n={n} vdneff={vd} kL={kL} F={F} apo={apo} n_pol={n_pol}"
        r = safe('C1/C2', inp, lambda: call(x, fc=gv.f0, vdneff=vd, kL=kL, F=F, apodization=apo))
        if r is None:
            continue
        y, H = r
        if check_H('C1', inp, H, n):
            check_filter('C2', inp, x, y, H)
    # random
    for i in range(60):
        fs = float(rng.uniform(20e9, 400e9))
        n = int(2 ** rng.integers(8, 11))
        vd = float(10 ** rng.uniform(-5, -3))
        kL = float(rng.uniform(0.1, 8))
        F = float(rng.uniform(-20, 20))
        gv(fs=fs)
        if i % 3 == 0:
            apo, name = smooth_callable(rng)
        else:
            apo = name = apos[i % 4]
        n_pol = 1 + i % 2
        x = optical_signal(rand_signal(rng, n, n_pol, ('cplx', 'real', 'int')[i % 3]))
        off = (0, 0.37, -5.5, 17)[i % 4] * fs / n
        route = i % 3
        kw = dict(vdneff=vd, F=F, apodization=apo, filtfilt=bool(i % 2))
        lD = c / (gv.f0 + off)
        L = kL * lD / (pi * vd)
        if i % 2:
            kw['fc'] = gv.f0 + off
        else:
            kw['landa_D'] = lD
        if route == 0:
            kw['kL'] = kL
        elif route == 1:
            kw['L'] = L
        else:
            kw['N'] = max(1, int(round(L * 2 * 1.45 / lD)))
        inp = f"rand#{i} fs={fs:.4g} n={n} vdneff={vd:.3g} kL={kL:.3f} F={F:.2f} apo={name} n_pol={n_pol} off={off:.3g} route={route}"
        r = safe('C1/C2', inp, lambda: call(x, **kw))
        if r is None:
            continue
        y, H = r
        if check_H('C1', inp, H, n):
            check_filter('C2', inp, x, y, H)


def clause_two_pol_vs_one_pol():
    """C2 relation: a two-polarisation call equals two one-polarisation calls."""
    rng = np.random.default_rng(1602)
    gv(fs=80e9)
    for n in (256, 512):
        for apo in ('uniform', 'gaussian'):
            a = rng.standard_normal(n) + 1j * rng.standard_normal(n)
            b = rng.standard_normal(n) + 1j * rng.standard_normal(n)
            kw = dict(fc=gv.f0, vdneff=2e-4, kL=3.0, F=4.0, apodization=apo)
            inp = f"n={n} apo={apo}"
            r = safe('C2-pol', inp, lambda: (call(optical_signal(np.array([a, b])), **kw),
                                           call(optical_signal(a), **kw), call(optical_signal(b), **kw),
                                           call(optical_signal(a, n_pol=2), **kw)))
            if r is None:
                continue
            (y2, H2), (ya, Ha), (yb, Hb), (yd, Hd) = r
            if not (np.array_equal(H2, Ha) and np.array_equal(H2, Hb) and np.array_equal(H2, Hd)):
                bad('C2-pol', inp, f"H depends on polarisation count: {np.abs(H2 - Ha).max():.2e}")
            if y2.signal.shape != (2, n) or y2.n_pol != 2:
                bad('C2-pol', inp, f"two-pol output shape {y2.signal.shape} n_pol {y2.n_pol}")
                continue
            if ya.signal.shape != (n,) or ya.n_pol != 1:
                bad('C2-pol', inp, f"one-pol output shape {ya.signal.shape} n_pol {ya.n_pol}")
                continue
            e = max(np.abs(y2.signal[0] - ya.signal).max(), np.abs(y2.signal[1] - yb.signal).max(),
                    np.abs(yd.signal[0] - ya.signal).max(), np.abs(yd.signal[1] - ya.signal).max())
            if e > 1e-12:
                bad('C2-pol', inp, f"two-pol output differs from one-pol outputs by {e:.2e}")


def clause_bragg_and_uniform():
    """C3 tanh^2(kL*int apod) at Bragg, C4 uniform closed-form spectrum."""
    rng = np.random.default_rng(1603)
    for fs in (20e9, 57e9, 400e9):
        gv(fs=fs)
        for n in (256, 1024):
            x = optical_signal(np.ones(n))
            df = fs / n
            for vd in (1e-5, 1.3e-4, 1e-3):
                for kL in (0.1, 0.75, 2.5, 8):
                    for m in (0, -n // 2, n // 4):  # Bragg frequency on a grid bin, incl. the first bin
                        fc = gv.f0 + m * df
                        inp = f"fs={fs:g} n={n} vdneff={vd} kL={kL} bin={m}"
                        r = safe('C4', inp, lambda: call(x, fc=fc, vdneff=vd, kL=kL))
                        if r is not None:
                            R = np.abs(r[1]) ** 2
                            Rc = closed_uniform(n, vd, kL, fc)
                            e = np.abs(R - Rc).max()
                            if not e < TOL_R:
                                bad('C4', inp, f"uniform spectrum off closed form by {e:.3e} at index {np.argmax(np.abs(R - Rc))}")
                        if n == 1024 and m != 0:
                            continue
                        for apo, f in BUILTIN.items():
                            r = safe('C3', inp + f" apo={apo}", lambda: call(x, fc=fc, vdneff=vd, kL=kL, apodization=apo))
                            if r is None:
                                continue
                            R0 = np.abs(r[1][n // 2 + m]) ** 2
                            ex = np.tanh(kL * integral(f)) ** 2
                            if not abs(R0 - ex) < TOL_R * max(ex, 0.05):
                                bad('C3', inp + f" apo={apo}", f"Bragg reflectivity {R0:.6f} != tanh^2 = {ex:.6f}")
    # user callables
    gv(fs=100e9)
    n = 256
    x = optical_signal(np.ones(n))
    for i in range(40):
        f, name = smooth_callable(rng)
        vd = float(10 ** rng.uniform(-5, -3))
        kL = float(rng.uniform(0.1, 8))
        inp = f"callable#{i} {name} vdneff={vd:.3g} kL={kL:.3f}"
        route = {} if i % 2 else {'landa': 1}
        kw = dict(vdneff=vd, kL=kL, apodization=f)
        if i % 2:
            kw['fc'] = gv.f0
        else:
            kw['landa_D'] = c / gv.f0
        r = safe('C3', inp, lambda: call(x, **kw))
        if r is None:
            continue
        R0 = np.abs(r[1][n // 2]) ** 2
        ex = np.tanh(kL * integral(f)) ** 2
        if not abs(R0 - ex) < TOL_R * max(ex, 0.05):
            bad('C3', inp, f"Bragg reflectivity {R0:.6f} != tanh^2 = {ex:.6f}")
        # mirrored profile: same lossless grating seen from the other end, |H| must agree
        g = (lambda f: (lambda z: f(-z)))(f)
        r2 = safe('C3-mirror', inp, lambda: call(x, **{**kw, 'apodization': g}))
        if r2 is not None:
            e = np.abs(np.abs(r2[1]) - np.abs(r[1])).max()
            if e > TOL_R:
                bad('C3-mirror', inp, f"|H| of mirrored profile differs by {e:.3e}")
    # smooth positive profiles with a localised feature (bump on a pedestal, flat top with soft edges)
    LOCAL = {
        '0.5+exp(-((z+0.125)/0.12)^2)': lambda z: 0.5 + np.exp(-((z + 0.125) / 0.12) ** 2),
        '0.05+exp(-((z+0.075)/0.1)^2)': lambda z: 0.05 + np.exp(-((z + 0.075) / 0.1) ** 2),
        '0.5+exp(-((z-0.2)/0.15)^2)': lambda z: 0.5 + np.exp(-((z - 0.2) / 0.15) ** 2),
        'flat top, tanh edges 0.03': lambda z: 0.01 + 0.5 * (np.tanh((z + 0.3) / 0.03) - np.tanh((z - 0.3) / 0.03)),
        'super-gaussian exp(-(z/0.25)^8)': lambda z: 0.01 + np.exp(-(z / 0.25) ** 8),
    }
    for fs, vd in ((20e9, 1e-3), (100e9, 1e-3), (20e9, 1e-4), (400e9, 1e-5)):
        gv(fs=fs)
        x = optical_signal(np.ones(n))
        for name, f in LOCAL.items():
            I = integral(f)
            for kL in (0.1, 0.5, 1.0, 2.0, 4.0, 8.0):
                inp = f"callable {name} fs={fs:g} n={n} vdneff={vd} kL={kL}"
                r = safe('C3', inp, lambda: call(x, fc=gv.f0, vdneff=vd, kL=kL, apodization=f))
                if r is None:
                    continue
                R0 = np.abs(r[1][n // 2]) ** 2
                ex = np.tanh(kL * I) ** 2
                if not abs(R0 - ex) < TOL_R * max(ex, 0.05):
                    bad('C3', inp, f"Bragg reflectivity {R0:.6f} != tanh^2(kL*int) = {ex:.6f}")
    gv(fs=100e9)
    x = optical_signal(np.ones(n))
    # callables that reproduce the built-ins must agree with them, in every callable flavour
    for vd, kL in ((1e-5, 8), (1e-3, 0.1), (2e-4, 3)):
        for apo, f in BUILTIN.items():
            ref = safe('C3-same', apo, lambda: call(x, fc=gv.f0, vdneff=vd, kL=kL, apodization=apo))
            if ref is None:
                continue
            flavours = {'lambda': f, 'partial': functools.partial(lambda s, z: f(z), 0),
                        'vectorize': np.vectorize(f), 'float-returning': (lambda f: lambda z: float(f(z)))(f),
                        'array1-returning': (lambda f: lambda z: np.array([f(z)]))(f)}
            if apo == 'uniform':
                flavours['int-returning'] = lambda z: 1
                flavours['poly1d'] = np.poly1d([1.0])
            for fl, g in flavours.items():
                inp = f"vdneff={vd} kL={kL} builtin={apo} as {fl}"
                r = safe('C3-same', inp, lambda: call(x, fc=gv.f0, vdneff=vd, kL=kL, apodization=g))
                if r is None:
                    continue
                e = np.abs(r[1] - ref[1]).max()
                if e > TOL_H:
                    bad('C3-same', inp, f"callable copy of built-in differs by {e:.3e}")


def clause_routes():
    """C5 equivalent specifications produce the same response; argument-passing relations."""
    rng = np.random.default_rng(1604)
    neff = 1.45
    combos = []
    for fs, n in ((20e9, 256), (150e9, 512), (400e9, 256)):
        for vd in (1e-5, 1e-4, 1e-3):
            for kL in (0.1, 1.7, 8):
                combos.append((fs, n, vd, kL, 0.0, 'uniform', 0))
    for i in range(12):
        combos.append((float(rng.uniform(20e9, 400e9)), 256, float(10 ** rng.uniform(-5, -3)),
                       float(rng.uniform(0.1, 8)), float(rng.uniform(-20, 20)),
                       ('uniform', 'rcos', 'gaussian', 'parabolic')[i % 4], (0, 3, -7.5)[i % 3]))
    for fs, n, vd, kL0, F, apo, mo in combos:
        gv(fs=fs)
        x = optical_signal(np.ones(n))
        fc = gv.f0 + mo * fs / n
        lD = c / fc
        # make the period count an integer so that the three length routes name the same grating
        Np = max(1, int(round(kL0 * lD / (pi * vd) * 2 * neff / lD)))
        L = Np * lD / (2 * neff)
        kL = pi * vd / lD * L
        base = dict(vdneff=vd, F=F, apodization=apo)
        res = {}
        for cn, ckw in (('fc', {'fc': fc}), ('landa_D', {'landa_D': lD})):
            for ln, lkw in (('kL', {'kL': kL}), ('L', {'L': L}), ('N', {'N': Np}), ('N-np', {'N': np.int64(Np)}),
                            ('N-float', {'N': float(Np)})):
                inp = f"fs={fs:.4g} n={n} vdneff={vd:.3g} kL={kL:.4f} N={Np} F={F:.2f} apo={apo} via {cn}+{ln}"
                r = safe('C5', inp, lambda: call(x, **base, **ckw, **lkw))
                if r is not None:
                    res[(cn, ln)] = (inp, r)
        if not res:
            continue
        k0 = next(iter(res))
        H0 = res[k0][1][1]
        for key, (inp, (y, H)) in res.items():
            e = np.abs(H - H0).max()
            if not e < TOL_EQ:
                bad('C5', inp, f"response differs from route {k0} by {e:.3e}")
            e = np.abs(y.signal - res[k0][1][0].signal).max()
            if not e < TOL_EQ:
                bad('C5', inp, f"output differs from route {k0} by {e:.3e}")
        # relations on how the arguments are passed
        inp0 = f"fs={fs:.4g} n={n} vdneff={vd:.3g} kL={kL:.4f} F={F:.2f} apo={apo}"
        ref = res.get(('fc', 'kL'))
        if ref is None:
            continue
        Href = ref[1][1]
        yref = ref[1][0]
        variants = {
            'positional': lambda: FBG(x, 1.45, 1.0, None, fc, kL, None, None, None, vd, apo, F, False, True, True),
            'explicit defaults': lambda: call(x, neff=1.45, v=1.0, landa_D=None, fc=fc, kL=kL, L=None, N=None, dneff=None,
                                              vdneff=vd, apodization=apo, F=F, filtfilt=True),
            'numpy scalars': lambda: call(x, fc=np.float64(fc), vdneff=np.float64(vd), kL=np.float64(kL), F=np.float64(F),
                                          apodization=np.str_(apo)),
            'both fc and landa_D': lambda: call(x, fc=fc, landa_D=lD, vdneff=vd, kL=kL, F=F, apodization=apo),
            'v ignored with vdneff': lambda: call(x, fc=fc, vdneff=vd, kL=kL, F=F, apodization=apo, v=0.5),
            'dneff=0 with vdneff': lambda: call(x, fc=fc, vdneff=vd, dneff=0, kL=kL, F=F, apodization=apo),
            'repeat': lambda: call(x, fc=fc, vdneff=vd, kL=kL, F=F, apodization=apo),
            'print_params=True': lambda: _printing(x, fc=fc, vdneff=vd, kL=kL, F=F, apodization=apo),
        }
        if float(kL).is_integer():
            variants['int kL'] = lambda: call(x, fc=fc, vdneff=vd, kL=int(kL), F=F, apodization=apo)
        if float(F).is_integer():
            variants['int F'] = lambda: call(x, fc=fc, vdneff=vd, kL=kL, F=int(F), apodization=apo)
        for vn, fn in variants.items():
            r = safe('C5-args', inp0 + ' ' + vn, fn)
            if r is None:
                continue
            e = max(np.abs(r[1] - Href).max(), np.abs(r[0].signal - yref.signal).max())
            if not e < TOL_EQ:
                bad('C5-args', inp0 + ' ' + vn, f"differs from keyword call by {e:.3e}")
        # retH=False gives the same output; filtfilt only changes a linear phase
        r = safe('C5-args', inp0 + ' retH=False', lambda: FBG(x, fc=fc, vdneff=vd, kL=kL, F=F, apodization=apo, print_params=False))
        if r is not None:
            if not isinstance(r, optical_signal):
                bad('C5-args', inp0 + ' retH=False', f"returned {type(r)}")
            elif not np.abs(r.signal - yref.signal).max() < TOL_EQ:
                bad('C5-args', inp0 + ' retH=False', "output differs from retH=True output")
        r = safe('C5-args', inp0 + ' filtfilt=False', lambda: call(x, fc=fc, vdneff=vd, kL=kL, F=F, apodization=apo, filtfilt=False))
        if r is not None:
            e = np.abs(np.abs(r[1]) - np.abs(Href)).max()
            if not e < TOL_EQ:
                bad('C5-args', inp0 + ' filtfilt=False', f"|H| changes with filtfilt by {e:.3e}")
            q = Href / np.where(np.abs(r[1]) > 1e-9, r[1], 1)
            msk = np.abs(r[1]) > 1e-3
            ph = np.unwrap(np.angle(q[msk])) if msk.sum() > 3 else np.zeros(3)
            # linear phase: second difference ~ 0 where the mask is contiguous
            if msk.all():
                d2 = np.abs(np.diff(ph, 2)).max()
                if d2 > 1e-6:
                    bad('C5-args', inp0 + ' filtfilt', f"filtfilt correction is not a pure delay (d2 phase {d2:.2e})")


def _printing(x, **kw):
    buf = io.StringIO()
    with contextlib.redirect_stdout(buf):
        r = FBG(x, retH=True, **kw)  # print_params left at its default (True)
    if 'Fiber Bragg Grating' not in buf.getvalue():
        raise RuntimeError('print_params default printed nothing')
    return r


def clause_incomplete():
    """C6 incomplete specifications raise ValueError (exhaustive over the None/value subsets)."""
    gv(fs=100e9)
    x = optical_signal(np.ones(256))
    fc = gv.f0
    lD = c / fc
    vals = dict(fc=fc, landa_D=lD, kL=2.0, L=0.01, N=10000, dneff=1e-4, vdneff=1e-4)
    keys = list(vals)
    for mask in range(2 ** len(keys)):
        kw = {k: vals[k] for i, k in enumerate(keys) if mask >> i & 1}
        centre = 'fc' in kw or 'landa_D' in kw
        length = 'kL' in kw or 'L' in kw or 'N' in kw
        strength = 'dneff' in kw or 'vdneff' in kw
        # complete: centre + strength + length, or (docstring route 3) landa_D + kL + (L or N)
        route3 = ('landa_D' in kw and 'fc' not in kw and 'kL' in kw and ('L' in kw or 'N' in kw))
        complete = (centre and strength and length) or route3
        inp = 'given=' + ','.join(kw) if kw else 'given=nothing'
        for variant in ('omitted', 'None'):
            k2 = dict(kw)
            if variant == 'None':
                k2.update({k: None for k in keys if k not in kw})
            try:
                y, H = call(x, **k2)
            except ValueError:
                if complete:
                    bad('C6', inp + ' ' + variant, 'complete specification raised ValueError')
                continue
            except Exception as e:
                bad('C6', inp + ' ' + variant, f"raised {type(e).__name__} instead of {'a result' if complete else 'ValueError'}: {e}")
                continue
            if not complete:
                bad('C6', inp + ' ' + variant, 'incomplete specification returned a result')
            else:
                check_H('C1', inp, H, 256)
    for who in (np.ones(256), [1, 2, 3], None):
        try:
            FBG(who, fc=fc, vdneff=1e-4, kL=1, print_params=False)
            bad('C6', f"input={type(who).__name__}", 'non optical_signal accepted')
        except TypeError:
            pass
        except Exception as e:
            bad('C6', f"input={type(who).__name__}", f"raised {type(e).__name__}")


def clause_invariance():
    """Invariance under what must not matter: dtype, memory layout, view/copy, read-only, call order, gv state."""
    rng = np.random.default_rng(1605)
    gv(fs=64e9)
    n = 256
    kw = dict(fc=gv.f0 + 3 * gv.fs / n, vdneff=3e-4, kL=2.2, F=-6.0, apodization='parabolic')
    base_i = rng.integers(-4, 5, (2, n))
    ref = safe('INV', 'int64 base', lambda: call(optical_signal(base_i.astype(np.int64)), **kw))
    if ref is not None:
        yr, Hr = ref
        big = np.zeros((2, 2 * n), dtype=np.int64)
        big[:, ::2] = base_i
        ro = base_i.astype(np.float64)
        ro.setflags(write=False)
        forms = {
            'float64': base_i.astype(np.float64), 'complex128': base_i.astype(np.complex128),
            'fortran': np.asfortranarray(base_i.astype(np.float64)), 'strided view': big[:, ::2],
            'read-only': ro, 'list': base_i.tolist(), 'tuple rows': tuple(map(tuple, base_i.tolist())),
            'float32': base_i.astype(np.float32), 'int32': base_i.astype(np.int32),
        }
        for name, arr in forms.items():
            def run():
                xs = optical_signal(arr)
                before = np.array(xs.signal, copy=True)
                out = call(xs, **kw)
                if not np.array_equal(before, xs.signal):
                    raise AssertionError('input signal was modified')
                return out
            r = safe('INV', name, run)
            if r is None:
                continue
            e = max(np.abs(r[1] - Hr).max(), np.abs(r[0].signal - yr.signal).max())
            if not e < 1e-9:
                bad('INV', name, f"differs from int64 input by {e:.3e}")
        # a signal assembled by slicing/concatenation of optical signals
        xs = optical_signal(base_i.astype(float))
        r = safe('INV', 'sliced signal', lambda: call(xs[:], **kw))
        if r is not None and not np.abs(r[0].signal - yr.signal).max() < 1e-9:
            bad('INV', 'sliced signal', 'differs')
        # linearity / scale: H does not depend on the input, output scales with the input
        r = safe('INV', 'scaled input', lambda: call(optical_signal(base_i * (2 - 3j) * 1e-6), **kw))
        if r is not None:
            if not np.array_equal(r[1], Hr):
                bad('INV', 'scaled input', f"H depends on the input amplitude ({np.abs(r[1] - Hr).max():.2e})")
            if not np.abs(r[0].signal / ((2 - 3j) * 1e-6) - yr.signal).max() < 1e-9:
                bad('INV', 'scaled input', 'output not linear in the input')
        # order of calls / state: another grating in between, gv changed and restored
        call(optical_signal(np.ones(512)), fc=gv.f0, vdneff=1e-3, kL=8, apodization='rcos')
        gv(fs=20e9)
        call(optical_signal(np.ones(256)), landa_D=c / gv.f0, vdneff=1e-5, N=100000)
        gv(fs=64e9)
        r = safe('INV', 'after other calls', lambda: call(optical_signal(base_i.astype(np.int64)), **kw))
        if r is not None and not (np.array_equal(r[1], Hr) and np.array_equal(r[0].signal, yr.signal)):
            bad('INV', 'after other calls', f"result changed by {np.abs(r[1] - Hr).max():.2e}")
        # gv slot settings that must not matter for a given fs
        gv(fs=64e9, sps=16, N=10)
        r = safe('INV', 'gv sps/N set', lambda: call(optical_signal(base_i.astype(np.int64)), **kw))
        if r is not None and not np.abs(r[1] - Hr).max() < 1e-9:
            bad('INV', 'gv sps/N set', f"result changed by {np.abs(r[1] - Hr).max():.2e}")
        gv(fs=64e9)
    # one polarisation given as (n,), (1,n) with n_pol=1, 2-D with n_pol=1
    a = rng.standard_normal(n)
    r1 = safe('INV', '1-pol (n,)', lambda: call(optical_signal(a), **kw))
    r2 = safe('INV', '1-pol (1,n)', lambda: call(optical_signal(a[None, :], n_pol=1), **kw))
    r3 = safe('INV', '1-pol from (2,n)', lambda: call(optical_signal(np.array([a, 2 * a]), n_pol=1), **kw))
    if r1 and r2 and r3:
        for nm, r in (('(1,n)', r2), ('(2,n)->1', r3)):
            if r[0].signal.shape != r1[0].signal.shape or not np.abs(r[0].signal - r1[0].signal).max() < 1e-12:
                bad('INV', f'1-pol given as {nm}', 'output differs from the (n,) call')
    # F -> -F with a symmetric profile is the same lossless grating seen from the other end
    gv(fs=100e9)
    x = optical_signal(np.ones(256))
    for apo in ('uniform', 'rcos', 'gaussian', 'parabolic'):
        for F in (0.5, 5.0, 20):
            for vd, kL in ((1e-5, 8), (1e-3, 0.1), (1e-4, 3)):
                inp = f"apo={apo} F=+-{F} vdneff={vd} kL={kL}"
                r = safe('INV-F', inp, lambda: (call(x, fc=gv.f0, vdneff=vd, kL=kL, F=F, apodization=apo),
                                                call(x, fc=gv.f0, vdneff=vd, kL=kL, F=-F, apodization=apo)))
                if r is None:
                    continue
                e = np.abs(np.abs(r[0][1]) - np.abs(r[1][1])).max()
                if not e < TOL_R:
                    bad('INV-F', inp, f"|H| differs between F and -F by {e:.3e}")
    # offset invariance: moving gv.f0 and fc together leaves the response (nearly) unchanged
    res = []
    for wl in (1530e-9, 1550e-9, 1565e-9):
        # fs follows the carrier so that the normalised detuning grid is the same problem
        gv(fs=100e9 * 1550e-9 / wl, wavelength=wl)
        r = safe('INV-f0', f"wavelength={wl}", lambda: call(optical_signal(np.ones(256)), fc=gv.f0, vdneff=1e-4, kL=4, apodization='gaussian'))
        if r is not None:
            res.append(np.abs(r[1]))
    gv(fs=100e9, wavelength=1550e-9)
    for a in res[1:]:
        if not np.abs(a - res[0]).max() < TOL_R:
            bad('INV-f0', 'gv wavelength', f"|H| moves by {np.abs(a - res[0]).max():.3e} with the carrier")
    # input length / sampling rate: the frequency grids nest, the response on shared frequencies must agree
    for fs, vd, kL, apo, F in ((20e9, 1e-3, 2, 'gaussian', 0), (20e9, 1e-3, 8, 'uniform', 3.0), (100e9, 1e-4, 3, 'parabolic', -20),
                               (400e9, 1e-5, 8, 'rcos', 0), (57e9, 3e-4, 0.1, 'uniform', 20)):
        gv(fs=fs)
        Hs = {}
        for m in (256, 512, 2048, 4096):
            r = safe('INV-len', f"n={m} fs={fs:g}", lambda: call(optical_signal(np.ones(m)), fc=gv.f0, vdneff=vd, kL=kL, apodization=apo, F=F, filtfilt=False))
            if r is not None:
                Hs[m] = r[1]
        for m, H in Hs.items():
            if 256 in Hs and m != 256:
                e = np.abs(H[::m // 256] - Hs[256]).max()
                if not e < TOL_H:
                    bad('INV-len', f"fs={fs:g} vdneff={vd} kL={kL} apo={apo} F={F} n={m} vs 256", f"H on shared frequencies differs by {e:.3e}")
        gv(fs=2 * fs)
        r = safe('INV-len', f"fs doubled {fs:g}", lambda: call(optical_signal(np.ones(512)), fc=gv.f0, vdneff=vd, kL=kL, apodization=apo, F=F, filtfilt=False))
        if r is not None and 256 in Hs:
            e = np.abs(r[1][128:384] - Hs[256]).max()
            if not e < TOL_H:
                bad('INV-len', f"fs={fs:g}->{2 * fs:g} vdneff={vd} kL={kL} apo={apo} F={F}", f"H on shared frequencies differs by {e:.3e}")
    # an input carrying an all-zero noise component gives the same reflected signal
    gv(fs=100e9)
    a = rng.standard_normal((2, 256)) + 1j * rng.standard_normal((2, 256))
    r = safe('INV-noise0', 'noise=0', lambda: (call(optical_signal(a), fc=gv.f0, vdneff=1e-4, kL=2),
                                               call(optical_signal(a, noise=np.zeros_like(a)), fc=gv.f0, vdneff=1e-4, kL=2)))
    if r is not None and not (np.array_equal(r[0][1], r[1][1]) and np.abs(r[0][0].signal - r[1][0].signal).max() < 1e-12):
        bad('INV-noise0', 'noise=0 vs no noise', 'results differ')
    # scale invariance: vdneff and fs scaled together give the same normalised problem
    res = []
    for s in (1, 4, 20):
        gv(fs=20e9 * s)
        r = safe('INV-scale', f"s={s}", lambda: call(optical_signal(np.ones(256)), fc=gv.f0, vdneff=5e-5 * s, kL=5, apodization='uniform'))
        if r is not None:
            res.append(np.abs(r[1]))
    for a in res[1:]:
        if not np.abs(a - res[0]).max() < 2 * TOL_R:
            bad('INV-scale', 'vdneff*s, fs*s', f"|H| differs by {np.abs(a - res[0]).max():.3e}")


def clause_sweeps():
    """Monotonicity / continuity across the whole stated ranges, both ends included."""
    n = 256
    # kL sweep: Bragg reflectivity is tanh^2 -> strictly increasing, continuous
    for fs, vd in ((20e9, 1e-5), (400e9, 1e-3), (100e9, 1e-4)):
        gv(fs=fs)
        x = optical_signal(np.ones(n))
        for apo, f in BUILTIN.items():
            I = integral(f)
            kLs = np.linspace(0.1, 8, 80)
            prev = None
            for kL in kLs:
                inp = f"sweep kL={kL:.4f} fs={fs:g} vdneff={vd} apo={apo}"
                r = safe('SWEEP-kL', inp, lambda: call(x, fc=gv.f0, vdneff=vd, kL=float(kL), apodization=apo))
                if r is None:
                    continue
                H = r[1]
                if not check_H('C1', inp, H, n):
                    continue
                R0 = np.abs(H[n // 2]) ** 2
                ex = np.tanh(kL * I) ** 2
                if not abs(R0 - ex) < TOL_R * max(ex, 0.05):
                    bad('C3', inp, f"Bragg reflectivity {R0:.6f} != {ex:.6f}")
                if prev is not None and R0 < prev - 2e-3:
                    bad('SWEEP-kL', inp, f"Bragg reflectivity not monotone: {prev:.6f} -> {R0:.6f}")
                prev = R0
    # vdneff sweep at fixed kL: Bragg reflectivity does not depend on vdneff
    for fs in (20e9, 400e9):
        gv(fs=fs)
        x = optical_signal(np.ones(n))
        for kL in (0.1, 8):
            for vd in np.logspace(-5, -3, 41):
                inp = f"sweep vdneff={vd:.4g} fs={fs:g} kL={kL}"
                r = safe('SWEEP-vd', inp, lambda: call(x, landa_D=c / gv.f0, vdneff=float(vd), kL=kL, apodization='rcos'))
                if r is None:
                    continue
                if check_H('C1', inp, r[1], n):
                    R0 = np.abs(r[1][n // 2]) ** 2
                    ex = np.tanh(kL * 0.5) ** 2
                    if not abs(R0 - ex) < TOL_R * max(ex, 0.05):
                        bad('C3', inp, f"Bragg reflectivity {R0:.6f} != {ex:.6f}")
    # F sweep: bounded, continuous, symmetric
    gv(fs=100e9)
    x = optical_signal(np.ones(n))
    for vd, kL, apo in ((1e-4, 8, 'uniform'), (1e-5, 3, 'gaussian'), (1e-3, 0.1, 'parabolic'), (3e-4, 8, 'rcos')):
        prev = None
        Fs = np.linspace(-20, 20, 81)
        for F in Fs:
            inp = f"sweep F={F:.2f} vdneff={vd} kL={kL} apo={apo}"
            r = safe('SWEEP-F', inp, lambda: call(x, fc=gv.f0, vdneff=vd, kL=kL, F=float(F), apodization=apo))
            if r is None:
                prev = None
                continue
            if not check_H('C1', inp, r[1], n):
                prev = None
                continue
            a = np.abs(r[1])
            if prev is not None and np.abs(a - prev).max() > 0.25:
                bad('SWEEP-F', inp, f"|H| jumps by {np.abs(a - prev).max():.3f} for a step of 0.5 in F")
            prev = a
    # centre frequency swept across the band in sub-bin steps: peak follows, |H| bounded
    gv(fs=50e9)
    x = optical_signal(np.ones(n))
    df = gv.fs / n
    for m in np.concatenate([np.arange(-n // 2, -n // 2 + 3, 0.5), np.arange(-2, 2.01, 0.25), np.arange(n // 2 - 6, n // 2 - 2.9, 0.5)]):
        inp = f"centre at bin {m:+.2f} of {n} (inside the simulated band)"
        r = safe('SWEEP-fc', inp, lambda: call(x, fc=gv.f0 + m * df, vdneff=2e-5, kL=2.0))
        if r is None:
            continue
        if check_H('C1', inp, r[1], n):
            pk = np.argmax(np.abs(r[1])) - n // 2
            if abs(pk - m) > 1.01:
                bad('SWEEP-fc', inp, f"reflection peak at bin {pk}")
    # the centre may sit anywhere in the simulated band, including its last bins
    for m in (n // 2 - 3, n // 2 - 2, n // 2 - 1):
        inp = f"centre exactly on bin {m:+d} of {n} (last bins of the band)"
        r = safe('C1-edge', inp, lambda: call(x, fc=gv.f0 + m * df, vdneff=2e-5, kL=2.0))
        if r is not None and check_H('C1', inp, r[1], n):
            R0 = np.abs(r[1][n // 2 + m]) ** 2
            if not abs(R0 - np.tanh(2.0) ** 2) < TOL_R:
                bad('C3', inp, f"Bragg reflectivity {R0:.6f} != {np.tanh(2.0) ** 2:.6f}")


def main():
    for fn in (clause_incomplete, clause_two_pol_vs_one_pol, clause_invariance, clause_routes,
               clause_bragg_and_uniform, clause_sweeps, clause_bounds_and_filter):
        print(f"# {fn.__name__}: {fn.__doc__.strip()}", flush=True)
        fn()
    if VIOL:
        print(f"{len(VIOL)} violation(s)")
        sys.exit(1)
    print("PASS")
    sys.exit(0)


if __name__ == '__main__':
    main()
