# C16: "for an unchirped grating designed through vdneff the reflectivity at the Bragg frequency equals
# tanh^2(kL*integral of the apodisation profile) for any apodisation (built-in or user callable)".
# A smooth positive user profile with a localised bump is under-sampled by the ODE solver (silent wrong answer).
import sys; del sys.path[0]
import numpy as np, warnings
from scipy.integrate import quad
from opticomlib import gv, optical_signal
from opticomlib.devices import FBG
warnings.simplefilter('ignore')
gv(fs=20e9)
n = 256
apo = lambda z: 0.5 + np.exp(-((z + 0.125) / 0.12) ** 2)      # smooth, positive, 0.5 .. 1.5
_, H = FBG(optical_signal(np.ones(n)), fc=gv.f0, vdneff=1e-3, kL=1.0, apodization=apo, print_params=False, retH=True)
got = abs(H[n // 2]) ** 2                                      # bin n//2 is the Bragg frequency gv.f0
expected = np.tanh(1.0 * quad(apo, -0.5, 0.5)[0]) ** 2
print(f"Bragg reflectivity: expected tanh^2(kL*int apo) = {expected:.5f}, FBG gave {got:.5f}")
sys.exit(1 if abs(got - expected) > 1e-2 else 0)
