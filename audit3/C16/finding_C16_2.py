# C16: "for every valid design parameter combination the reflection response H ... at every frequency".
# A grating centred on one of the last two bins of the simulated band (or above it) raises IndexError,
# while the mirror-image centre on the first bins (or below the band) works.
import sys; del sys.path[0]
import numpy as np, warnings
from opticomlib import gv, optical_signal
from opticomlib.devices import FBG
warnings.simplefilter('ignore')
gv(fs=100e9)
n = 256
x = optical_signal(np.ones(n))
df = gv.fs / n
_, Hlow = FBG(x, fc=gv.f0 - (n // 2 - 1) * df, vdneff=1e-4, kL=2.0, print_params=False, retH=True)
print(f"centre on bin -{n//2-1}: ok, peak reflectivity {abs(Hlow).max()**2:.5f} (tanh^2(2) = {np.tanh(2.0)**2:.5f})")
try:
    _, H = FBG(x, fc=gv.f0 + (n // 2 - 1) * df, vdneff=1e-4, kL=2.0, print_params=False, retH=True)
    print(f"centre on bin +{n//2-1}: ok, peak reflectivity {abs(H).max()**2:.5f}")
except IndexError as e:
    print(f"centre on bin +{n//2-1}: expected the same response mirrored, got IndexError: {e}")
    sys.exit(1)
