"""Audit of property C17 (GET_EYE recovers the levels of a clean two-level signal in any unit).

Clauses
  K1  all of mu0, mu1, s0, s1, threshold, t_left, t_right, t_opt, i are finite
  K2  |mu0 - a| <= 8% (b-a)            K3  |mu1 - b| <= 8% (b-a)
  K4  sigma/2 <= s0, s1 <= 2 sigma + 3% (b-a)
  K5  mu0 < threshold < mu1
  K6  |t_right - t_left - 1| <= 0.1    K7  t_opt midway between the crossings (to one resampled step)
  K8  i is an integer in [0, sps)
  K9  equivariance: alpha*y+beta -> alpha*mu+beta, alpha*s, timing outputs identical
  R*  relations: container / dtype / view / read-only / noise attribute / argument passing / repeated calls / seed

Lines starting with NOTE are observations outside the literal quantifier; they do not change the exit status
unless --strict is given.
"""
import sys
del sys.path[0]
import itertools, warnings
import numpy as np
warnings.filterwarnings('ignore')
from scipy.ndimage import gaussian_filter1d
from opticomlib import gv, electrical_signal
from opticomlib.devices import GET_EYE, PRBS, DAC

STRICT = '--strict' in sys.argv
KEYS = ['mu0', 'mu1', 's0', 's1', 'threshold', 't_left', 't_right', 't_opt', 'i']
TIMING = ['t_left', 't_right', 't_opt', 'i']
viol = []
notes = []
ncalls = 0


def wave(bits, sps, a, b, sf, seed, bl=0.15, delay=0):
    """two-level NRZ, gaussian band-limiting (std bl slots, circular), white gaussian noise of std sf*(b-a)"""
    rng = np.random.default_rng(seed)
    x = np.repeat(np.asarray(bits, float), sps)
    if bl:
        x = gaussian_filter1d(x, bl * sps, mode='wrap')
    x = np.roll(x, delay)
    x = a + (b - a) * x
    return x, rng.normal(0, sf * (b - a), x.size)


def run(y, sps, seed=0, **kw):
    global ncalls
    ncalls += 1
    gv(sps=sps, R=1e9)
    np.random.seed(seed)
    return GET_EYE(y, sps_resamp=128, **kw)


def vals(e):
    return {k: getattr(e, k) for k in KEYS}


def check(e, a, b, sf, sps, skip_s=False):
    D = b - a
    sig = sf * D
    v = vals(e)
    bad = [f'K1 {k} not finite ({v[k]})' for k in KEYS if v[k] is None or not np.isfinite(v[k])]
    if bad:
        return bad
    if abs(v['mu0'] - a) > 0.08 * D: bad.append(f"K2 mu0={v['mu0']:.6g} a={a}")
    if abs(v['mu1'] - b) > 0.08 * D: bad.append(f"K3 mu1={v['mu1']:.6g} b={b}")
    if not skip_s:
        for k in ('s0', 's1'):
            if not (sig / 2 <= v[k] <= 2 * sig + 0.03 * D): bad.append(f"K4 {k}={v[k] / D:.4g}(b-a) sigma={sf}(b-a)")
    if not (v['mu0'] < v['threshold'] < v['mu1']): bad.append(f"K5 threshold={v['threshold']}")
    if abs(v['t_right'] - v['t_left'] - 1) > 0.1: bad.append(f"K6 t_right-t_left={v['t_right'] - v['t_left']:.4f}")
    if abs(v['t_opt'] - (v['t_left'] + v['t_right']) / 2) > 1 / 128 + 1e-12: bad.append(f"K7 t_opt={v['t_opt']} crossings {v['t_left']},{v['t_right']}")
    if not (isinstance(v['i'], (int, np.integer)) and not isinstance(v['i'], bool) and 0 <= v['i'] < sps): bad.append(f"K8 i={v['i']!r}")
    return bad


def case(tag, y, sps, a, b, sf, seed=0, sink=viol, skip_s=False, **kw):
    try:
        e = run(y, sps, seed, **kw)
        bad = check(e, a, b, sf, sps, skip_s)
    except Exception as ex:
        e, bad = None, [f'EXC {type(ex).__name__}: {ex}']
    for m in bad:
        sink.append(f'{tag}: {m}')
    return e


rng = np.random.default_rng(2024)
gv(sps=8, R=1e9)
PAT = {f'rand{n}': rng.integers(0, 2, n) for n in (64, 65, 66, 67, 100, 128, 255, 1000)}
for o in (7, 9, 11):
    PAT[f'prbs{o}'] = np.asarray(PRBS(order=o).data)
PAT['prbs7[:64]'] = PAT['prbs7'][:64]
PAT['rand64_p.3'] = (rng.random(64) < 0.3).astype(int)
PAT['rand64_p.7'] = (rng.random(64) < 0.7).astype(int)
LEVELS = ((0, 1e-3), (0, 1), (-50, 50), (1, 101), (-3.3, -2.9), (1000, 1000.001), (-1e-3, 0), (0.5e-3, 1.5e-3))

# ---- A: grid over patterns x sps x level pairs x sigma (both inclusive ends) x band-limiting ------------------
for (name, bits), sps, (a, b), (sf, bl) in itertools.product(PAT.items(), (8, 16, 32), LEVELS, ((0.005, 0.1), (0.05, 0.2), (0.02, 0.15))):
    y, n = wave(bits, sps, a, b, sf, 1, bl)
    case(f'A {name} sps={sps} a={a} b={b} sigma={sf} bl={bl}', y + n, sps, a, b, sf)

# ---- B: every record length 64..135 slots, and records with 1..2*sps-1 extra samples ------------------------------
for sps in (8, 16, 32):
    for nb in range(64, 136):
        bits = rng.integers(0, 2, nb)
        y, n = wave(bits, sps, 0, 1, 0.02, nb)
        case(f'B nb={nb} sps={sps}', y + n, sps, 0, 1, 0.02, seed=nb % 3)
    for extra in range(1, 2 * sps):
        y, n = wave(rng.integers(0, 2, 64), sps, 0, 1, 0.02, extra)
        y = y + n
        case(f'B 64 slots + {extra} samples sps={sps}', np.r_[y, y[:extra]], sps, 0, 1, 0.02)

# ---- C: exhaustive periodic words of length 2..6 (both symbols present), resized to 64/65/66 slots -----------------
for L in range(2, 7):
    for w in itertools.product((0, 1), repeat=L):
        if len(set(w)) < 2:
            continue
        for nb, sps, sf, bl in ((64, 8, 0.005, 0.1), (65, 32, 0.05, 0.2), (66, 16, 0.02, 0.15)):
            bits = np.resize(np.array(w), nb)
            y, n = wave(bits, sps, -1, 2, sf, L, bl)
            case(f"C word={''.join(map(str, w))} nb={nb} sps={sps}", y + n, sps, -1, 2, sf)

# ---- D: few minority symbols at the first / last positions (s-clause skipped: < 10 independent samples) -------------
for sps, nb, k, minority in itertools.product((8, 32), (64, 65), (1, 2, 4), (0, 1)):
    for pos in (0, 1, 31, 32, nb - 2, nb - 1):
        bits = np.full(nb, 1 - minority)
        bits[(pos + np.arange(k)) % nb] = minority
        y, n = wave(bits, sps, 0, 1, 0.02, 1)
        dropped = nb % 2 == 1 and not np.any(bits[:nb - 1] == minority)
        case(f'D minority={minority} k={k} pos={pos} nb={nb} sps={sps}', y + n, sps, 0, 1, 0.02, skip_s=True,
             sink=notes if dropped else viol)  # the only minority symbol sits in the odd last slot, which a two-slot eye drops

# ---- E: fine sweeps over the whole stated range ----------------------------------------------------------
bits = rng.integers(0, 2, 128)
for sps in (8, 16, 32):
    for sf in np.linspace(0.005, 0.05, 46):
        y, n = wave(bits, sps, -1, 2, float(sf), 1)
        case(f'E sigma sweep sf={sf:.4f} sps={sps}', y + n, sps, -1, 2, float(sf))
    for D in np.logspace(-3, 2, 51):
        D = float(D)
        y, n = wave(bits, sps, -1, -1 + D, 0.005, 2)
        case(f'E D sweep D={D:.4g} a=-1 sps={sps}', y + n, sps, -1, -1 + D, 0.005)
        y, n = wave(bits, sps, 0.3 * D, 1.3 * D, 0.05, 2)
        case(f'E D sweep D={D:.4g} a=.3D sps={sps}', y + n, sps, 0.3 * D, 1.3 * D, 0.05)
    for bl in np.linspace(0, 0.2, 11):
        y, n = wave(bits, sps, 0, 1, 0.01, 2, float(bl))
        case(f'E band-limit sweep bl={bl:.2f} sps={sps}', y + n, sps, 0, 1, 0.01)

# ---- F: waveforms built by the library (DAC with bandwidth, noise attribute) ---------------------------------
for sps, (a, D), sf, BW in itertools.product((8, 16, 32), ((0, 1e-3), (-24, 47), (0.2, 1)), (0.005, 0.05), (0.75e9, 1.5e9)):
    gv(sps=sps, R=1e9)
    for name in ('prbs7', 'rand65', 'prbs9'):
        y = DAC(PAT[name], bias=a, Vout=D, pulse_shape='nrz', BW=BW)
        y.noise = np.random.default_rng(3).normal(0, sf * D, y.len())
        case(f'F DAC {name} sps={sps} a={a} D={D} sigma={sf} BW={BW}', y, sps, a, a + D, sf)
gv(sps=16, R=1e9)
y = DAC(PRBS(order=15), bias=0, Vout=1, BW=1e9)   # 32767 slots > default nslots
y.noise = np.random.default_rng(3).normal(0, 0.02, y.len())
case('F DAC prbs15 sps=16', y, 16, 0, 1, 0.02)

# ---- G: equivariance under alpha*y + beta (K9) --------------------------------------------------------------
for trial in range(120):
    sps = int(rng.choice([8, 16, 32]))
    bits = rng.integers(0, 2, int(rng.choice([64, 65, 100, 127, 200])))
    D = float(10 ** rng.uniform(-3, 2)) if trial % 5 else (1e-3, 100.0)[trial % 2]
    a = float(rng.uniform(-2, 2) * D * rng.choice([0, 1, 10]))
    sf = float(rng.uniform(0.005, 0.05))
    alpha = float(10 ** rng.uniform(-3, 3)) if trial % 7 else (1e-3, 1e3)[trial % 2]
    beta = float(rng.choice([0, 1, -1, 1000, -1e4]) * rng.uniform(0, 1) * rng.choice([1, D, alpha * D]))
    x, n = wave(bits, sps, a, a + D, sf, trial, float(rng.uniform(0.05, 0.2)))
    y = x + n
    tag = f'G trial={trial} sps={sps} D={D:.3g} a={a:.3g} alpha={alpha:.3g} beta={beta:.3g}'
    e0 = case(tag, y, sps, a, a + D, sf, seed=trial % 3)
    try:
        e1 = run(alpha * y + beta, sps, trial % 3)
    except Exception as ex:
        viol.append(f'{tag}: K9 EXC {type(ex).__name__}: {ex}')
        continue
    if e0 is None:
        continue
    v0, v1 = vals(e0), vals(e1)
    if any(v is None for v in list(v0.values()) + list(v1.values())):
        viol.append(f'{tag}: K9 None output')
        continue
    for k in TIMING:
        if v0[k] != v1[k]: viol.append(f'{tag}: K9 {k} {v0[k]} -> {v1[k]}')
    tol = 1e-6 * alpha * D + 16 * np.finfo(float).eps * np.abs(alpha * y + beta).max()  # a few ulp of the offset samples
    for k in ('mu0', 'mu1', 'threshold'):
        if abs(v1[k] - (alpha * v0[k] + beta)) > tol: viol.append(f'{tag}: K9 {k} expected {alpha * v0[k] + beta} got {v1[k]}')
    for k in ('s0', 's1'):
        if abs(v1[k] - alpha * v0[k]) > tol: viol.append(f'{tag}: K9 {k} expected {alpha * v0[k]} got {v1[k]}')

# ---- H: relations that must give the identical estimate ----------------------------------------------------
def same(tag, e0, f, tol=0.0, D=1.0):
    try:
        e1 = f()
    except Exception as ex:
        viol.append(f'{tag}: R EXC {type(ex).__name__}: {ex}')
        return
    v0, v1 = vals(e0), vals(e1)
    for k in KEYS:
        if v0[k] is None or v1[k] is None or not abs(v0[k] - v1[k]) <= tol * D:
            viol.append(f'{tag}: R {k} {v0[k]!r} -> {v1[k]!r}')


def ro(z):
    z = z.copy()
    z.setflags(write=False)
    return z


for trial in range(9):
    sps = (8, 16, 32)[trial % 3]
    nb = (64, 65, 127)[trial // 3]
    D = (1e-3, 1.0, 100.0)[trial % 3]
    a = (0.0, -D / 2, 3 * D)[(trial + 1) % 3]
    sf = (0.005, 0.02, 0.05)[trial // 3]
    x, n = wave(rng.integers(0, 2, nb), sps, a, a + D, sf, trial)
    y = x + n
    e0 = case(f'H trial={trial}', y, sps, a, a + D, sf)
    if e0 is None:
        continue
    variants = {
        'electrical_signal(y)': lambda: electrical_signal(y),
        'electrical_signal(x, noise=n)': lambda: electrical_signal(x, n),
        'noise of zeros': lambda: electrical_signal(y, np.zeros_like(y)),
        'list': lambda: list(y), 'tuple': lambda: tuple(y),
        'complex128': lambda: y.astype(complex),
        'complex signal + complex noise': lambda: electrical_signal(x.astype(complex), n.astype(complex)),
        'read-only': lambda: ro(y),
        'read-only signal object': lambda: electrical_signal(ro(x), ro(n)),
        'strided view': lambda: np.stack([y, y], 1)[:, 0],
        'Fortran 2-col view': lambda: np.asfortranarray(np.stack([y, y], 1))[:, 1],
        'slice of a longer signal': lambda: electrical_signal(np.r_[y, y])[:y.size],
    }
    for k, mk in variants.items():
        same(f'H trial={trial} {k}', e0, lambda: run(mk(), sps))
    gv(sps=sps, R=1e9)
    calls = {
        'positional': lambda: GET_EYE(y, 4096, 128),
        'keywords': lambda: GET_EYE(input=y, nslots=4096, sps_resamp=128),
        'nslots = number of slots': lambda: GET_EYE(y, nslots=(nb // 2) * 2, sps_resamp=128),
        'nslots huge': lambda: GET_EYE(y, nslots=10 ** 7, sps_resamp=128),
    }
    for k, c in calls.items():
        def f(c=c):
            gv(sps=sps, R=1e9)
            np.random.seed(0)
            return c()
        same(f'H trial={trial} {k}', e0, f)
    es = electrical_signal(x.copy(), n.copy())
    yy = y.copy()
    run(es, sps), run(yy, sps)
    if not ((es.signal == x).all() and (es.noise == n).all() and (yy == y).all()):
        viol.append(f'H trial={trial}: R input modified by the call')
    same(f'H trial={trial} repeated call', e0, lambda: run(y, sps))
    run(y[: 64 * sps] * 3 + 1, 8 if sps != 8 else 16)   # another call with another gv in between
    same(f'H trial={trial} after an unrelated call', e0, lambda: run(y, sps))
    for s in (1, 2, 3, 12345):
        same(f'H trial={trial} clustering seed {s}', e0, lambda: run(y, sps, s), tol=1e-9, D=D)
    # integer-typed samples (driver signal on a 1 V grid) against the same values as floats
    if D == 100.0:
        yi = np.round(y).astype(np.int64)
        ei = run(yi.astype(float), sps)
        same(f'H trial={trial} int64', ei, lambda: run(yi, sps))

# ---- N: observation outside the literal quantifier: the same waveform delayed by 0..sps-1 samples ---------------
sink = viol if STRICT else notes
for sps in (8, 16, 32):
    bits = np.random.default_rng(1).integers(0, 2, 64)
    for delay in range(sps):
        y, n = wave(bits, sps, 0, 1, 0.02, 3, delay=delay)
        e = case(f'N delay={delay}/{sps} samples', y + n, sps, 0, 1, 0.02, sink=sink)
        if e is not None and e.i is not None:
            want = (sps // 2 + delay) % sps
            err = min((e.i - want) % sps, (want - e.i) % sps)
            if err > max(1, sps // 16):
                sink.append(f'N delay={delay}/{sps} samples: sampling index i={e.i}, centre of the delayed slot is {want} (off by {err} samples)')

for m in notes:
    print('NOTE', m)
for m in viol:
    print('VIOLATION', m)
print(f'{ncalls} GET_EYE calls, {len(viol)} violations, {len(notes)} notes')
if viol:
    sys.exit(1)
print('PASS')
