# BORDERLINE (the delay is not a quantified variable of C17): a clean NRZ waveform whose slot boundaries sit half a slot
# away from the sample-grid origin gives crossings 1.2 slots apart and a sampling index 5/32 slot off the eye centre.
import sys; del sys.path[0]
import numpy as np
from scipy.ndimage import gaussian_filter1d
from opticomlib import gv
from opticomlib.devices import GET_EYE
sps = 32; gv(sps=sps, R=1e9)
rng = np.random.default_rng(1)
x = gaussian_filter1d(np.repeat(rng.integers(0, 2, 64).astype(float), sps), 0.15*sps, mode='wrap')  # levels 0 / 1 V
out = {}
for delay in (0, sps//2):
    np.random.seed(0)
    e = GET_EYE(np.roll(x, delay) + np.random.default_rng(3).normal(0, 0.02, x.size), sps_resamp=128)
    out[delay] = e
    print(f'delay {delay:2d}: t_left={e.t_left:.4f} t_right={e.t_right:.4f} t_opt={e.t_opt:.4f} i={e.i}')
e = out[sps//2]
print(f'expected t_right-t_left within 10% of 1 and i = ({out[0].i}+{sps//2}) % {sps} = {(out[0].i+sps//2)%sps}; got {e.t_right-e.t_left:.4f} and i={e.i}')
sys.exit(1 if abs(e.t_right - e.t_left - 1) > 0.1 else 0)
