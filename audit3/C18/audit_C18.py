"""Audit of property C18: ADC is a true n-bit quantiser; shortest_int returns a
shortest covering interval.  Relations / invariances / sweeps (third audit)."""
import sys
del sys.path[0]
import math
import itertools
import warnings
import numpy as np

warnings.simplefilter("ignore")

from opticomlib.devices import ADC
from opticomlib.utils import shortest_int
from opticomlib import electrical_signal

VIOL = []
SEEN = {}


def viol(clause, desc):
    k = SEEN.get(clause, 0)
    SEEN[clause] = k + 1
    if k < 6:                      # at most 6 printed lines per clause
        print(f"VIOLATION [{clause}] {desc}")
    VIOL.append((clause, desc))


def sig(out):
    return np.asarray(out.signal if hasattr(out, "signal") else out)


# --------------------------------------------------------------------------
# shortest_int
# --------------------------------------------------------------------------
def check_si(data, p, tag):
    arr = np.asarray(data)
    L = len(arr)
    lag = math.floor(p * L / 100)
    try:
        r = shortest_int(data, p)
    except Exception as e:
        viol("S0 returns", f"{tag} p={p!r} len={L}: raised {e!r}")
        return None
    if len(r) != 2:
        viol("S0 returns", f"{tag} p={p!r}: {r!r}")
        return None
    lo, hi = r[0], r[1]
    s = np.sort(arr)
    if not (lo <= hi):
        viol("S1 lo<=hi", f"{tag} p={p!r}: lo={lo!r} hi={hi!r}")
    if not (np.any(s == lo) and np.any(s == hi)):
        viol("S2 data values", f"{tag} p={p!r}: lo={lo!r} hi={hi!r} not both in data")
        return r
    if lag >= L:
        viol("S3 lag", f"{tag} p={p!r} len={L}: lag {lag} >= len")
        return r
    d = s[lag:] - s[:L - lag]
    # exists i with s[i]==lo, s[i+lag]==hi
    ok = np.any((s[:L - lag] == lo) & (s[lag:] == hi))
    if not ok:
        viol("S3 lag apart", f"{tag} p={p!r} len={L} lag={lag}: ({lo!r},{hi!r}) are not order statistics lag apart")
    if hi - lo != d.min():
        viol("S4 shortest", f"{tag} p={p!r} len={L} lag={lag}: width {hi - lo!r} > min {d.min()!r}")
    cnt = np.count_nonzero((arr >= lo) & (arr <= hi))
    if cnt < lag + 1:
        viol("S5 coverage", f"{tag} p={p!r} len={L} lag={lag}: only {cnt} samples in [{lo!r},{hi!r}]")
    return r


PCTS = [float(np.nextafter(0.0, 1.0)), 1e-9, 0.01, 1, 5, 10, 12.5, 20, 25, 30, 100 / 3, 33.3, 40, 49.999, 50,
        50.001, 60, 66.7, 200 / 3, 70, 75, 80, 87.5, 90, 95, 99, 99.9, 99.99, 99.9999,
        float(np.nextafter(100.0, 0.0))]


def audit_shortest_int():
    rng = np.random.default_rng(1801)
    # exhaustive: every multiset over a small alphabet, lengths 1..7
    alpha = [0, 1, 2, 5]
    for L in range(1, 8):
        for combo in itertools.combinations_with_replacement(alpha, L):
            base = np.array(combo, dtype=np.int64)
            perm = rng.permutation(base)
            for p in PCTS:
                r0 = check_si(perm, p, f"exh{combo}")
                if r0 is None:
                    continue
                # container / dtype / layout invariance
                alts = {
                    "list": list(map(int, perm)), "tuple": tuple(map(int, perm)),
                    "float64": perm.astype(float), "sorted": base, "reversed-view": perm[::-1],
                    "strided-view": np.repeat(perm, 2)[::2],
                }
                ro = perm.astype(float); ro.setflags(write=False); alts["readonly"] = ro
                for name, alt in alts.items():
                    try:
                        r1 = shortest_int(alt, p)
                        if not (r1[0] == r0[0] and r1[1] == r0[1]):
                            viol("S6 container/dtype/order invariance", f"{combo} p={p!r} {name}: {r1!r} != {r0!r}")
                    except Exception as e:
                        viol("S6 container/dtype/order invariance", f"{combo} p={p!r} {name}: raised {e!r}")
                # affine map with exact arithmetic
                r2 = shortest_int(perm * 4 - 7, p)
                if not (r2[0] == 4 * r0[0] - 7 and r2[1] == 4 * r0[1] - 7):
                    viol("S7 scale/offset invariance", f"{combo} p={p!r}: {r2!r} vs 4*{r0!r}-7")
                r3 = shortest_int(perm.astype(float) * 2.0 ** -20, p)
                if not (r3[0] == r0[0] * 2.0 ** -20 and r3[1] == r0[1] * 2.0 ** -20):
                    viol("S7 scale/offset invariance", f"{combo} p={p!r}: unit 2^-20 {r3!r} vs {r0!r}")
                r4 = shortest_int(-perm, p)       # mirror: same width
                if r4[1] - r4[0] != r0[1] - r0[0]:
                    viol("S8 mirror width", f"{combo} p={p!r}: {r4!r} vs {r0!r}")
    # input not mutated, repeated call
    x = rng.integers(0, 8, 1000).astype(float)
    x0 = x.copy()
    a = shortest_int(x, 50); b = shortest_int(x, 50)
    if not np.array_equal(x, x0):
        viol("S9 input untouched", "shortest_int modified its input")
    if not np.array_equal(a, b):
        viol("S9 repeatable", f"{a!r} != {b!r}")
    d1 = shortest_int(x); d2 = shortest_int(x, 50); d3 = shortest_int(data=x, percent=50)
    if not (np.array_equal(d1, d2) and np.array_equal(d2, d3)):
        viol("S10 default/keyword", f"{d1!r} {d2!r} {d3!r}")
    # seeded random data with ties, fine sweep of the percentage across (0, 100)
    for seed in range(40):
        r = np.random.default_rng(seed)
        L = int(r.choice([1, 2, 3, 7, 10, 64, 99, 100, 101, 1000, 4096, 10000, 10001]))
        kind = seed % 4
        if kind == 0:
            d = r.integers(0, 4, L)
        elif kind == 1:
            d = np.round(r.normal(size=L) * 3) / 8
        elif kind == 2:
            d = np.round(np.sin(np.arange(L) * 0.37) * 7)
        else:
            d = r.uniform(-1, 1, L)
        prev_w = -1
        for p in np.concatenate([np.linspace(0, 100, 401)[1:-1], PCTS]):
            p = float(p)
            rr = check_si(d, p, f"rand seed={seed} len={L}")
        # monotonic width in p
        for p in np.linspace(0, 100, 401)[1:-1]:
            rr = shortest_int(d, float(p))
            w = rr[1] - rr[0]
            if w < prev_w:
                viol("S11 width non-decreasing in p", f"seed={seed} len={L} p={p}: {w} < {prev_w}")
            prev_w = w
    # every length 1..300 with p just inside both ends and percentages making p*len/100 integral
    for L in range(1, 301):
        d = rng.integers(0, 5, L)
        for p in (PCTS[0], PCTS[-1], 50.0, 100.0 * (L - 1) / L, 100.0 / L, 99.99):
            if 0 < p < 100:
                check_si(d, p, f"len-sweep len={L}")
    # end of the percentage range on the largest sizes
    for L in (2 ** 16, 2 ** 17 - 1, 2 ** 17):
        d = rng.integers(0, 16, L)
        for p in (PCTS[0], 99.99, PCTS[-1]):
            check_si(d, p, f"big len={L}")


# --------------------------------------------------------------------------
# ADC
# --------------------------------------------------------------------------
def check_adc(x, n, tag, full=True):
    """x: 1-D real ndarray.  All clauses for both otypes + the v/n relation."""
    L = len(x)
    vmin, vmax = shortest_int(x, 99.99)
    x0 = np.array(x, copy=True)
    try:
        ov = ADC(x, n=n, otype='v')
        on = ADC(x, n=n, otype='n')
    except Exception as e:
        viol("A0 returns", f"{tag} n={n} len={L}: raised {e!r}")
        return
    if not np.array_equal(np.asarray(x), x0):
        viol("A9 input untouched", f"{tag} n={n}")
    v = sig(ov); c = sig(on)
    if not (isinstance(ov, electrical_signal) and isinstance(on, electrical_signal)):
        viol("A0 returns", f"{tag} n={n}: not electrical_signal")
    if v.shape != (L,) or c.shape != (L,) or ov.len() != L:
        viol("A1 length", f"{tag} n={n}: in {L} out {v.shape} {c.shape}")
        return
    if len(np.unique(v)) > 2 ** n or len(np.unique(c)) > 2 ** n:
        viol("A2 <=2^n values", f"{tag} n={n}: {len(np.unique(v))} values / {len(np.unique(c))} codes")
    if not np.all(np.isfinite(v)):
        viol("A3 within [Vmin,Vmax]", f"{tag} n={n} len={L}: non-finite output")
    elif v.min() < vmin or v.max() > vmax:
        viol("A3 within [Vmin,Vmax]", f"{tag} n={n} len={L}: out [{v.min()!r},{v.max()!r}] range [{vmin!r},{vmax!r}]")
    if not (np.issubdtype(c.dtype, np.integer) or np.all(c == np.round(c))):
        viol("A4 integer codes", f"{tag} n={n}: dtype {c.dtype}")
    if c.min() < 0 or c.max() > 2 ** n - 1:
        viol("A4 codes in 0..2^n-1", f"{tag} n={n}: [{c.min()},{c.max()}]")
    xf = np.asarray(x, dtype=float)
    inside = (xf >= vmin) & (xf <= vmax)
    step = (float(vmax) - float(vmin)) / (2 ** n - 1)
    tol = step / 2 * (1 + 1e-9) + 8 * np.spacing(max(abs(float(vmin)), abs(float(vmax)), 1e-300))
    if np.any(inside):
        mv = np.abs(v[inside] - xf[inside]).max()
        if not mv <= tol:
            viol("A5 half step ('v')", f"{tag} n={n} len={L}: moved {mv!r} > step/2 {step / 2!r}")
        mn = np.abs(c[inside] * step + float(vmin) - xf[inside]).max()
        if not mn <= tol:
            viol("A5 half step ('n')", f"{tag} n={n} len={L}: moved {mn!r} > step/2 {step / 2!r}")
    if np.any(xf > vmax) and not np.all(c[xf > vmax] == 2 ** n - 1):
        viol("A6 saturate high", f"{tag} n={n} len={L}: codes {np.unique(c[xf > vmax])}")
    if np.any(xf < vmin) and not np.all(c[xf < vmin] == 0):
        viol("A6 saturate low", f"{tag} n={n} len={L}: codes {np.unique(c[xf < vmin])}")
    if step > 0:
        if np.any(xf == vmax) and not np.all(c[xf == vmax] == 2 ** n - 1):
            viol("A6 end code at Vmax", f"{tag} n={n}")
        if np.any(xf == vmin) and not np.all(c[xf == vmin] == 0):
            viol("A6 end code at Vmin", f"{tag} n={n}")
    # relation v <-> n ; monotonicity
    order = np.argsort(xf, kind="stable")
    if np.any(np.diff(c[order]) < 0):
        viol("A7 monotone codes", f"{tag} n={n}")
    if np.any(np.diff(v[order]) < 0):
        viol("A7 monotone levels", f"{tag} n={n}")
    if step > 0:
        # same partition of the samples in both output types
        _, iv = np.unique(v, return_inverse=True)
        _, ic = np.unique(c, return_inverse=True)
        if not np.array_equal(iv, ic):
            viol("A8 'v' and 'n' agree", f"{tag} n={n} len={L}")
        if not np.allclose(v, c * step + float(vmin), rtol=1e-12, atol=1e-12 * max(abs(float(vmin)), abs(float(vmax)))):
            viol("A8 'v' = Vmin + code*step", f"{tag} n={n} len={L}")
    if not full:
        return
    # ---- invariances -------------------------------------------------------
    alts = {}
    alts["electrical_signal"] = electrical_signal(x)
    alts["electrical_signal noise=0"] = electrical_signal(x, noise=np.zeros(L))
    if L <= 2000:
        alts["list"] = [t.item() for t in np.asarray(x)]
        alts["tuple"] = tuple(t.item() for t in np.asarray(x))
    ro = np.array(x, copy=True); ro.setflags(write=False); alts["readonly"] = ro
    alts["fortran"] = np.asfortranarray(x)
    alts["strided view"] = np.repeat(np.asarray(x), 2)[::2]
    alts["negative-stride view"] = np.asarray(x)[::-1][::-1]
    if np.asarray(x).dtype == np.int64:
        alts["float64 of int64"] = np.asarray(x).astype(float)
    for name, alt in alts.items():
        for ot, ref in (('v', v), ('n', c)):
            try:
                o = sig(ADC(alt, n=n, otype=ot))
                if not np.array_equal(o, ref):
                    viol("A10 container/dtype/view invariance", f"{tag} n={n} otype={ot} {name}: differs from ndarray call (max {np.abs(o - ref).max()!r})")
            except Exception as e:
                viol("A10 container/dtype/view invariance", f"{tag} n={n} otype={ot} {name}: raised {e!r}")
    # positional / keyword / defaults / repeat
    calls = {
        "positional": lambda: ADC(x, None, n, 'n'),
        "keyword": lambda: ADC(input=x, fs=None, n=n, otype='n'),
        "repeat": lambda: ADC(x, n=n, otype='n'),
    }
    for name, f in calls.items():
        try:
            if not np.array_equal(sig(f()), c):
                viol("A11 positional/keyword/repeat", f"{tag} n={n} {name}")
        except Exception as e:
            viol("A11 positional/keyword/repeat", f"{tag} n={n} {name}: raised {e!r}")
    if n == 8:
        if not np.array_equal(sig(ADC(x)), v):
            viol("A11 defaults n=8 otype='v'", f"{tag}")
    # noise carried by the object: the converter sees signal + noise
    w = np.random.default_rng(L + n).normal(size=L) * 0.05 * (np.ptp(xf) + 1)
    tot = np.asarray(x) + w
    a = sig(ADC(electrical_signal(x, noise=w), n=n, otype='n'))
    b = sig(ADC(tot, n=n, otype='n'))
    if not np.array_equal(a, b):
        viol("A12 signal+noise object vs summed array", f"{tag} n={n}")
    # scale by a power of two and shift by zero: exact invariance of the codes
    s = sig(ADC(np.asarray(x) * 2.0 ** 10, n=n, otype='n'))
    if not np.array_equal(s, c):
        viol("A13 unit invariance (x1024)", f"{tag} n={n}: {np.count_nonzero(s != c)} codes differ")
    # order of the samples does not matter
    perm = np.random.default_rng(7).permutation(L)
    pc = sig(ADC(np.asarray(x)[perm], n=n, otype='n'))
    if not np.array_equal(pc, c[perm]):
        viol("A14 permutation equivariance", f"{tag} n={n}")


def signals(L, rng):
    t = np.arange(L)
    yield "gauss", rng.normal(size=L) * 0.3 + 0.1
    yield "uniform", rng.uniform(-2.5, 4.0, L)
    yield "sine", 1.7 * np.sin(2 * np.pi * t * 0.0371 + 0.3) + 0.2
    yield "quantised", np.round(rng.normal(size=L) * 2) / 4
    yield "int64", rng.integers(-20, 21, L).astype(np.int64)
    yield "two-level", (rng.random(L) < 0.5).astype(float) * 3.3


def audit_adc():
    rng = np.random.default_rng(1802)
    # exhaustive tiny inputs: lengths 2..4 over a small alphabet, all n
    alpha = [-1.0, 0.0, 0.5, 2.0]
    for L in (2, 3, 4):
        for combo in itertools.product(alpha, repeat=L):
            if len(set(combo)) < 2:
                continue
            for n in (1, 2, 3, 8, 12):
                check_adc(np.array(combo), n, f"exh{combo}", full=(L == 2))
    # every small length, all n
    for L in list(range(2, 41)) + [63, 64, 65, 100, 127, 255, 256, 257, 1000, 1023]:
        for name, x in signals(L, rng):
            if np.ptp(x) == 0:
                continue
            for n in range(1, 13):
                check_adc(x, n, f"{name} len={L}", full=(n in (1, 8, 12) and L <= 100))
    # around 10^4 (where the 99.99 % range starts to exclude samples) and up to 2^17
    for L in (9999, 10000, 10001, 19999, 20000, 20001, 2 ** 14, 2 ** 15 + 1, 2 ** 16, 2 ** 17 - 1, 2 ** 17):
        for name, x in signals(L, rng):
            for n in (1, 2, 5, 8, 11, 12):
                check_adc(x, n, f"{name} len={L}", full=(n == 8 and L in (10001, 2 ** 17)))
        # explicit outliers on both sides
        x = rng.normal(size=L)
        x[3] = 1e6; x[L // 2] = -1e6; x[-1] = 50.0
        for n in (1, 4, 12):
            check_adc(x, n, f"gauss+outliers len={L}")
        x = np.round(rng.normal(size=L) * 3)
        x[0] = 1e300; x[-1] = -1e300
        for n in (1, 8):
            check_adc(x, n, f"quantised+huge outliers len={L}", full=False)
        # rare level: two-level signal whose 99.99 % range may have zero width
        for k in (1, 2, 3):
            x = np.zeros(L); x[rng.choice(L, k, replace=False)] = 1.0
            for n in (1, 8):
                check_adc(x, n, f"rare level k={k} len={L}", full=False)
    # dtype invariance on a record with samples below / above the 99.99 % range
    x = rng.integers(100, 200, 40000); x[5:8] = (0, 1, 2); x[9:11] = (5000, 6000)
    for n in (1, 4, 12):
        ref = sig(ADC(x.astype(np.float64), n=n, otype='n'))
        for dt in (np.int64, np.complex128, np.uint64, np.uint32):
            try:
                got = sig(ADC(x.astype(dt), n=n, otype='n'))
                if not np.array_equal(got, ref):
                    bad = np.flatnonzero(got != ref)
                    viol("A15 dtype invariance", f"quantised 100..199 + outliers len=40000 n={n} dtype={dt.__name__}: "
                         f"samples {x[bad[:3]]} got codes {got[bad[:3]]} instead of {ref[bad[:3]]}")
            except Exception as e:
                viol("A15 dtype invariance", f"n={n} dtype={dt.__name__}: raised {e!r}")
    # fine sweep of the amplitude scale / offset (continuity: no NaN, no clause broken)
    base = rng.normal(size=501)
    for a in np.logspace(-12, 12, 49):
        for b in (0.0, 1.0, -1e3, 1e6):
            for n in (1, 8, 12):
                check_adc(base * a + b, n, f"scale={a:.3g} offset={b}", full=False)
    # seeded random
    for seed in range(60):
        r = np.random.default_rng(5000 + seed)
        L = int(r.integers(2, 3000))
        n = int(r.integers(1, 13))
        x = list(signals(L, r))[seed % 6][1] * r.uniform(0.01, 100) + r.uniform(-10, 10)
        if np.ptp(x) == 0:
            continue
        check_adc(x, n, f"rand seed={seed} len={L}", full=(seed % 3 == 0))


if __name__ == "__main__":
    audit_shortest_int()
    audit_adc()
    if VIOL:
        print("-- summary --")
        for k, cnt in SEEN.items():
            print(f"{k}: {cnt} violating inputs")
        sys.exit(1)
    print("PASS")
    sys.exit(0)
