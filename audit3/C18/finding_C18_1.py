# ADC(otype='v'): the top level is rebuilt as (V_max - V_min) + V_min, which is not V_max in floating point:
# the output leaves the estimated full-scale range [V_min, V_max] upwards (by one ulp).
import sys
del sys.path[0]
import numpy as np
from opticomlib.devices import ADC
from opticomlib.utils import shortest_int

x = np.array([-1.0, 0.0, 0.3])                 # real signal, length 3, n = 2
V_min, V_max = shortest_int(x, 99.99)          # (-1.0, 0.3): the estimated full-scale range
y = ADC(x, n=2, otype='v').signal
print("expected: every output value within [V_min, V_max] =", (float(V_min), float(V_max)))
print("got     : max(output) =", repr(float(y.max())), " (sample 0.3 == V_max came out as", repr(float(y[2])), ")")
sys.exit(1 if (y.max() > V_max or y.min() < V_min) else 0)
