# ADC on an unsigned-integer record (e.g. raw codes of another converter): `signal - V_min` is evaluated in the
# unsigned dtype, so samples BELOW the 99.99 % range wrap to huge values and get the TOP code instead of code 0.
import sys
del sys.path[0]
import numpy as np
from opticomlib.devices import ADC
from opticomlib.utils import shortest_int

x = np.random.default_rng(3).integers(100, 200, 40000)       # quantised amplitudes 100..199, 4e4 samples
x[5:8] = (0, 1, 2)                                           # three low outliers, excluded by the 99.99 % range
ref = ADC(x.astype(np.float64), n=4, otype='n').signal[5:8]  # float64 / int64: [0 0 0]
got = ADC(x.astype(np.uint64), n=4, otype='n').signal[5:8]   # same values as uint64 (uint32 alike)
print("range:", shortest_int(x, 99.99), " expected codes of the samples below it:", ref, " got:", got)
sys.exit(0 if np.array_equal(ref, got) and np.all(got == 0) else 1)
