import sys
sys.path.pop(0)                       # do not import from the script's own directory
import itertools, warnings, math
from decimal import Decimal, getcontext
import numpy as np
import opticomlib
from opticomlib import (db, dbm, idb, idbm, Q, gaus, rcos, dec2bin, str2array, si)

getcontext().prec = 60
warnings.simplefilter('ignore')
VIOL = []
NSHOW = {}


def bad(clause, msg):
    NSHOW[clause] = NSHOW.get(clause, 0) + 1
    VIOL.append(clause)
    if NSHOW[clause] <= 8:
        print(f'VIOLATION [{clause}] {msg}')


def call(f, *a, **k):
    try:
        return True, f(*a, **k)
    except Exception as e:            # noqa
        return False, e


def close(a, b, rtol=1e-12, atol=0.0):
    a = np.asarray(a, dtype=float); b = np.asarray(b, dtype=float)
    return a.shape == b.shape and bool(np.all(np.abs(a - b) <= atol + rtol * np.abs(b)))


rng = np.random.default_rng(19)

# ------------------------------------------------------------------ dB family
def containers(v):
    """the same 1-D float data in every accepted container / layout"""
    v = np.asarray(v, dtype=float)
    ro = v.copy(); ro.setflags(write=False)
    two = np.vstack([v, v])
    yield 'ndarray', v, v
    yield 'list', list(v), v
    yield 'tuple', tuple(v), v
    yield 'readonly', ro, v
    yield 'view', np.repeat(v, 2)[::2], v
    yield '2d-C', two, two
    yield '2d-F', np.asfortranarray(two), two
    yield '2d-T', np.ascontiguousarray(two.T).T, two
    yield 'nested-list', [list(v), list(v)], two


pos = np.concatenate([10.0 ** np.arange(-15, 16), 10.0 ** np.arange(-30, 31, 5),
                      10.0 ** rng.uniform(-15, 15, 400), 10.0 ** rng.uniform(-30, 30, 200),
                      [np.nextafter(1, 0), np.nextafter(1, 2), 2.0, 0.5, 3.0]])
dbs = np.concatenate([np.linspace(-300, 300, 1201), rng.uniform(-300, 300, 400), [-300, 300, 0, -0.0, 1e-12, -1e-12]])

for name, fwd, inv, off in [('db', db, idb, 0.0), ('dbm', dbm, idbm, 30.0)]:
    # array round trips in every container
    for cname, c, ref in containers(pos):
        ok, y = call(fwd, c)
        if not ok: bad(f'{name} container', f'{name}({cname}) raised {y!r}'); continue
        if not close(y, 10 * np.log10(ref) + off, 1e-13, 1e-12): bad(f'{name} container', f'{cname} differs from ndarray result')
        ok, z = call(inv, y)
        if not ok or not close(z, ref, 1e-11): bad(f'i{name}({name}(x))=x', f'container {cname}: {z!r}')
    for cname, c, ref in containers(dbs):
        ok, y = call(inv, c)
        if not ok: bad(f'i{name} container', f'{cname} raised {y!r}'); continue
        ok, z = call(fwd, y)
        if not ok or not close(z, ref, 1e-12, 1e-11): bad(f'{name}(i{name}(y))=y', f'container {cname}')
    # scalar vs length-1 array vs 0-d array, python float / numpy float64
    for x in pos:
        for xs in (float(x), np.float64(x), np.array(x), [float(x)], (float(x),), np.array([x])):
            ok, y = call(fwd, xs)
            if not ok: bad(f'{name} scalar', f'{name}({xs!r}) raised {y!r}'); continue
            if not close(np.ravel(y)[0], 10 * math.log10(x) + off, 1e-13, 1e-12): bad(f'{name} scalar', f'{xs!r} -> {y!r}')
            ok, z = call(inv, y)
            if not ok or not close(np.ravel(z)[0], x, 1e-11): bad(f'i{name}({name}(x))=x', f'x={xs!r} -> {z!r}')
    for y in dbs:
        for ys in (float(y), np.float64(y), [float(y)], np.array(y)):
            ok, x = call(inv, ys)
            if not ok: bad(f'i{name} scalar', f'{ys!r} raised {x!r}'); continue
            ok, y2 = call(fwd, x)
            if not ok or not close(np.ravel(y2)[0], y, 1e-12, 1e-11): bad(f'{name}(i{name}(y))=y', f'y={ys!r} -> {y2!r}')
    # integer dB values (python int, int64 arrays)
    for y in range(-300, 301):
        for ys in (y, [y], np.array([y], dtype=np.int64), np.array(y)):
            ok, x = call(inv, ys)
            if not ok or not close(np.ravel(x)[0], 10.0 ** (y / 10 - off / 10), 1e-12): bad(f'i{name} int', f'{ys!r} -> {x!r}')
            else:
                ok, y2 = call(fwd, x)
                if not ok or not close(np.ravel(y2)[0], y, 1e-12, 1e-11): bad(f'{name}(i{name}(y))=y int', f'{ys!r} -> {y2!r}')
    # integer x (python ints of every size in the range, int64 arrays)
    for e in range(0, 31):
        for m in (1, 2, 7):
            n = m * 10 ** e
            for xs in (n, [n], (n, 1), [n, 0.5]):
                ok, y = call(fwd, xs)
                if not ok: bad(f'{name} python int', f'{name}({xs!r}) raised {type(y).__name__}: {y}'); continue
                if not close(np.ravel(y)[0], 10 * math.log10(n) + off, 1e-13, 1e-12): bad(f'{name} python int', f'{xs!r} -> {y!r}')
    xi = np.array([1, 2, 3, 10, 1000, 10 ** 15, 2 ** 62], dtype=np.int64)
    ok, y = call(fwd, xi)
    if not ok or not close(y, 10 * np.log10(xi.astype(float)) + off, 1e-13, 1e-12): bad(f'{name} int64', repr(y))
    # negative inputs raise ValueError
    for neg in (-1, -1.0, -1e-30, -1e30, np.float64(-2), [-1], [1, -1], (1, 2, -3.0), np.array(-1.0), np.array([1.0, -1e-300]),
                [[1, 2], [3, -4]], np.array([-1], dtype=np.int64), -5e-324, [3, -5e-324]):
        ok, e = call(fwd, neg)
        if ok or not isinstance(e, ValueError): bad(f'{name} negative -> ValueError', f'{name}({neg!r}) gave {e!r}')

# db(x*y) = db(x)+db(y), dbm = db+30
x = 10.0 ** rng.uniform(-15, 15, 2000); y = 10.0 ** rng.uniform(-15, 15, 2000)
if not close(db(x * y), db(x) + db(y), 1e-12, 1e-11): bad('db(xy)=db(x)+db(y)', 'array')
if not close(dbm(x), db(x) + 30, 1e-12, 1e-11): bad('dbm=db+30', 'array')
for a, b in zip(x[:300], y[:300]):
    if not close(db(float(a * b)), db(float(a)) + db(float(b)), 1e-12, 1e-11): bad('db(xy)=db(x)+db(y)', f'{a},{b}')
    if not close(dbm(float(a)), db(float(a)) + 30, 1e-12, 1e-11): bad('dbm=db+30', f'{a}')
for ea in range(0, 16):
    for eb in range(0, 16):           # python integers inside 1..1e15, product up to 1e30
        a, b = 10 ** ea, 3 * 10 ** eb
        ok, l = call(db, a * b)
        if not ok: bad('db(xy)=db(x)+db(y)', f'python ints x={a}, y={b}: db(x*y) raised {type(l).__name__}: {l}'); continue
        if not close(l, db(a) + db(b), 1e-12, 1e-11): bad('db(xy)=db(x)+db(y)', f'ints {a},{b}')
# order of calls / repeatability
before = [db(2.0), dbm(2.0), idb(3.0), idbm(3.0)]
db([1, 2, 3]); dbm((4, 5)); idb([1]); idbm([2])
after = [db(2.0), dbm(2.0), idb(3.0), idbm(3.0)]
if before != after: bad('dB call order', f'{before} vs {after}')
# inputs are not modified
a = pos.copy(); db(a); dbm(a); idb(a); idbm(a); Q(a); gaus(a); rcos(a, 0.5, 1.0)
if not np.array_equal(a, pos): bad('inputs unmodified', 'dB/Q/gaus/rcos changed their input')

# ------------------------------------------------------------------ Q
xs = np.concatenate([np.linspace(-40, 40, 80001), rng.normal(0, 5, 2000), [0.0, -0.0]])
q = Q(xs)
if not close(q + Q(-xs), np.ones_like(xs), 0, 4e-16): bad('Q(x)+Q(-x)=1', f'max dev {np.max(np.abs(q + Q(-xs) - 1))}')
srt = np.sort(xs); qs = Q(srt)
if np.any(np.diff(qs) > 0): bad('Q decreasing', f'{np.sum(np.diff(qs) > 0)} increases, at x={srt[1:][np.diff(qs) > 0][:3]}')
inner = srt[(srt > -5) & (srt < 37)]; inner = np.unique(inner)
if np.any(np.diff(Q(inner)) >= 0): bad('Q strictly decreasing on (-5,37)', str(inner[1:][np.diff(Q(inner)) >= 0][:3]))
if np.any(~np.isfinite(q)) or np.any(q < 0) or np.any(q > 1): bad('Q range', 'outside [0,1]')
for z in (0, 0.0, -0.0, np.float64(0), [0], (0,), np.array(0), np.array([0], dtype=np.int64), np.array([0 + 0j]).real):
    ok, v = call(Q, z)
    if not ok or np.ravel(v)[0] != 0.5: bad('Q(0)=1/2', f'Q({z!r}) = {v!r}')
for v in list(range(-10, 11)) + list(rng.normal(0, 3, 50)):
    ref = 0.5 * math.erfc(v / math.sqrt(2))
    for c in (v, [v], (v,), np.array(v), np.array([v]), np.array([[v]]), np.float64(v)):
        ok, r = call(Q, c)
        if not ok or not close(np.ravel(r)[0], ref, 1e-13): bad('Q scalar/array agree', f'{c!r} -> {r!r}')
qi = Q(np.arange(-5, 6, dtype=np.int64))
if not close(qi, Q(np.arange(-5, 6).astype(float)), 1e-15): bad('Q int64', 'int array differs from float array')
for cname, c, ref in containers(np.linspace(-6, 6, 13)):
    ok, r = call(Q, c)
    if not ok or not close(r, 0.5 * np.vectorize(math.erfc)(ref / math.sqrt(2)), 1e-13): bad('Q container', cname)

# ------------------------------------------------------------------ gaus
trap = getattr(np, 'trapezoid', None) or np.trapz
for mu in (None, 0, 0.0, 1, -3, 2.5, -1e6, 1e-9, 1e9):
    for std in (None, 1, 1.0, 2, 3, 0.5, 1e-9, 1e-3, 1e6, 1e12):
        m = 0 if mu is None else mu; s = 1 if std is None else std
        if m != 0 and s / abs(m) < 1e-6: continue      # the test grid itself would lose its resolution
        grid = m + s * np.linspace(-12, 12, 24001)
        forms = {'pos': lambda g: gaus(g, mu, std), 'kw': lambda g: gaus(g, mu=mu, std=std), 'kw-swapped': lambda g: gaus(g, std=std, mu=mu)}
        if mu is None and std is None: forms['default'] = lambda g: gaus(g)
        if std is None: forms['std-default'] = lambda g: gaus(g, mu)
        if mu is None: forms['mu-default'] = lambda g: gaus(g, std=std)
        ref = np.exp(-0.5 * ((grid - m) / s) ** 2) / (s * math.sqrt(2 * math.pi))
        for fn, f in forms.items():
            ok, g = call(f, grid)
            if not ok: bad('gaus', f'mu={mu} std={std} {fn}: {g!r}'); continue
            I = trap(g, grid)
            if not abs(I - 1) < 1e-9: bad('gaus integrates to one', f'mu={mu!r} std={std!r} {fn}: integral {I}')
            if not close(g, ref, 1e-9, 1e-300): bad('gaus value', f'mu={mu!r} std={std!r} {fn}')
        # scalar vs array vs list
        for k in (0, 1, 12000, 24000):
            ok, v = call(gaus, float(grid[k]), mu, std)
            if not ok or not close(v, ref[k], 1e-9, 1e-300): bad('gaus scalar', f'{grid[k]}, {mu}, {std}: {v!r}')
        ok, v = call(gaus, list(grid[:50]), mu, std)
        if not ok or not close(v, ref[:50], 1e-9, 1e-300): bad('gaus list', f'{mu},{std}')
# integer grid (int64), integer mu/std
gi = np.arange(-40, 41, dtype=np.int64)
for mu in (0, 3, -2):
    for std in (1, 2, 3):
        g = gaus(gi, mu, std)
        if not abs(g.sum() - 1) < 1e-6: bad('gaus integrates to one (int grid, Riemann sum)', f'{mu},{std}: {g.sum()}')
        if not close(g, gaus(gi.astype(float), float(mu), float(std)), 1e-14): bad('gaus int vs float', f'{mu},{std}')
for cname, c, ref in containers(np.linspace(-3, 3, 7)):
    ok, r = call(gaus, c, 0.5, 2)
    if not ok or not close(r, np.exp(-0.5 * ((ref - 0.5) / 2) ** 2) / (2 * math.sqrt(2 * math.pi)), 1e-13): bad('gaus container', cname)

# ------------------------------------------------------------------ rcos
alphas = sorted(set([0, 0.0, 1, 1.0, 0.5, 0.25, 0.1, 0.01, 1e-3, 0.999, 0.35] + list(np.linspace(0, 1, 101)) + list(rng.uniform(0, 1, 30))))
Ts = [1, 1.0, 2, 0.5, 3, 1e-9, 1e-12, 1e3, 1e9, 0.1, 7.3e-10]
for T in Ts:
    for alpha in alphas:
        fe = (1 + alpha) / (2 * T); fh = 1 / (2 * T); fl = (1 - alpha) / (2 * T)
        pts = np.concatenate([np.linspace(-2 / T, 2 / T, 801), [0.0, fh, -fh, fe, -fe, fl, -fl, np.nextafter(fe, np.inf), -np.nextafter(fe, np.inf),
                                                               np.nextafter(fe, 0), np.nextafter(fl, 0), np.nextafter(fl, np.inf), 10 * fe, 1e6 * fe]])
        ok, H = call(rcos, pts, alpha, T)
        if not ok: bad('rcos', f'alpha={alpha} T={T} raised {H!r}'); continue
        if H.shape != pts.shape or not np.all(np.isfinite(H)): bad('rcos finite', f'alpha={alpha} T={T}')
        if np.any(H < 0) or np.any(H > 1): bad('rcos in [0,1]', f'alpha={alpha} T={T}: min {H.min()} max {H.max()}')
        if not np.array_equal(H, rcos(-pts, alpha, T)): bad('rcos even', f'alpha={alpha} T={T}')
        if np.any(H[np.abs(pts) > fe] != 0): bad('rcos vanishes beyond (1+alpha)/(2T)', f'alpha={alpha} T={T}')
        if np.any(H[np.abs(pts) <= fl] != 1): bad('rcos flat top', f'alpha={alpha} T={T}')
        if alpha >= 1e-3:
            for xh in (fh, -fh):
                for c in (xh, np.float64(xh), [xh], np.array([xh]), np.array(xh), (xh,)):
                    ok, v = call(rcos, c, alpha, T)
                    if not ok or not abs(np.ravel(v)[0] - 0.5) < 1e-9: bad('rcos(1/(2T)) = 1/2', f'alpha={alpha} T={T} x={c!r}: {v!r}')
        # continuity / monotone on the positive side (fine sweep over the whole support)
        sw = np.linspace(0, 1.2 * fe, 4001); Hs = rcos(sw, alpha, T)
        if np.any(np.diff(Hs) > 1e-12): bad('rcos non-increasing for x>0', f'alpha={alpha} T={T}')
        if alpha >= 0.05 and np.max(np.abs(np.diff(Hs))) > 0.01: bad('rcos continuous', f'alpha={alpha} T={T}: jump {np.max(np.abs(np.diff(Hs)))}')
        # scalar call vs the same value in an array; keyword vs positional
        for k in range(0, len(pts), 23):
            xv = float(pts[k])
            ok, v = call(rcos, xv, alpha, T)
            if not ok or not (abs(float(v) - H[k]) <= 1e-15): bad('rcos scalar = array', f'x={xv} alpha={alpha} T={T}: {v!r} vs {H[k]}')
        ok, Hk = call(rcos, x=pts, alpha=alpha, T=T)
        if not ok or not np.array_equal(Hk, H): bad('rcos keyword = positional', f'alpha={alpha} T={T}')
# integer / container grids
for alpha in (0, 0.5, 1, 1.0, 0.25):
    for T in (1, 2, 0.5, 0.25):
        base = np.arange(-8, 9, dtype=np.int64)
        ref = rcos(base.astype(float), alpha, T)
        for cname, c in (('int64', base), ('list-int', [int(v) for v in base]), ('tuple-int', tuple(int(v) for v in base)),
                         ('F-2d', np.asfortranarray(np.vstack([base, base]))), ('ro', np.frombuffer(base.tobytes(), dtype=np.int64))):
            ok, H = call(rcos, c, alpha, T)
            if not ok or not np.array_equal(np.ravel(H)[:17], ref): bad('rcos integer grid / container', f'{cname} alpha={alpha} T={T}: {H!r}')
        for v in base:
            ok, s = call(rcos, int(v), alpha, T)
            if not ok or float(s) != ref[v + 8]: bad('rcos python-int scalar', f'x={v} alpha={alpha} T={T}: {s!r} vs {ref[v+8]}')
for cname, c, ref in containers(np.linspace(-1, 1, 21)):
    ok, r = call(rcos, c, 0.3, 1.0)
    if not ok or not np.array_equal(r, rcos(np.asarray(ref), 0.3, 1.0)): bad('rcos container', cname)

# ------------------------------------------------------------------ dec2bin
def ref_bits(v, d):
    return np.array([(v >> (d - 1 - i)) & 1 for i in range(d)], dtype=np.uint8)

for d in range(0, 17):
    for v in range(0, 2 ** d):
        r = dec2bin(v, d)
        if r.shape != (d,) or not np.array_equal(r, ref_bits(v, d)): bad('dec2bin expansion', f'v={v} d={d}: {r!r}')
    for v in (2 ** d, 2 ** d + 1, 2 ** (d + 1), 2 ** 16, 2 ** 40, 10 ** 30):
        if v < 2 ** d: continue
        ok, e = call(dec2bin, v, d)
        if ok or not isinstance(e, ValueError): bad('dec2bin too large -> ValueError', f'v={v} d={d}: {e!r}')
for d in range(0, 17):                # argument styles, numpy scalars, 0-d / length-1 arrays, repeated calls
    vs = sorted(set([0, 1, 2 ** d - 1, 2 ** d // 2, 2 ** d // 3] + list(rng.integers(0, 2 ** d, 5)))) if d else [0]
    for v in vs:
        v = int(v); ref = ref_bits(v, d)
        forms = {'kw': lambda: dec2bin(num=v, digits=d), 'kw-digits': lambda: dec2bin(v, digits=d),
                 'int64': lambda: dec2bin(np.int64(v), d), 'uint64': lambda: dec2bin(np.uint64(v), d), 'int32': lambda: dec2bin(np.int32(v), d),
                 'uint16': lambda: dec2bin(np.uint16(v), d), 'float': lambda: dec2bin(float(v), d)}
        if d == 8: forms['default digits'] = lambda: dec2bin(v)
        for fn, f in forms.items():
            ok, r = call(f)
            if not ok or not np.array_equal(r, ref): bad('dec2bin argument style', f'{fn} v={v} d={d}: {r!r}')
        for mk, nm in ((lambda: np.array(v), '0-d int64 array'), (lambda: np.array([v]), 'length-1 int64 array')):
            a = mk(); keep = a.copy()
            ok1, r1 = call(dec2bin, a, d); ok2, r2 = call(dec2bin, a, d)
            if not (ok1 and ok2 and np.array_equal(r1, ref) and np.array_equal(r2, ref)) or not np.array_equal(a, keep):
                bad('dec2bin repeated call / input preserved', f'{nm} v={v} d={d}: first {r1!r}, second {r2!r}, input afterwards {a!r}')
            a = mk(); a.setflags(write=False)
            ok, r = call(dec2bin, a, d)
            if not ok or not np.array_equal(r, ref): bad('dec2bin read-only input', f'{nm} v={v} d={d}: {r!r}')

# ------------------------------------------------------------------ str2array
ELEM = [' ', ',', ', ', '  ', ' , ']
ROW = [';', '; ', ' ; ', ' ;']


def render(tokens2d, es, rs, lead='', trail=''):
    return lead + rs.join(es.join(r) for r in tokens2d) + trail


def fmt_int(v): return str(int(v))
def fmt_float(v, p): return f'{v:.{p}f}'
def fmt_cplx(v, p, u, plus=False):
    re_ = f'{v.real:.{p}f}' if p is not None else str(int(v.real))
    im_ = f'{v.imag:+.{p}f}' if p is not None else f'{int(v.imag):+d}'
    return ('+' if plus and v.real >= 0 else '') + re_ + im_ + u


def check_parse(s, expect, kind, dtype='none', clause='str2array round trip'):
    if dtype == 'none': ok, r = call(str2array, s)
    else: ok, r = call(str2array, s, dtype=dtype)
    if not ok: bad(clause, f'{s!r} dtype={dtype}: raised {type(r).__name__}: {r}'); return
    expect = np.asarray(expect)
    if r.shape != expect.shape or not np.array_equal(r, expect): bad(clause, f'{s!r} dtype={dtype}: got {r!r}'); return
    if dtype == 'none':
        if r.dtype.kind != kind: bad('str2array inferred dtype', f'{s!r}: dtype {r.dtype}, expected kind {kind}')
    else:
        if r.dtype != np.dtype(dtype): bad('str2array honours dtype', f'{s!r} dtype={dtype}: got {r.dtype}')


shapes = [(n,) for n in range(1, 7)] + [(r, c) for r in (1, 2, 3) for c in range(1, 7)]
SPECIAL_I = [0, 1, -1, 2, 10, 11, 100, -10, 9, 255, 2 ** 31, -2 ** 31, 2 ** 53 + 1, 2 ** 63 - 1, -2 ** 63]
SPECIAL_F = [0.0, -0.0, 1.0, -1.0, 0.5, 1.5, 10.0, 0.1, 123456.789, 1e-6, 1e15, -1e15, 0.001, 100.0, 1.0e22, 11.0, 0.25]
n_str = 0
for shape in shapes:
    size = int(np.prod(shape))
    for rep in range(6):
        # ---------- integers
        if rep == 0: vals = np.array([SPECIAL_I[(i + len(shape)) % len(SPECIAL_I)] for i in range(size)], dtype=np.int64)
        elif rep == 1: vals = rng.integers(2, 10, size)         # single digits that are not bits
        elif rep == 2: vals = rng.integers(-1000, 1000, size); vals[0] = -7
        else: vals = rng.integers(-2 ** 62, 2 ** 62, size)
        if set(np.unique(np.abs(vals))) <= {0, 1} and vals.min() >= 0: vals[0] = 2
        ai = vals.reshape(shape)
        # ---------- floats / complex
        if rep == 0: fv = np.array([SPECIAL_F[(i + len(shape)) % len(SPECIAL_F)] for i in range(size)])
        else: fv = np.round(rng.normal(0, 10.0 ** rng.integers(-2, 6), size), 6)
        af = fv.reshape(shape)
        ac = (fv + 1j * np.round(rng.normal(0, 50, size), 6)).reshape(shape)
        aci = (rng.integers(-9, 10, size) + 1j * rng.integers(-9, 10, size)).reshape(shape)
        for es, rs in itertools.product(ELEM, ROW):
            for lead, trail in (('', ''), (' ', ' ')):
                rows = (lambda a: [list(a)] if a.ndim == 1 else [list(r) for r in a])
                exp_shape = lambda a: a if (a.ndim == 1 or a.shape[0] > 1) else a[0]     # a 1xN text has no ';' and reads 1-D
                # int
                s = render([[fmt_int(v) for v in r] for r in rows(ai)], es, rs, lead, trail); n_str += 1
                check_parse(s, exp_shape(ai), 'i')
                check_parse(s, exp_shape(ai).astype(float), 'f', float); check_parse(s, exp_shape(ai), 'i', int)
                check_parse(s, exp_shape(ai), 'i', np.int64); check_parse(s, exp_shape(ai).astype(complex), 'c', complex)
                check_parse(s, exp_shape(ai).astype(complex), 'c', np.complex128); check_parse(s, exp_shape(ai).astype(float), 'f', np.dtype('float64'))
                check_parse(s, exp_shape(ai).astype(bool), 'b', bool)
                if ai.min() >= 0:
                    s2 = render([['+' + fmt_int(v) for v in r] for r in rows(ai)], es, rs, lead, trail)
                    check_parse(s2, exp_shape(ai), 'i')
                # float, several fixed-point precisions
                for p in (1, 6, 17):
                    toks = [[fmt_float(v, p) for v in r] for r in rows(af)]
                    expect = np.array([[float(t) for t in r] for r in toks]).reshape(af.shape)
                    s = render(toks, es, rs, lead, trail); n_str += 1
                    check_parse(s, exp_shape(expect), 'f')
                    check_parse(s, exp_shape(expect), 'f', float); check_parse(s, exp_shape(expect).astype(complex), 'c', complex)
                    check_parse(s, exp_shape(expect), 'f', np.float64)
                    check_parse(s, exp_shape(expect).astype(np.int64), 'i', int) if np.all(np.abs(expect) < 2 ** 62) else None
                    check_parse(s, exp_shape(expect).astype(bool), 'b', bool)
                # numpy style '1.' and '.5'
                toks = [[(repr(float(v)).rstrip('0') if 'e' not in repr(float(v)) else f'{v:.1f}') for v in r] for r in rows(af)]
                s = render(toks, es, rs, lead, trail)
                check_parse(s, exp_shape(np.array([[float(t) for t in r] for r in toks]).reshape(af.shape)), 'f')
                # complex, i and j
                for u in 'ij':
                    for p in (2, 6):
                        toks = [[fmt_cplx(v, p, u) for v in r] for r in rows(ac)]
                        expect = np.array([[complex(t.replace('i', 'j')) for t in r] for r in toks]).reshape(ac.shape)
                        s = render(toks, es, rs, lead, trail); n_str += 1
                        check_parse(s, exp_shape(expect), 'c'); check_parse(s, exp_shape(expect), 'c', complex); check_parse(s, exp_shape(expect), 'c', np.complex128)
                    toks = [[fmt_cplx(v, None, u, plus=(rep % 2 == 1)) for v in r] for r in rows(aci)]
                    s = render(toks, es, rs, lead, trail)
                    check_parse(s, exp_shape(aci), 'c')
                    # pure imaginary / pure real tokens mixed
                    toks = [[(f'{int(v.imag)}{u}' if k % 2 else f'{int(v.real)}') for k, v in enumerate(r)] for r in rows(aci)]
                    if any(u in t for r in toks for t in r):
                        expect = np.array([[complex(t.replace('i', 'j')) for t in r] for r in toks]).reshape(aci.shape)
                        check_parse(render(toks, es, rs, lead, trail), exp_shape(expect), 'c')

# 0/1 text: bit patterns, every separator style (also none), with and without numeric dtype
for shape in shapes:
    size = int(np.prod(shape))
    for rep in range(4):
        bits = rng.integers(0, 2, size).reshape(shape)
        if rep == 0: bits[...] = 0
        if rep == 1: bits[...] = 1
        rows = [list(bits)] if bits.ndim == 1 else [list(r) for r in bits]
        expect = bits if (bits.ndim == 1 or bits.shape[0] > 1) else bits[0]
        for es, rs in itertools.product(ELEM + [''], ROW):
            s = render([[str(v) for v in r] for r in rows], es, rs)
            check_parse(s, expect.astype(bool), 'b', clause='str2array bit pattern')
            check_parse(s, expect.astype(bool), 'b', bool, clause='str2array bit pattern')
            check_parse(s, expect.astype(bool), 'b', np.bool_, clause='str2array bit pattern')
            if es != '':
                for dt in (int, float, complex, np.int64, np.float64, np.complex128, np.dtype('int64'), 'int64', 'float'):
                    check_parse(s, expect.astype(dt), None, dt, clause='str2array 0/1 text with numeric dtype')
# multi-digit 0/1 tokens: digit by digit without dtype, token by token with numeric dtype
for toks2d in ([['10', '1', '0', '11']], [['10', '1'], ['0', '11']], [['101']], [['1', '100'], ['11', '0']], [['0'], ['1'], ['10']]):
    for es, rs in itertools.product(ELEM, ROW):
        s = render(toks2d, es, rs)
        same_len = len({sum(len(t) for t in r) for r in toks2d}) == 1
        if same_len:
            digits = [[int(ch) for t in r for ch in t] for r in toks2d]
            e = np.array(digits if len(digits) > 1 else digits[0], dtype=bool)
            check_parse(s, e, 'b', clause='str2array bit pattern digit by digit')
        tok = [[int(t) for t in r] for r in toks2d]
        e = np.array(tok if len(tok) > 1 else tok[0])
        for dt in (int, float, complex, np.int64, np.float64, np.complex128):
            check_parse(s, e.astype(dt), None, dt, clause='str2array 0/1 text with numeric dtype')
# any other character raises ValueError
good = ['1 2 3', '1.5 2.5', '1+2j 3-4i', '1 0 1', '1 2; 3 4', '101']
others = [chr(c) for c in range(33, 127) if chr(c) not in '0123456789,;.+-ij ']
others += ['µ', '١', '−', '１', '²', 'E', 'I', 'J']
for g in good:
    for ch in others:
        for posn in (0, len(g) // 2, len(g)):
            s = g[:posn] + ch + g[posn:]
            for kw in ({}, {'dtype': float}, {'dtype': int}, {'dtype': complex}, {'dtype': bool}):
                ok, e = call(str2array, s, **kw)
                if ok or not isinstance(e, ValueError): bad('str2array other character -> ValueError', f'{s!r} {kw}: {e!r}')

# ------------------------------------------------------------------ si
PREF = {'f': -15, 'p': -12, 'n': -9, 'u': -6, 'μ': -6, 'µ': -6, 'm': -3, '': 0, 'k': 3, 'M': 6, 'G': 9, 'T': 12}


def check_si(x, unit, k, how):
    ok, s = call(how, x, unit, k)
    if not ok or not isinstance(s, str): bad('si renders', f'si({x!r},{unit!r},{k}) -> {s!r}'); return
    try:
        mant, tail = s.split(' ')
        assert tail.endswith(unit)
        pre = tail[:len(tail) - len(unit)]
        p = PREF[pre]
        M = Decimal(mant)
    except Exception as e:
        bad('si format', f'si({x!r},{unit!r},{k}) -> {s!r} ({e!r})'); return
    X = Decimal(repr(float(x))) if not isinstance(x, int) or isinstance(x, bool) else Decimal(int(x))
    scale = Decimal(10) ** p
    if '.' in mant and len(mant.split('.')[1]) != k or ('.' not in mant and k != 0): bad('si precision', f'si({x!r},{unit!r},{k}) -> {s!r}')
    if abs(M * scale - X) > (Decimal(10) ** (-k) / 2) * scale + X * Decimal('4e-16'):
        bad('si mantissa*prefix = x to printed precision', f'si({x!r},{unit!r},{k}) -> {s!r}')
    um = X / scale
    if X < Decimal(10) ** 15 and not (Decimal(1) <= um < Decimal(1000)): bad('si unrounded mantissa in [1,1000)', f'si({x!r},{unit!r},{k}) -> {s!r} (mantissa {um})')
    if X >= Decimal(10) ** 15 and pre != 'T': bad('si prefix', f'si({x!r}) -> {s!r}')


hows = {'pos': lambda x, u, k: si(x, u, k), 'kw': lambda x, u, k: si(x=x, unit=u, k=k)}
bounds = [10.0 ** e for e in range(-15, 19)]
xs = []
for b in bounds:
    xs += [b, float(np.nextafter(b, np.inf)), b * (1 + 1e-15), b * 1.0000001]
    if b > 1e-15: xs += [float(np.nextafter(b, 0)), b * (1 - 1e-15), b * 0.9999999, b * 0.99996, b * 0.9995, b * 0.995]
    xs += [b * m for m in (1.5, 2, 2.5, 3.14159, 9.99, 9.95, 9.995, 10.5, 99.95, 99.96, 123.456, 999.4, 999.5, 999.94, 999.95, 999.96, 999.9995)]
xs += list(10.0 ** rng.uniform(-15, 15.3, 3000))
xs = [x for x in xs if x >= 1e-15]
for x in xs:
    for k in (0, 1, 2, 3, 6):
        for unit in ('s', 'Hz', 'm', 'W'):
            check_si(x, unit, k, hows['pos'])
        check_si(np.float64(x), 's', k, hows['kw'])
for x in xs[::7]:
    a, b = call(si, x), call(si, x, 's', 1)
    c, d = call(si, x, unit='s'), call(si, x, k=1)
    if not (a == b == c == d): bad('si defaults', f'{x!r}: {a} {b} {c} {d}')
    if call(si, x, 'Hz')[1] != call(si, x, 's')[1][:-1] + 'Hz': bad('si unit only changes the suffix', repr(x))
for e in range(0, 19):                # python ints / int64
    for m in (1, 2, 5, 999, 1000):
        n = m * 10 ** e
        if n >= 2 ** 63: continue
        for k in (0, 1, 3):
            check_si(n, 'Hz', k, hows['pos'])
            ok1, s1 = call(si, n, 'Hz', k); ok2, s2 = call(si, float(n), 'Hz', k); ok3, s3 = call(si, np.int64(n), 'Hz', k)
            if not (ok1 and ok2 and ok3 and s1 == s2 == s3): bad('si int vs float', f'{n}: {s1!r} {s2!r} {s3!r}')
# monotone: larger x never gets a smaller prefix
order = ['f', 'p', 'n', 'μ', 'm', '', 'k', 'M', 'G', 'T']
last = -1
for x in sorted(xs):
    s = si(x, 's', 3); pre = s.split(' ')[1][:-1]
    idx = order.index(pre) if pre in order else order.index('μ')
    if idx < last: bad('si prefix monotone', f'{x!r} -> {s!r}')
    last = max(last, idx)

print(f'checked {n_str} rendered texts (+dtype variants), {len(xs)} si values')
if VIOL:
    print(f'FAIL: {len(VIOL)} violations in clauses: ' + '; '.join(f'{c} x{n}' for c, n in NSHOW.items()))
    sys.exit(1)
print('PASS')
sys.exit(0)
