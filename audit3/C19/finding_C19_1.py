# dec2bin halves its argument in place: an integer held in a (0-d or length-1) numpy array is destroyed
# by the call, a repeated call returns all zeros, and a read-only array raises ValueError.
import sys; sys.path.pop(0)
import numpy as np
from opticomlib import dec2bin
v = np.array(5)                                   # e.g. what np.nditer / np.asarray(5) hand out
first, second = dec2bin(v, 4), dec2bin(v, 4)
ro = np.array(5); ro.setflags(write=False)
try: third = dec2bin(ro, 4)
except Exception as e: third = repr(e)
print('expected: [0 1 0 1] twice, v still 5, read-only input accepted')
print('got     :', first, second, 'v =', v, '| read-only:', third)
ok = list(first) == [0, 1, 0, 1] and list(second) == [0, 1, 0, 1] and v == 5 and not isinstance(third, str)
sys.exit(0 if ok else 1)
