# db / dbm raise TypeError for positive python integers >= 2**64 (np.array() makes an object array and
# np.log10 has no object loop), so db(x*y) = db(x)+db(y) and idb(db(x)) = x fail for integer arguments.
import sys; sys.path.pop(0)
from opticomlib import db, dbm, idb
x, y = 10**10, 3 * 10**10                          # both fine on their own: db -> 100.0, 104.77
out = []
for name, f in (('db(x*y)', lambda: db(x * y)), ('db([x*y, 1.0])', lambda: db([x * y, 1.0])),
                ('dbm([x*y])', lambda: dbm([x * y])), ('idb(db(x*y))', lambda: idb(db(x * y)))):
    try: out.append((name, f(), True))
    except Exception as e: out.append((name, f'{type(e).__name__}: {e}', False))
print('expected: db(x*y) = db(x)+db(y) =', db(x) + db(y), ' (db(float(x*y)) =', db(float(x * y)), ')')
for name, r, ok in out: print('got     :', name, '->', r)
sys.exit(0 if all(ok for *_, ok in out) else 1)
