"""Audit of property C20 (PPG3204 driver + SYNC), third pass: relations and corners.

Prints one line per violated (clause, input); exits 1 if any, prints PASS and exits 0 otherwise.
Lines starting with OBS are observations outside the clauses of the statement (not counted).
"""
import sys
import os
if sys.path and os.path.abspath(sys.path[0] or '.') == os.path.dirname(os.path.abspath(__file__)):
    del sys.path[0]

import re
import warnings
import itertools
import numpy as np

from opticomlib.lab import PPG3204, SYNC
from opticomlib.devices import PRBS
from opticomlib.typing import electrical_signal, binary_sequence, gv

M = 2 ** 21
VIOL = []
SEEN = {}


def viol(clause, what):
    SEEN[clause] = SEEN.get(clause, 0) + 1
    if SEEN[clause] <= 8:  # keep the output readable
        print(f'VIOLATION [{clause}] {what}')
    VIOL.append((clause, what))


# ----------------------------------------------------------------------------------------------
# simulated instrument
# ----------------------------------------------------------------------------------------------
class Fake:
    def __init__(self):
        self.log = []
        self.mem = {c: np.full(M + 2, 7, np.uint8) for c in range(1, 5)}
        self.state = {}

    def query(self, cmd):
        self.log.append(cmd)
        m = re.fullmatch(r':DIG(\d+):PATT:DATA\? (\d+),(\d+)', cmd)
        if m:
            ch, p, n = int(m[1]), int(m[2]), int(m[3])
            bits = ''.join(map(str, self.mem[ch][p:p + n]))
            return f'#{len(str(n))}{n}{bits}\n'
        m = re.fullmatch(r':DIG(\d+):PATT:DATA (\d+),(\d+),#(\d)(\d*)', cmd)
        if m:
            ch, p, n, k = int(m[1]), int(m[2]), int(m[3]), int(m[4])
            bits = m[5][k:]
            if 1 <= ch <= 4 and 1 <= p and p + len(bits) - 1 <= M:
                self.mem[ch][p:p + len(bits)] = np.frombuffer(bits.encode(), np.uint8) - 48
            return '\n'
        if cmd.endswith('?'):
            return str(self.state.get(cmd[:-1], '0')) + '\n'
        key, _, val = cmd.partition(' ')
        self.state[key] = val.rstrip('v')
        return '\n'


def make():
    p = PPG3204()
    p.inst = Fake()
    return p


def run(p, f, *a, **k):
    """call, return (result|exception, commands, number of warnings)"""
    p.inst.log.clear()
    with warnings.catch_warnings(record=True) as w:
        warnings.simplefilter('always')
        try:
            r = f(*a, **k)
        except Exception as e:  # noqa
            r = e
    return r, list(p.inst.log), len(w)


# ----------------------------------------------------------------------------------------------
# generic command checker: channel 1..4 and value inside the limits
# ----------------------------------------------------------------------------------------------
NUM = r'([-+]?(?:\d+\.?\d*|\.\d+)(?:[eE][-+]?\d+)?)'
PATTERNS = [
    (re.compile(rf':FREQ {NUM}'), None, lambda v: 1.5e9 <= v <= 32e9),
    (re.compile(rf':DIG(\d+):PATT:LENG {NUM}'), 1, lambda v: 2 <= v <= M),
    (re.compile(rf':DIG(\d+):PATT:PLEN {NUM}'), 1, lambda v: v in (7, 9, 11, 15, 23, 31)),
    (re.compile(rf':SKEW(\d+) {NUM}'), 1, lambda v: -25e-12 <= v <= 25e-12),
    (re.compile(rf':VOLT(\d+):POS {NUM}v'), 1, lambda v: 0.3 <= v <= 2),
    (re.compile(rf':VOLT(\d+):(?:POS|NEG):OFFS {NUM}v'), 1, lambda v: -2 <= v <= 3),
    (re.compile(rf':DIG(\d+):PATT:BSH {NUM}'), 1, lambda v: True),
    (re.compile(r':DIG(\d+):PATT:TYPE (DATA|PRBS)'), 1, None),
    (re.compile(r':OUTP(\d+) (ON|OFF)'), 1, None),
    (re.compile(r':DIG(\d+):PATT:(?:LENG|PLEN|TYPE|BSH)\?'), 1, None),
    (re.compile(r':SKEW(\d+)\?'), 1, None),
    (re.compile(r':VOLT(\d+):(?:POS|OFFS)\?'), 1, None),
    (re.compile(r':FREQ\?'), None, None),
]


def check_cmd(cmd):
    """returns None if fine, else a reason"""
    m = re.fullmatch(r':DIG(\d+):PATT:DATA (\d+),(\d+),#(\d)(\d*)', cmd)
    if m:
        ch, p, n, k, rest = int(m[1]), int(m[2]), int(m[3]), int(m[4]), m[5]
        if not 1 <= ch <= 4:
            return 'channel'
        if not (1 <= n <= 1024):
            return 'block size'
        if len(str(n)) != k or rest[:k] != str(n) or len(rest) != k + n or set(rest[k:]) - {'0', '1'}:
            return 'header'
        if p < 1 or p + n - 1 > M:
            return 'address'
        return None
    m = re.fullmatch(r':DIG(\d+):PATT:DATA\? (\d+),(\d+)', cmd)
    if m:
        ch, p, n = int(m[1]), int(m[2]), int(m[3])
        if not 1 <= ch <= 4:
            return 'channel'
        if not (1 <= n <= 1024) or p < 1 or p + n - 1 > M:
            return 'read block'
        return None
    for rx, chg, ok in PATTERNS:
        m = rx.fullmatch(cmd)
        if m:
            if chg is not None and not 1 <= int(m[chg]) <= 4:
                return 'channel'
            if ok is not None:
                v = float(m[m.lastindex])
                if not np.isfinite(v) or not ok(v):
                    return 'value'
            return None
    return 'malformed'


def check_log(clause, log, what):
    for c in log:
        r = check_cmd(c)
        if r:
            viol(clause, f'{what}: emitted {c[:60]!r} ({r})')


# ----------------------------------------------------------------------------------------------
# clause A: channel selections
# ----------------------------------------------------------------------------------------------
def clause_channels():
    p = make()
    sels = [None] + list(range(-6, 12)) + [-10 ** 6, 10 ** 6, 2 ** 31, -2 ** 31, 2 ** 62, True, False]
    small = [-1, 0, 1, 2, 4, 5, 9]
    for n in (1, 2, 3):
        for t in itertools.product(small, repeat=n):
            sels += [list(t)]
    sels += [tuple(t) for t in [(1,), (0, 5), (4, 3, 2, 1), (1, 2, 3, 4, 5), (7, 7, 7, 7, 7, 7)]]
    sels += [np.array(t) for t in [[1], [0, 5], [4, 3, 2, 1], [1, 2, 3, 4, 5], [9] * 6]]
    sels += [np.array([1, 4], dtype=np.int32), np.array([3, 9], dtype=np.uint8), np.array([1, 2, 3, 4, 5, 6])[::2], []]
    rng = np.random.default_rng(20)
    for _ in range(60):
        sels.append(list(rng.integers(-20, 20, rng.integers(1, 8))))
    calls = [
        ('enable_outputs', lambda ch: (ch,)), ('disable_outputs', lambda ch: (ch,)),
        ('set_patt_len', lambda ch: (100, ch)), ('get_patt_len', lambda ch: (ch,)),
        ('set_mode', lambda ch: ('prbs', ch)), ('get_mode', lambda ch: (ch,)),
        ('set_prbs_order', lambda ch: (9, ch)), ('get_prbs_order', lambda ch: (ch,)),
        ('set_data', lambda ch: ('0110', 1, ch)), ('get_data', lambda ch: (4, 1, ch)),
        ('set_bits_shift', lambda ch: (3, ch)), ('get_bits_shift', lambda ch: (ch,)),
        ('set_skew', lambda ch: (1e-12, ch)), ('get_skew', lambda ch: (ch,)),
        ('set_output_voltage', lambda ch: (1.0, ch)), ('get_output_voltage', lambda ch: (ch,)),
        ('set_offset', lambda ch: (0.5, ch)), ('get_offset', lambda ch: (ch,)),
    ]
    for sel in sels:
        if sel is None:
            out = False
            n_exp = 4
        else:
            a = np.atleast_1d(np.array(sel, dtype=np.int64))
            out = bool((a < 1).any() or (a > 4).any() or a.size > 4)
            n_exp = min(a.size, 4)
        for name, mk in calls:
            r, log, w = run(p, getattr(p, name), *mk(sel))
            tag = f'{name}(CHs={sel!r})'
            if isinstance(r, Exception):
                viol('A channels: no error', f'{tag}: raised {type(r).__name__}: {r}')
                continue
            check_log('A channels: 1..4', log, tag)
            if out and w == 0:
                viol('A channels: warning', f'{tag}: no warning')
            if not out and w:
                viol('A channels: warning', f'{tag}: spurious warning')
            if len(log) != n_exp:
                viol('A channels: one command per selected channel', f'{tag}: {len(log)} commands, expected {n_exp}')
    # keyword vs positional vs default
    for name, args in [('set_patt_len', (100,)), ('set_skew', (1e-12,)), ('set_output_voltage', (1.0,)),
                       ('set_offset', (0.5,)), ('set_prbs_order', (9,)), ('set_bits_shift', (2,)), ('set_mode', ('data',))]:
        a = run(p, getattr(p, name), *args)[1]
        b = run(p, getattr(p, name), *args, None)[1]
        c = run(p, getattr(p, name), *args, CHs=[1, 2, 3, 4])[1]
        d = run(p, getattr(p, name), *args, CHs=(1, 2, 3, 4))[1]
        e = run(p, getattr(p, name), *args, CHs=np.arange(1, 5))[1]
        if not (a == b == c == d == e):
            viol('A channels: default == None == [1,2,3,4]', name)


# ----------------------------------------------------------------------------------------------
# clause B: value limits
# ----------------------------------------------------------------------------------------------
def emitted_values(log):
    out = []
    for c in log:
        m = re.search(rf' {NUM}v?$', c)
        out.append(float(m[1]) if m else None)
    return out


def clause_limits():
    p = make()
    rng = np.random.default_rng(21)

    def decades(lo, hi, n=6):
        """values over several decades around the two limits, both signs, and exact ends"""
        vals = {lo, hi, 0.0, (lo + hi) / 2}
        for lim in (lo, hi):
            a = abs(lim) if lim else 1.0
            for e in np.linspace(-n, n, 4 * n + 1):
                vals.add(a * 10 ** e)
                vals.add(-a * 10 ** e)
            for eps in (1e-12, 1e-9, 1e-6, 1e-3, 0.04, 0.05, 0.06):
                vals.add(lim * (1 + eps))
                vals.add(lim * (1 - eps))
            vals.add(np.nextafter(lim, np.inf))
            vals.add(np.nextafter(lim, -np.inf))
        vals |= {float('inf'), float('-inf')}
        return sorted(vals)

    # --- frequency (scalar only: one clock for the instrument)
    fvals = decades(1.5e9, 32e9) + list(np.linspace(1.5e9, 32e9, 2001)) + [10 ** 10, 0, 1, 2 * 10 ** 9, 32 * 10 ** 9, 10 ** 15]
    prev = None
    for v in sorted(fvals):
        r, log, w = run(p, p.set_freq, v)
        tag = f'set_freq({v!r})'
        if isinstance(r, Exception):
            viol('B freq: no error', f'{tag}: {type(r).__name__}: {r}')
            continue
        check_log('B freq: 1.5-32 GHz', log, tag)
        out = not (1.5e9 <= v <= 32e9)
        if out != bool(w):
            viol('B freq: warning iff out of range', f'{tag}: {w} warnings')
        ev = emitted_values(log)[0]
        if not out and abs(ev - v) > 1e-5 * v:
            viol('B freq: in-range value sent as requested', f'{tag}: sent {ev}')
        if out and ev not in (1.5e9, 32e9):
            viol('B freq: clamped to the limit', f'{tag}: sent {ev}')
        if prev is not None and ev < prev:
            viol('B freq: monotone', f'{tag}: {ev} after {prev}')
        prev = ev
    if run(p, p.set_freq, 5e9)[1] != run(p, p.set_freq, freq=5e9)[1] or run(p, p.set_freq, 5e9)[1] != run(p, p.set_freq, 5 * 10 ** 9)[1]:
        viol('B freq: positional == keyword == int', 'set_freq(5e9)')

    # --- per-channel real-valued settings
    specs = [
        ('set_skew', -25e-12, 25e-12, 0.0, 'B skew'),
        ('set_output_voltage', 0.3, 2.0, 0.051, 'B amplitude'),
        ('set_offset', -2.0, 3.0, 0.051, 'B offset'),
    ]
    for name, lo, hi, tol, cl in specs:
        f = getattr(p, name)
        vals = decades(lo, hi) + list(np.linspace(lo, hi, 1001)) + [0, 1, 2, 3, -1, -2, -3, 5, 10 ** 6, -10 ** 6, 10 ** 19, 10 ** 25]
        prev = None
        for v in sorted(vals):
            for ch in (None, 3):
                r, log, w = run(p, f, v, ch)
                tag = f'{name}({v!r}, {ch})'
                if isinstance(r, Exception):
                    viol(f'{cl}: no error', f'{tag}: {type(r).__name__}: {r}')
                    continue
                check_log(f'{cl}: inside limits', log, tag)
                out = not (lo <= v <= hi)
                if out != bool(w):
                    viol(f'{cl}: warning iff out of range', f'{tag}: {w} warnings')
                evs = emitted_values(log)
                if len(evs) != (4 if ch is None else 1) or len(set(evs)) != 1:
                    viol(f'{cl}: same value on every channel', f'{tag}: {log}')
                    continue
                ev = evs[0]
                want = min(max(v, lo), hi)
                if abs(ev - want) > tol + 1e-9 * abs(want):
                    viol(f'{cl}: value sent is the clamped request', f'{tag}: sent {ev}, want {want}')
                if ch == 3:
                    if prev is not None and ev < prev:
                        viol(f'{cl}: monotone', f'{tag}: {ev} after {prev}')
                    prev = ev
                    # scalar vs length-1 containers
                    for cont in ([v], (v,), np.array([v]) if abs(v) < 1e300 else [v]):
                        try:
                            l2 = run(p, f, cont, ch)[1]
                        except Exception as e:  # noqa
                            l2 = repr(e)
                        if emitted_values(l2) != [ev]:
                            viol(f'{cl}: scalar == length-1 {type(cont).__name__}', f'{tag}: {log} vs {l2}')
        # per-channel lists: each entry clamped on its own, in order
        for _ in range(300):
            n = int(rng.integers(1, 5))
            chs = list(rng.permutation(4)[:n] + 1)
            kind = rng.integers(0, 4)
            if kind == 0:
                lst = list(rng.choice([lo, hi, lo * 10, hi * 10, 0.0, (lo + hi) / 2, -hi * 100, 1e3], n))
            elif kind == 1:
                lst = [float(x) for x in (rng.uniform(-1, 1, n) * 10.0 ** rng.integers(-14, 6, n))]
            elif kind == 2:
                lst = [int(x) for x in rng.integers(-5, 6, n)]
            else:
                lst = list(rng.uniform(lo, hi, n))
            for cont in (list, tuple, np.array):
                arg = cont(lst)
                r, log, w = run(p, f, arg, chs)
                tag = f'{name}({arg!r}, {chs})'
                if isinstance(r, Exception):
                    viol(f'{cl}: no error', f'{tag}: {type(r).__name__}: {r}')
                    continue
                check_log(f'{cl}: inside limits', log, tag)
                evs = emitted_values(log)
                want = [min(max(x, lo), hi) for x in lst]
                if len(evs) != n or any(abs(a - b) > tol + 1e-9 * abs(b) for a, b in zip(evs, want)):
                    viol(f'{cl}: list entries clamped one by one', f'{tag}: sent {evs}, want {want}')
                if [int(re.search(r'(\d)', c)[1]) for c in log] != [int(c) for c in chs]:
                    viol(f'{cl}: list entries go to their channels', f'{tag}: {log}')
                out = any(not (lo <= x <= hi) for x in lst)
                if out != bool(w):
                    viol(f'{cl}: warning iff out of range', f'{tag}: {w} warnings')
                # split into one call per channel
                l2 = []
                for x, c in zip(lst, chs):
                    l2 += run(p, f, x, int(c))[1]
                if emitted_values(l2) != evs:
                    viol(f'{cl}: one call == one call per channel', f'{tag}: {log} vs {l2}')

    # --- pattern length (integers)
    ivals = sorted(set([0, 1, 2, 3, 4, M - 1, M, M + 1, 2 * M, -1, -2, -M, 10 ** 7, 10 ** 9, 10 ** 12, 2 ** 31, 2 ** 32, 2 ** 63 - 1, 2 ** 63, 2 ** 64, 10 ** 20, -10 ** 20]
                       + [int(10 ** e) for e in np.linspace(0, 12, 49)] + [int(x) for x in np.linspace(2, M, 500)]))
    prev = None
    for v in ivals:
        for ch in (None, 2):
            r, log, w = run(p, p.set_patt_len, v, ch)
            tag = f'set_patt_len({v}, {ch})'
            if isinstance(r, Exception):
                viol('B patt_len: no error', f'{tag}: {type(r).__name__}: {r}')
                continue
            check_log('B patt_len: 2..2^21', log, tag)
            want = min(max(v, 2), M)
            if any(c.split()[-1] != str(want) for c in log) or len(log) != (4 if ch is None else 1):
                viol('B patt_len: value sent is the clamped request', f'{tag}: {log}')
            if (not 2 <= v <= M) != bool(w):
                viol('B patt_len: warning iff out of range', f'{tag}: {w} warnings')
            if ch == 2:
                for cont in ([v], (v,)):
                    l2 = run(p, p.set_patt_len, cont, ch)[1]
                    if l2 != log:
                        viol('B patt_len: scalar == length-1 list', f'{tag}: {log} vs {l2}')
                if abs(v) < 2 ** 63:
                    for dt in (np.int64,):
                        l2 = run(p, p.set_patt_len, np.array([v], dtype=dt), ch)[1]
                        if l2 != log:
                            viol('B patt_len: scalar == length-1 array', f'{tag}: {log} vs {l2}')
    for _ in range(300):
        n = int(rng.integers(1, 5))
        chs = [int(c) for c in rng.permutation(4)[:n] + 1]
        lst = [int(x) for x in rng.choice([0, 1, 2, 3, 1000, M - 1, M, M + 1, 10 ** 9, -7], n)]
        r, log, w = run(p, p.set_patt_len, lst, chs)
        tag = f'set_patt_len({lst}, {chs})'
        if isinstance(r, Exception):
            viol('B patt_len: no error', f'{tag}: {r!r}')
            continue
        check_log('B patt_len: 2..2^21', log, tag)
        if log != [f':DIG{c}:PATT:LENG {min(max(v, 2), M)}' for c, v in zip(chs, lst)]:
            viol('B patt_len: list entries clamped one by one', f'{tag}: {log}')

    # --- PRBS order
    sup = [7, 9, 11, 15, 23, 31]
    for v in list(range(-40, 80)) + [10 ** 3, 10 ** 6, 10 ** 9, -10 ** 6, 2 ** 31, 2 ** 40]:
        for ch in (None, 4):
            r, log, w = run(p, p.set_prbs_order, v, ch)
            tag = f'set_prbs_order({v}, {ch})'
            if isinstance(r, Exception):
                viol('B prbs: no error', f'{tag}: {type(r).__name__}: {r}')
                continue
            check_log('B prbs: supported list', log, tag)
            dist = min(abs(v - s) for s in sup)
            for c in log:
                if abs(int(float(c.split()[-1])) - v) != dist:
                    viol('B prbs: nearest supported order', f'{tag}: {c}')
            if (v not in sup) != bool(w):
                viol('B prbs: warning iff unsupported', f'{tag}: {w} warnings')
            if ch == 4:
                for cont in ([v], (v,), np.array([v])):
                    l2 = run(p, p.set_prbs_order, cont, ch)[1]
                    if l2 != log:
                        viol('B prbs: scalar == length-1 container', f'{tag}: {log} vs {l2}')
    for _ in range(200):
        n = int(rng.integers(1, 5))
        chs = [int(c) for c in rng.permutation(4)[:n] + 1]
        lst = [int(x) for x in rng.integers(-5, 45, n)]
        r, log, w = run(p, p.set_prbs_order, lst, chs)
        tag = f'set_prbs_order({lst}, {chs})'
        if isinstance(r, Exception):
            viol('B prbs: no error', f'{tag}: {r!r}')
            continue
        check_log('B prbs: supported list', log, tag)
        if [int(re.search(r'(\d)', c)[1]) for c in log] != chs:
            viol('B prbs: list entries go to their channels', f'{tag}: {log}')

    # --- mode: every letter case
    for mode in ('data', 'DATA', 'Data', 'dAtA', 'prbs', 'PRBS', 'Prbs'):
        r, log, w = run(p, p.set_mode, mode, 2)
        if isinstance(r, Exception) or log != [f':DIG2:PATT:TYPE {mode.upper()}']:
            viol('B mode: every letter case', f'set_mode({mode!r}): {r!r} {log}')

    # --- config/__call__: every command in range, whatever is asked
    for _ in range(300):
        kw = dict(freq=float(10 ** rng.uniform(6, 13)), patt_len=int(10 ** rng.uniform(0, 9)), Vout=float(rng.uniform(-1, 4)),
                  offset=float(rng.uniform(-5, 6)), bsh=int(rng.integers(-100, 100)), skew=float(rng.uniform(-1e-10, 1e-10)),
                  mode=str(rng.choice(['DATA', 'PRBS'])), order=int(rng.integers(0, 40)), data=list(rng.integers(0, 2, int(rng.integers(1, 3000)))),
                  CHs=[int(c) for c in rng.integers(-2, 8, int(rng.integers(1, 6)))])
        for k in list(kw):
            if rng.random() < 0.3:
                del kw[k]
        for f in (p, p.config):
            r, log, w = run(p, f, **kw)
            if isinstance(r, Exception):
                viol('B config: no error', f'config({ {k: v for k, v in kw.items() if k != "data"} }): {r!r}')
            check_log('B config: commands in range', log, 'config(...)')


# ----------------------------------------------------------------------------------------------
# clause C: set_data blocks, get_data round trip
# ----------------------------------------------------------------------------------------------
def check_blocks(log, ch_exp, start, bits, tag):
    """log must be the writes of `bits` at `start` for the channels ch_exp, channel after channel"""
    pos = 0
    for ch, row in zip(ch_exp, bits):
        addr = start
        got = []
        while pos < len(log):
            m = re.fullmatch(r':DIG(\d+):PATT:DATA (\d+),(\d+),#(\d)(\d*)', log[pos])
            if not m:
                viol('C blocks: command syntax', f'{tag}: {log[pos][:50]!r}')
                return
            if int(m[1]) != ch or len(got) >= len(row):
                break
            r = check_cmd(log[pos])
            if r:
                viol('C blocks: <=1024 bits, IEEE-488.2 header', f'{tag}: {log[pos][:50]!r} ({r})')
                return
            if int(m[2]) != addr:
                viol('C blocks: consecutive addresses', f'{tag}: block at {m[2]}, expected {addr}')
                return
            k = int(m[4])
            got += [int(c) for c in m[5][k:]]
            addr += int(m[3])
            pos += 1
        if got != [int(b) for b in row]:
            viol('C blocks: the bits sent are the bits given', f'{tag}: ch{ch} {len(got)} bits sent, {len(row)} given')
            return
    if pos != len(log):
        viol('C blocks: no extra command', f'{tag}: {len(log) - pos} extra')


def clause_data():
    p = make()
    rng = np.random.default_rng(22)
    lengths = list(range(1, 2060)) + list(range(3060, 3080)) + [4095, 4096, 4097, 5000, 8191, 8192, 8193, 9999, 10000]
    for n in lengths:
        starts = {1, 2, 3, 1023, 1024, 1025, 2048, M - n + 1, max(1, M - n), min(M, M - n + 2), M, int(rng.integers(1, M - n + 1))}
        if n % 97 == 0 or n < 5:
            starts |= {0, -1, -1000, M + 1, 10 * M}
        for s in sorted(starts):
            bits = rng.integers(0, 2, n)
            ch = int(rng.integers(1, 5))
            s_eff = min(max(s, 1), M)
            exp = bits[:M - s_eff + 1]
            r, log, w = run(p, p.set_data, bits, s, ch)
            tag = f'set_data(len {n}, start {s}, CHs={ch})'
            if isinstance(r, Exception):
                viol('C set_data: no error', f'{tag}: {type(r).__name__}: {r}')
                continue
            check_blocks(log, [ch], s_eff, [exp], tag)
            if (s != s_eff or len(exp) != n) != bool(w):
                viol('C set_data: warning iff clamped', f'{tag}: {w} warnings')
            r, log, w = run(p, p.get_data, n, s, ch)
            tag2 = f'get_data({n}, {s}, {ch}) after {tag}'
            if isinstance(r, Exception):
                viol('C get_data: no error', f'{tag2}: {type(r).__name__}: {r}')
                continue
            check_log('C get_data: read blocks in range', log, tag2)
            if r.shape != (1, len(exp)) or not np.array_equal(r[0], exp):
                viol('C round trip', f'{tag2}: shape {r.shape}, expected (1, {len(exp)})')
            # consecutive read blocks
            addr = s_eff
            for c in log:
                m = re.fullmatch(r':DIG(\d+):PATT:DATA\? (\d+),(\d+)', c)
                if not m or int(m[2]) != addr:
                    viol('C get_data: consecutive addresses', f'{tag2}: {c}')
                    break
                addr += int(m[3])
            if addr != s_eff + len(exp):
                viol('C get_data: reads the whole range', f'{tag2}: up to {addr}')

    # every channel, every container, one call vs two calls
    def containers(bits2d):
        """equivalent ways to pass the same rows"""
        a = np.asarray(bits2d)
        yield 'list', [list(map(int, r)) for r in a]
        yield 'tuple', tuple(tuple(map(int, r)) for r in a)
        for dt in (np.int64, np.uint8, bool, np.float64, np.complex128, np.int8):
            yield f'ndarray {np.dtype(dt).name}', a.astype(dt)
        yield 'fortran', np.asfortranarray(a.astype(np.int64))
        big = np.zeros((a.shape[0] * 2, a.shape[1] * 3), dtype=np.int64)
        big[::2, ::3] = a
        yield 'strided view', big[::2, ::3]
        ro = a.astype(np.int64).copy()
        ro.setflags(write=False)
        yield 'read-only', ro
        yield 'str rows', ';'.join(''.join(map(str, map(int, r))) for r in a)
        yield 'str rows spaced', ' ; '.join(' '.join(map(str, map(int, r))) for r in a)
        yield 'str rows commas', ';'.join(','.join(map(str, map(int, r))) for r in a)

    chsets = [None, [1, 2, 3, 4], [4, 3, 2, 1], [2], 3, [1, 3], (2, 4), np.array([4, 1, 2])]
    for n in [1, 2, 3, 7, 8, 9, 10, 11, 100, 1023, 1024, 1025, 2047, 2048, 2049, 2500]:
        for chs in chsets:
            cl = [1, 2, 3, 4] if chs is None else [int(c) for c in np.atleast_1d(chs)]
            for s in (1, 1000, M - n + 1):
                rows = rng.integers(0, 2, (len(cl), n))
                ref = None
                for cname, data in containers(rows):
                    p.inst.mem = {c: np.full(M + 2, 7, np.uint8) for c in range(1, 5)}
                    r, log, w = run(p, p.set_data, data, s, chs)
                    tag = f'set_data({cname} {rows.shape}, start {s}, CHs={chs!r})'
                    if isinstance(r, Exception):
                        viol('C set_data: every container', f'{tag}: {type(r).__name__}: {r}')
                        continue
                    if w:
                        viol('C set_data: no warning in range', tag)
                    check_blocks(log, cl, s, rows, tag)
                    if ref is None:
                        ref = log
                    elif log != ref:
                        viol('C set_data: container does not matter', tag)
                    g, log2, w2 = run(p, p.get_data, n, s, chs)
                    if isinstance(g, Exception) or g.shape != rows.shape or not np.array_equal(g, rows):
                        viol('C round trip: every channel', f'{tag}: got {g if isinstance(g, Exception) else g.shape}')
                    # channels not addressed are untouched
                    for c in set(range(1, 5)) - set(cl):
                        if (p.inst.mem[c] != 7).any():
                            viol('C set_data: other channels untouched', tag)
                # one row for all channels: 1-D data
                row = rows[0]
                for cname, data in [('1d list', list(map(int, row))), ('1d array', row), ('1d str', ''.join(map(str, row))),
                                    ('1d bool', row.astype(bool)), ('1d view', np.repeat(row, 2)[::2]), ('1d tuple', tuple(int(b) for b in row))]:
                    if n == 1 and cname == '1d str' and False:
                        continue
                    r, log, w = run(p, p.set_data, data, s, chs)
                    tag = f'set_data({cname} len {n}, start {s}, CHs={chs!r})'
                    if isinstance(r, Exception):
                        viol('C set_data: every container', f'{tag}: {type(r).__name__}: {r}')
                        continue
                    check_blocks(log, cl, s, [row] * len(cl), tag)
                    g, _, _ = run(p, p.get_data, n, s, chs)
                    if isinstance(g, Exception) or g.shape != (len(cl), n) or not all(np.array_equal(x, row) for x in g):
                        viol('C round trip: every channel', f'{tag}')
                    # keyword vs positional
                    if run(p, p.set_data, data=data, start_addrs=s, CHs=chs)[1] != log:
                        viol('C set_data: keyword == positional', tag)
                    if s == 1 and run(p, p.set_data, data, CHs=chs)[1] != log:
                        viol('C set_data: default start is 1', tag)
                # one write vs two writes / one read vs two reads
                for cut in sorted({1, n // 2, n - 1, 1024} & set(range(1, n))):
                    p.inst.mem = {c: np.full(M + 2, 7, np.uint8) for c in range(1, 5)}
                    run(p, p.set_data, rows, s, chs)
                    m1 = {c: p.inst.mem[c][:].copy() for c in cl}
                    p.inst.mem = {c: np.full(M + 2, 7, np.uint8) for c in range(1, 5)}
                    run(p, p.set_data, rows[:, cut:], s + cut, chs)
                    run(p, p.set_data, rows[:, :cut], s, chs)
                    if any(not np.array_equal(m1[c], p.inst.mem[c]) for c in cl):
                        viol('C set_data: one write == two writes', f'n {n} cut {cut} start {s} CHs={chs!r}')
                    g1 = run(p, p.get_data, n, s, chs)[0]
                    ga = run(p, p.get_data, cut, s, chs)[0]
                    gb = run(p, p.get_data, n - cut, s + cut, chs)[0]
                    if any(isinstance(x, Exception) for x in (g1, ga, gb)) or not np.array_equal(g1, np.hstack((ga, gb))):
                        viol('C get_data: one read == two reads', f'n {n} cut {cut} start {s} CHs={chs!r}')

    # out-of-range channel selections in the round trip
    for chs in (0, 5, [0, 9], [3, 4, 5]):
        bits = rng.integers(0, 2, 1500)
        r, log, w = run(p, p.set_data, bits, 10, chs)
        g, log2, w2 = run(p, p.get_data, 1500, 10, chs)
        check_log('C data: channel 1..4', log + log2, f'CHs={chs}')
        if isinstance(g, Exception) or not all(np.array_equal(x, bits) for x in g):
            viol('C round trip: clamped channels', f'CHs={chs}')

    # get_data: size / address requests out of range are clamped with a warning
    for size, s in [(0, 1), (-5, 1), (10, 0), (10, -3), (10, M), (10, M + 5), (M + 1, 1), (3 * M, 7), (5, M - 2), (10 ** 12, 10 ** 12), (2, M)]:
        p.inst.mem[1][:] = 1
        g, log, w = run(p, p.get_data, size, s, 1)
        tag = f'get_data({size}, {s}, 1)'
        if isinstance(g, Exception):
            viol('C get_data: clamp, no error', f'{tag}: {g!r}')
            continue
        check_log('C get_data: read blocks in range', log, tag)
        s_eff = min(max(s, 1), M)
        want = min(max(size, 1), M - s_eff + 1)
        if g.shape != (1, want):
            viol('C get_data: clamped size', f'{tag}: shape {g.shape}, expected (1, {want})')
        if not w:
            viol('C get_data: warning', tag)

    # arbitrary sequences of set_*/get_* calls: memory model vs instrument
    p = make()
    p.inst.mem = {c: np.zeros(M + 2, np.uint8) for c in range(1, 5)}  # a cleared pattern memory
    model = {c: np.zeros(M + 2, np.uint8) for c in range(1, 5)}
    for step in range(1500):
        op = rng.integers(0, 10)
        chs = [None, 1, 2, 3, 4, [1, 2], [3, 4], [4, 1], [2, 3, 4]][rng.integers(0, 9)]
        cl = [1, 2, 3, 4] if chs is None else [int(c) for c in np.atleast_1d(chs)]
        if op < 4:
            n = int(rng.choice([1, 2, 5, 1000, 1024, 1025, 2048, 3000]))
            s = int(rng.choice([1, 2, 500, 1024, 1025, 4000, M - n + 1]))
            if rng.random() < 0.5:
                d = rng.integers(0, 2, (len(cl), n))
                for c, row in zip(cl, d):
                    model[c][s:s + n] = row
            else:
                d = rng.integers(0, 2, n)
                for c in cl:
                    model[c][s:s + n] = d
            r, log, w = run(p, p.set_data, d, s, chs)
            check_log('C sequence: commands in range', log, f'step {step}')
        elif op < 8:
            n = int(rng.choice([1, 2, 5, 1000, 1024, 1025, 2048, 3000]))
            s = int(rng.choice([1, 2, 500, 1024, 1025, 4000, M - n + 1]))
            g, log, w = run(p, p.get_data, n, s, chs)
            check_log('C sequence: commands in range', log, f'step {step}')
            want = np.array([model[c][s:s + n] for c in cl])
            if isinstance(g, Exception) or not np.array_equal(g, want):
                viol('C sequence: get_data returns the memory', f'step {step}: get_data({n},{s},{chs})')
        else:
            f, a = [(p.set_patt_len, int(10 ** rng.uniform(0, 8))), (p.set_skew, float(rng.normal(0, 3e-11))), (p.set_offset, float(rng.normal(0, 3))),
                    (p.set_output_voltage, float(rng.normal(1, 2))), (p.set_prbs_order, int(rng.integers(0, 40))), (p.set_bits_shift, int(rng.integers(-9, 9)))][rng.integers(0, 6)]
            r, log, w = run(p, f, a, chs)
            if isinstance(r, Exception):
                viol('C sequence: no error', f'step {step}: {f.__name__}({a}): {r!r}')
            check_log('C sequence: commands in range', log, f'step {step} {f.__name__}({a})')
    for c in range(1, 5):
        if not np.array_equal(model[c][1:M + 1], p.inst.mem[c][1:M + 1]):
            viol('C sequence: final memory', f'channel {c}')


# ----------------------------------------------------------------------------------------------
# clause D: SYNC
# ----------------------------------------------------------------------------------------------
def sync_check(clause, tag, rx, slots, sps, d, kw_sps=None):
    try:
        with warnings.catch_warnings():
            warnings.simplefilter('ignore')
            if kw_sps is not None:
                s, i = SYNC(signal_rx=rx, slots_tx=slots, sps=kw_sps)
            else:
                s, i = SYNC(rx, slots, sps) if sps is not None else SYNC(rx, slots)
    except Exception as e:  # noqa
        viol(clause, f'{tag} d={d}: raised {type(e).__name__}: {e}')
        return None
    a = np.asarray(rx.signal if isinstance(rx, electrical_signal) else rx)
    if i != d:
        viol(clause, f'{tag} d={d}: index {i}')
    elif s.signal.size == 0 or not np.array_equal(s.signal, a[d:d + s.signal.size]):
        viol(clause, f'{tag} d={d}: returned signal does not start at sample d (size {s.signal.size})')
    return i


def clause_sync():
    rng = np.random.default_rng(23)
    for order, seeds in [(7, [None, 1, 85]), (9, [None, 300]), (11, [None])]:
        for seed in seeds:
            slots = PRBS(order, seed=seed).data
            for sps in ([1, 2, 3, 4, 8] if order < 11 else [1, 4]):
                tx = np.kron(slots, np.ones(sps))
                l = tx.size
                if l <= 1100 and seed is None:
                    ds = list(range(l))
                else:
                    ds = sorted(set([0, 1, 2, sps - 1, sps, sps + 1, l // 2, l - sps, l - 2, l - 1] + [int(x) for x in rng.integers(0, l, 40)]))
                for reps in (2, 3):
                    base = np.tile(tx, reps)
                    for sigma in (0.0, 0.1, 0.25):
                        for d in ds:
                            for mode in ('roll', 'zeros', 'junk'):
                                if mode == 'roll':
                                    rx = np.roll(base, d)
                                elif mode == 'zeros':
                                    rx = np.concatenate((np.zeros(d), base))
                                else:
                                    rx = np.concatenate((rng.uniform(0, 1, d), base))
                                if sigma:
                                    rx = rx + sigma * rng.standard_normal(rx.size)
                                sync_check('D SYNC: index d, signal from d', f'PRBS{order} seed {seed} sps {sps} reps {reps} sigma {sigma} {mode}', rx, slots, sps, d)
    # invariances on PRBS7
    slots = PRBS(7).data
    for sps in (1, 4):
        tx = np.kron(slots, np.ones(sps))
        l = tx.size
        gv(sps=sps)
        for d in sorted({0, 1, 2, sps, l // 2, l - sps - 1, l - 2, l - 1}):
            base = np.roll(np.tile(tx, 3), d)
            noisy = base + 0.2 * np.random.default_rng(d).standard_normal(base.size)
            cl = 'D SYNC: invariance'
            sync_check(cl, 'rx int64', base.astype(np.int64), slots, sps, d)
            sync_check(cl, 'rx float32', base.astype(np.float32), slots, sps, d)
            for dt in (np.int64, bool, float, np.uint8):
                sync_check(cl, f'slots {np.dtype(dt).name}', noisy, slots.astype(dt), sps, d)
            sync_check(cl, 'slots binary_sequence', noisy, binary_sequence(slots), sps, d)
            ro = noisy.copy()
            ro.setflags(write=False)
            sync_check(cl, 'read-only rx', ro, slots, sps, d)
            big = np.zeros(2 * noisy.size)
            big[::2] = noisy
            sync_check(cl, 'strided rx', big[::2], slots, sps, d)
            sync_check(cl, 'reversed-view slots', noisy, slots[::-1][::-1], sps, d)
            for scale in (1e-6, 1e-3, 1e3):
                sync_check(cl, f'scale {scale}', noisy * scale, slots, sps, d)
            sync_check(cl, 'positive offset', noisy + 3, slots, sps, d)
            sync_check(cl, 'electrical_signal', electrical_signal(noisy), slots, None, d)
            sync_check(cl, 'electrical_signal noise=0', electrical_signal(noisy, noise=np.zeros(noisy.size)), slots, None, d)
            sync_check(cl, 'sps keyword', noisy, slots, None, d, kw_sps=sps)
            # a record that is not a whole number of patterns
            for cut in (2 * l, 2 * l + 1, 2 * l - 1, 3 * l - 1):
                sync_check(cl, f'record of {cut} samples', noisy[:cut], slots, sps, d)
            # longer records give the same index
            sync_check(cl, 'five repetitions', np.roll(np.tile(tx, 5), d), slots, sps, d)
    gv(sps=16)
    # short records are rejected
    tx = np.kron(slots, np.ones(4))
    l = tx.size
    for n in (0, 1, 2, l // 2, l - 2, l - 1):
        try:
            SYNC(np.tile(tx, 2)[:n], slots, 4)
            viol('D SYNC: short record rejected', f'{n} samples accepted (pattern {l})')
        except BufferError:
            pass
        except Exception as e:  # noqa
            viol('D SYNC: short record rejected', f'{n} samples: {type(e).__name__} instead of BufferError: {e}')
    # boundary: a record of exactly one pattern (neither "shorter" nor "longer")
    for sps in (1, 4):
        tx = np.kron(slots, np.ones(sps))
        try:
            s, i = SYNC(tx.copy(), slots, sps)
            if i != 0 or s.signal.size == 0:
                viol('D SYNC: record of exactly one pattern -> index 0 or BufferError', f'sps {sps}: index {i}, size {s.signal.size}')
        except BufferError:
            pass
        except Exception as e:  # noqa
            viol('D SYNC: record of exactly one pattern -> index 0 or BufferError', f'sps {sps}: {type(e).__name__}: {e}')


def observations():
    """outside the clauses of C20; printed, not counted"""
    p = make()
    log = run(p, p, mode='prbs', order=31, CHs=1)[1]
    if not any('PLEN' in c for c in log):
        print(f"OBS config(mode='prbs', order=31, CHs=1) sends {log}: the order is dropped (mode compared with 'PRBS' after set_mode accepted 'prbs')")
    log = run(p, p, mode='data', data=[1, 0], CHs=1)[1]
    if not any('DATA ' in c for c in log):
        print(f"OBS config(mode='data', data=[1,0], CHs=1) sends {log}: the data is dropped")
    log = run(p, p.set_patt_len, [1000.0], 1)[1]
    r = run(p, p.set_patt_len, 1000.0, 1)[0]
    print(f'OBS set_patt_len([1000.0], 1) sends {log}; set_patt_len(1000.0, 1) -> {r!r}')
    run(p, p.set_offset, 1.5, 1)
    g = run(p, p.get_offset, 1)
    print(f'OBS set_offset(1.5, 1) then get_offset(1) asks {g[1]} -> {g[0]} (a different SCPI node from the one written)')
    r, log, w = run(p, p.enable_outputs, [[1, 2]])
    print(f'OBS enable_outputs([[1, 2]]) sends {log}')
    r, log, w = run(p, p.enable_outputs, 2 ** 63)
    print(f'OBS enable_outputs(2**63) -> {r!r}')


if __name__ == '__main__':
    clause_channels()
    clause_limits()
    clause_data()
    clause_sync()
    observations()
    if VIOL:
        print(f'{len(VIOL)} violations in {len(SEEN)} clauses: ' + '; '.join(f'{k} x{v}' for k, v in SEEN.items()))
        sys.exit(1)
    print('PASS')
    sys.exit(0)
