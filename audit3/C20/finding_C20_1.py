# C20 / SYNC, boundary of "a received record shorter than the pattern is rejected":
# a record of EXACTLY one pattern length passes the guard (len(rx) < len(tx)) although the guard's own
# message and the docstring say the record "must be greater than" the pattern; SYNC then slices
# signal_rx[0:-l] (empty) and dies inside the electrical_signal constructor with an unrelated ValueError.
import sys, os
if sys.path and os.path.abspath(sys.path[0] or '.') == os.path.dirname(os.path.abspath(__file__)): del sys.path[0]
import numpy as np
from opticomlib.lab import SYNC
from opticomlib.devices import PRBS
slots = PRBS(7).data
rx = np.kron(slots, np.ones(4))          # the pattern's waveform, once, delay 0
try:
    s, i = SYNC(rx, slots, 4)
    ok = (i == 0 and s.signal.size > 0)
    print('returned index', i, 'signal size', s.signal.size)
except BufferError as e:
    ok = True; print('rejected with BufferError (fine):', e)
except Exception as e:
    ok = False; print('expected: index 0 with a non-empty signal, or BufferError; got', type(e).__name__, ':', e)
sys.exit(0 if ok else 1)
