import sys
del sys.path[0]
import itertools, warnings
import numpy as np
from opticomlib.typing import electrical_signal as E, optical_signal as O

warnings.simplefilter('ignore')
VIOL = []
SEEN = set()


def viol(clause, inp, msg):
    key = (clause, msg[:60])
    if key in SEEN and sum(1 for k in VIOL if k[0] == clause) > 12:
        return
    SEEN.add(key)
    VIOL.append((clause, inp, msg))
    print(f'VIOLATION [{clause}] input={inp}: {msg}')


# ----------------------------------------------------------------- helpers
def contract(obj, cls, npol, N, clause, inp):
    ok = True
    if type(obj) is not cls:
        viol(clause, inp, f'class {type(obj).__name__}, expected {cls.__name__}'); return False
    s, n = obj.signal, obj.noise
    if not isinstance(s, np.ndarray):
        viol(clause, inp, 'signal is not ndarray'); return False
    shape = (N,) if npol == 1 else (2, N)
    if s.shape != shape:
        viol(clause, inp, f'signal shape {s.shape}, expected {shape}'); ok = False
    if s.size < 1:
        viol(clause, inp, 'empty signal'); ok = False
    if n is not None:
        if not isinstance(n, np.ndarray) or n.shape != s.shape:
            viol(clause, inp, f'noise shape {getattr(n, "shape", None)} != signal shape {s.shape}'); ok = False
        if np.shares_memory(n, s):
            viol(clause, inp, 'noise shares memory with signal'); ok = False
    if cls is O and getattr(obj, 'n_pol', None) != npol:
        viol(clause, inp, f'n_pol attribute {getattr(obj, "n_pol", None)}, expected {npol}'); ok = False
    if obj.len() != N or len(obj) != N:
        viol(clause, inp, f'len() {obj.len()}, expected {N}'); ok = False
    return ok


def snap(obj):
    return (obj.signal.tobytes(), obj.signal.dtype, obj.signal.shape,
            None if obj.noise is None else (obj.noise.tobytes(), obj.noise.dtype, obj.noise.shape))


def arrays(obj):
    return [a for a in (obj.signal, obj.noise) if a is not None]


def noshare(res, ops, clause, inp):
    for o in ops:
        if isinstance(o, E):
            if res is o:
                viol(clause, inp, 'result is the operand itself')
            for a in arrays(res):
                for b in arrays(o):
                    if np.shares_memory(a, b):
                        viol(clause, inp, 'result shares memory with an operand')
        elif isinstance(o, np.ndarray):
            for a in arrays(res):
                if np.shares_memory(a, o):
                    viol(clause, inp, 'result shares memory with an ndarray operand')


def tot(s, n):
    return s if n is None else s + n


def close(a, b):
    a = np.asarray(a); b = np.asarray(b)
    if a.shape != b.shape:
        return False
    if a.dtype.kind in 'iub' and b.dtype.kind in 'iub':
        return np.array_equal(a, b)
    return np.allclose(a, b, rtol=1e-12, atol=1e-12 * (1 + np.max(np.abs(b)) if b.size else 1))


def rand(rng, shape, dt):
    if dt == 'int':
        return rng.integers(-50, 50, size=shape)
    if dt == 'float':
        return rng.normal(size=shape) * 3
    return rng.normal(size=shape) + 1j * rng.normal(size=shape)


def mk(cls, npol, N, dt, noise, rng, ndt=None):
    shape = (N,) if npol == 1 else (2, N)
    s = rand(rng, shape, dt)
    n = rand(rng, shape, ndt or dt) if noise else None
    obj = cls(s, n)
    return obj


LAYOUTS = [(E, 1), (O, 1), (O, 2)]
LENS = [1, 2, 3, 4, 5, 7, 16, 17, 31, 101, 4099]
DTS = ['int', 'float', 'complex']
rng0 = np.random.default_rng(20250101)

# ----------------------------------------------------------------- C1 constructors
def c1():
    cl = 'C1-constructor'
    for cls, npol in LAYOUTS:
        for N in [1, 2, 3, 5, 17, 1021]:
            for dt in DTS:
                for noise in (False, True):
                    for form in ('ndarray', 'list', 'tuple', 'str'):
                        shape = (N,) if npol == 1 else (2, N)
                        s = rand(rng0, shape, dt)
                        n = rand(rng0, shape, dt) if noise else None
                        if dt == 'int' and form == 'str':
                            s = s + 2  # avoid pure 0/1 text
                            s[s == 0] = 7; s[s == 1] = 9
                            if n is not None:
                                n = n + 2; n[n == 0] = 7; n[n == 1] = 9

                        def conv(a):
                            if a is None: return None
                            if form == 'ndarray': return a.copy()
                            if form == 'list': return a.tolist()
                            if form == 'tuple':
                                return tuple(a.tolist()) if a.ndim == 1 else tuple(tuple(r) for r in a.tolist())
                            def tok(v):
                                if dt == 'complex':
                                    return f'{v.real:.6f}{v.imag:+.6f}j'
                                if dt == 'float':
                                    return f'{v:.6f}'
                                return str(int(v))
                            rows = [a] if a.ndim == 1 else list(a)
                            return ';'.join(' '.join(tok(v) for v in r) for r in rows)
                        a, b = conv(s), conv(n)
                        inp = f'{cls.__name__} npol={npol} N={N} {dt} noise={noise} form={form}'
                        if form == 'str':
                            s = np.round(s, 6); n = None if n is None else np.round(n, 6)
                        try:
                            obj = cls(a, b)
                        except Exception as e:
                            viol(cl, inp, f'raised {type(e).__name__}: {e}'); continue
                        if not contract(obj, cls, npol, N, cl, inp): continue
                        if not close(obj.signal, s): viol(cl, inp, 'signal values differ')
                        if noise and not close(obj.noise, n): viol(cl, inp, 'noise values differ')
                        if (obj.noise is not None) != noise: viol(cl, inp, 'noise presence differs')
                        if form == 'ndarray':
                            noshare(obj, [a] + ([b] if b is not None else []), cl, inp)
                            if not np.array_equal(a, s): viol(cl, inp, 'input array modified')
        # scalars
        scal = [3, -2, 0, 1, 2.5, 1 + 2j, np.int64(4), np.int8(4), np.float64(1.5), np.float32(1.5),
                np.complex128(1 - 1j), np.array(2.0), True, '2', '2.5', '1+2j', '-3']
        for v in scal:
            for nz in ([None, '0.5'] if isinstance(v, str) else [None, 0.5, np.float64(0.25), 1j]):
                pols = [None] if cls is E else [None, 1, 2]
                for p in pols:
                    inp = f'{cls.__name__}({v!r}, {nz!r}, n_pol={p})'
                    try:
                        obj = cls(v, nz) if cls is E else cls(v, nz, n_pol=p)
                    except Exception as e:
                        viol(cl, inp, f'raised {type(e).__name__}: {e}'); continue
                    np_ = 1 if p in (None, 1) else 2
                    if contract(obj, cls, np_, 1, cl, inp):
                        vv = complex(v) if not isinstance(v, str) else complex(v)
                        if not np.allclose(obj.signal, vv): viol(cl, inp, f'value {obj.signal}')
                        if nz is not None and not np.allclose(obj.noise, complex(nz)): viol(cl, inp, f'noise value {obj.noise}')
    # optical n_pol forms with vectors
    for N in [1, 2, 3, 5]:
        for dt in DTS:
            for noise in (False, True):
                v = rand(rng0, (N,), dt); nz = rand(rng0, (N,), dt) if noise else None
                m = rand(rng0, (2, N), dt); mz = rand(rng0, (2, N), dt) if noise else None
                cases = [
                    (v, nz, None, 1, v, nz), (v, nz, 1, 1, v, nz), (v, nz, 2, 2, np.array([v, v]), None if nz is None else np.array([nz, nz])),
                    (m, mz, None, 2, m, mz), (m, mz, 2, 2, m, mz), (m, mz, 1, 1, m[0], None if mz is None else mz[0]),
                    (m[:1], None if mz is None else mz[:1], 1, 1, m[0], None if mz is None else mz[0]),
                    (m[:1], None if mz is None else mz[:1], 2, 2, np.array([m[0], m[0]]), None if mz is None else np.array([mz[0], mz[0]])),
                ]
                for a, b, p, enp, es, en in cases:
                    for form in ('ndarray', 'list'):
                        aa = a.tolist() if form == 'list' else a
                        bb = None if b is None else (b.tolist() if form == 'list' else b)
                        inp = f'O(shape {a.shape} {dt} noise={noise} n_pol={p} {form})'
                        try:
                            obj = O(aa, bb, n_pol=p)
                        except Exception as e:
                            viol(cl, inp, f'raised {type(e).__name__}: {e}'); continue
                        if contract(obj, O, enp, N, cl, inp):
                            if not close(obj.signal, es): viol(cl, inp, 'signal values')
                            if en is not None and not close(obj.noise, en): viol(cl, inp, 'noise values')
                            if form == 'ndarray':
                                noshare(obj, [a] + ([b] if b is not None else []), cl, inp)
    # dtype keyword
    for cls, npol in LAYOUTS:
        for dty in (int, float, complex, np.float32, np.int32, np.complex64):
            for noise in (False, True):
                for N in (1, 3):
                    shape = (N,) if npol == 1 else (2, N)
                    s = rng0.integers(-9, 9, size=shape); n = rng0.integers(-9, 9, size=shape) if noise else None
                    inp = f'{cls.__name__} dtype={dty.__name__} noise={noise} N={N} npol={npol}'
                    try:
                        obj = cls(s, n, dtype=dty)
                    except Exception as e:
                        viol(cl, inp, f'raised {type(e).__name__}: {e}'); continue
                    if contract(obj, cls, npol, N, cl, inp):
                        if obj.signal.dtype != np.dtype(dty): viol(cl, inp, f'dtype {obj.signal.dtype}')
                        if noise and obj.noise.dtype != np.dtype(dty): viol(cl, inp, f'noise dtype {obj.noise.dtype}')
                        if not close(obj.signal.astype(complex), s.astype(complex)): viol(cl, inp, 'values')
    # rejected shapes
    bad = [lambda: E([]), lambda: O([]), lambda: O([[], []]), lambda: E([[1, 2], [3, 4]]), lambda: O(np.zeros((3, 4))),
           lambda: E([1, 2, 3], [1, 2]), lambda: O([[1, 2], [3, 4]], [1, 2]), lambda: E([1, 2, 3], 1.0), lambda: E(''), lambda: O(np.zeros((2, 0)))]
    for k, f in enumerate(bad):
        try:
            r = f(); viol(cl, f'bad#{k}', f'accepted invalid shape -> {r.signal.shape}')
        except ValueError:
            pass
        except Exception as e:
            viol(cl, f'bad#{k}', f'raised {type(e).__name__} not ValueError: {e}')


# ----------------------------------------------------------------- C2 slicing / copy
def c2():
    cl = 'C2-slice'
    for cls, npol in LAYOUTS:
        for N in [1, 2, 3, 4, 5, 6, 7]:
            for dt in DTS:
                for noise in (False, True):
                    x = mk(cls, npol, N, dt, noise, rng0)
                    S, NZ = x.signal.copy(), None if x.noise is None else x.noise.copy()
                    before = snap(x)
                    rngv = [None] + list(range(-N - 2, N + 3))
                    keys = [slice(a, b, c) for a in rngv for b in rngv for c in (None, 1, 2, 3, -1, -2, -3, N, -N)]
                    keys += list(range(-N, N)) + [np.int64(k) for k in range(-N, N)] + [np.int32(-1), np.uint8(0), np.int16(N - 1)]
                    for key in keys:
                        inp = f'{cls.__name__} npol={npol} N={N} {dt} noise={noise} key={key!r}'
                        if isinstance(key, slice):
                            es = S[..., key]; en = None if NZ is None else NZ[..., key]
                        else:
                            es = S[..., key, None] if npol == 2 else S[key][None]
                            en = None if NZ is None else (NZ[..., key, None] if npol == 2 else NZ[key][None])
                        try:
                            r = x[key]
                        except ValueError as e:
                            if es.size: viol(cl, inp, f'ValueError on non-empty selection: {e}')
                            continue
                        except Exception as e:
                            viol(cl, inp, f'raised {type(e).__name__}: {e}'); continue
                        if es.size == 0:
                            viol(cl, inp, f'empty selection returned object shape {r.signal.shape}'); continue
                        if contract(r, cls, npol, es.shape[-1], cl, inp):
                            if not np.array_equal(r.signal, es): viol(cl, inp, 'signal samples differ')
                            if (r.noise is not None) != noise: viol(cl, inp, 'noise presence changed')
                            elif noise and not np.array_equal(r.noise, en): viol(cl, inp, 'noise samples differ')
                            if r.signal.dtype != S.dtype: viol(cl, inp, f'dtype {r.signal.dtype} != {S.dtype}')
                            noshare(r, [x], cl, inp)
                        if snap(x) != before: viol(cl, inp, 'operand changed'); before = snap(x)
                    for key in [N, -N - 1, np.int64(N)]:
                        try:
                            r = x[key]; viol(cl, f'N={N} key={key}', 'out of range index accepted')
                        except (IndexError, ValueError):
                            pass
                    # copy
                    c = x.copy()
                    inp = f'copy {cls.__name__} npol={npol} N={N} {dt} noise={noise}'
                    if contract(c, cls, npol, N, 'C3-copy', inp):
                        if not np.array_equal(c.signal, S) or c.signal.dtype != S.dtype: viol('C3-copy', inp, 'signal differs')
                        if noise and (c.noise is None or not np.array_equal(c.noise, NZ)): viol('C3-copy', inp, 'noise differs')
                        if not noise and c.noise is not None: viol('C3-copy', inp, 'noise appeared')
                        noshare(c, [x], 'C3-copy', inp)
                        c.signal[...] = 0
                        if c.noise is not None: c.noise[...] = 0
                        if snap(x) != before: viol('C3-copy', inp, 'writing to copy changed the original')
                    for k in range(1, N + 1):
                        c = x.copy(k)
                        if contract(c, cls, npol, k, 'C3-copy', inp + f' n={k}'):
                            if not np.array_equal(c.signal, S[..., :k]): viol('C3-copy', inp + f' n={k}', 'signal differs')


# ----------------------------------------------------------------- C4 arithmetic
OPS = {'+': lambda a, b: a + b, '-': lambda a, b: a - b, '*': lambda a, b: a * b}


def model(op, a, b):
    """a, b: (s, n) pairs already broadcastable"""
    (s1, n1), (s2, n2) = a, b
    f = OPS[op]
    s = f(s1, s2)
    if op == '*':
        if n1 is None and n2 is None: n = None
        elif n1 is None: n = np.broadcast_to(n2, s.shape)
        elif n2 is None: n = np.broadcast_to(n1, s.shape)
        else: n = n1 * n2
    else:
        if n1 is None and n2 is None: n = None
        else:
            z1 = np.zeros_like(s1) if n1 is None else n1
            z2 = np.zeros_like(s2) if n2 is None else n2
            n = f(z1, z2) + np.zeros(s.shape, dtype=s.dtype)
    return s, n


def check_bin(cl, inp, op, x, y, mx, my, cls, npol, N, swap=False):
    """x op y ; mx,my model pairs ; expects class cls"""
    sig_ops = [o for o in (x, y) if isinstance(o, E)]
    befores = [snap(o) for o in sig_ops]
    arr_ops = [o for o in (x, y) if isinstance(o, np.ndarray)]
    arr_b = [o.copy() for o in arr_ops]
    try:
        r = OPS[op](x, y)
    except Exception as e:
        viol(cl, inp, f'raised {type(e).__name__}: {e}'); return None
    es, en = model(op, mx, my)
    if contract(r, cls, npol, N, cl, inp):
        if (r.noise is not None) != (en is not None):
            viol(cl, inp, f'noise presence {r.noise is not None}, expected {en is not None}')
        if op in '+-':
            if not close(tot(r.signal, r.noise), tot(es, en)): viol(cl, inp, 'total field differs from model')
        if not close(r.signal, es): viol(cl, inp, 'signal differs from model')
        if en is not None and r.noise is not None and not close(r.noise, en): viol(cl, inp, 'noise differs from model')
        noshare(r, [x, y], cl, inp)
    for o, b in zip(sig_ops, befores):
        if snap(o) != b: viol(cl, inp, 'operand changed')
    for o, b in zip(arr_ops, arr_b):
        if not np.array_equal(o, b): viol(cl, inp, 'ndarray operand changed')
    return r


def pair(o):
    return (o.signal, o.noise)


def c4():
    # signal (op) signal, all noise combos, dtypes, lengths, also length-1 on either side
    cl = 'C4-sig-sig'
    for cls, npol in LAYOUTS:
        for N in LENS:
            for d1, d2 in itertools.product(DTS, DTS):
                for n1, n2 in itertools.product((False, True), repeat=2):
                    x = mk(cls, npol, N, d1, n1, rng0); y = mk(cls, npol, N, d2, n2, rng0)
                    for op in OPS:
                        inp = f'{cls.__name__} npol={npol} N={N} {d1}{"+n" if n1 else ""} {op} {d2}{"+n" if n2 else ""}'
                        check_bin(cl, inp, op, x, y, pair(x), pair(y), cls, npol, N)
                    if N <= 7:
                        check_bin(cl, inp + ' self', '+', x, x, pair(x), pair(x), cls, npol, N)
                        check_bin(cl, inp + ' self', '-', x, x, pair(x), pair(x), cls, npol, N)
    cl = 'C4-len1-broadcast'
    for cls, npol in LAYOUTS:
        for N in [1, 2, 3, 17, 101]:
            for d1, d2 in itertools.product(DTS, DTS):
                for n1, n2 in itertools.product((False, True), repeat=2):
                    x = mk(cls, npol, N, d1, n1, rng0); y = mk(cls, npol, 1, d2, n2, rng0)
                    for op in OPS:
                        inp = f'{cls.__name__} npol={npol} lenN={N} {d1}{"+n" if n1 else ""} {op} len1 {d2}{"+n" if n2 else ""}'
                        check_bin(cl + '-right', inp, op, x, y, pair(x), pair(y), cls, npol, N)
                        check_bin(cl + '-left', inp + ' (len1 on the left)', op, y, x, pair(y), pair(x), cls, npol, N)
    # mismatched lengths
    cl = 'C6-length-mismatch'
    for cls, npol in LAYOUTS:
        for N, M in [(2, 3), (3, 2), (5, 4), (17, 16), (2, 4), (101, 100)]:
            for n1, n2 in itertools.product((False, True), repeat=2):
                x = mk(cls, npol, N, 'float', n1, rng0); y = mk(cls, npol, M, 'float', n2, rng0)
                others = [('signal', y), ('list', list(range(M))), ('tuple', tuple(range(M))), ('ndarray', np.arange(M) * 1.5),
                          ('str', ' '.join(str(k + 2) for k in range(M)))]
                for kind, o in others:
                    for op in OPS:
                        for side in ('right', 'left'):
                            if side == 'left' and kind == 'ndarray': continue
                            inp = f'{cls.__name__} npol={npol} N={N} M={M} noise=({n1},{n2}) other={kind} {op} {side}'
                            try:
                                r = OPS[op](x, o) if side == 'right' else OPS[op](o, x)
                                viol(cl, inp, f'accepted, result shape {r.signal.shape}')
                            except ValueError:
                                pass
                            except Exception as e:
                                viol(cl, inp, f'raised {type(e).__name__} instead of ValueError: {e}')
    # other operand kinds
    cl = 'C4-operand-kinds'
    for cls, npol in LAYOUTS:
        for N in [1, 2, 3, 5, 17]:
            for dt in DTS:
                for noise in (False, True):
                    x = mk(cls, npol, N, dt, noise, rng0)
                    vi = rng0.integers(2, 9, size=N); vf = rng0.normal(size=N).round(3); vc = (rng0.normal(size=N) + 1j * rng0.normal(size=N)).round(3)
                    kinds = []
                    for sc in [2, -3, 0, 1, 2.5, -0.0, 1 + 2j, True]:
                        kinds.append((f'py {sc!r}', sc, np.array([sc]) * 1, True))
                    for sc in [np.int64(3), np.int32(-2), np.float64(0.5), np.float32(0.5), np.complex128(2 - 1j), np.array(1.5), np.array([2.5]), np.uint8(3), np.bool_(True)]:
                        kinds.append((f'np {sc!r}', sc, np.atleast_1d(np.asarray(sc)) * 1, False))
                    for v in (vi, vf, vc):
                        kinds.append((f'list {v.dtype}', v.tolist(), v, True))
                        kinds.append((f'tuple {v.dtype}', tuple(v.tolist()), v, True))
                        kinds.append((f'ndarray {v.dtype}', v.copy(), v, False))
                    kinds.append(('ndarray f32', vf.astype(np.float32), vf.astype(np.float32), False))
                    kinds.append(('ndarray strided', np.arange(2 * N)[::2] * 1.0, np.arange(2 * N)[::2] * 1.0, False))
                    kinds.append(('str int', ' '.join(map(str, vi)), vi, True))
                    kinds.append(('str int commas', ','.join(map(str, vi)), vi, True))
                    kinds.append(('str int comma-space', ', '.join(map(str, -vi)), -vi, True))
                    kinds.append(('str float', ' '.join(f'{v:.3f}' for v in vf), vf, True))
                    kinds.append(('str complex', ' '.join(f'{v.real:.3f}{v.imag:+.3f}j' for v in vc), vc, True))
                    kinds.append(('str complex i', ','.join(f'{v.real:.3f}{v.imag:+.3f}i' for v in vc), vc, True))
                    bits = rng0.integers(0, 2, size=N)
                    kinds.append(('str 01 compact', ''.join(map(str, bits)), bits, True))
                    kinds.append(('str 01 spaced', ' '.join(map(str, bits)), bits, True))
                    kinds.append(('list bool', [bool(b) for b in bits], bits, True))
                    kinds.append(('str scalar 2', '2', np.array([2]), True))
                    kinds.append(('str scalar 2.5', '2.5', np.array([2.5]), True))
                    kinds.append(('str scalar -1.5e', '-1.5', np.array([-1.5]), True))
                    kinds.append(('str scalar 3j', '3j', np.array([3j]), True))
                    kinds.append(('list len1', [4], np.array([4]), True))
                    kinds.append(('tuple len1', (4.5,), np.array([4.5]), True))
                    if npol == 2:
                        m = rng0.normal(size=(2, N)).round(3)
                        kinds.append(('ndarray 2xN', m.copy(), m, False))
                        kinds.append(('list 2xN', m.tolist(), m, True))
                        kinds.append(('str 2xN', ';'.join(' '.join(f'{v:.3f}' for v in r) for r in m), m, True))
                    for name, o, mo, left_ok in kinds:
                        for op in OPS:
                            inp = f'{cls.__name__} npol={npol} N={N} {dt} noise={noise} {op} {name}'
                            check_bin(cl, inp + ' right', op, x, o, pair(x), (mo, None), cls, npol, N)
                            if left_ok:
                                check_bin(cl, inp + ' left', op, o, x, (mo, None), pair(x), cls, npol, N)


# ----------------------------------------------------------------- C5 transforms
def c5():
    cl = 'C5-transform'
    for cls, npol in LAYOUTS:
        for N in [1, 2, 3, 4, 5, 7, 16, 17, 31, 101, 1024, 4099]:
            for dt in DTS:
                for noise in (False, True):
                    x = mk(cls, npol, N, dt, noise, rng0)
                    b = snap(x)
                    for dom in ('w', 'f', 't'):
                        for shift in (False, True):
                            inp = f'{cls.__name__} npol={npol} N={N} {dt} noise={noise} dom={dom} shift={shift}'
                            try:
                                r = x(dom, shift=shift)
                            except Exception as e:
                                viol(cl, inp, f'raised {type(e).__name__}: {e}'); continue
                            if contract(r, cls, npol, N, cl, inp):
                                if (r.noise is not None) != noise: viol(cl, inp, 'noise presence changed')
                                def tr(a):
                                    if dom == 't':
                                        o = np.fft.ifft(a, axis=-1); return np.fft.ifftshift(o, axes=-1) if shift else o
                                    o = np.fft.fft(a, axis=-1); return np.fft.fftshift(o, axes=-1) if shift else o
                                if not np.allclose(r.signal, tr(x.signal), rtol=1e-9, atol=1e-9 * N): viol(cl, inp, 'signal transform differs')
                                if noise and not np.allclose(r.noise, tr(x.noise), rtol=1e-9, atol=1e-9 * N): viol(cl, inp, 'noise transform differs')
                                noshare(r, [x], cl, inp)
                            if snap(x) != b: viol(cl, inp, 'operand changed'); b = snap(x)
                    # round trip
                    r = x('w')('t')
                    if not np.allclose(r.signal, x.signal, atol=1e-9): viol(cl, f'{cls.__name__} N={N} roundtrip', 'w->t not identity')
                    r = x('w', shift=True)
                    r2 = r('t') if False else None


# ----------------------------------------------------------------- C7 random expression trees
def c7():
    cl = 'C7-tree'
    rng = np.random.default_rng(777)
    ntrees = 0
    for cls, npol in LAYOUTS:
        for N in [1, 2, 3, 5, 7, 13, 64]:
            for trial in range(120):
                leaves = [mk(cls, npol, N, DTS[rng.integers(3)], bool(rng.integers(2)), rng) for _ in range(3)]
                lsn = [snap(l) for l in leaves]

                def gen(depth):
                    """returns (obj, (s,n), descr)"""
                    if depth == 0 or rng.random() < 0.15:
                        k = rng.integers(len(leaves) + 3)
                        if k < len(leaves):
                            return leaves[k], pair(leaves[k]), f'L{k}'
                        sc = [2, -1.5, 1 + 1j][k - len(leaves)]
                        return sc, (np.array([sc]), None), repr(sc)
                    kind = rng.choice(['+', '-', '*', 'slice', 'copy', 'idx'], p=[.25, .25, .15, .15, .1, .1])
                    if kind in OPS:
                        a, ma, da = gen(depth - 1); b, mb, db = gen(depth - 1)
                        if not isinstance(a, E) and not isinstance(b, E):
                            return a, ma, da
                        la, lb = ma[0].shape[-1], mb[0].shape[-1]
                        if la != lb and la != 1 and lb != 1:
                            # must be rejected
                            try:
                                r = OPS[kind](a, b)
                                viol(cl, f'({da}){kind}({db}) lens {la},{lb}', 'mismatched lengths accepted')
                            except ValueError:
                                pass
                            except Exception as e:
                                viol(cl, f'({da}){kind}({db})', f'{type(e).__name__}: {e}')
                            return a, ma, da
                        d = f'({da}{kind}{db})'
                        try:
                            r = OPS[kind](a, b)
                        except Exception as e:
                            viol(cl, f'{cls.__name__} npol={npol} N={N} {d} lens {la},{lb}', f'raised {type(e).__name__}: {e}')
                            if la == 1 and lb > 1 and isinstance(a, E) and isinstance(b, E):
                                # known asymmetry (finding 1): go on with the commuted, equivalent expression
                                r = (b + a) if kind == '+' else (b * a) if kind == '*' else ((0 - b) + a)
                                return r, model(kind, ma, mb), d
                            return (a, ma, da) if isinstance(a, E) else (b, mb, db)
                        return r, model(kind, ma, mb), d
                    a, ma, da = gen(depth - 1)
                    if not isinstance(a, E):
                        return a, ma, da
                    L = ma[0].shape[-1]
                    if kind == 'copy':
                        return a.copy(), ma, f'{da}.copy()'
                    if kind == 'idx':
                        k = int(rng.integers(-L, L))
                        r = a[k]
                        return r, (ma[0][..., k, None] if npol == 2 else ma[0][k][None], None if ma[1] is None else (ma[1][..., k, None] if npol == 2 else ma[1][k][None])), f'{da}[{k}]'
                    for _ in range(20):
                        sl = slice(*[None if rng.random() < .4 else int(rng.integers(-L - 1, L + 2)) for _ in range(2)], rng.choice([None, 1, 2, -1, -2, 3]))
                        sl = slice(sl.start, sl.stop, None if sl.step is None else int(sl.step))
                        if ma[0][..., sl].shape[-1] > 0: break
                    else:
                        sl = slice(None)
                    r = a[sl]
                    return r, (ma[0][..., sl], None if ma[1] is None else ma[1][..., sl]), f'{da}[{sl.start}:{sl.stop}:{sl.step}]'

                try:
                    r, (es, en), d = gen(6)
                except Exception as e:
                    viol(cl, f'{cls.__name__} npol={npol} N={N} trial={trial}', f'tree evaluation raised {type(e).__name__}: {e}')
                    continue
                ntrees += 1
                if not isinstance(r, E): continue
                inp = f'{cls.__name__} npol={npol} N={N} trial={trial} {d}'
                es = np.asarray(es)
                if contract(r, cls, npol, es.shape[-1], cl, inp):
                    if (r.noise is not None) != (en is not None): viol(cl, inp, 'noise presence differs from model')
                    if not np.allclose(r.signal, es, rtol=1e-9, atol=1e-9): viol(cl, inp, 'signal differs from model')
                    if en is not None and r.noise is not None and not np.allclose(r.noise, en, rtol=1e-9, atol=1e-9): viol(cl, inp, 'noise differs from model')
                    if not any(r is l for l in leaves): noshare(r, leaves, cl, inp)
                for l, b in zip(leaves, lsn):
                    if snap(l) != b: viol(cl, inp, 'leaf changed')
    return ntrees


if __name__ == '__main__':
    c1(); c2(); c4(); c5(); nt = c7()
    if VIOL:
        print(f'{len(VIOL)} violations printed (repeats of the same clause/message suppressed after 12)')
        sys.exit(1)
    print('PASS', nt, 'trees')
    sys.exit(0)
