import sys
del sys.path[0]
import numpy as np
from opticomlib.typing import electrical_signal as E, optical_signal as O

# "scalars and length-1 operands broadcast": a length-1 signal broadcasts only when it is the RIGHT operand
bad = 0
for name, x in [('electrical', E([1., 2., 3.], [.1, .2, .3])), ('optical 1-pol', O([1., 2., 3.])),
                ('optical 2-pol', O([[1., 2., 3.], [4., 5., 6.]]))]:
    one = x[0]                                   # length-1 object of the same class / polarisation count
    for op, f in [('+', lambda a, b: a + b), ('-', lambda a, b: a - b), ('*', lambda a, b: a * b)]:
        right = f(x, one)                        # works: length-1 operand on the right is broadcast
        try:
            left = f(one, x)
            ok = left.signal.shape == x.signal.shape
        except ValueError as e:
            ok = False; left = f'ValueError: {e}'
        if not ok:
            bad += 1
            print(f'{name}: x {op} x[0] -> shape {right.signal.shape} (broadcast); expected x[0] {op} x to broadcast to shape {x.signal.shape} too, got {left}')
sys.exit(1 if bad else 0)
