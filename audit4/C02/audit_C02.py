import sys, os
if sys.path and os.path.abspath(sys.path[0] or '.') == os.path.dirname(os.path.abspath(__file__)):
    del sys.path[0]
import warnings
warnings.simplefilter('ignore')
import itertools
import numpy as np
from numpy.fft import fft, ifft, fftfreq, fftshift, ifftshift
import opticomlib
from opticomlib.typing import gv, electrical_signal, optical_signal

assert opticomlib.__file__.startswith('/tmp/wt25/C02/'), opticomlib.__file__

viol = []
seen = set()
def bad(clause, desc, msg):
    key = (clause, desc)
    if key in seen:
        return
    seen.add(key)
    viol.append(key)
    print(f'VIOLATION [{clause}] {desc}: {msg}')

def eps_of(dt):
    dt = np.dtype(dt)
    if dt.kind in 'fc':
        return max(np.finfo(dt).eps, np.finfo(np.float64).eps)  # fft works in double at best
    return np.finfo(np.float64).eps

def close(a, b, dt, n, scale=None):
    a = np.asarray(a); b = np.asarray(b)
    if a.shape != b.shape:
        return False
    if scale is None:
        scale = max(np.max(np.abs(b.astype(complex))) if b.size else 0.0, 1e-300)
    tol = 64 * eps_of(dt) * max(1.0, np.log2(max(n, 2))) * scale
    return bool(np.all(np.abs(a.astype(complex) - b.astype(complex)) <= tol))

LENGTHS = list(range(1, 41)) + [47, 49, 63, 64, 65, 97, 127, 128, 129, 251, 255, 256, 257, 509, 512, 1000, 1021, 1024, 1025, 2048, 4099]
DTYPES = [np.float64, np.float32, np.float16, np.complex128, np.complex64,
          np.int64, np.int32, np.int16, np.int8, np.uint8, np.uint16, np.uint32, np.uint64, np.longdouble, np.clongdouble]

rng = np.random.default_rng(20250927)

def make_data(kind, n, dt, rows):
    dt = np.dtype(dt)
    shape = (n,) if rows == 0 else (rows, n)
    if kind == 'rand':
        if dt.kind == 'c':
            a = rng.standard_normal(shape) + 1j * rng.standard_normal(shape)
        elif dt.kind == 'f':
            a = rng.standard_normal(shape)
        elif dt.kind == 'i':
            a = rng.integers(-5, 6, shape)
        else:
            a = rng.integers(0, 6, shape)
    elif kind == 'zeros':
        a = np.zeros(shape)
    elif kind == 'ones':
        a = np.ones(shape)
    elif kind == 'delta_first':
        a = np.zeros(shape); a[..., 0] = 1
    elif kind == 'delta_last':
        a = np.zeros(shape); a[..., -1] = 1
    elif kind == 'hole':
        a = np.ones(shape); a[..., n // 2] = 0
    elif kind == 'alt':
        a = np.zeros(shape); a[..., ::2] = 1
    elif kind == 'tiny':
        a = rng.standard_normal(shape) * ({2: 1.0, 4: 1e-15, 8: 1e-15}.get(dt.itemsize // (2 if dt.kind == 'c' else 1), 1e-100) if dt.kind in 'fc' else 1)
        if dt.kind in 'iu':
            a = np.abs(np.round(a))
    elif kind == 'big':
        a = rng.standard_normal(shape) * ({2: 3.0, 4: 1e15}.get(dt.itemsize // (2 if dt.kind == 'c' else 1), 1e100) if dt.kind in 'fc' else 3)
        if dt.kind in 'u':
            a = np.abs(a)
    else:
        raise ValueError(kind)
    return a.astype(dt)

KINDS = ['rand', 'zeros', 'ones', 'delta_first', 'delta_last', 'hole', 'alt', 'tiny', 'big']

def build(cls, npol, sig, noi):
    if cls is electrical_signal:
        return electrical_signal(sig, noi)
    return optical_signal(sig, noi)

def rows_of(a):
    return a if a.ndim == 2 else a[None, :]

def check_object(x, sig, noi, desc, dt):
    """x built from arrays sig (and noi or None)."""
    n = sig.shape[-1]
    cls = type(x)
    # --- stored as given
    if not np.array_equal(x.signal, sig if noi is None else sig.astype(np.result_type(sig, noi))):
        bad('store', desc, f'signal stored differs')
    if x.len() != n:
        bad('len', desc, f'len()={x.len()} expected {n}')
    S0 = x.signal.copy(); N0 = None if x.noise is None else x.noise.copy()

    for dom in ('w', 'f'):
        for sh in (False, True):
            X = x(dom, shift=sh)
            if type(X) is not cls:
                bad('class', desc, f"x('{dom}') is {type(X).__name__}")
            if X.signal.shape != x.signal.shape:
                bad('shape', desc, f"x('{dom}',shift={sh}).signal shape {X.signal.shape} vs {x.signal.shape}")
                continue
            if (X.noise is None) != (x.noise is None):
                bad('noise-presence', desc, f"x('{dom}') noise presence changed")
                continue
            if cls is optical_signal and X.n_pol != x.n_pol:
                bad('n_pol', desc, f"x('{dom}') n_pol {X.n_pol} vs {x.n_pol}")
            # row-wise reference, exact
            for name, src, out in (('signal', x.signal, X.signal), ('noise', x.noise, X.noise)):
                if src is None:
                    continue
                ref = np.array([fft(r) for r in rows_of(src)])
                if sh:
                    ref = np.array([fftshift(r) for r in ref])
                ref = ref.reshape(src.shape)
                if not np.array_equal(out, ref):
                    # allow tiny difference only if vectorised fft differs from 1d fft
                    if not close(out, ref, dt, n):
                        bad(f'forward-{name}', desc, f"x('{dom}',shift={sh}).{name} != rowwise fft (max err {np.max(np.abs(out-ref))})")
            # opposite numpy shift recovers the unshifted transform exactly
            if sh:
                U = x(dom)
                if not np.array_equal(ifftshift(X.signal, axes=-1), U.signal):
                    bad('shift-forward', desc, f"ifftshift(x('{dom}',True)) != x('{dom}')")
                if x.noise is not None and not np.array_equal(ifftshift(X.noise, axes=-1), U.noise):
                    bad('shift-forward-noise', desc, f"ifftshift(x('{dom}',True).noise) != x('{dom}').noise")
            else:
                # Parseval per polarisation, signal and noise
                for name, src, out in (('signal', x.signal, X.signal), ('noise', x.noise, X.noise)):
                    if src is None:
                        continue
                    a = rows_of(src).astype(np.clongdouble); b = rows_of(out).astype(np.clongdouble)
                    lhs = np.sum(np.abs(b) ** 2, axis=-1); rhs = n * np.sum(np.abs(a) ** 2, axis=-1)
                    tol = 64 * eps_of(dt) * max(1, np.log2(max(n, 2)))
                    if not np.all(np.abs(lhs - rhs) <= tol * np.maximum(rhs, 1e-300)):
                        bad(f'parseval-{name}', desc, f'sum|X|^2={lhs} N*sum|x|^2={rhs}')
                # round trip
                for sh2 in (False, True):
                    Y = X('t', shift=sh2)
                    if type(Y) is not cls:
                        bad('class', desc, f"x('{dom}')('t') is {type(Y).__name__}")
                    ys, yn = Y.signal, Y.noise
                    if ys.shape != x.signal.shape:
                        bad('shape', desc, f"roundtrip shape {ys.shape}")
                        continue
                    if sh2:
                        # opposite shift (fftshift) recovers the unshifted inverse transform exactly
                        Y0 = X('t')
                        if not np.array_equal(fftshift(ys, axes=-1), Y0.signal):
                            bad('shift-inverse', desc, "fftshift(X('t',True)) != X('t')")
                        if yn is not None and not np.array_equal(fftshift(yn, axes=-1), Y0.noise):
                            bad('shift-inverse-noise', desc, "fftshift(X('t',True).noise) != X('t').noise")
                        continue
                    if not close(ys, x.signal, dt, n):
                        bad('roundtrip-signal', desc, f"x('{dom}')('t').signal differs: max err {np.max(np.abs(ys - x.signal))}")
                    if (yn is None) != (x.noise is None):
                        bad('noise-presence', desc, 'roundtrip noise presence changed')
                    elif yn is not None and not close(yn, x.noise, dt, n):
                        bad('roundtrip-noise', desc, f"x('{dom}')('t').noise differs: max err {np.max(np.abs(yn - x.noise))}")
    # inverse first then forward: x('t')('w') also reproduces x
    T = x('t')
    for name, src, out in (('signal', x.signal, T.signal), ('noise', x.noise, T.noise)):
        if src is None:
            continue
        ref = np.array([ifft(r) for r in rows_of(src)]).reshape(src.shape)
        if not close(out, ref, dt, n):
            bad(f'inverse-{name}', desc, "x('t') != rowwise ifft")
    Z = T('w')
    if not close(Z.signal, x.signal, dt, n):
        bad('roundtrip-tw-signal', desc, f"x('t')('w') differs")
    if x.noise is not None and not close(Z.noise, x.noise, dt, n):
        bad('roundtrip-tw-noise', desc, f"x('t')('w') noise differs")
    Ts = x('t', shift=True)
    if not np.array_equal(fftshift(Ts.signal, axes=-1), T.signal):
        bad('shift-inverse', desc, "fftshift(x('t',True)) != x('t')")
    if x.noise is not None and not np.array_equal(fftshift(Ts.noise, axes=-1), T.noise):
        bad('shift-inverse-noise', desc, "fftshift(x('t',True).noise) != x('t').noise")

    # inputs untouched
    if not np.array_equal(x.signal, S0) or (N0 is not None and not np.array_equal(x.noise, N0)):
        bad('mutation', desc, 'transform modified its operand')

    # w axis
    for sh in (False, True):
        w = x.w(shift=sh) if sh else x.w()
        ref = 2 * np.pi * fftfreq(n) * gv.fs
        if sh:
            ref = fftshift(ref)
        if w.shape != (n,) or not np.array_equal(w, ref):
            bad('w-axis', desc + f' fs={gv.fs}', f'w(shift={sh}) differs from 2*pi*fftfreq(len)*fs')
    # power
    tot = rows_of(x.signal).astype(np.clongdouble)
    if x.noise is not None:
        tot = tot + rows_of(x.noise).astype(np.clongdouble)
    ref = np.mean(np.abs(tot) ** 2, axis=-1)
    if x.signal.ndim == 1:
        ref = ref[0]
    p = x.power()
    p2 = x.power('all')
    if np.shape(p) != np.shape(ref):
        bad('power-shape', desc, f'power() shape {np.shape(p)} expected {np.shape(ref)}')
    else:
        # squares are formed in the signal's dtype: tolerance in that dtype
        dd = np.dtype(dt)
        e = np.finfo(dd).eps if dd.kind in 'fc' else np.finfo(float).eps
        if not np.all(np.abs(np.asarray(p, dtype=np.longdouble) - ref) <= 16 * e * np.maximum(ref, 0) * max(1, np.log2(max(n, 2))) + 1e-300):
            bad('power', desc, f'power()={p} expected {ref}')
        if not np.array_equal(np.asarray(p), np.asarray(p2)):
            bad('power', desc, "power() != power('all')")


def in_range_for_power(dt, kind):
    dt = np.dtype(dt)
    return True

# ---------------------------------------------------------------- systematic sweep
gv.clean()
count = 0
for n in LENGTHS:
    for dt in DTYPES:
        kinds = KINDS if n <= 40 else ['rand', 'delta_last']
        for kind in kinds:
            for (cls, npol) in ((electrical_signal, 1), (optical_signal, 1), (optical_signal, 2)):
                for with_noise in (False, True):
                    rows = 2 if npol == 2 else 0
                    sig = make_data(kind, n, dt, rows)
                    noi = make_data('rand', n, dt, rows) if with_noise else None
                    if np.dtype(dt).kind in 'iu' and np.dtype(dt).itemsize < 8:
                        # known: wrap-around of narrow integer dtypes -> keep |s+n|^2 representable
                        sig = (sig % 3).astype(dt)
                        if noi is not None:
                            noi = (noi % 3).astype(dt)
                    if np.dtype(dt) == np.float16:
                        sig = np.clip(sig, -8, 8).astype(dt)
                    desc = f'{cls.__name__} npol={npol} n={n} dtype={np.dtype(dt).name} data={kind} noise={with_noise}'
                    try:
                        x = build(cls, npol, sig, noi)
                        check_object(x, sig, noi, desc, dt)
                    except Exception as e:
                        bad('exception', desc, f'{type(e).__name__}: {e}')
                    count += 1

# ---------------------------------------------------------------- container types / construction routes
def route_cases():
    out = []
    for n in (1, 2, 3, 4, 5, 7, 8):
        base = np.round(rng.standard_normal(n), 6) + 0.5
        basec = base + 1j * (np.round(rng.standard_normal(n), 6) + 0.5)
        nz = np.round(rng.standard_normal(n), 6) + 0.5
        for cont_name, cont in (('list', lambda a: a.tolist()), ('tuple', lambda a: tuple(a.tolist())), ('ndarray', lambda a: a),
                                ('str', lambda a: ' '.join(repr(v).replace('(', '').replace(')', '') for v in a.tolist())),
                                ('str,', lambda a: ','.join(repr(v).replace('(', '').replace(')', '') for v in a.tolist()))):  # text route: plain decimals only (no exponent notation)
            for a, an in ((base, 'real'), (basec, 'complex')):
                for wn in (False, True):
                    out.append((n, cont_name, an, cont(a), cont(nz) if wn else None, a, nz if wn else None))
    return out

for n, cn, an, s, nzs, a, nz in route_cases():
    for cls in (electrical_signal, optical_signal):
        desc = f'{cls.__name__} n={n} container={cn} {an} noise={nzs is not None}'
        try:
            x = cls(s, nzs)
            ra = np.asarray(a);
            if not np.array_equal(x.signal, ra.astype(x.signal.dtype)):
                bad('store', desc, f'stored {x.signal} from {s!r}')
            check_object(x, x.signal.copy(), None if x.noise is None else x.noise.copy(), desc, x.signal.dtype)
        except Exception as e:
            bad('exception', desc, f'{type(e).__name__}: {e}')
    # two polarisations through n_pol=2, nested lists, ';' strings
    for variant in ('n_pol2', 'nested', '(1,N)', 'semicolon'):
        desc = f'optical_signal n={n} container={cn} {an} noise={nzs is not None} variant={variant}'
        try:
            if variant == 'n_pol2':
                x = optical_signal(s, nzs, n_pol=2)
            elif variant == 'nested':
                if cn.startswith('str'):
                    continue
                x = optical_signal([s, s], None if nzs is None else [nzs, nzs])
            elif variant == '(1,N)':
                if cn.startswith('str'):
                    continue
                x = optical_signal([s], None if nzs is None else [nzs])
            else:
                if cn != 'str':
                    continue
                x = optical_signal(s + ';' + s, None if nzs is None else nzs + ';' + nzs)
            if x.signal.shape != (2, n) or x.n_pol != 2:
                bad('store', desc, f'shape {x.signal.shape} n_pol {x.n_pol}')
                continue
            if not (np.array_equal(x.signal[0], np.asarray(a).astype(x.signal.dtype)) and np.array_equal(x.signal[1], x.signal[0])):
                bad('store', desc, 'rows differ from the data')
            check_object(x, x.signal.copy(), None if x.noise is None else x.noise.copy(), desc, x.signal.dtype)
        except Exception as e:
            bad('exception', desc, f'{type(e).__name__}: {e}')

# scalars and 0/1 text, booleans
for cls in (electrical_signal, optical_signal):
    for val in (0, 1, -2, 2.5, 1 + 2j, True, np.float64(3.0), np.int64(3), np.complex128(1j), np.float32(1.5), np.array(2.0)):
        for nv in (None, 0, 0.5, 1j, True):
            pols = (None,) if cls is electrical_signal else (None, 1, 2)
            for npol in pols:
                desc = f'{cls.__name__} scalar {val!r} noise={nv!r} n_pol={npol}'
                try:
                    x = cls(val, nv) if cls is electrical_signal else cls(val, nv, n_pol=npol)
                    exp_shape = (2, 1) if npol == 2 else (1,)
                    if x.signal.shape != exp_shape:
                        bad('store', desc, f'shape {x.signal.shape}')
                        continue
                    if not np.all(x.signal == val):
                        bad('store', desc, f'value {x.signal}')
                    check_object(x, x.signal.copy(), None if x.noise is None else x.noise.copy(), desc, x.signal.dtype)
                except Exception as e:
                    bad('exception', desc, f'{type(e).__name__}: {e}')
    for txt in ('1', '0', '10', '01', '101', '1 0 1', '1,0,1', '0000', '1111', '0001000', '1110111', '1 0 1 1 0 0 1 0 1 1 1'):
        for ntxt in (None, txt[::-1]):
            desc = f'{cls.__name__} text {txt!r} noise={ntxt!r}'
            try:
                x = cls(txt, ntxt)
                bits = np.array([int(c) for c in txt if c in '01'])
                if not np.array_equal(x.signal, bits):
                    bad('store', desc, f'{x.signal}')
                check_object(x, x.signal.copy(), None if x.noise is None else x.noise.copy(), desc, x.signal.dtype)
            except Exception as e:
                bad('exception', desc, f'{type(e).__name__}: {e}')
    for n in (1, 2, 3, 8):
        b = rng.integers(0, 2, n).astype(bool)
        for nb in (None, ~b, rng.standard_normal(n)):
            desc = f'{cls.__name__} bool array n={n} noise={None if nb is None else nb.dtype}'
            try:
                x = cls(b, nb)
                check_object(x, x.signal.copy(), None if x.noise is None else x.noise.copy(), desc, x.signal.dtype)
                tot = b.astype(int) + (0 if nb is None else nb.astype(float))
                if not np.isclose(x.power(), np.mean(np.abs(tot) ** 2)):
                    bad('power', desc, f'{x.power()} vs {np.mean(np.abs(tot)**2)}')
            except Exception as e:
                bad('exception', desc, f'{type(e).__name__}: {e}')

# explicit dtype= argument, mixed signal/noise dtypes
for cls in (electrical_signal, optical_signal):
    for n in (1, 2, 3, 5, 8):
        for sd, nd in itertools.product((np.float32, np.float64, np.complex64, np.complex128, np.int32, np.int64), repeat=2):
            s = make_data('rand', n, sd, 0); z = make_data('rand', n, nd, 0)
            desc = f'{cls.__name__} n={n} signal {np.dtype(sd).name} noise {np.dtype(nd).name}'
            try:
                x = cls(s, z)
                rt = np.result_type(s, z)
                if x.signal.dtype != rt or x.noise.dtype != rt:
                    bad('store', desc, f'dtype {x.signal.dtype}/{x.noise.dtype}')
                check_object(x, s.astype(rt), z.astype(rt), desc, rt)
            except Exception as e:
                bad('exception', desc, f'{type(e).__name__}: {e}')
        for dd in (float, complex, np.float32, np.complex64, np.float64, int):
            s = make_data('rand', n, np.float64, 0).round()
            z = make_data('rand', n, np.float64, 0).round()
            for zz in (None, z):
                desc = f'{cls.__name__} n={n} dtype={np.dtype(dd).name} noise={zz is not None}'
                try:
                    x = cls(s, zz, dtype=dd)
                    if x.signal.dtype != np.dtype(dd):
                        bad('store', desc, f'dtype {x.signal.dtype}')
                    check_object(x, s.astype(dd), None if zz is None else zz.astype(dd), desc, dd)
                except Exception as e:
                    bad('exception', desc, f'{type(e).__name__}: {e}')

# objects derived from other objects (slices, copies, arithmetic, noise attached afterwards, views)
for n in (1, 2, 3, 4, 5, 8, 9, 16, 17):
    for npol in (1, 2):
        a = rng.standard_normal((2, n)) + 1j * rng.standard_normal((2, n)); z = rng.standard_normal((2, n))
        if npol == 1:
            a = a[0]; z = z[0]
        for wn in (False, True):
            x0 = optical_signal(a, z if wn else None)
            e0 = electrical_signal(np.atleast_2d(a)[0].real, np.atleast_2d(z)[0] if wn else None)
            derived = {
                'copy': lambda x: x.copy(),
                'slice-all': lambda x: x[:],
                'slice-last': lambda x: x[-1:],
                'slice-first': lambda x: x[:1],
                'index0': lambda x: x[0],
                'index-1': lambda x: x[-1],
                'index-np': lambda x: x[np.int64(n - 1)],
                'slice-step2': lambda x: x[::2],
                'slice-rev': lambda x: x[::-1],
                'plus1': lambda x: x + 1,
                'times2': lambda x: 2 * x,
                'minus': lambda x: 1 - x,
                'self+self': lambda x: x + x,
                'apply': lambda x: x.apply(np.conj),
                'x(w)': lambda x: x('w'),
                'x(w,shift)': lambda x: x('w', True),
            }
            for nm, f in derived.items():
                for base, bn in ((x0, 'optical'), (e0, 'electrical')):
                    if bn == 'electrical' and npol == 2:
                        continue
                    desc = f'{bn} npol={npol} n={n} noise={wn} derived={nm}'
                    try:
                        y = f(base)
                        check_object(y, y.signal.copy(), None if y.noise is None else y.noise.copy(), desc, y.signal.dtype)
                    except Exception as e:
                        bad('exception', desc, f'{type(e).__name__}: {e}')
            # non-contiguous / read-only storage assigned to the attributes
            y = optical_signal(a)
            big = rng.standard_normal(a.shape[:-1] + (2 * n,))
            y.signal = big[..., ::2]
            y.noise = np.broadcast_to(np.float64(0.25), y.signal.shape)
            desc = f'optical npol={npol} n={n} strided signal, broadcast noise'
            try:
                check_object(y, y.signal.copy(), y.noise.copy(), desc, y.signal.dtype)
            except Exception as e:
                bad('exception', desc, f'{type(e).__name__}: {e}')

# ---------------------------------------------------------------- gv sampling configurations
def gv_configs():
    cfgs = []
    for sps in (1, 2, 3, 7, 8, 16, 17, 64, np.int64(8), 8.0):
        for R in (1.0, 1e3, 1e9, 2.5e9, 10e9, 1e12, 3, np.float64(1e9)):
            cfgs.append(dict(sps=sps, R=R))
        for fs in (1.0, 1e3, 16e9, 17e9, 1e12, 7, np.float64(20e9)):
            cfgs.append(dict(sps=sps, fs=fs))
        cfgs.append(dict(sps=sps))
    for R in (1e3, 1e9, 3e9, 7):
        for fs in (1e3, 16e9, 20e9, 21e9, 4.5e9, 1e12):
            if fs >= R:
                cfgs.append(dict(R=R, fs=fs))
        cfgs.append(dict(R=R))
    for fs in (1e9, 16e9, 20e9, 20.5e9, 1e12, 123456789.0):
        cfgs.append(dict(fs=fs))
    for sps in (4, 8):
        cfgs.append(dict(sps=sps, R=2e9, fs=64e9))  # all three
    cfgs.append(dict())
    cfgs.append(dict(N=10))
    cfgs.append(dict(sps=8, R=1e9, N=1))
    cfgs.append(dict(fs=40e9, N=3))
    return cfgs

xs = []
for n in (1, 2, 3, 4, 5, 16, 17):
    xs.append(electrical_signal(rng.standard_normal(n)))
    xs.append(optical_signal(rng.standard_normal(n), rng.standard_normal(n)))
    xs.append(optical_signal(rng.standard_normal((2, n))))

for clean_first in (True, False):
    for cfg in gv_configs():
        if clean_first:
            gv.clean()
        try:
            if not clean_first and 'N' not in cfg:
                gv.N = None  # a left-over slot count only sizes gv.t / gv.w (not part of this property); huge fs/R would allocate them
            gv(**cfg)
        except Exception as e:
            bad('exception', f'gv({cfg})', f'{type(e).__name__}: {e}')
            continue
        desc0 = f'gv({cfg}) clean_first={clean_first}'
        # the configured rate is the one asked for
        if 'fs' in cfg and not ('sps' in cfg and 'R' in cfg):
            if gv.fs != cfg['fs']:
                bad('gv-fs', desc0, f'gv.fs={gv.fs}')
        elif 'sps' in cfg and 'R' in cfg and 'fs' not in cfg:
            if gv.fs != cfg['R'] * int(round(cfg['sps'])):
                bad('gv-fs', desc0, f'gv.fs={gv.fs}')
        for x in xs:
            n = x.len()
            for sh in (False, True):
                ref = 2 * np.pi * fftfreq(n) * gv.fs
                if sh: ref = fftshift(ref)
                w = x.w(sh)
                if w.shape != (n,) or not np.array_equal(w, ref):
                    bad('w-axis', desc0 + f' n={n} {type(x).__name__}', f'w(shift={sh}) = {w} expected {ref}')
                if x.fs() != gv.fs:
                    bad('w-axis', desc0, 'x.fs() != gv.fs')
            # the transforms do not depend on gv
            X = x('w')
            if not np.array_equal(X.signal, fft(x.signal, axis=-1)):
                bad('forward-signal', desc0, 'transform depends on gv?')
# w() follows later changes of gv (order of calls)
gv.clean()
x = electrical_signal(rng.standard_normal(9))
w1 = x.w()
gv(sps=4, R=5e9)
w2 = x.w()
if not np.array_equal(w2, 2 * np.pi * fftfreq(9) * 20e9) or not np.array_equal(w1, 2 * np.pi * fftfreq(9) * 16e9):
    bad('w-axis', 'gv changed after construction', 'w() did not follow the current gv.fs')
gv(fs=48e9)
if not np.array_equal(x.w(True), fftshift(2 * np.pi * fftfreq(9) * 48e9)):
    bad('w-axis', 'gv(fs=48e9) after gv(sps=4,R=5e9)', 'w(True) wrong')
gv.fs = 3e9  # direct attribute assignment is also "currently configured"
if not np.array_equal(x.w(), 2 * np.pi * fftfreq(9) * 3e9):
    bad('w-axis', 'gv.fs assigned directly', 'w() wrong')
gv.clean()

# ---------------------------------------------------------------- options
x = optical_signal(rng.standard_normal((2, 5)), rng.standard_normal((2, 5)))
for dom in ('w', 'f', 't'):
    for sh in (True, 1, np.bool_(True), np.True_, 'yes'):
        try:
            a = x(dom, sh); b = x(dom, shift=True)
            if not np.array_equal(a.signal, b.signal) or not np.array_equal(a.noise, b.noise):
                bad('shift-option', f'shift={sh!r}', 'differs from shift=True')
        except Exception as e:
            bad('exception', f"x('{dom}', {sh!r})", f'{type(e).__name__}: {e}')
    for sh in (False, 0, np.bool_(False), None):
        try:
            a = x(dom, sh); b = x(dom)
            if not np.array_equal(a.signal, b.signal):
                bad('shift-option', f'shift={sh!r}', 'differs from shift=False')
        except Exception as e:
            bad('exception', f"x('{dom}', {sh!r})", f'{type(e).__name__}: {e}')
for by in ('all', 'ALL', 'All'):
    try:
        if not np.array_equal(x.power(by), x.power()):
            bad('power', f'by={by}', 'differs')
    except Exception as e:
        bad('exception', f'power({by!r})', f'{type(e).__name__}: {e}')
if not np.array_equal(x('w').signal, x('f').signal) or not np.array_equal(x('w', True).noise, x('f', True).noise):
    bad('w==f', 'optical 2 pol', "x('w') and x('f') differ")

# ---------------------------------------------------------------- power(): amplitude range of each real dtype
# (narrow integer dtypes wrapping is a known limitation and is not probed; int64/uint64 are the constructor's default integer types)
for dt, vals in ((np.int64, (3, 46340, 46341, 2**31, 3_037_000_499, 3_037_000_500, 4_000_000_000, 10**12)),
                 (np.uint64, (3, 2**32 - 1, 2**32, 10**12)),
                 (np.float64, (1e100, 1e-100)), (np.float32, (1e15, 1e-15)), (np.float16, (8.0, 200.0, 300.0))):
    for v in vals:
        for cls in (electrical_signal, optical_signal):
            x = cls(np.array([v, 0, 1], dtype=dt))
            ref = np.mean(np.abs(x.signal.astype(np.longdouble)) ** 2)
            p = x.power()
            if not np.isclose(float(p), float(ref), rtol=1e-2):
                bad('power', f'{cls.__name__} dtype={np.dtype(dt).name} signal=[{v}, 0, 1]', f'power()={p} expected {float(ref)}')

print(f'checked {count} swept objects')
if viol:
    print(f'{len(viol)} violation(s)')
    sys.exit(1)
print('PASS')
sys.exit(0)
