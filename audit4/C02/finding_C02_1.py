# C02, clause "power() equals the mean of |signal+noise|^2 per polarisation", quantifier "complex/real dtypes":
# an integer-typed signal (the constructor's default for integer input is int64) with a sample above 3.04e9
import sys, os
if sys.path and os.path.abspath(sys.path[0] or '.') == os.path.dirname(os.path.abspath(__file__)): del sys.path[0]
import numpy as np
from opticomlib.typing import electrical_signal, optical_signal
fail = 0
for x in (electrical_signal([4_000_000_000, 0]), optical_signal([[4_000_000_000, 0], [1, 1]], [[0, 0], [0, 0]])):
    tot = x.signal if x.noise is None else x.signal + x.noise
    expected = np.mean(np.abs(tot.astype(float))**2, axis=-1)      # 8e18 (and 1 for the y row)
    got = x.power()
    parseval = np.sum(np.abs(x('w').signal)**2, axis=-1) / x.len()**2   # the transform itself is right
    print(f'{type(x).__name__} dtype={x.signal.dtype}: power() = {got}, expected {expected}, sum|X|^2/N^2 = {parseval}')
    fail |= not np.allclose(got, expected, rtol=1e-12)
sys.exit(1 if fail else 0)
