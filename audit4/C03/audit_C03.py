# Audit of property C03: a noise-free link built from the library's blocks returns the transmitted bits.
import sys
sys.path.pop(0)  # import opticomlib from PYTHONPATH, not from the script's directory
import itertools, signal, warnings
import numpy as np
warnings.filterwarnings('ignore')
from opticomlib import gv, optical_signal, idbm, binary_sequence
from opticomlib.devices import PRBS, DAC, MZM, PD, DM, FIBER, GET_EYE
from opticomlib import ook, ppm

VIOL = []
def report(clause, desc):
    VIOL.append((clause, desc))
    print('VIOLATION [%s] %s' % (clause, desc), flush=True)

def _alarm(sec):
    def h(*a): raise TimeoutError('FIBER timeout')
    signal.signal(signal.SIGALRM, h); signal.alarm(sec)

def link(bits, sps=16, R=1e9, shape='nrz', Vpi=5.0, loss=0.0, ER=26.0, PdBm=0.0, r=1.0, RL=50.0, bwf=0.75,
         npol=1, pol='x', D=None, fib=None, mode='ase-only', idark=10e-9, inv=False, cont=None, dackw=None):
    """bits -> DAC -> MZM on a CW carrier -> optional DM / linear FIBER -> PD with every noise source off"""
    gv(sps=sps, R=R)
    b = np.asarray(bits)
    src = (1 - b) if inv else b
    if cont is not None:
        src = cont(src)
    v = DAC(src, Vout=Vpi, pulse_shape=shape, **(dackw or {}))
    n = v.len(); amp = idbm(PdBm)**0.5
    cw = optical_signal(np.full(n, amp)) if npol == 1 else optical_signal(np.full((2, n), amp/np.sqrt(2)))
    m = MZM(cw, v, bias=0.0 if inv else Vpi, Vpi=Vpi, loss_dB=loss, ER_dB=ER, pol=pol)
    if D is not None:
        m = DM(m, D)
    if fib is not None:
        _alarm(20)
        try: m = FIBER(m, **fib)
        finally: signal.alarm(0)
    if mode == 'thermal0':
        return PD(m, BW=bwf*R, r=r, R_load=RL, include_noise='thermal-only', T=0.0, i_dark=idark)
    return PD(m, BW=bwf*R, r=r, R_load=RL, include_noise=mode, i_dark=idark)

def centre(y, sps):
    a = (y.signal + y.noise).real if y.noise is not None else y.signal.real
    return a[sps//2::sps]

def generic_ok(y, sps, bits):
    s = centre(y, sps); th = (s.max() + s.min())/2
    return np.array_equal((s > th).astype(int), np.asarray(bits).astype(int))

CONTS = [None, lambda b: list(map(int, b)), lambda b: tuple(map(int, b)), lambda b: ' '.join(map(str, b)), lambda b: ','.join(map(str, b)),
         lambda b: b.astype(bool), lambda b: binary_sequence(b), lambda b: b.astype(float)]

# ---------------------------------------------------------------- clause A: generic link, slot-centre sample, midway threshold
def clause_A():
    # exhaustive: every sequence of 2..6 slots with both symbols, shortest records allowed (> 16 samples)
    for L in range(2, 7):
        for bits in itertools.product([0, 1], repeat=L):
            if min(bits) == max(bits): continue
            for sps in (4, 5, 6, 9, 16, 17, 64):
                if L*sps <= 16: continue
                for shape in ('nrz', 'gaussian'):
                    for bwf, ER, npol, pol in ((0.7, 10.0, 1, 'x'), (1.0, np.inf, 2, 'y')):
                        try:
                            y = link(bits, sps=sps, shape=shape, bwf=bwf, ER=ER, npol=npol, pol=pol)
                            ok = generic_ok(y, sps, bits)
                        except Exception as ex:
                            ok = False; bits = (bits, repr(ex))
                        if not ok: report('A generic', 'bits=%s sps=%d %s bwf=%g ER=%g npol=%d' % (bits, sps, shape, bwf, ER, npol))
    # special compositions: long runs, alternating, single 1 / single 0
    for L in (5, 17, 32, 33):
        comps = {'alt': np.arange(L) % 2, 'one1': np.eye(1, L, L//2, dtype=int)[0], 'one0': 1 - np.eye(1, L, 0, dtype=int)[0],
                 'runs': (np.arange(L) // max(1, L//2)) % 2, 'last1': np.eye(1, L, L-2, dtype=int)[0]}
        for name, bits in comps.items():
            for sps in (4, 7, 16, 33, 64):
                for shape in ('nrz', 'gaussian'):
                    lim = 0.01*1e6
                    for D in (None, 0.999*lim, -0.999*lim):
                        y = link(bits, sps=sps, shape=shape, bwf=0.7, ER=10.0, D=D)
                        if not generic_ok(y, sps, bits): report('A generic', '%s L=%d sps=%d %s D=%s' % (name, L, sps, shape, D))
    # sampled parameters incl. both inclusive ends
    rng = np.random.default_rng(1)
    for it in range(1500):
        sps = int(rng.integers(4, 65)); R = float(rng.choice([1e3, 1e9, 2.5e9, 10e9, 100e9])); lim = 0.01*(1e12/R)**2
        shape = str(rng.choice(['nrz', 'gaussian', 'NRZ', 'GAUSSIAN', 'rect']))
        dackw = dict(m=int(rng.choice([1, 2, 3])), T=int(rng.choice([sps, max(2, (3*sps)//4)]))) if shape.lower() == 'gaussian' and rng.random() < 0.3 else None
        L = int(rng.choice([5, 8, 17, 32, 33])); bits = rng.integers(0, 2, L)
        if bits.min() == bits.max() or L*sps <= 16: continue
        fibc = int(rng.integers(5)); D = None; fib = None
        if fibc == 1: D = float(rng.choice([0.999, -0.999, 0.5]))*lim
        elif fibc == 2: fib = dict(length=10.0, alpha=0.2, beta_2=0.999*lim/10)
        elif fibc == 3: fib = dict(length=80.0, alpha=0.25, beta_2=-0.999*lim/80)
        bwf = float(rng.choice([0.7, 0.7001, 1.0, 2.0, 0.45*sps]))
        if bwf < 0.7 or bwf >= 0.49*sps: bwf = 0.7
        kw = dict(sps=sps, R=R, shape=shape, dackw=dackw, Vpi=float(rng.choice([0.5, 5, 47])), loss=float(rng.choice([0, 3, 20])),
                  ER=float(rng.choice([10, 10.0001, 26, np.inf])), PdBm=float(rng.choice([-40, 0, 20])), r=float(rng.choice([0.01, 1.0])),
                  RL=float(rng.choice([1, 50, 1e4])), bwf=bwf, npol=int(rng.choice([1, 2])), pol=str(rng.choice(['x', 'y'])), D=D, fib=fib,
                  mode=str(rng.choice(['ase-only', 'ASE-ONLY', 'thermal0'])), idark=float(rng.choice([0, 10e-9])), inv=bool(rng.integers(2)),
                  cont=CONTS[int(rng.integers(len(CONTS)))])
        try:
            ok = generic_ok(link(bits, **kw), sps, bits); err = ''
        except Exception as ex:
            ok = False; err = repr(ex)
        if not ok: report('A generic', 'bits=%s %s %s' % (''.join(map(str, bits)), {k: v for k, v in kw.items() if k != 'cont'}, err))

# ---------------------------------------------------------------- clause B: ook.DSP on >= 32 slots of pseudo-random data
def check_ook(bits, tag, **kw):
    try:
        y = link(bits, **kw)
        rx, e, th = ook.DSP(y)
        ok = rx.len() == len(bits) and np.array_equal(rx.data, bits)
        ber = ook.BER_analizer('counter', Tx=bits, Rx=rx)
        err = '' if ok else 'errors=%s th=%s mu0=%s mu1=%s' % (int(np.sum(rx.data != bits)) if rx.len() == len(bits) else 'len', th, e.mu0, e.mu1)
        if ok and ber != 0: ok = False; err = 'BER_analizer=%s' % ber
    except Exception as ex:
        ok = False; err = repr(ex)
    if not ok: report('B ook.DSP', '%s %s %s' % (tag, {k: v for k, v in kw.items()}, err))

def clause_B():
    for sps in (4, 5, 16, 33, 64):
        for shape in ('nrz', 'gaussian'):
            for name, bits in (('prbs7/32', PRBS(7, len=32).data), ('prbs31/32', PRBS(31, len=32).data), ('prbs15/32', PRBS(15, len=32).data),
                               ('prbs23/33', PRBS(23, len=33).data), ('prbs7/127', PRBS(7).data), ('prbs9/511', PRBS(9).data)):
                check_ook(bits, name, sps=sps, shape=shape, bwf=0.7)
    rng = np.random.default_rng(2)
    for it in range(900):
        sps = int(rng.integers(4, 65)); R = float(rng.choice([1e6, 1e9, 10e9])); lim = 0.01*(1e12/R)**2
        L = int(rng.choice([32, 33, 34, 35, 64, 65]))
        if rng.random() < 0.5: bits = rng.integers(0, 2, L); name = 'rand'
        else:
            o = int(rng.choice([7, 9, 11, 15, 20, 23, 31])); bits = PRBS(o, len=L, seed=int(rng.integers(1, 2**o))).data; name = 'prbs%d' % o
        if bits.min() == bits.max(): continue
        bwf = float(rng.choice([0.7, 0.75, 1.0, 2.0, 0.45*sps]))
        if bwf < 0.7 or bwf >= 0.49*sps: bwf = 0.7  # PD with BW >= fs/2 is outside the audit
        check_ook(bits.astype(int), name + ' ' + ''.join(map(str, bits)), sps=sps, R=R, shape=str(rng.choice(['nrz', 'gaussian'])), bwf=bwf,
                  ER=float(rng.choice([10, 26, np.inf])), loss=float(rng.choice([0, 6])), PdBm=float(rng.choice([-30, 0, 20])),
                  r=float(rng.choice([0.05, 1.0])), RL=float(rng.choice([1, 50, 1e4])), npol=int(rng.choice([1, 2])), pol=str(rng.choice(['x', 'y'])),
                  D=rng.choice([None, 0.999*lim, -0.999*lim]), idark=float(rng.choice([0, 10e-9])))
    for L in (8191, 8192, 8193):  # around the nslots cap of GET_EYE
        check_ook(PRBS(15, len=L).data, 'prbs15/%d' % L, sps=4, shape='nrz', bwf=0.7)
    check_ook(PRBS(15, len=8193).data, 'prbs15/8193', sps=5, shape='gaussian', bwf=0.7)

# ---------------------------------------------------------------- clause C: ppm.DSP soft / hard (estimated threshold) on PPM_ENCODER output
def check_ppm(data, M, tag, **kw):
    data = np.asarray(data)
    try:
        gv(sps=kw['sps'], R=kw.get('R', 1e9))
        slots = ppm.PPM_ENCODER(data, M).data
        y = link(slots, **kw)
        gen = generic_ok(y, kw['sps'], slots)
        res = {}
        for dec in ('soft', 'hard'):
            bad = 0
            for rep in range(1 if dec == 'soft' else 3):  # HDD breaks ties at random: a wrong threshold shows in most calls, not all
                rx = ppm.DSP(y, M, decision=dec)
                if rx.len() != len(data) or not np.array_equal(rx.data, data) or ppm.BER_analizer('counter', Tx=data, Rx=rx) != 0: bad += 1
            res[dec] = bad
        if not gen: report('A generic', 'PPM slots %s %s' % (tag, kw))
        if res['soft']: report('C ppm.DSP soft', '%s M=%d data=%s %s' % (tag, M, ''.join(map(str, data)), kw))
        if res['hard']:
            s = centre(y, kw['sps']); e = GET_EYE(y, nslots=8192)
            report('C ppm.DSP hard', '%s M=%d data=%s %s wrong in %d/3 calls; OFF max %.4g ON min %.4g threshold used %.4g'
                   % (tag, M, ''.join(map(str, data)), kw, res['hard'], s[slots == 0].max(), s[slots == 1].min(), e.threshold))
    except Exception as ex:
        report('C ppm.DSP', '%s M=%d data=%s %s %r' % (tag, M, ''.join(map(str, data)), kw, ex))

def clause_C():
    # exhaustive small: one and two symbols, every M, shortest records
    for M in (2, 4, 8, 16):
        k = int(np.log2(M))
        for nsym in (1, 2, 3):
            datas = list(itertools.product([0, 1], repeat=k*nsym))
            if len(datas) > 8: datas = datas[::len(datas)//8]
            for data in datas:
                for sps in (4, 5, 9, 16, 21, 41, 64):
                    if nsym*M*sps <= 16: continue
                    for shape in ('nrz', 'gaussian'):
                        check_ppm(data, M, 'small', sps=sps, shape=shape, bwf=0.7, ER=10.0)
    rng = np.random.default_rng(3)
    for it in range(1200):
        M = int(rng.choice([2, 4, 8, 16])); k = int(np.log2(M)); sps = int(rng.integers(4, 65)); R = float(rng.choice([1e9, 10e9])); lim = 0.01*(1e12/R)**2
        nsym = int(rng.choice([1, 2, 3, 5, 16, 33]))
        if nsym*M*sps <= 16: continue
        comp = str(rng.choice(['rand', 'rand', 'zeros', 'ones', 'alt', 'onehot']))
        data = {'rand': rng.integers(0, 2, nsym*k), 'zeros': np.zeros(nsym*k, int), 'ones': np.ones(nsym*k, int), 'alt': np.arange(nsym*k) % 2,
                'onehot': np.eye(1, nsym*k, int(rng.integers(nsym*k)), dtype=int)[0]}[comp]
        check_ppm(data, M, comp, sps=sps, R=R, shape=str(rng.choice(['nrz', 'gaussian'])), bwf=float(rng.choice([0.7, 1.0, 2.0])) if sps > 4 else 0.7,
                  ER=float(rng.choice([10, 26, np.inf])), loss=float(rng.choice([0, 6])), PdBm=float(rng.choice([-30, 0, 20])), r=float(rng.choice([0.05, 1.0])),
                  RL=float(rng.choice([1, 50, 1e4])), npol=int(rng.choice([1, 2])), pol=str(rng.choice(['x', 'y'])), D=rng.choice([None, 0.999*lim, -0.999*lim]))
    for M, nsym in ((16, 512), (16, 513), (2, 4097)):  # around the nslots cap
        check_ppm(np.random.default_rng(nsym).integers(0, 2, nsym*int(np.log2(M))), M, 'cap', sps=4, shape='nrz', bwf=0.7)
    # corner: wide-band receiver (BW below fs/2), dispersion close to the 1 % bound, odd sps, few symbols
    for M in (2, 4, 8):
        k = int(np.log2(M))
        for sps in (25, 27, 29, 33):
            for bwf in (11.0, 12.0):
                for Df in (-0.999, 0.999, -0.7):
                    for ER in (10.0, 20.0):
                        for nsym in (1, 2):
                            data = np.random.default_rng(M + sps + nsym).integers(0, 2, k*nsym)
                            check_ppm(data, M, 'wideband+dispersion', sps=sps, shape='nrz', bwf=bwf, ER=ER, D=Df*1e4)

# ---------------------------------------------------------------- clause D: BER_analizer('counter') = k/n
def clause_D():
    conts = {'list': lambda b: [int(v) for v in b], 'tuple': lambda b: tuple(int(v) for v in b), 'int': lambda b: np.array(b, int), 'u8': lambda b: np.array(b, np.uint8),
             'bool': lambda b: np.array(b, bool), 'float': lambda b: np.array(b, float), 'bs': lambda b: binary_sequence(np.array(b)),
             'str ': lambda b: ' '.join(str(int(v)) for v in b), 'str,': lambda b: ','.join(str(int(v)) for v in b), 'str': lambda b: ''.join(str(int(v)) for v in b)}
    rng = np.random.default_rng(4)
    for n in (1, 2, 3, 4, 7, 32, 33):
        combos = list(itertools.product([0, 1], repeat=n)) if n <= 4 else [tuple(rng.integers(0, 2, n)) for _ in range(6)]
        for tx in combos:
            flipsets = list(itertools.product([0, 1], repeat=n)) if n <= 3 else [tuple(rng.integers(0, 2, n)) for _ in range(4)] + [(0,)*n, (1,)*n, (1,) + (0,)*(n-1), (0,)*(n-1) + (1,)]
            for fl in flipsets:
                rx = tuple(a ^ b for a, b in zip(tx, fl)); kf = sum(fl)
                for c1, f1 in conts.items():
                    for c2, f2 in conts.items():
                        for name, mod in (('ook', ook), ('ppm', ppm)):
                            try:
                                v = mod.BER_analizer('counter', Tx=f1(tx), Rx=f2(rx)); ok = (v == kf/n)
                            except Exception as ex:
                                v = repr(ex); ok = False
                            if not ok: report('D BER counter', '%s Tx=%s(%s) Rx=%s(%s) got %s expected %s' % (name, tx, c1, rx, c2, v, kf/n))

if __name__ == '__main__':
    for f in (clause_A, clause_B, clause_C, clause_D):
        f(); print('# %s done, violations so far: %d' % (f.__name__, len(VIOL)), flush=True)
    if VIOL:
        print('FAIL: %d violated (clause, input) pairs' % len(VIOL)); sys.exit(1)
    print('PASS'); sys.exit(0)
