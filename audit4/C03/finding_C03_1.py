# ppm.DSP(decision='hard', estimated threshold) on a noise-free, wide-open eye returns wrong data
import sys; sys.path.pop(0)
import numpy as np, warnings; warnings.filterwarnings('ignore')
from opticomlib import gv, optical_signal
from opticomlib.devices import DAC, MZM, DM, PD, GET_EYE
from opticomlib import ppm
gv(sps=25, R=1e9); M = 4; data = np.array([0, 1, 1, 0])      # T = 1000 ps, T^2 = 1e6 ps^2
slots = ppm.PPM_ENCODER(data, M).data
v = DAC(slots, Vout=5.0, pulse_shape='nrz')
tx = MZM(optical_signal(np.full(v.len(), 1e-3**0.5)), v, bias=5.0, Vpi=5.0, ER_dB=10.0)
rx = PD(DM(tx, D=-9990.0), BW=11e9, include_noise='ase-only')   # |beta2 L| = 0.999 % of T^2, no noise source on
s = (rx.signal + rx.noise).real[gv.sps//2::gv.sps]              # slot-centre samples
mid = (s.max() + s.min())/2
print('slot-centre samples OFF max %.4g  ON min %.4g  midway threshold %.4g -> slots ok: %s' % (s[slots==0].max(), s[slots==1].min(), mid, np.array_equal(s > mid, slots)))
print('threshold estimated by GET_EYE / used by ppm.DSP: %.4g' % GET_EYE(rx, nslots=8192).threshold)
soft = ppm.DSP(rx, M, 'soft').data
wrong = sum(not np.array_equal(ppm.DSP(rx, M, 'hard').data, data) for _ in range(20))
print('expected: data', data, 'from both decisions; soft gives', soft, '; hard wrong in %d of 20 calls' % wrong)
sys.exit(1 if wrong or not np.array_equal(soft, data) else 0)
