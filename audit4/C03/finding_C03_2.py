import sys; sys.path.pop(0)  # run with PYTHONPATH=/repo from outside the repository
import numpy as np, warnings; warnings.filterwarnings('ignore')
from opticomlib import gv, optical_signal
from opticomlib.devices import DAC, MZM, DM, PD, GET_EYE
from opticomlib import ppm
gv(sps=27, R=1e9); M = 4; data = np.array([1, 0])
slots = ppm.PPM_ENCODER(data, M).data
v = DAC(slots, Vout=5.0, pulse_shape='nrz')
tx = MZM(optical_signal(np.full(v.len(), 1e-3**0.5)), v, bias=5.0, Vpi=5.0, ER_dB=10.0)
rx = PD(DM(tx, D=-9990.0), BW=12e9, include_noise='ase-only')
s = (rx.signal + rx.noise).real[gv.sps//2::gv.sps]
print('slots', slots, 'centre samples', s.round(4))
for k in range(3):
    e = GET_EYE(rx, nslots=8192)
    yt=e.y_top[~np.isnan(e.y_top)]; yb=e.y_bot[~np.isnan(e.y_bot)]
    print('mu0 %.4g mu1 %.4g s0 %.3g s1 %.3g thr %s t_opt %.3g i %s | top %s' % (e.mu0,e.mu1,e.s0,e.s1,e.threshold,e.t_opt,e.i, np.sort(yt).round(4)))
    print('  hard', ppm.DSP(rx, M, 'hard').data)
