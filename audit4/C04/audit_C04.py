import sys, os
_here = os.path.dirname(os.path.abspath(__file__))
if sys.path and os.path.abspath(sys.path[0] or '.') == _here:
    del sys.path[0]

import time, warnings, itertools, random
import numpy as np
import opticomlib
from opticomlib.devices import PRBS
from opticomlib.typing import binary_sequence

T0 = time.time()
TAPS = {7: 6, 9: 5, 11: 9, 15: 14, 20: 3, 23: 18, 31: 28}
ORDERS = list(TAPS)
viol = []


def V(clause, inp, msg):
    line = f"VIOLATION [{clause}] input={inp}: {msg}"
    print(line, flush=True)
    viol.append(line)


def call(*a, **k):
    """returns (result, [warnings]) ; warnings recorded always"""
    with warnings.catch_warnings(record=True) as w:
        warnings.simplefilter("always")
        r = PRBS(*a, **k)
    return r, w


def bits(r):
    assert isinstance(r, binary_sequence), type(r)
    d = r.data
    assert d.ndim == 1
    return np.asarray(d).astype(np.uint8)


def ref(n, L, seed):
    """reference: recurrence a[m] = a[m-n]^a[m-t], predecessors from seed bits; vectorised in chunks of t."""
    t = TAPS[n]
    seed %= 2 ** n
    a = np.empty(L + n, dtype=np.uint8)
    # a[n + m] = output m ; output -j (j steps before first, j=0 is first output)  = bit j of seed
    # bit j of the seed is the output j steps before the first => position n - j ... use index base n:
    # out index m -> a[n+m]; predecessor "j steps before first" -> a[n - j], j = 0..n-1 ; j=0 is the first output itself
    for j in range(n):
        a[n - j] = (seed >> j) & 1
    # a[0] unused predecessor (j = n) is not part of the state
    m = n + 1
    end = L + n
    while m < end:
        k = min(t, end - m)  # a[m..m+k) depend on a[m-n..], a[m-t..m-t+k) all known when k<=t
        a[m:m + k] = a[m - n:m - n + k] ^ a[m - t:m - t + k]
        m += k
    return a[n:n + L]


def state_after(n, seed, L):
    """state after L outputs: bit j = output (L - j)"""
    r = ref(n, L + 1, seed)  # outputs 0..L
    # state at step L: bit 0 = output L, bit j = output L-j ; for L-j<0 use seed bits
    seed %= 2 ** n
    s = 0
    for j in range(n):
        idx = L - j
        b = int(r[idx]) if idx >= 0 else (seed >> (-idx)) & 1
        s |= b << j
    return s


rng = random.Random(20240404)

# ---------------------------------------------------------------- clause A: recurrence + seed bits, all orders
print("A: recurrence / seed-bit predecessors", flush=True)
for n in ORDERS:
    t = TAPS[n]
    seeds = [1, 2, 3, 2 ** (n - 1), 2 ** n - 1, 2 ** n - 2, 2 ** (t - 1), 2 ** t, (1 << (n - 1)) | 1, 0b1010101 % 2 ** n,
             2 ** n + 1, -1, -2, -(2 ** n) + 1, 2 ** 64 + 5, 10 ** 30 + 7, -(10 ** 30) - 7, 3 * 2 ** n + 2 ** (n - 1)]
    seeds += [rng.randrange(1, 2 ** n) for _ in range(12)]
    seeds += [rng.randrange(-2 ** 70, 2 ** 70) for _ in range(6)]
    for s in seeds:
        if s % 2 ** n == 0:
            continue
        for L in (1, 2, 3, n - 1, n, n + 1, 2 * n + 1, 257, 1000):
            (out, st), w = call(n, L, seed=s, return_seed=True)
            o = bits(out)
            e = ref(n, L, s)
            if o.shape != (L,):
                V("A-length", (n, L, s), f"len {o.shape}")
                continue
            if not np.array_equal(o, e):
                V("A-recurrence", (n, L, s), f"first mismatch at {int(np.argmax(o != e))}")
            if o[0] != (s % 2 ** n) & 1:
                V("A-first-is-LSB", (n, L, s), f"{o[0]}")
            es = state_after(n, s, L)
            if st != es or not (0 < st < 2 ** n):
                V("A-state", (n, L, s), f"state {st} expected {es}")
            if w:
                V("A-spurious-warning", (n, L, s), str(w[0].message))
    # default seed (None) = all ones
    out, w = call(n, 50)
    if not np.array_equal(bits(out), ref(n, 50, 2 ** n - 1)):
        V("A-default-seed", (n,), "differs from seed 2^n-1")
    # without return_seed must be a binary_sequence, with return_seed a tuple
    if not isinstance(out, binary_sequence):
        V("A-type", (n,), type(out))
    # raw recurrence directly on a long output
    L = 200000 if n >= 20 else 70000
    o = bits(call(n, L, seed=rng.randrange(1, 2 ** n))[0])
    if not np.array_equal(o[n:], o[:-n] ^ o[n - t:-t]):
        V("A-recurrence-long", (n, L), "a[m] != a[m-n]^a[m-t]")

# one-step transition for ALL states (orders <= 15), sampled + corners above
print("A2: one-step transition, exhaustive n<=20", time.time() - T0, flush=True)
for n in ORDERS:
    t = TAPS[n]
    M = 2 ** n
    if n <= 20:
        S = range(1, M)
    else:
        S = [1, 2, M - 1, M - 2, M >> 1, (M >> 1) + 1, 1 << (t - 1), 1 << t, (1 << (n - 1)) | (1 << (t - 1))] + \
            [rng.randrange(1, M) for _ in range(200000)]
    bad = 0
    for s in S:
        (out, st), w = call(n, 1, seed=s, return_seed=True)
        new = ((s >> (n - 1)) ^ (s >> (t - 1))) & 1
        es = ((s << 1) | new) & (M - 1)
        if out.data.shape != (1,) or int(out.data[0]) != (s & 1) or st != es or w:
            bad += 1
            if bad <= 5:
                V("A2-transition", (n, s), f"out={out.data} state={st} expected out={s & 1} state={es} warn={len(w)}")

# ---------------------------------------------------------------- clause B: period / ones / all states visited
print("B: period, ones, all non-zero states (through the library for n<=23)", time.time() - T0, flush=True)
for n in ORDERS:
    if n > 23:
        continue
    P = 2 ** n - 1
    for s in ([2 ** n - 1, 1] if n <= 20 else [rng.randrange(1, 2 ** n)]):
        out, _ = call(n, P + n - 1, seed=s, return_seed=False)
        o = bits(out)
        per = o[:P]
        if int(per.sum()) != 2 ** (n - 1):
            V("B-ones", (n, s), f"{int(per.sum())} ones")
        # n-bit windows = generator states; all distinct and non-zero -> visits all 2^n-1 non-zero states
        win = np.zeros(P, dtype=np.int64)
        for j in range(n):
            win |= o[j:j + P].astype(np.int64) << j
        seen = np.zeros(2 ** n, dtype=bool)
        seen[win] = True
        if seen[0] or int(seen.sum()) != P:
            V("B-states", (n, s), f"{int(seen.sum())} distinct states, zero visited={bool(seen[0])}")
        # wraps: windows past P equal the beginning
        if not np.array_equal(o[P:], o[:n - 1]):
            V("B-period", (n, s), "sequence does not repeat after 2^n-1")
    # state returns to the seed after exactly one period and not earlier (n<=15: check every seed through the function is too slow;
    # the cycle is single so verifying one cycle covers every non-zero seed). Check resume state after P.
    if n <= 20:
        s = rng.randrange(1, 2 ** n)
        (out, st), w = call(n, P, seed=s, return_seed=True)
        if st != s:
            V("B-state-period", (n, s), f"state after a period {st}")
    # default len = one period
    if n <= 15:
        out, _ = call(n)
        if out.data.shape != (P,):
            V("B-default-len", (n,), out.data.shape)
        out, _ = call(n, None, 5)
        if out.data.shape != (P,) or not np.array_equal(bits(out), ref(n, P, 5)):
            V("B-default-len-seed", (n,), out.data.shape)

# every non-zero seed for n = 7, 9 : period exactly P, ones 2^(n-1)
print("B2: every seed n=7,9,11", time.time() - T0, flush=True)
for n in (7, 9, 11):
    P = 2 ** n - 1
    for s in range(1, 2 ** n):
        if n == 11 and s % 7:
            continue
        (out, st), w = call(n, 2 * P, seed=s, return_seed=True)
        o = bits(out)
        if st != s or not np.array_equal(o[:P], o[P:]) or int(o[:P].sum()) != 2 ** (n - 1):
            V("B2-period-each-seed", (n, s), f"state {st}, ones {int(o[:P].sum())}")
        # smallest period: autocorrelation argument - check no proper divisor period
        for d in range(1, P):
            if P % d == 0 and np.array_equal(o[:P], np.roll(o[:P], d)):
                V("B2-shorter-period", (n, s, d), "")

# PRBS31: library follows the reference recurrence (sampled, long) and the polynomial x^31+x^28+1 is primitive
print("B3: PRBS31", time.time() - T0, flush=True)


def polmulmod(a, b, n, t):
    # multiply polynomials a, b over GF(2) (python ints), reduce mod x^n + x^(n-t)... recurrence a[m]=a[m-n]^a[m-t]
    # characteristic polynomial: x^n = x^(n-t) + 1  (shift register) ; period = order of x modulo it
    r = 0
    while b:
        if b & 1:
            r ^= a
        b >>= 1
        a <<= 1
    # reduce
    poly = (1 << n) | (1 << (n - t)) | 1
    for d in range(r.bit_length() - 1, n - 1, -1):
        if (r >> d) & 1:
            r ^= poly << (d - n)
    return r


def xpow(e, n, t):
    r, b = 1, 2
    while e:
        if e & 1:
            r = polmulmod(r, b, n, t)
        b = polmulmod(b, b, n, t)
        e >>= 1
    return r


def factor(m):
    f, d = set(), 2
    while d * d <= m:
        while m % d == 0:
            f.add(d)
            m //= d
        d += 1
    if m > 1:
        f.add(m)
    return f


for n in ORDERS:
    t = TAPS[n]
    P = 2 ** n - 1
    if xpow(P, n, t) != 1:
        V("B3-primitive", (n, t), "x^(2^n-1) != 1")
    for q in factor(P):
        if xpow(P // q, n, t) == 1:
            V("B3-primitive", (n, t), f"order divides (2^n-1)/{q}")

n = 31
for s in [1, 2 ** 31 - 1, 2 ** 30, 2 ** 27, 2 ** 28, 0x55555555 & (2 ** 31 - 1), rng.randrange(1, 2 ** 31), -5, 2 ** 31 + 2 ** 30]:
    L = 300000
    (out, st), w = call(31, L, seed=s, return_seed=True)
    if not np.array_equal(bits(out), ref(31, L, s)):
        V("B3-prbs31-ref", (s,), "differs from reference")
    if st != state_after(31, s, L):
        V("B3-prbs31-state", (s,), st)
    if not (0 < st < 2 ** 31) or int(st) != st:
        V("B3-prbs31-state-range", (s,), (type(st), st))

# ---------------------------------------------------------------- clause C: resume, any split
print("C: resume", time.time() - T0, flush=True)
for n in ORDERS:
    for s in [None, 1, 2 ** n - 1, rng.randrange(1, 2 ** n), -rng.randrange(1, 2 ** 40), 2 ** n * 5 + 3]:
        # all two-way splits of totals up to 2n+3 (a,b >= 1)
        for tot in list(range(2, 2 * n + 4, max(1, n // 6))) + [2, 3, n, n + 1, 2 * n + 3]:
            full, _ = call(n, tot, seed=s)
            f = bits(full)
            for a in range(1, tot):
                (o1, st1), w1 = call(n, a, seed=s, return_seed=True)
                (o2, st2), w2 = call(n, tot - a, seed=st1, return_seed=True)
                cat = np.concatenate([bits(o1), bits(o2)])
                if not np.array_equal(cat, f):
                    V("C-two-way", (n, s, a, tot - a), "concatenation differs")
                if w1 or w2:
                    V("C-warning", (n, s, a, tot - a), "warning on resume")
                (_, stf), _ = call(n, tot, seed=s, return_seed=True)
                if stf != st2:
                    V("C-final-state", (n, s, a, tot - a), f"{stf} vs {st2}")
                # concatenation with + of binary_sequence
                if not np.array_equal((o1 + o2).data, f):
                    V("C-plus", (n, s, a, tot - a), "o1+o2 differs")
        # random many-way splits incl. all-ones splits
        for _ in range(6):
            tot = rng.randrange(3, 400)
            parts, rest = [], tot
            while rest:
                p = rng.choice([1, 1, 2, 3, n - 1, n, n + 1, rng.randrange(1, 60)])
                p = max(1, min(p, rest))
                parts.append(p)
                rest -= p
            st, chunks = s, []
            for p in parts:
                (o, st), w = call(n, p, seed=st, return_seed=True)
                chunks.append(bits(o))
            full, _ = call(n, tot, seed=s)
            if not np.array_equal(np.concatenate(chunks), bits(full)):
                V("C-many-way", (n, s, parts), "differs")
        # bit-by-bit
        st, chunks = s, []
        for _ in range(3 * n + 2):
            (o, st), w = call(n, 1, seed=st, return_seed=True)
            chunks.append(bits(o))
        if not np.array_equal(np.concatenate(chunks), bits(call(n, 3 * n + 2, seed=s)[0])):
            V("C-bit-by-bit", (n, s), "differs")
    # split across the period boundary
    if n <= 15:
        P = 2 ** n - 1
        s = rng.randrange(1, 2 ** n)
        full = bits(call(n, P + 10, seed=s)[0])
        for a in (P - 1, P, P + 1, 1, P + 9):
            (o1, st1), _ = call(n, a, seed=s, return_seed=True)
            (o2, st2), _ = call(n, P + 10 - a, seed=st1, return_seed=True)
            if not np.array_equal(np.concatenate([bits(o1), bits(o2)]), full):
                V("C-period-boundary", (n, s, a), "differs")
    # positional / keyword argument forms
    (o1, st1), _ = call(n, 5, 3, True)
    (o2, st2), _ = call(order=n, len=5, seed=3, return_seed=True)
    if not np.array_equal(o1.data, o2.data) or st1 != st2:
        V("C-arg-forms", (n,), "")
    # truthy return_seed values
    r, _ = call(n, 5, 3, 1)
    if not (isinstance(r, tuple) and len(r) == 2):
        V("C-return_seed-truthy", (n,), type(r))
    r, _ = call(n, 5, 3, 0)
    if not isinstance(r, binary_sequence):
        V("C-return_seed-falsy", (n,), type(r))

# repeated calls are stateless
for n in ORDERS:
    a = bits(call(n, 100, seed=77)[0])
    call(n, 33, seed=5, return_seed=True)
    b = bits(call(n, 100, seed=77)[0])
    if not np.array_equal(a, b):
        V("C-stateless", (n,), "second identical call differs")

# ---------------------------------------------------------------- clause D: zero seeds
print("D: zero seed", time.time() - T0, flush=True)
for n in ORDERS:
    M = 2 ** n
    one = bits(call(n, 3 * n, seed=1)[0])
    for s in [0, M, -M, 2 * M, 3 * M, -7 * M, M * M, M << 40, -(M << 40), False, 10 ** 20 * M]:
        for rs in (False, True):
            try:
                r, w = call(n, 3 * n, seed=s, return_seed=rs)
            except Exception as ex:
                V("D-zero-seed-raises", (n, s, rs), repr(ex))
                continue
            o = bits(r[0] if rs else r)
            if not np.array_equal(o, one):
                V("D-zero-seed-replaced-by-1", (n, s), "output differs from seed=1")
            uw = [x for x in w if issubclass(x.category, Warning)]
            if len(uw) != 1:
                V("D-zero-seed-warning", (n, s), f"{len(uw)} warnings")
            if rs and r[1] != state_after(n, 1, 3 * n):
                V("D-zero-seed-state", (n, s), r[1])
    # near-zero seeds must not warn
    for s in [1, -1, M - 1, M + 1, -M + 1, -M - 1, M // 2, True]:
        r, w = call(n, 4, seed=s)
        if w:
            V("D-nonzero-seed-warns", (n, s), str(w[0].message))
        if not np.array_equal(bits(r), ref(n, 4, int(s))):
            V("D-nonzero-seed-output", (n, s), "")
    # with warnings turned into errors the message is a UserWarning
    with warnings.catch_warnings():
        warnings.simplefilter("error")
        try:
            PRBS(n, 3, seed=0)
            V("D-warning-category", (n,), "no warning raised under simplefilter('error')")
        except UserWarning:
            pass
        except Exception as ex:
            V("D-warning-category", (n,), repr(ex))
    # timer stack must be usable afterwards
    r, w = call(n, 3, seed=1)

# ---------------------------------------------------------------- clause E: len validation
print("E: len", time.time() - T0, flush=True)
for n in ORDERS:
    for L in [0, -1, -5, -2 ** 40, False]:
        for s in (None, 3, 0):
            for rs in (False, True):
                try:
                    r, w = call(n, L, seed=s, return_seed=rs)
                    V("E-len-nonpositive-accepted", (n, L, s, rs), f"returned {r}")
                except (ValueError, TypeError):
                    pass
                except Exception as ex:
                    V("E-len-nonpositive-wrong-exception", (n, L, s), repr(ex))
    for L in [1.0, 2.5, "5", [5], (5,), 1 + 0j, np.float64(3.0), float("inf"), b"3"]:
        try:
            r, w = call(n, L, seed=3)
            V("E-len-nonint-accepted", (n, L), f"returned {r}")
        except (ValueError, TypeError):
            pass
        except Exception as ex:
            V("E-len-nonint-wrong-exception", (n, L), repr(ex))
    try:  # bool is a subclass of int; a bool is not a length in any reasonable reading -> note only
        call(n, True, seed=3)
    except Exception as ex:
        if n == 7:
            print("NOTE (not counted): len=True ->", repr(ex))
    for L in [1, 2, 3]:
        try:
            r, w = call(n, L, seed=3)
            if bits(r).shape != (int(L),) or not np.array_equal(bits(r), ref(n, int(L), 3)):
                V("E-len-small", (n, L), r.data)
        except Exception as ex:
            V("E-len-small-raises", (n, L), repr(ex))
    # after errors the function still works (tic stack leak harmless?)
    r, w = call(n, 4, seed=3)
    if not np.array_equal(bits(r), ref(n, 4, 3)):
        V("E-after-error", (n,), "")

# ---------------------------------------------------------------- clause F: unsupported orders -> ValueError
print("F: unsupported orders", time.time() - T0, flush=True)
unsup = [k for k in range(-5, 70) if k not in TAPS] + [63, 64, 127, 1000, 10 ** 4, -31, -7, True, False]
for k in unsup:
    for s in (None, 0, 1, 5, -3, 2 ** 40):
        for L in (None, 1, 10):
            for rs in (False, True):
                try:
                    r, w = call(k, L, seed=s, return_seed=rs)
                    V("F-unsupported-accepted", (k, L, s, rs), f"returned {r}")
                except ValueError:
                    pass
                except Exception as ex:
                    V("F-unsupported-wrong-exception", (k, L, s, rs), repr(ex))
# unsupported order together with a bad len: either error acceptable, but must raise
for k in (8, 0, 32):
    for L in (0, -1, 1.5):
        try:
            call(k, L)
            V("F-unsupported+badlen-accepted", (k, L), "")
        except (ValueError, TypeError):
            pass
        except Exception as ex:
            V("F-unsupported+badlen-wrong-exception", (k, L), repr(ex))

# the library must still work after all those failures (tic stack)
for n in ORDERS:
    (o, st), w = call(n, 9, seed=9, return_seed=True)
    if not np.array_equal(bits(o), ref(n, 9, 9)) or o.execution_time is None or not (0 <= o.execution_time < 5):
        V("G-after-errors", (n,), (o.data, o.execution_time))

# output container: dtype / values strictly 0/1
for n in ORDERS:
    o = call(n, 500, seed=12345)[0]
    if o.data.dtype != np.uint8 or set(np.unique(o.data)) - {0, 1}:
        V("G-dtype", (n,), o.data.dtype)

print("elapsed", round(time.time() - T0, 1), flush=True)
if viol:
    print(f"{len(viol)} violations")
    sys.exit(1)
print("PASS")
sys.exit(0)
