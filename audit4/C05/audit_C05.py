"""Audit of property C05: DAC waveforms are slot-exact and SAMPLER inverts them.

Prints one line per violated (clause, input) (capped per clause, with a count) and exits 1
if any clause is violated; prints PASS and exits 0 otherwise.
"""
import sys
del sys.path[0]
import itertools
import warnings
warnings.simplefilter('ignore')
import numpy as np

from opticomlib import gv
from opticomlib.typing import binary_sequence, electrical_signal
from opticomlib.devices import DAC, SAMPLER

CAP = 12
viol = {}


def report(clause, msg):
    n = viol.get(clause, 0)
    viol[clause] = n + 1
    if n < CAP:
        print(f'VIOLATION [{clause}] {msg}')
    elif n == CAP:
        print(f'VIOLATION [{clause}] ... further lines of this clause suppressed (see count at the end)')


def setsps(sps, how=0):
    if how == 0:
        gv(sps=sps, R=1e9)
    elif how == 1:
        gv(sps=sps)
    elif how == 2:
        gv(R=2.5e9, fs=2.5e9 * sps)
    else:
        gv(sps=sps, fs=sps * 10e9)
    assert gv.sps == sps


rng = np.random.default_rng(20240505)


def forms(bits):
    """every accepted container form of the same bit list"""
    b = [int(v) for v in bits]
    out = [
        ('list', list(b)),
        ('tuple', tuple(b)),
        ('list-bool', [bool(v) for v in b]),
        ('nd-int64', np.array(b, dtype=np.int64)),
        ('nd-uint8', np.array(b, dtype=np.uint8)),
        ('nd-int8', np.array(b, dtype=np.int8)),
        ('nd-bool', np.array(b, dtype=bool)),
        ('nd-float', np.array(b, dtype=float)),
        ('binseq', binary_sequence(b)),
        ('str-space', ' '.join(map(str, b))),
        ('str-comma', ','.join(map(str, b))),
        ('str-packed', ''.join(map(str, b))),
        ('str-mixed', ', '.join(map(str, b))),
    ]
    return out


def vb_corners():
    h = float(np.nextafter(48.0, 0.0))
    vals = [1.0, 1, -1, 0.5, 3, -3.25, 47, -47, h, -h, 47.999999, -47.999999, 1e-9, -1e-300, 5e-324]
    bias = [0.0, 0, 1, -1, 2.5, -7.75, h, -h, 47, -47, 1e-12, 0.1]
    return vals, bias


# ----------------------------------------------------------------------------------------------
# A/B/C: length, NRZ and RZ exact values
# ----------------------------------------------------------------------------------------------
def expected_rect(bits, sps, Vout, bias, rz):
    e = []
    for b in bits:
        on = bias + Vout * int(b)
        if rz:
            e += [on] * (sps // 2) + [bias] * (sps - sps // 2)
        else:
            e += [on] * sps
    return np.array(e, dtype=float)


def check_rect(bits, sps, Vout, bias, shape, inp, tag):
    rz = shape.lower() == 'rz'
    before = inp.copy() if isinstance(inp, np.ndarray) else None
    try:
        x = DAC(inp, bias=bias, Vout=Vout, pulse_shape=shape)
    except Exception as e:
        report('A-length', f'DAC raised {type(e).__name__}: {e} | sps={sps} shape={shape} form={tag} bits={list(bits)} Vout={Vout!r} bias={bias!r}')
        return
    if before is not None and not np.array_equal(before, inp):
        report('B-input-mutated', f'sps={sps} form={tag}')
    if not isinstance(x, electrical_signal):
        report('A-length', f'not an electrical_signal: {type(x)}')
        return
    if x.signal.shape != (len(bits) * sps,):
        report('A-length', f'shape {x.signal.shape} != {(len(bits) * sps,)} | sps={sps} shape={shape} form={tag} nbits={len(bits)}')
        return
    if x.noise is not None and np.any(x.noise != 0):
        report('A-length', f'DAC output carries noise | sps={sps} shape={shape} form={tag}')
    e = expected_rect(bits, sps, Vout, bias, rz)
    if not np.array_equal(x.signal, e):
        i = int(np.flatnonzero(x.signal != e)[0])
        report('C-rz-exact' if rz else 'B-nrz-exact',
               f'sample {i} = {x.signal[i]!r} expected {e[i]!r} | sps={sps} shape={shape} form={tag} bits={list(bits)} Vout={Vout!r} bias={bias!r}')


def clause_ABC():
    vals, biases = vb_corners()
    # every sps, few patterns, all forms at some sps
    pats_small = [[1], [0], [1, 0], [0, 1], [1, 1], [0, 0], [1, 0, 1], [0, 1, 0], [0, 0, 1, 0, 0], [1, 1, 0, 1, 1]]
    for sps in range(2, 129):
        setsps(sps, how=sps % 4)
        for shape in ('nrz', 'rz', 'rect', 'NRZ', 'RZ'):
            for bits in pats_small[: (10 if sps < 12 or sps > 125 else 4)]:
                check_rect(bits, sps, 1.0, 0.0, shape, list(bits), 'list')
            bits = rng.integers(0, 2, int(rng.integers(1, 40)))
            V = float(rng.uniform(-48, 48)); b = float(rng.uniform(-48, 48))
            check_rect(bits, sps, V, b, shape, np.array(bits), 'nd')
    # all forms, exhaustively all patterns up to length 4 at corner sps
    for sps in (2, 3, 4, 5, 7, 8, 16, 17, 127, 128):
        setsps(sps)
        for n in range(1, 5):
            for bits in itertools.product((0, 1), repeat=n):
                for tag, inp in forms(bits):
                    for shape in ('nrz', 'rz'):
                        check_rect(bits, sps, 2.5, -1.25, shape, inp, tag)
    # Vout / bias corners (hair inside the open interval, ints, zero, tiny)
    for sps in (2, 3, 8, 9, 128):
        setsps(sps)
        for V in vals:
            for b in biases:
                for shape in ('nrz', 'rz'):
                    check_rect([1, 0, 1, 1, 0], sps, V, b, shape, [1, 0, 1, 1, 0], 'list')
    # numpy float64 (a float subclass) for Vout / bias
    setsps(8)
    check_rect([0, 1], 8, np.float64(2.0), np.float64(-3.0), 'nrz', [0, 1], 'list-npfloat64-params')
    # long record
    setsps(128)
    bits = rng.integers(0, 2, 4097)
    check_rect(bits, 128, -3.0, 1.0, 'rz', bits, 'nd-long')
    setsps(3)
    bits = rng.integers(0, 2, 100001)
    check_rect(bits, 3, 3.0, 1.0, 'nrz', bits, 'nd-long')
    # repeated calls / call order
    setsps(5)
    a = DAC('1 0 1', pulse_shape='rz').signal
    DAC('1 1 1 1', pulse_shape='gaussian', T=3, m=2)
    DAC('0 1', pulse_shape='nrz', Vout=4, bias=2)
    b = DAC('1 0 1', pulse_shape='rz').signal
    if not np.array_equal(a, b):
        report('C-rz-exact', 'repeated call differs')
    # default arguments: nrz, Vout 1, bias 0
    setsps(4)
    if not np.array_equal(DAC([1, 0]).signal, np.array([1, 1, 1, 1, 0, 0, 0, 0.0])):
        report('B-nrz-exact', 'defaults')


# ----------------------------------------------------------------------------------------------
# D: Gaussian isolated 1: peak position, height, FWHM (sps >= 8, sps/2 <= T <= 2 sps)
# ----------------------------------------------------------------------------------------------
def fwhm(y):
    pk = y.max(); h = pk / 2; i0 = int(np.argmax(y))
    i = i0
    while i > 0 and y[i - 1] >= h:
        i -= 1
    if i == 0:
        return None
    l = (i - 1) + (h - y[i - 1]) / (y[i] - y[i - 1])
    j = i0
    while j < len(y) - 1 and y[j + 1] >= h:
        j += 1
    if j == len(y) - 1:
        return None
    r = j + (y[j] - h) / (y[j] - y[j + 1])
    return r - l


def clause_D():
    for sps in range(8, 129):
        setsps(sps)
        Ts = range((sps + 1) // 2, 2 * sps + 1)
        for T in Ts:
            for m in (1, 2, 3, 4):
                full = sps in (8, 9, 15, 16, 31, 32, 127, 128) or T in (Ts[0], Ts[0] + 1, sps - 1, sps, sps + 1, 2 * sps - 1, 2 * sps)
                if not full and (T + m) % 5:
                    continue
                V = float(rng.choice([1.0, -1.0, 5, -0.3, 47.9])) if full else 1.0
                b = float(rng.choice([0.0, 2.0, -7.5])) if full else 0.0
                for pos, n in ((3, 7), (0, 1), (0, 3), (2, 3)) if full else ((3, 7),):
                    bits = [0] * n; bits[pos] = 1
                    kw = dict(T=T, m=m) if not (T == sps and m == 1 and pos == 0) else {}
                    x = DAC(bits, bias=b, Vout=V, pulse_shape='gaussian', **kw)
                    if x.signal.shape != (n * sps,):
                        report('A-length', f'gaussian shape {x.signal.shape} | sps={sps} n={n}')
                        continue
                    if np.abs(x.signal.imag).max() > 1e-9 * abs(V):
                        report('D-gauss', f'imaginary part {np.abs(x.signal.imag).max()} with c=0 | sps={sps} T={T} m={m}')
                    y = (x.signal.real - b) / V
                    c = pos * sps + sps // 2
                    ip = int(np.argmax(y))
                    # slot centre: sample sps//2 of the slot, or (sps-1)/2 -- both within one sample
                    if abs(ip - c) > 1:
                        report('D-gauss-peak-position', f'peak at {ip}, slot centre {c} | sps={sps} T={T} m={m} bits={bits}')
                    if abs(y.max() - 1) > 0.05:
                        report('D-gauss-peak-height', f'peak {y.max():.4f}*Vout | sps={sps} T={T} m={m} bits={bits} Vout={V} bias={b}')
                    if n == 7:
                        w = fwhm(y)
                        if w is None or abs(w - T) > 1:
                            report('D-gauss-fwhm', f'width {w} for T={T} | sps={sps} m={m}')
                        if y.min() < -1e-9:
                            report('D-gauss', f'undershoot {y.min()} | sps={sps} T={T} m={m}')


# ----------------------------------------------------------------------------------------------
# E: SAMPLER returns samples k, k+sps, ... of signal and noise
# ----------------------------------------------------------------------------------------------
def clause_E():
    for sps in list(range(2, 20)) + [31, 32, 33, 63, 64, 127, 128]:
        setsps(sps)
        for nsl, extra in ((1, 0), (2, 0), (3, 0), (1, 1), (2, sps - 1), (5, sps // 2), (17, 0)):
            N = nsl * sps + extra
            for kind in ('float', 'complex', 'int', 'nonoise', 'noise-complex'):
                if kind == 'float':
                    s = rng.normal(size=N); nz = rng.normal(size=N)
                elif kind == 'complex':
                    s = rng.normal(size=N) + 1j * rng.normal(size=N); nz = rng.normal(size=N) + 1j * rng.normal(size=N)
                elif kind == 'int':
                    s = rng.integers(-5, 5, N); nz = rng.integers(-5, 5, N)
                elif kind == 'nonoise':
                    s = rng.normal(size=N); nz = None
                else:
                    s = rng.normal(size=N); nz = 1j * rng.normal(size=N)
                x = electrical_signal(s, nz)
                s0 = x.signal.copy(); n0 = None if nz is None else x.noise.copy()
                ks = range(sps) if sps <= 19 else (0, 1, sps // 2 - 1, sps // 2, sps - 2, sps - 1)
                for k in ks:
                    if k >= N:
                        continue
                    for kk in (k, np.int64(k), np.uint8(k) if k < 256 else k):
                        try:
                            y = SAMPLER(x, kk)
                        except Exception as e:
                            report('E-sampler', f'{type(e).__name__}: {e} | sps={sps} N={N} k={kk!r} kind={kind}')
                            continue
                        if not isinstance(y, electrical_signal):
                            report('E-sampler', f'returns {type(y)}')
                            continue
                        if not np.array_equal(y.signal, s0[k::sps]) or y.signal.ndim != 1:
                            report('E-sampler', f'signal samples differ | sps={sps} N={N} k={kk!r} kind={kind}')
                        if nz is None:
                            if y.noise is not None and np.any(y.noise != 0):
                                report('E-sampler', f'noise appeared | sps={sps} N={N} k={kk!r}')
                        else:
                            if y.noise is None or not np.array_equal(y.noise, n0[k::sps]):
                                report('E-sampler', f'noise samples differ | sps={sps} N={N} k={kk!r} kind={kind}')
                if not np.array_equal(x.signal, s0):
                    report('E-sampler', 'input mutated')


# ----------------------------------------------------------------------------------------------
# F: sampling a DAC waveform inside the pulse and comparing with bias+Vout/2 returns the bits
# ----------------------------------------------------------------------------------------------
def decide(y, V, b):
    thr = b + V / 2
    v = np.real(y.signal)
    return (v > thr).astype(int) if V > 0 else (v < thr).astype(int)


def all_patterns(maxlen):
    for n in range(1, maxlen + 1):
        for bits in itertools.product((0, 1), repeat=n):
            yield list(bits)


def clause_F_rect():
    vals = [1.0, -1.0, 1, 5, -3.3, 47.999999, -47.999999, 1e-6]
    biases = [0.0, 1.0, -2.0, 47.999999, -47.999999, 0.3]
    for sps in range(2, 129):
        setsps(sps)
        if sps <= 9:
            pats = list(all_patterns(6))
        else:
            pats = [[1], [0], [1, 0], [0, 1], [1, 0, 1], [0, 1, 0], [1] * 5 + [0], [0] * 5 + [1]] + [list(rng.integers(0, 2, int(rng.integers(1, 33)))) for _ in range(4)]
        for bits in pats:
            V = vals[(len(bits) + sum(bits) + sps) % len(vals)]
            b = biases[(len(bits) * 3 + sum(bits) + sps) % len(biases)]
            for shape, ks in (('nrz', range(sps)), ('rz', range(sps // 2))):
                x = DAC(bits, bias=b, Vout=V, pulse_shape=shape)
                for k in ks:
                    y = SAMPLER(x, k)
                    if y.signal.shape != (len(bits),):
                        report('F-invert-' + shape, f'{y.signal.shape[0]} samples for {len(bits)} bits | sps={sps} k={k}')
                        continue
                    d = decide(y, V, b)
                    if not np.array_equal(d, bits):
                        report('F-invert-' + shape, f'read {d.tolist()} for {bits} | sps={sps} k={k} Vout={V} bias={b}')


def clause_F_gauss():
    # exhaustive over all patterns up to 7 bits at small / corner sps, worst-case patterns elsewhere
    worst = [[1], [0], [1, 0], [0, 1], [1, 1], [1, 0, 1], [0, 1, 0], [0, 0, 0, 1, 0, 0, 0], [1, 1, 1, 0, 1, 1, 1], [1] * 7, [1, 0] * 4, [0, 1] * 4,
             [1, 0, 0, 0, 0, 0, 0], [0, 0, 0, 0, 0, 0, 1], [0, 1, 1, 1, 1, 1, 1], [1, 1, 1, 1, 1, 1, 0]]
    for sps in range(2, 129):
        setsps(sps)
        Ts = list(range((sps + 1) // 2, 2 * sps + 1))
        if sps > 12:
            Ts = sorted(set(Ts[:3] + [sps - 1, sps, sps + 1] + Ts[-3:] + list(range(Ts[0], 2 * sps + 1, max(1, sps // 6)))))
        pats = list(all_patterns(7)) if sps in (2, 3, 4, 5, 8, 9) else worst
        for T in Ts:
            for m in (1, 2, 3, 4):
                for V, b in ((1.0, 0.0), (-2.0, 3.0)) if sps <= 5 else ((1.5, -0.5),):
                    bad_iso = bad_isi = None
                    nbad = 0
                    for bits in pats:
                        x = DAC(bits, bias=b, Vout=V, pulse_shape='gaussian', T=T, m=m)
                        y = SAMPLER(x, sps // 2)
                        d = decide(y, V, b)
                        if y.signal.shape != (len(bits),) or not np.array_equal(d, bits):
                            nbad += 1
                            dd = np.array(d); bb = np.array(bits)
                            if y.signal.shape == (len(bits),) and np.any((bb == 1) & (dd == 0)):
                                bad_iso = bad_iso or (bits, d.tolist())
                            else:
                                bad_isi = bad_isi or (bits, d.tolist())
                    if bad_iso:
                        report('F-invert-gauss-ONE-read-as-0', f'sps={sps} T={T} (T/sps={T / sps:.3f}) m={m} Vout={V} bias={b}: bits {bad_iso[0]} read {bad_iso[1]} ({nbad} patterns wrong)')
                    if bad_isi:
                        report('F-invert-gauss-ZERO-read-as-1(ISI)', f'sps={sps} T={T} (T/sps={T / sps:.3f}) m={m} Vout={V} bias={b}: bits {bad_isi[0]} read {bad_isi[1]} ({nbad} patterns wrong)')


# ----------------------------------------------------------------------------------------------
# G: validation
# ----------------------------------------------------------------------------------------------
def expect(exc, desc, **kw):
    bits = kw.pop('bits', [1, 0, 1])
    try:
        DAC(bits, **kw)
    except exc:
        return
    except Exception as e:
        report('G-validation', f'{desc}: expected {exc.__name__}, got {type(e).__name__}: {e}')
        return
    report('G-validation', f'{desc}: expected {exc.__name__}, nothing raised')


def accept(desc, **kw):
    bits = kw.pop('bits', [1, 0, 1])
    try:
        DAC(bits, **kw)
    except Exception as e:
        report('G-validation-accepts-domain', f'{desc}: raised {type(e).__name__}: {e}')


def clause_G():
    for sps in (2, 3, 8, 9, 128):
        setsps(sps)
        for shape in ('nrz', 'rz', 'gaussian'):
            for name in ('Vout', 'bias'):
                for bad in ('1', [1.0], (1,), np.array([1.0, 2.0]), 1 + 0j, {}, b'1'):
                    expect(TypeError, f'{name}={bad!r} shape={shape} sps={sps}', pulse_shape=shape, **{name: bad})
                for bad in (48, -48, 48.0, -48.0, 48.000001, -49, 1000, 1e308, float('inf'), -float('inf'), 10 ** 30):
                    expect(ValueError, f'{name}={bad!r} shape={shape} sps={sps}', pulse_shape=shape, **{name: bad})
                h = float(np.nextafter(48.0, 0))
                for ok in (h, -h, 47, -47, 0, 0.0, -0.0):
                    accept(f'{name}={ok!r} shape={shape} sps={sps}', pulse_shape=shape, **{name: ok})
        for bad in (0, -1, -sps, 2 * sps + 1, 4 * sps, 10 ** 6):
            expect(ValueError, f'T={bad!r} sps={sps}', pulse_shape='gaussian', T=bad)
        for bad in (1.0, float(sps), sps / 2, '4', None, [4], 4 + 0j, np.array([sps])):
            expect(TypeError, f'T={bad!r} sps={sps}', pulse_shape='gaussian', T=bad)
        for ok in range((sps + 1) // 2, 2 * sps + 1):
            accept(f'T={ok} sps={sps}', pulse_shape='gaussian', T=ok)
        for bad in (0, -1, -4):
            expect(ValueError, f'm={bad!r}', pulse_shape='gaussian', m=bad)
        for bad in (1.0, 2.5, '1', None, [1], 1 + 0j, np.array([1])):
            expect(TypeError, f'm={bad!r}', pulse_shape='gaussian', m=bad)
        for ok in (1, 2, 3, 4):
            accept(f'm={ok}', pulse_shape='gaussian', m=ok)
        for bad in ('0', None, [0.0], 1j, 0j, np.array([0.0]), (0,)):
            expect(TypeError, f'c={bad!r}', pulse_shape='gaussian', c=bad)
        for ok in (0, 0.0, 1, -2.5):
            accept(f'c={ok}', pulse_shape='gaussian', c=ok)
        for bad in ('foo', '', 'gauss', 'nrz ', ' rz', 'sinc', 'rcos', None, 0, 1, ['nrz'], ('rz',), b'nrz', 'n', 'gaussian2'):
            expect(ValueError, f'pulse_shape={bad!r}', pulse_shape=bad)
        # every bad value together with the other arguments valid and at the single-bit record
        expect(ValueError, 'Vout=48 one bit', bits=[1], Vout=48)
        expect(ValueError, 'bias=-48 one bit', bits='0', bias=-48)
        expect(TypeError, 'Vout list, gaussian one bit', bits=[1], Vout=[1], pulse_shape='gaussian')
        # a bad gaussian parameter is rejected whatever the other ones are
        expect(ValueError, 'T=0 with m=2 c=1', pulse_shape='gaussian', T=0, m=2, c=1.0)
        expect(ValueError, 'm=0 with T ok', pulse_shape='gaussian', T=sps, m=0)


# ----------------------------------------------------------------------------------------------
if __name__ == '__main__':
    clause_ABC()
    clause_D()
    clause_E()
    clause_F_rect()
    clause_F_gauss()
    clause_G()
    if viol:
        print('--- violated clauses (count of (clause, input) pairs) ---')
        for k, v in viol.items():
            print(f'{k}: {v}')
        sys.exit(1)
    print('PASS')
    sys.exit(0)
