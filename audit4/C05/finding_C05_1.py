# C05: "sampling a DAC waveform ... (k = sps//2 for Gaussian) and comparing with bias+Vout/2 returns the input bits"
# quantifier: "all sps in 2..128", "all Gaussian T in [sps/2, 2*sps]", "orders m in 1..4"  ->  sps=2, T=1 (= sps/2), any m
import sys; del sys.path[0]
import warnings; warnings.simplefilter('ignore')
import numpy as np
from opticomlib import gv
from opticomlib.devices import DAC, SAMPLER
gv(sps=2, R=1e9)
bad = 0
for m in (1, 2, 3, 4):
    bits = [0, 1, 0]
    y = SAMPLER(DAC(bits, bias=0.0, Vout=1.0, pulse_shape='gaussian', T=1, m=m), gv.sps // 2).signal.real
    got = (y > 0.0 + 1.0 / 2).astype(int).tolist()
    print(f'sps=2 T=1 m={m}: expected {bits}, read {got}; sample of the 1 = {y[1]:.4f}*Vout (threshold 0.5*Vout)')
    bad += got != bits
sys.exit(1 if bad else 0)
