# C05 as written: Gaussian waveform sampled at k = sps//2 and compared with bias+Vout/2 "returns the input bits"
# for "all bit sequences" and "all Gaussian T in [sps/2, 2*sps]".  NOT a coding error: inter-symbol interference of
# any pulse whose half-maximum width exceeds ~1.41 slots (m=1); the statement is over-broad, no library fix exists.
import sys; del sys.path[0]
import warnings; warnings.simplefilter('ignore')
import numpy as np
from opticomlib import gv
from opticomlib.devices import DAC, SAMPLER
gv(sps=16, R=1e9)
bad = 0
for T, bits in ((23, [1, 1, 1, 0, 1, 1, 1]), (32, [1, 0, 1]), (32, [0, 1, 1])):
    y = SAMPLER(DAC(bits, pulse_shape='gaussian', T=T, m=1), gv.sps // 2).signal.real
    got = (y > 0.5).astype(int).tolist()
    print(f'sps=16 T={T} m=1: expected {bits}, read {got}; samples {np.round(y, 3).tolist()}')
    bad += got != bits
sys.exit(1 if bad else 0)
