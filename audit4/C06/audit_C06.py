import sys, os
if sys.path and os.path.abspath(sys.path[0] or '.') == os.path.dirname(os.path.abspath(__file__)):
    del sys.path[0]
import warnings, itertools
warnings.filterwarnings('ignore')
import numpy as np
import opticomlib
from opticomlib import optical_signal, electrical_signal, gv
from opticomlib.devices import MZM, PM, LASER

pi = np.pi
viol = []
seen = set()
def bad(clause, desc):
    key = (clause, desc[:120])
    if key in seen: return
    seen.add(key)
    viol.append((clause, desc))
    if len(viol) <= 300:
        print(f'VIOLATION [{clause}] {desc}')

def tot(o):
    return o.signal if o.noise is None else o.signal + o.noise

def mk_input(rng, N, npol, noise, kind='complex'):
    shape = (N,) if npol == 1 else (2, N)
    if kind == 'complex':
        s = rng.normal(size=shape) + 1j*rng.normal(size=shape)
    elif kind == 'real':
        s = rng.normal(size=shape)
    elif kind == 'int':
        s = rng.integers(-3, 4, size=shape)
    elif kind == 'ones':
        s = np.ones(shape)
    elif kind == 'zeros':
        s = np.zeros(shape, complex)
    elif kind == 'c64':
        s = (rng.normal(size=shape) + 1j*rng.normal(size=shape)).astype(np.complex128)
    n = None
    if noise:
        n = 0.3*(rng.normal(size=shape) + 1j*rng.normal(size=shape))
        if noise == 'real':
            n = n.real
        if noise == 'zero':
            n = np.zeros(shape)
        if noise == 'zerosum':
            n = n - n.mean(axis=-1, keepdims=True) if N > 1 else n*0
    return optical_signal(s, n)

def H(u, bias, Vpi, loss_dB, ER_dB):
    th = pi*(np.asarray(u, dtype=float)+bias)/(2*Vpi)
    return np.sqrt(10**(-loss_dB/10))*(np.cos(th) + 1j*10**(-ER_dB/20)*np.sin(th))

def close(a, b, rtol=1e-12, atol=1e-13):
    a = np.asarray(a); b = np.asarray(b)
    if a.shape != b.shape:
        return False
    return bool(np.all(np.abs(a-b) <= atol + rtol*np.maximum(np.abs(a), np.abs(b))))

def drives(u, kinds=('nd', 'es')):
    out = []
    if 'nd' in kinds: out.append(('ndarray', np.array(u)))
    if 'es' in kinds: out.append(('electrical_signal', electrical_signal(np.array(u))))
    return out

# ---------------------------------------------------------------- MZM
def check_mzm(x, u_arr, scalar, bias, Vpi, loss_dB, ER_dB, pol, tag):
    """u_arr: ndarray drive of length N or None; scalar: scalar drive or None"""
    N = x.len()
    sig0 = x.signal.copy(); noi0 = None if x.noise is None else x.noise.copy()
    cands = []
    if u_arr is not None:
        cands += [('ndarray', u_arr), ('electrical_signal', electrical_signal(u_arr))]
        uu = np.asarray(u_arr, float)
    else:
        cands += [('scalar', scalar), ('ndarray_const', np.ones(N)*scalar), ('es_const', electrical_signal(np.ones(N)*scalar))]
        uu = np.ones(N)*float(scalar)
    h = H(uu, bias, Vpi, loss_dB, ER_dB)
    sel = 0 if pol == 'x' else 1
    outs = []
    for name, d in cands:
        try:
            o = MZM(x, d, bias=bias, Vpi=Vpi, loss_dB=loss_dB, ER_dB=ER_dB, pol=pol)
        except Exception as e:
            bad('MZM.accept', f'{tag} drive={name}: {type(e).__name__}: {e}')
            continue
        outs.append((name, o))
        if o.signal.shape != x.signal.shape:
            bad('MZM.shape', f'{tag} drive={name}: out shape {o.signal.shape} in {x.signal.shape}')
            continue
        if (o.noise is None) != (x.noise is None):
            bad('MZM.noise', f'{tag} drive={name}: noise presence changed')
            continue
        exp_s = x.signal*h
        exp_n = None if x.noise is None else x.noise*h
        if x.n_pol == 2:
            exp_s = exp_s.copy(); exp_s[1-sel] = 0
            if exp_n is not None:
                exp_n = exp_n.copy(); exp_n[1-sel] = 0
            if np.any(o.signal[1-sel] != 0) or (o.noise is not None and np.any(o.noise[1-sel] != 0)):
                bad('MZM.pol', f'{tag} drive={name}: unselected polarisation not extinguished')
        if not close(o.signal, exp_s):
            bad('MZM.transfer', f'{tag} drive={name}: signal max err {np.abs(o.signal-exp_s).max():.3e}')
        if exp_n is not None and not close(o.noise, exp_n):
            bad('MZM.noise', f'{tag} drive={name}: noise max err {np.abs(o.noise-exp_n).max():.3e}')
        # passivity on signal, noise and total
        lim = np.sqrt(10**(-loss_dB/10))
        for nm, a, b in [('signal', o.signal, x.signal)] + ([] if x.noise is None else [('noise', o.noise, x.noise), ('total', o.signal+o.noise, x.signal+x.noise)]):
            if np.any(np.abs(a) > lim*np.abs(b)*(1+1e-12) + 1e-300):
                bad('MZM.passive', f'{tag} drive={name}: |out|>sqrt(loss)|in| on {nm}, excess {np.max(np.abs(a)-lim*np.abs(b)):.3e}')
        if o.n_pol != x.n_pol:
            bad('MZM.npol', f'{tag} drive={name}: n_pol {o.n_pol} != {x.n_pol}')
    for (n1, o1) in outs[1:]:
        if not (np.array_equal(o1.signal, outs[0][1].signal) and (o1.noise is None or np.array_equal(o1.noise, outs[0][1].noise))):
            bad('MZM.containers', f'{tag}: {outs[0][0]} vs {n1} differ by {np.abs(o1.signal-outs[0][1].signal).max():.3e}')
    if not np.array_equal(x.signal, sig0) or (noi0 is not None and not np.array_equal(x.noise, noi0)):
        bad('MZM.inplace', f'{tag}: input modified')

def check_pm(x, u_arr, scalar, Vpi, tag):
    N = x.len()
    sig0 = x.signal.copy(); noi0 = None if x.noise is None else x.noise.copy()
    cands = []
    if u_arr is not None:
        cands += [('ndarray', u_arr), ('electrical_signal', electrical_signal(u_arr))]
        uu = np.asarray(u_arr, float)
    else:
        cands += [('scalar', scalar), ('ndarray_const', np.ones(N)*scalar), ('es_const', electrical_signal(np.ones(N)*scalar))]
        uu = np.ones(N)*float(scalar)
    rot = np.exp(1j*pi*uu/Vpi)
    outs = []
    for name, d in cands:
        try:
            o = PM(x, d, Vpi=Vpi)
        except Exception as e:
            bad('PM.accept', f'{tag} drive={name}: {type(e).__name__}: {e}')
            continue
        outs.append((name, o))
        if o.signal.shape != x.signal.shape or o.n_pol != x.n_pol:
            bad('PM.shape', f'{tag} drive={name}: out shape {o.signal.shape}/{o.n_pol} in {x.signal.shape}/{x.n_pol}')
            continue
        if (o.noise is None) != (x.noise is None):
            bad('PM.noise', f'{tag} drive={name}: noise presence changed')
            continue
        if not close(o.signal, x.signal*rot, rtol=1e-12 + 1e-15*np.max(np.abs(uu))/Vpi):
            bad('PM.phase', f'{tag} drive={name}: signal err {np.abs(o.signal-x.signal*rot).max():.3e}')
        if x.noise is not None and not close(o.noise, x.noise*rot, rtol=1e-12 + 1e-15*np.max(np.abs(uu))/Vpi):
            bad('PM.noise', f'{tag} drive={name}: noise err')
        if not close(np.abs(tot(o))**2, np.abs(tot(x))**2):
            bad('PM.power', f'{tag} drive={name}: power changed by {np.max(np.abs(np.abs(tot(o))**2-np.abs(tot(x))**2)):.3e}')
    for (n1, o1) in outs[1:]:
        if not (np.array_equal(o1.signal, outs[0][1].signal) and (o1.noise is None or np.array_equal(o1.noise, outs[0][1].noise))):
            bad('PM.containers', f'{tag}: {outs[0][0]} vs {n1} differ by {np.abs(o1.signal-outs[0][1].signal).max():.3e}')
    if not np.array_equal(x.signal, sig0) or (noi0 is not None and not np.array_equal(x.noise, noi0)):
        bad('PM.inplace', f'{tag}: input modified')

rng = np.random.default_rng(606)

# --- systematic enumeration: sizes x pols x noise x kinds x corner parameters
sizes = [1, 2, 3, 4, 5, 16, 17, 33]
noises = [None, 'complex', 'real', 'zero', 'zerosum']
kinds = ['complex', 'real', 'int', 'ones', 'zeros']
params = [  # bias, Vpi, loss, ER
    (0.0, 5.0, 0.0, 26.0), (0, 5, 0, 26), (2.5, 5.0, 0.0, 0.0), (-2.5, 5.0, 3.0, 60.0), (5.0, 1.0, 0, 0), (0.3, 0.7, 1e-12, 59.999999),
    (1e3, 3.3, 20.0, 1e-9), (-7, 2, 100, 30), (0.0, 1e-3, 0.5, 13), (0.0, 1e6, 0.0, 60), (np.float64(1.25), np.float64(2.5), np.float64(0), np.float64(0)),
]
for N in sizes:
    for npol in (1, 2):
        for noise in noises:
            for kind in (kinds if N <= 5 else kinds[:2]):
                x = mk_input(rng, N, npol, noise, kind)
                for pi_, (bias, Vpi, loss, ER) in enumerate(params):
                    for pol in ('x', 'y'):
                        tag = f'N={N} npol={npol} noise={noise} kind={kind} bias={bias} Vpi={Vpi} loss={loss} ER={ER} pol={pol}'
                        if N > 1:
                            for ud in ('float', 'int', 'bool', 'const0', 'big'):
                                if ud == 'float': u = rng.uniform(-3*Vpi, 3*Vpi, N)
                                elif ud == 'int': u = rng.integers(-9, 10, N)
                                elif ud == 'bool': u = rng.integers(0, 2, N).astype(bool)
                                elif ud == 'const0': u = np.zeros(N)
                                else: u = rng.uniform(-1e4*Vpi, 1e4*Vpi, N)
                                if ud == 'big':
                                    continue  # handled in periodicity test
                                check_mzm(x, u, None, bias, Vpi, loss, ER, pol, tag + f' u={ud}')
                                if pol == 'x' and pi_ < 6:
                                    check_pm(x, u, None, Vpi, tag + f' u={ud}')
                        for sc in (0, 0.0, 1, -2.5, 2.5, True, np.float64(1.7), np.int64(3), np.int8(-2), Vpi, 2*Vpi):
                            check_mzm(x, None, sc, bias, Vpi, loss, ER, pol, tag + f' scalar={sc!r}')
                            if pol == 'x' and pi_ < 6:
                                check_pm(x, None, sc, Vpi, tag + f' scalar={sc!r}')

# --- dtype sweep of array drives (identical results whatever the element type of the waveform)
x = mk_input(rng, 16, 1, 'complex')
for dt in (np.int8, np.uint8, np.int16, np.uint16, np.int32, np.int64, np.float16, np.float32, np.float64):
    u = (np.arange(16) % 7).astype(dt) / (1 if np.issubdtype(dt, np.integer) else dt(3))
    if np.issubdtype(dt, np.integer): u = u.astype(dt)
    for ER in (0.0, 26.0, 60.0):
        check_mzm(x, u, None, 0.3, 5.0, 0.0, ER, 'x', f'dtype={np.dtype(dt).name} ER={ER}')
    check_pm(x, u, None, 5.0, f'dtype={np.dtype(dt).name}')
    if not np.issubdtype(dt, np.integer):
        for bias, Vpi in ((0.3, 5.0), (5.0, 1.0)):
            check_mzm(x, None, dt(0.5), bias, Vpi, 0.0, 0.0, 'x', f'scalar dtype={np.dtype(dt).name} bias={bias} Vpi={Vpi}')
        check_pm(x, None, dt(0.5), 5.0, f'scalar dtype={np.dtype(dt).name}')

# --- 0-d ndarray drives (an ndarray holding one number = a scalar drive)
for npol in (1, 2):
    x = mk_input(rng, 8, npol, 'complex')
    for d in (np.array(2.5), np.array(3)):
        for f, nm in ((lambda: MZM(x, d), 'MZM'), (lambda: PM(x, d), 'PM')):
            try:
                o = f()
                ref = (MZM if nm == 'MZM' else PM)(x, float(d))
                if not np.array_equal(o.signal, ref.signal):
                    bad(nm + '.containers', f'0-d ndarray drive {d!r} differs from scalar')
            except Exception as e:
                bad(nm + '.accept', f'0-d ndarray drive {d!r} npol={npol}: {type(e).__name__}: {e}')

# --- on/off ratio == ER_dB, both ends and a hair inside
for ER in (0, 0.0, 1e-9, 1, 3.0, 10, 26.0, 40, 59.999999, 60, 60.0):
    for Vpi in (0.5, 5, 5.0, 3.3):
        for loss in (0, 0.0, 3, 2.5):
            for npol in (1, 2):
                for pol in ('x', 'y'):
                    x = optical_signal(np.ones(4)*(0.6+0.8j), n_pol=npol)
                    sel = 0 if pol == 'x' else 1
                    for (b_on, u_on, b_off, u_off) in ((0, 0, 0, Vpi), (Vpi, -Vpi, Vpi/2, Vpi/2), (0.0, np.zeros(4), 0.0, np.ones(4)*Vpi), (2*Vpi, 0, -Vpi, 0)):
                        on = MZM(x, u_on, bias=b_on, Vpi=Vpi, loss_dB=loss, ER_dB=ER, pol=pol)
                        off = MZM(x, u_off, bias=b_off, Vpi=Vpi, loss_dB=loss, ER_dB=ER, pol=pol)
                        pon = np.abs(on.signal if npol == 1 else on.signal[sel])**2
                        poff = np.abs(off.signal if npol == 1 else off.signal[sel])**2
                        r = 10*np.log10(pon/poff)
                        if not np.all(np.abs(r - ER) < 1e-9):
                            bad('MZM.ER', f'ER={ER} Vpi={Vpi} loss={loss} npol={npol} pol={pol}: ratio {r}')
                        if not np.allclose(pon, 10**(-loss/10), rtol=1e-12):
                            bad('MZM.loss', f'on-state power {pon} for loss {loss}')

# --- periodicity 2*Vpi in the drive
for trial in range(200):
    N = int(rng.choice([1, 2, 3, 17]))
    Vpi = float(rng.choice([0.5, 1.0, 5.0, 3.3, 7.77]))
    ER = float(rng.choice([0, 13.0, 26, 60]))
    x = mk_input(rng, N, int(rng.integers(1, 3)), rng.choice([None, 'complex']))
    u = rng.uniform(-2*Vpi, 2*Vpi, N)
    k = int(rng.integers(-1000, 1000))
    for cont in (lambda a: a, electrical_signal):
        if N == 1:
            a = MZM(x, float(u[0]), Vpi=Vpi, ER_dB=ER); b = MZM(x, float(u[0]) + 2*Vpi*k, Vpi=Vpi, ER_dB=ER)
        else:
            a = MZM(x, cont(u), Vpi=Vpi, ER_dB=ER); b = MZM(x, cont(u + 2*Vpi*k), Vpi=Vpi, ER_dB=ER)
        if not close(np.abs(tot(a))**2, np.abs(tot(b))**2, rtol=1e-9, atol=1e-11):
            bad('MZM.period', f'N={N} Vpi={Vpi} ER={ER} k={k}: power differs {np.max(np.abs(np.abs(tot(a))**2-np.abs(tot(b))**2)):.3e}')

# --- PM additivity
for trial in range(300):
    N = int(rng.choice([1, 2, 3, 16, 17]))
    npol = int(rng.integers(1, 3))
    x = mk_input(rng, N, npol, rng.choice([None, 'complex', 'zerosum']))
    Vpi = float(rng.choice([0.5, 5.0, 3.3]))
    mode = trial % 4
    if N == 1 or mode == 0:
        a, b = float(rng.normal()*5), float(rng.normal()*5); s = a+b
    elif mode == 1:
        a, b = rng.normal(size=N)*5, rng.normal(size=N)*5; s = a+b
    elif mode == 2:
        a, b = electrical_signal(rng.normal(size=N)), rng.normal(size=N); s = a.signal+b
    else:
        a, b = float(rng.normal()), electrical_signal(rng.normal(size=N)); s = a+b.signal
    y1 = PM(PM(x, a, Vpi), b, Vpi); y2 = PM(x, s, Vpi)
    if not close(y1.signal, y2.signal, rtol=1e-11) or ((y1.noise is None) != (y2.noise is None)) or (y1.noise is not None and not close(y1.noise, y2.noise, rtol=1e-11)):
        bad('PM.additive', f'N={N} npol={npol} mode={mode}')

# --- mismatched lengths raise ValueError (length-1 arrays are the known scalar exception: not tested)
for N in (2, 3, 16, 17):
    for npol in (1, 2):
        for noise in (None, 'complex'):
            x = mk_input(rng, N, npol, noise)
            for M in (0, 2, 3, N-1, N+1, 2*N, 16, 17):  # N=1 inputs are covered below
                if M == N or M == 1 or M < 0: continue
                for nm, mk in (('ndarray', lambda M: np.zeros(M)), ('electrical_signal', lambda M: electrical_signal(np.zeros(M)) if M > 0 else None)):
                    d = mk(M)
                    if d is None: continue
                    for dev, f in (('MZM', lambda: MZM(x, d)), ('PM', lambda: PM(x, d))):
                        try:
                            f()
                            bad(dev + '.mismatch', f'N={N} npol={npol} drive {nm} len {M}: accepted')
                        except ValueError:
                            pass
                        except Exception as e:
                            bad(dev + '.mismatch', f'N={N} npol={npol} drive {nm} len {M}: {type(e).__name__} instead of ValueError: {e}')

x1 = optical_signal(1+1j); x2 = optical_signal(1+1j, n_pol=2)
for xx in (x1, x2):
    for d in (np.zeros(2), np.zeros(3), electrical_signal(np.zeros(2)), electrical_signal(np.zeros(17))):
        for dev in (MZM, PM):
            try:
                dev(xx, d); bad(dev.__name__ + '.mismatch', f'length-1 input, drive of {len(d)}: accepted')
            except ValueError:
                pass
            except Exception as e:
                bad(dev.__name__ + '.mismatch', f'length-1 input, drive of {len(d)}: {type(e).__name__}')

# --- drives that are views / read from 0-1 text
x = mk_input(rng, 6, 2, 'complex')
u = np.linspace(-3, 3, 12)
for v in (u[::2], u[::-2], u[3:9]):
    if not (np.array_equal(MZM(x, v).signal, MZM(x, v.copy()).signal) and np.array_equal(PM(x, v).signal, PM(x, v.copy()).signal)):
        bad('containers', 'strided view drive differs from its copy')
e = electrical_signal('1.5 2 3,4,5 -1')
if not (np.array_equal(MZM(x, e, bias=.3).signal, MZM(x, np.array([1.5, 2, 3, 4, 5, -1]), bias=.3).signal) and np.array_equal(PM(x, e).signal, PM(x, np.array([1.5, 2, 3, 4, 5, -1])).signal)):
    bad('containers', 'text electrical_signal drive differs from ndarray')

# --- on/off ratio with the drive waveform stored in every floating type (0 and Vpi are exact in all of them)
for dt in (np.float16, np.float32, np.float64):
    for cont in (lambda a: a, electrical_signal):
        o = MZM(optical_signal(np.ones(2)), cont(np.array([0.0, 5.0], dtype=dt)), Vpi=5.0, ER_dB=60.0)
        pw = np.abs(o.signal)**2; r = 10*np.log10(pw[0]/pw[1])
        if abs(r - 60) > 1e-6:
            bad('MZM.ER', f'drive dtype {np.dtype(dt).name} ({"ndarray" if cont is not electrical_signal else "electrical_signal"}): on/off ratio {r:.6f} dB, ER_dB=60')

# --- repeated calls give the same answer, drive containers are not modified
x = mk_input(rng, 17, 2, 'complex')
u = rng.normal(size=17); u0 = u.copy(); eu = electrical_signal(u.copy())
r1 = MZM(x, u, bias=1.0); r2 = MZM(x, u, bias=1.0); r3 = MZM(x, eu, bias=1.0); r4 = MZM(x, eu, bias=1.0)
p1 = PM(x, u); p2 = PM(x, u); p3 = PM(x, eu); p4 = PM(x, eu)
if not (np.array_equal(r1.signal, r2.signal) and np.array_equal(r3.signal, r4.signal) and np.array_equal(r1.signal, r3.signal)): bad('MZM.repeat', 'repeated calls differ')
if not (np.array_equal(p1.signal, p2.signal) and np.array_equal(p3.signal, p4.signal) and np.array_equal(p1.signal, p3.signal)): bad('PM.repeat', 'repeated calls differ')
if not (np.array_equal(u, u0) and np.array_equal(eu.signal, u0)): bad('drive.inplace', 'drive modified')

# --- LASER
def laser_checks():
    for (sps, R) in ((16, 1e9), (8, 10e9), (3, 1e9), (2, 2.5e9), (1, 1e9), (128, 10e9)):
        gv(sps=sps, R=R)
        fs = gv.fs; dt = gv.dt
        for M in (1, 2, 3, 4, 16, 17, 255, 256, 1001):
            t = np.arange(M)*dt
            for p in (-100, -30.0, 0, 0.0, 3, 10.5, 30, 60, np.float64(7.0)):
                P = 1e-3*10**(p/10)
                for lw in (None, 0, 0.0, 1.0, 1e5, 10e6, 1e9, fs):
                    dfs = [None, 0, 0.0, fs/2, -fs/2, fs/2*(1-1e-12), fs/4, -fs/3, 1.0]
                    dfs += [k*fs/M for k in range(-(M//2), (M+1)//2)] if M <= 17 else [k*fs/M for k in (-(M//2), -(M//2)+1, -1, 1, (M-1)//2, (M-1)//2 - 1)]
                    for df in dfs:
                        if p not in (0, 10.5) and (df not in (None, fs/4)): continue
                        np.random.seed(7)
                        tag = f'sps={sps} R={R:g} M={M} p={p} lw={lw} df={df}'
                        try:
                            o = LASER(t, p, lw=lw, df=df)
                        except Exception as e:
                            bad('LASER.accept', f'{tag}: {type(e).__name__}: {e}')
                            continue
                        if o.signal.shape != (M,) or o.n_pol != 1:
                            bad('LASER.shape', f'{tag}: shape {o.signal.shape}')
                            continue
                        if o.noise is not None and np.any(o.noise != 0):
                            bad('LASER.noise', f'{tag}: has noise')
                        pw = np.abs(tot(o))**2
                        if not np.all(np.abs(pw - P) <= 1e-12*P):
                            bad('LASER.power', f'{tag}: |E|^2 deviates from P by {np.max(np.abs(pw-P))/P:.3e} (rel)')
                        # spectral peak at df (deterministic when there is no phase noise)
                        if lw in (None, 0, 0.0) and M >= 2:
                            d = 0.0 if df is None else df
                            S = np.abs(np.fft.fft(o.signal))
                            f = np.fft.fftfreq(M, dt)
                            top = S.max()
                            peaks = f[S >= top*(1-1e-9)]
                            # distance modulo fs (fs/2 and -fs/2 are the same frequency)
                            dist = np.min(np.abs(((peaks - d + fs/2) % fs) - fs/2))
                            if dist > fs/M/2*(1+1e-6):
                                bad('LASER.peak', f'{tag}: peak at {peaks} expected {d}')
                        if lw in (None, 0, 0.0):
                            d = 0.0 if df is None else df
                            ref = np.sqrt(P)*np.exp(2j*pi*d*t)
                            if not close(o.signal, ref, rtol=1e-9, atol=1e-9*np.sqrt(P)):
                                bad('LASER.field', f'{tag}: field differs from sqrt(P)exp(j2pi df t)')
    # statistical: with linewidth the peak stays within a few linewidths of df (long record), several seeds
    gv(sps=16, R=1e9)
    M = 1 << 14
    t = np.arange(M)*gv.dt
    for df in (0.0, 2e9, -3.3e9):
        for lw in (1e5, 1e6):
            miss = 0
            for seed in range(8):
                np.random.seed(seed)
                o = LASER(t, 0, lw=lw, df=df)
                S = np.abs(np.fft.fft(o.signal)); f = np.fft.fftfreq(M, gv.dt)
                if abs(f[np.argmax(S)] - df) > 50*max(lw, gv.fs/M): miss += 1
                if not np.allclose(np.abs(o.signal)**2, 1e-3, rtol=1e-12): bad('LASER.power', f'lw={lw} df={df} seed={seed}')
            if miss >= 3:
                bad('LASER.peak', f'lw={lw} df={df}: peak away from df in {miss}/8 seeds')
    # phase-noise increments: variance 2*pi*lw*dt (sanity of "phase noise is a rotation with the stated statistics")
    for seed in range(3):
        np.random.seed(seed)
        lw = 10e6
        o = LASER(t, 0, lw=lw)
        inc = np.angle(o.signal[1:]*np.conj(o.signal[:-1]))
        v = inc.var(); v0 = 2*pi*lw*gv.dt
        if abs(v - v0) > 6*v0*np.sqrt(2/(M-1)):
            bad('LASER.lw', f'seed={seed}: increment variance {v:.4e} expected {v0:.4e}')
laser_checks()

# --- LASER -> PM -> MZM chain on different gv settings (call order / state)
for (sps, R) in ((16, 1e9), (3, 1e9), (2, 40e9)):
    gv(sps=sps, R=R)
    for M in (1, 2, 3, 17, 64):
        t = np.arange(M)*gv.dt
        np.random.seed(3)
        l = LASER(t, 10, lw=1e6, df=gv.fs/8)
        u = np.linspace(-5, 5, M)
        if M > 1:
            check_pm(l, u, None, 5.0, f'chain sps={sps} M={M}')
            check_mzm(l, u, None, 2.5, 5.0, 2.0, 30.0, 'x', f'chain sps={sps} M={M}')
        check_mzm(l, None, 1.5, 2.5, 5.0, 2.0, 30.0, 'x', f'chain sps={sps} M={M}')
        check_pm(l, None, 1.5, 5.0, f'chain sps={sps} M={M}')

if viol:
    print(f'{len(viol)} violations')
    sys.exit(1)
print('PASS')
sys.exit(0)
