# MZM evaluates its transfer function in the floating type of the drive waveform (float16 / float32)
import sys; del sys.path[0]
import numpy as np
from opticomlib import optical_signal
from opticomlib.devices import MZM
x = optical_signal(np.ones(2))
fail = 0
for dt in (np.float64, np.float32, np.float16):
    u = np.array([0.0, 5.0], dtype=dt)                     # 0 V and Vpi: exact in every floating type
    p = np.abs(MZM(x, u, Vpi=5.0, ER_dB=60.0).signal)**2
    ratio = 10*np.log10(p[0]/p[1])
    q = np.abs(MZM(x, np.array([2.0, 3.0], dtype=dt), bias=5.0, Vpi=1.0, ER_dB=0.0).signal)   # ER 0 dB: |h| = 1
    print(f'{np.dtype(dt).name}: on/off ratio expected 60 dB, got {ratio:.6f} dB; max |out|/|in| expected <= 1, got {q.max():.9f}')
    fail |= abs(ratio - 60) > 1e-6 or q.max() > 1 + 1e-12
sys.exit(1 if fail else 0)
