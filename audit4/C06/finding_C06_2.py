# PM refuses a 0-d ndarray drive (an ndarray holding one number) with an accidental TypeError; MZM accepts it
import sys; del sys.path[0]
import numpy as np
from opticomlib import optical_signal
from opticomlib.devices import MZM, PM
x = optical_signal(np.exp(1j*np.arange(4)))
u = np.asarray(2.5)                                        # e.g. np.squeeze(v), np.asarray(volts), a[0, ...]
print('MZM accepts it:', np.array_equal(MZM(x, u).signal, MZM(x, 2.5).signal))
try:
    y = PM(x, u, Vpi=5.0)
except Exception as e:
    print('expected PM(x, array(2.5)) == PM(x, 2.5) (a constant rotation by pi/2); got', type(e).__name__, ':', e)
    sys.exit(1)
sys.exit(0 if np.array_equal(y.signal, PM(x, 2.5, Vpi=5.0).signal) else 1)
