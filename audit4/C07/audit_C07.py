import sys, os
if sys.path and os.path.abspath(sys.path[0] or '.') == os.path.dirname(os.path.abspath(__file__)):
    del sys.path[0]
import warnings, itertools, signal as _sig
warnings.filterwarnings('ignore')
import numpy as np
import opticomlib
from opticomlib import gv, optical_signal
from opticomlib.devices import DM, FIBER

EPS = np.finfo(float).eps
viol = []
seen = set()
count = 0


def report(clause, desc, msg):
    key = (clause, desc)
    if key in seen:
        return
    seen.add(key)
    viol.append(key)
    if len(viol) <= 400:
        print(f"VIOLATION [{clause}] {desc}: {msg}", flush=True)


class TO(Exception):
    pass


def _alarm(*a):
    raise TO()


_sig.signal(_sig.SIGALRM, _alarm)


def guarded(clause, desc, fn, *a, **k):
    """call fn with 20 s limit; exceptions are reported"""
    global count
    count += 1
    _sig.alarm(20)
    try:
        return fn(*a, **k)
    except TO:
        report(clause, desc, 'call did not return in 20 s')
    except Exception as e:
        report(clause, desc, f'raised {type(e).__name__}: {e}')
    finally:
        _sig.alarm(0)
    return None


def ref_w(N, fs):
    return 2 * np.pi * np.fft.fftfreq(N, d=1.0) * fs


def ref_filter(x, fs, L=1.0, alpha_db=0.0, b2=0.0, b3=0.0):
    """x (N,) or (2,N); b2 in ps^2/km, b3 ps^3/km -> exp(-a L/2 - j b2 L w^2/2 - j b3 L w^3/6)"""
    x = np.asarray(x, dtype=complex)
    N = x.shape[-1]
    w = ref_w(N, fs) * 1e-12  # rad/ps
    a = alpha_db * np.log(10) / 10
    ph = b2 * L * w**2 / 2 + b3 * L * w**3 / 6
    H = np.exp(-a * L / 2) * np.exp(-1j * ph)
    return np.fft.ifft(H * np.fft.fft(x, axis=-1), axis=-1), H, np.abs(ph).max() if N else 0.0


def tol_for(x, maxphase, N):
    nrm = np.sqrt(np.sum(np.abs(np.asarray(x, dtype=complex))**2, axis=-1)).max()
    return (1e-11 * (1 + np.log2(max(N, 2))) + 32 * EPS * maxphase) * nrm + 1e-300


def layout(o):
    return (type(o).__name__, o.signal.shape, o.n_pol)


# ---------------------------------------------------------------- inputs
def make_data(kind, N, rng):
    if kind == 'rand':
        return rng.normal(size=N) + 1j * rng.normal(size=N)
    if kind == 'imp0':
        x = np.zeros(N, complex); x[0] = 1 + 2j; return x
    if kind == 'implast':
        x = np.zeros(N, complex); x[-1] = 3 - 1j; return x
    if kind == 'const':
        return np.full(N, 0.7 - 0.2j)
    if kind == 'zeros':
        return np.zeros(N, complex)
    if kind == 'onezero':
        x = np.ones(N, complex); x[N // 2] = 0; return x
    if kind == 'nyq':
        return ((-1.0) ** np.arange(N)).astype(complex) * (1 + 1j)
    if kind == 'realvalued':
        return rng.normal(size=N).astype(complex)
    if kind == 'imag':
        return 1j * rng.normal(size=N)
    if kind == 'tiny':
        return (rng.normal(size=N) + 1j * rng.normal(size=N)) * 1e-9
    if kind == 'big':
        return (rng.normal(size=N) + 1j * rng.normal(size=N)) * 1e6
    raise ValueError(kind)


KINDS = ['rand', 'imp0', 'implast', 'const', 'zeros', 'onezero', 'nyq', 'realvalued', 'imag', 'tiny', 'big']


def make_inputs(N, kind, rng):
    """returns list of (desc, optical_signal, expected_shape, expected_npol, raw)"""
    x = make_data(kind, N, rng)
    y = make_data(kind if kind != 'rand' else 'rand', N, rng) * (0.5 + 0.5j) if kind not in ('zeros',) else np.zeros(N, complex)
    if kind == 'imp0':
        y = np.zeros(N, complex); y[-1] = -2j  # different content in y
    out = []
    out.append((f'1pol-1d N={N} {kind}', optical_signal(x), (N,), 1, x))
    out.append((f'2pol-2d N={N} {kind}', optical_signal(np.array([x, y])), (2, N), 2, np.array([x, y])))
    out.append((f'2pol-npol2 N={N} {kind}', optical_signal(x, n_pol=2), (2, N), 2, np.array([x, x])))
    out.append((f'1pol-(1,N)npol1 N={N} {kind}', optical_signal(x[None, :], n_pol=1), (N,), 1, x))
    out.append((f'2pol-(1,N) N={N} {kind}', optical_signal(x[None, :]), (2, N), 2, np.array([x, x])))
    out.append((f'1pol-(2,N)npol1 N={N} {kind}', optical_signal(np.array([x, y]), n_pol=1), (N,), 1, x))
    out.append((f'1pol-list N={N} {kind}', optical_signal(list(x)), (N,), 1, x))
    out.append((f'2pol-tuple N={N} {kind}', optical_signal((tuple(x), tuple(y))), (2, N), 2, np.array([x, y])))
    if N == 1:
        out.append((f'1pol-scalar {kind}', optical_signal(complex(x[0])), (1,), 1, x))
        out.append((f'2pol-scalar {kind}', optical_signal(complex(x[0]), n_pol=2), (2, 1), 2, np.array([x, x])))
        out.append((f'1pol-npscalar {kind}', optical_signal(np.complex128(x[0])), (1,), 1, x))
    if N <= 6 and kind == 'rand':
        s = ', '.join(f'{v.real:.6f}{v.imag:+.6f}j' for v in x)
        xs = np.array([complex(t) for t in s.split(', ')])
        out.append((f'1pol-text N={N}', optical_signal(s), (N,), 1, xs))
    return out


# ---------------------------------------------------------------- checks
def check_layout(clause, desc, o, shape, npol, inp):
    if o is None:
        return False
    if not isinstance(o, optical_signal):
        report(clause, desc, f'output type {type(o).__name__}'); return False
    if o.signal.shape != shape or o.n_pol != npol:
        report(clause, desc, f'layout {o.signal.shape}, n_pol={o.n_pol}; expected {shape}, n_pol={npol}'); return False
    if o.len() != inp.len():
        report(clause, desc, f'len {o.len()} != {inp.len()}'); return False
    if not np.iscomplexobj(o.signal):
        report(clause, desc, f'output dtype {o.signal.dtype}'); return False
    return True


def close(clause, desc, a, b, tol, what):
    a = np.asarray(a); b = np.asarray(b)
    if a.shape != b.shape:
        report(clause, desc, f'{what}: shapes {a.shape} vs {b.shape}'); return False
    if a.size == 0:
        return True
    with np.errstate(all='ignore'):
        d = np.abs(a - b)
    if not np.all(np.isfinite(a)) or d.max() > tol:
        report(clause, desc, f'{what}: max err {np.nanmax(d) if np.isfinite(d).any() else float("nan"):.3e} > tol {tol:.3e}')
        return False
    return True


def energy(a):
    return np.sum(np.abs(a)**2, axis=-1)


def dm_suite(desc, inp, shape, npol, raw, fs, Ds):
    N = shape[-1]
    before = inp.signal.copy()
    for D in Ds:
        d = f'{desc} fs={fs:g} D={D!r}'
        Dv = float(np.asarray(D))
        ref, H, mp = ref_filter(raw, fs, L=1.0, b2=Dv)
        tol = tol_for(raw, mp, N)
        o = guarded('DM-filter', d, DM, inp, D)
        if not check_layout('layout-DM', d, o, shape, npol, inp):
            continue
        close('DM-filter', d, o.signal, ref, tol, 'DM(D) vs exp(-j D w^2/2)')
        # energy, per polarisation
        e0, e1 = energy(raw), energy(o.signal)
        if np.any(np.abs(e1 - e0) > 1e-11 * np.max(e0) + 1e-300):
            report('DM-energy', d, f'energy in {e0} out {e1}')
        # inverse
        b = guarded('DM-inverse', d, DM, o, -D if not isinstance(D, np.ndarray) else -D)
        if check_layout('layout-DM', d + ' (inverse)', b, shape, npol, inp):
            close('DM-inverse', d, b.signal, raw, tol, 'DM(-D)(DM(D)(x)) vs x')
        # retH
        r = guarded('DM-retH', d, DM, inp, D, True)
        if r is not None:
            if not (isinstance(r, tuple) and len(r) == 2):
                report('DM-retH', d, f'retH returned {type(r)}')
            else:
                o2, Hs = r
                Hs = np.asarray(Hs)
                if Hs.shape != (N,):
                    report('DM-retH', d, f'H shape {Hs.shape}')
                else:
                    if check_layout('layout-DM', d + ' (retH)', o2, shape, npol, inp):
                        close('DM-retH', d, o2.signal, o.signal, 0.0, 'output with retH=True vs retH=False')
                        app = np.fft.ifft(np.fft.ifftshift(Hs) * np.fft.fft(np.asarray(raw, complex), axis=-1), axis=-1)
                        close('DM-retH', d, app, o2.signal, tol, 'applying returned H vs output')
                    close('DM-retH', d, Hs, np.fft.fftshift(H), 32 * EPS * (1 + mp), 'H vs exp(-j D w^2/2) on shifted grid')
        # repeat call: same answer, args untouched
        o3 = guarded('DM-repeat', d, DM, inp, D)
        if o3 is not None and isinstance(o3, optical_signal):
            close('DM-repeat', d, o3.signal, o.signal, 0.0, 'second identical call')
        if isinstance(D, np.ndarray) and float(D) != Dv:
            report('DM-repeat', d, f'D changed to {D}')
    if not np.array_equal(before, inp.signal):
        report('DM-repeat', desc, 'input signal was modified')


def dm_add_suite(desc, inp, shape, npol, raw, fs, pairs):
    N = shape[-1]
    for D1, D2 in pairs:
        d = f'{desc} fs={fs:g} D1={D1!r} D2={D2!r}'
        _, _, mp = ref_filter(raw, fs, L=1.0, b2=abs(D1) + abs(D2))
        tol = tol_for(raw, mp, N)
        a = guarded('DM-additive', d, lambda: DM(DM(inp, D2), D1))
        b = guarded('DM-additive', d, DM, inp, D1 + D2)
        if check_layout('layout-DM', d, a, shape, npol, inp) and check_layout('layout-DM', d, b, shape, npol, inp):
            close('DM-additive', d, a.signal, b.signal, tol, 'DM(D1)(DM(D2)) vs DM(D1+D2)')


def fiber_suite(desc, inp, shape, npol, raw, fs, params):
    N = shape[-1]
    before = inp.signal.copy()
    for (L, al, b2, b3, extra) in params:
        d = f'{desc} fs={fs:g} L={L!r} alpha={al!r} b2={b2!r} b3={b3!r} {extra}'
        kw = dict(extra)
        Lf, af, b2f, b3f = float(L), float(al), float(b2), float(b3)
        ref, H, mp = ref_filter(raw, fs, L=Lf, alpha_db=af, b2=b2f, b3=b3f)
        tol = tol_for(raw, mp, N)
        o = guarded('FIBER-filter', d, FIBER, inp, L, al, b2, b3, **kw)
        if not check_layout('layout-FIBER', d, o, shape, npol, inp):
            continue
        close('FIBER-filter', d, o.signal, ref, tol, 'FIBER vs exp(-aL/2 - j b2 L w^2/2 - j b3 L w^3/6)')
        # power per polarisation
        p0 = np.mean(np.abs(raw)**2, axis=-1)
        p1 = np.asarray(o.power('signal'))
        exp = p0 * 10 ** (-af * Lf / 10)
        if np.shape(p1) != np.shape(exp):
            report('FIBER-power', d, f'power shape {np.shape(p1)} vs {np.shape(exp)}')
        elif np.any(np.abs(p1 - exp) > 1e-10 * np.abs(exp) + 1e-300):
            report('FIBER-power', d, f'P_out {p1} expected {exp}')
        # FIBER(L, beta2) == DM(beta2*L)
        if af == 0 and b3f == 0:
            m = guarded('FIBER=DM', d, DM, inp, b2 * L)
            if m is not None and isinstance(m, optical_signal):
                close('FIBER=DM', d, o.signal, m.signal, tol, 'FIBER(L,b2) vs DM(b2*L)')
        # two spans
        for frac in (0.5, 0.25, 1 / 3, 1e-3):
            L1 = Lf * frac; L2 = Lf - L1
            if L1 <= 0 or L2 <= 0:
                continue
            s = guarded('FIBER-spans', d, lambda: FIBER(FIBER(inp, L1, al, b2, b3, **kw), L2, al, b2, b3, **kw))
            if check_layout('layout-FIBER', d + f' two spans {frac:g}', s, shape, npol, inp):
                close('FIBER-spans', d + f' frac={frac:g}', s.signal, o.signal, 2 * tol, 'two spans vs one')
        o3 = guarded('FIBER-repeat', d, FIBER, inp, L, al, b2, b3, **kw)
        if o3 is not None and isinstance(o3, optical_signal):
            close('FIBER-repeat', d, o3.signal, o.signal, 0.0, 'second identical call')
    if not np.array_equal(before, inp.signal):
        report('FIBER-repeat', desc, 'input signal was modified')


def set_fs(fs, how):
    if how == 'attr':
        gv.fs = fs; gv.dt = 1 / fs
    elif how == 'fs':
        gv.N = None; gv.R = fs / 16
        gv(fs=fs)
    elif how == 'sps-fs':
        gv(sps=8, fs=fs)
    elif how == 'sps-R':
        gv(sps=4, R=fs / 4)
    elif how == 'N':
        gv(sps=2, R=fs / 2, N=5)
    return float(gv.fs)


# ---------------------------------------------------------------- run
rng = np.random.default_rng(20250707)

D_ALL = [0, 0.0, 1, -1, 1e-3, -1e-3, 137.5, -137.5, 4000, -4000, 1e6, -1e6, np.float64(250.0), np.array(-33.0), np.int64(17), 7]
D_FEW = [0, 250.0, -4000, 3]
PAIRS_ALL = [(100.0, 50.0), (100.0, -100.0), (-30.0, 70.5), (0, 5), (5, 0), (0, 0), (1e4, -1e4 + 1), (1e-3, 2e-3), (3, 4), (-2500.0, -1500.0)]
PAIRS_FEW = [(100.0, -100.0), (-30.0, 70.5), (3, 4)]
F_ALL = []
for L in (1e-9, 0.5, 1, 50, 80.3, 1000.0):
    for al in (0, 0.0, 1e-12, 0.2, 3.0):
        for b2 in (0, -21.7, 20, 0.5):
            for b3 in (0, 0.1, -5.0):
                F_ALL.append((L, al, b2, b3, ()))
F_EDGE = [(1, 0, 0, 0, ()), (1, 0.2, 0, 0, ()), (50, 0, -20, 0, ()), (50, 0, 0, 0.1, ()), (50, 0, 0, -0.1, ()),
          (50, 0.2, -20, 0.1, ()), (80.3, 0.25, 21.7, -0.13, ()), (2, 100.0, 1, 1, ()), (1e-9, 0.2, -20, 0.1, ()),
          (5e-324, 0.2, -20, 0.1, ()), (1e4, 0.2, -20, 0.1, ()), (1e4, 0.5, -20, 0.1, ()),
          (50, 0.2, -20, 0.1, (('gamma', 0),)), (50, 0.2, -20, 0.1, (('gamma', 0.0),)), (50, 0.2, -20, 0.1, (('gamma', -0.0),)),
          (50, 0.2, -20, 0.1, (('gamma', 0), ('phi_max', 1e-9))), (50, 0.2, -20, 0.1, (('gamma', 0), ('phi_max', 0))),
          (np.float64(50), np.float64(0.2), np.float64(-20), np.float64(0.1), (('gamma', np.float64(0)),)),
          (np.array(50.0), np.array(0.2), np.array(-20.0), np.array(0.1), ()),
          (50, 1, -20, 0, ()), (7, 2, 3, 1, ()), (np.int64(7), np.int64(2), np.int64(3), np.int64(1), (('gamma', np.int64(0)),)),
          (50, 0, 20, 0, ()), (50, 0.0, 0.0, 0.0, ()), (0.1, 0, 1e4, 0, ()), (0.1, 0, 0, 1e5, ())]
F_FEW = [(50, 0.2, -20, 0.1, ()), (1, 0, 20, 0, ()), (33.3, 0, 0, -2.0, ()), (12, 1.5, 0, 0, ())]

FS_ALL = [(16e9, 'attr'), (1.0, 'attr'), (1e3, 'fs'), (40e9, 'sps-fs'), (7.3e10, 'sps-R'), (1e12, 'N'), (1e15, 'attr'),
          (int(10e9), 'attr'), (2.5e9, 'fs'), (1e-3, 'attr')]

# 1. exhaustive small sizes, every layout, every data kind, default-like fs
for N in list(range(1, 20)) + [31, 32, 33]:
    for kind in KINDS:
        fs = set_fs(16e9 if N % 2 else 40e9, 'attr')
        for (desc, inp, shape, npol, raw) in make_inputs(N, kind, rng):
            full = kind in ('rand', 'imp0')
            dm_suite(desc, inp, shape, npol, raw, fs, D_ALL if full else D_FEW)
            dm_add_suite(desc, inp, shape, npol, raw, fs, PAIRS_ALL if full else PAIRS_FEW)
            fiber_suite(desc, inp, shape, npol, raw, fs, F_EDGE if full else F_FEW)
print(f'# stage 1 done, {count} calls, {len(viol)} violations', flush=True)

# 2. every sampling rate / way of setting it, sizes 1,2,3,16,17
for (fs_, how) in FS_ALL:
    fs = set_fs(fs_, how)
    for N in (1, 2, 3, 16, 17, 64, 65):
        for kind in ('rand', 'implast', 'nyq'):
            for (desc, inp, shape, npol, raw) in make_inputs(N, kind, rng)[:3]:
                desc = desc + f' [{how}]'
                dm_suite(desc, inp, shape, npol, raw, fs, D_ALL)
                dm_add_suite(desc, inp, shape, npol, raw, fs, PAIRS_ALL)
                fiber_suite(desc, inp, shape, npol, raw, fs, F_EDGE)
gv.N = None
print(f'# stage 2 done, {count} calls, {len(viol)} violations', flush=True)

# 3. full FIBER parameter grid on a few sizes
for N in (1, 2, 5, 16, 17):
    fs = set_fs(20e9, 'attr')
    for (desc, inp, shape, npol, raw) in make_inputs(N, 'rand', rng)[:2]:
        fiber_suite(desc, inp, shape, npol, raw, fs, F_ALL)
print(f'# stage 3 done, {count} calls, {len(viol)} violations', flush=True)

# 4. larger / awkward sizes (primes, powers of two +-1)
for N in (63, 64, 65, 127, 128, 129, 255, 256, 257, 1000, 1001, 1023, 1024, 1025, 4099, 8192, 10007):
    fs = set_fs(32e9, 'attr')
    for kind in ('rand', 'implast'):
        for (desc, inp, shape, npol, raw) in make_inputs(N, kind, rng)[:2]:
            dm_suite(desc, inp, shape, npol, raw, fs, D_FEW + [-1e5])
            dm_add_suite(desc, inp, shape, npol, raw, fs, PAIRS_FEW)
            fiber_suite(desc, inp, shape, npol, raw, fs, F_FEW + [(80.3, 0.25, 21.7, -0.13, ())])
print(f'# stage 4 done, {count} calls, {len(viol)} violations', flush=True)

# 5. random sampling over the whole domain
for it in range(600):
    N = int(rng.choice([1, 2, 3, 4, 5, 7, 8, 9, 15, 16, 17, 30, 31, 50, 99, 100, 101, 200]))
    fs = set_fs(float(10 ** rng.uniform(0, 13)), 'attr')
    kind = KINDS[it % len(KINDS)]
    ins = make_inputs(N, kind, rng)
    (desc, inp, shape, npol, raw) = ins[it % len(ins)]
    # choose D etc. so that the phase stays representable: scale with (pi fs)^2
    wmax = np.pi * fs * 1e-12
    ph = 10 ** rng.uniform(-3, 3)
    D1 = float(rng.choice([-1, 1]) * ph / max(wmax**2, 1e-300))
    D2 = float(rng.choice([-1, 1]) * 10 ** rng.uniform(-3, 3) / max(wmax**2, 1e-300))
    if not np.isfinite(D1) or not np.isfinite(D2) or abs(D1) > 1e200 or abs(D2) > 1e200:
        continue
    dm_suite(desc, inp, shape, npol, raw, fs, [D1, D2])
    dm_add_suite(desc, inp, shape, npol, raw, fs, [(D1, D2), (D1, -D1)])
    L = float(10 ** rng.uniform(-3, 3))
    al = float(rng.choice([0, 10 ** rng.uniform(-3, 1) * min(1, 100 / L)]))
    b2 = float(rng.choice([0, D1 / L]))
    b3 = float(rng.choice([0, rng.choice([-1, 1]) * 10 ** rng.uniform(-3, 2) / max(wmax**3, 1e-300) / L]))
    if abs(b3) > 1e200:
        b3 = 0.0
    fiber_suite(desc, inp, shape, npol, raw, fs, [(L, al, b2, b3, ())])
print(f'# stage 5 done, {count} calls, {len(viol)} violations', flush=True)

# 6. signal part with a noise component present (noise itself is known to be left as is: only the field is checked)
for N in (1, 2, 3, 16, 17):
    fs = set_fs(16e9, 'attr')
    x = make_data('rand', N, rng); n = make_data('rand', N, rng) * 0.1
    for (desc, inp, shape, npol, raw) in [
        (f'1pol+noise N={N}', optical_signal(x, n), (N,), 1, x),
        (f'2pol+noise N={N}', optical_signal(np.array([x, 2 * x]), np.array([n, n])), (2, N), 2, np.array([x, 2 * x])),
        (f'2pol+noise npol2 N={N}', optical_signal(x, n, n_pol=2), (2, N), 2, np.array([x, x])),
        (f'1pol+realnoise N={N}', optical_signal(x, n.real), (N,), 1, x),
        (f'1pol+zeronoise N={N}', optical_signal(x, np.zeros(N)), (N,), 1, x),
    ]:
        dm_suite(desc, inp, shape, npol, raw, fs, D_FEW)
        dm_add_suite(desc, inp, shape, npol, raw, fs, PAIRS_FEW)
        fiber_suite(desc, inp, shape, npol, raw, fs, F_FEW)
        for f, nm in ((lambda: DM(inp, 250.0), 'DM'), (lambda: FIBER(inp, 5, 0.2, -20, 0.1), 'FIBER')):
            o = guarded('layout-' + nm, desc, f)
            if o is not None and (o.noise is None or o.noise.shape != shape):
                report('layout-' + nm, desc, f'noise layout {None if o.noise is None else o.noise.shape}, expected {shape}')

# 7. show_progress must not change the result (gamma = 0)
fs = set_fs(16e9, 'attr')
for N in (1, 2, 17):
    x = make_data('rand', N, rng)
    inp = optical_signal(x)
    devnull = open(os.devnull, 'w'); old = sys.stderr; sys.stderr = devnull
    try:
        a = guarded('FIBER-filter', f'show_progress N={N}', FIBER, inp, 50, 0.2, -20, 0.1, 0.0, 0.05, True)
    finally:
        sys.stderr = old
    b = FIBER(inp, 50, 0.2, -20, 0.1)
    if a is not None:
        close('FIBER-filter', f'show_progress N={N}', a.signal, b.signal, 0.0, 'show_progress=True vs False')

# 8. call-order: changing gv.fs between calls is honoured
x = make_data('rand', 17, rng); inp = optical_signal(x)
for fs_ in (10e9, 80e9, 10e9):
    fs = set_fs(fs_, 'attr')
    o = DM(inp, 1000.0)
    ref, _, mp = ref_filter(x, fs, b2=1000.0)
    close('DM-filter', f'fs switched to {fs_:g}', o.signal, ref, tol_for(x, mp, 17), 'DM after fs change')
    o = FIBER(inp, 10, 0.1, 100.0, 3.0)
    ref, _, mp = ref_filter(x, fs, L=10, alpha_db=0.1, b2=100.0, b3=3.0)
    close('FIBER-filter', f'fs switched to {fs_:g}', o.signal, ref, tol_for(x, mp, 17), 'FIBER after fs change')

print(f'# {count} guarded calls')
if viol:
    from collections import Counter
    print('violations per clause:', dict(Counter(c for c, _ in viol)))
    sys.exit(1)
print('PASS')
sys.exit(0)
