import sys, os
if sys.path and os.path.abspath(sys.path[0] or '.') == os.path.dirname(os.path.abspath(__file__)):
    del sys.path[0]
import signal as _sig
import itertools, warnings
import numpy as np

warnings.simplefilter('ignore')
from opticomlib import gv, optical_signal
from opticomlib.devices import FIBER

VIOL = []
CONV_C = 20.0  # the statement names no constant; 20 is generous for a method whose per-step tolerance is phi_max (judgement call, see finding_C08_1)
CMAX = 6.0   # 'a constant times phi_max': the scheme is first order; loss alone contributes up to (alpha' L/2) = 5.76
STATS = {}


def viol(clause, desc, msg):
    line = f"VIOLATION [{clause}] {desc}: {msg}"
    VIOL.append(line)
    if len(VIOL) <= 200:
        print(line, flush=True)


class TO(Exception):
    pass


def _alarm(*a):
    raise TO()


_sig.signal(_sig.SIGALRM, _alarm)


def run(x, tmo=20, **kw):
    _sig.alarm(tmo)
    try:
        return FIBER(x, **kw)
    finally:
        _sig.alarm(0)


def stat(name, v):
    STATS[name] = max(STATS.get(name, 0.0), float(v))


# ---------------------------------------------------------------- inputs
def make_field(kind, N, P, rng):
    """complex field of N samples with peak power exactly P (or all-zero)."""
    n = np.arange(N)
    if kind == 'gauss':
        a = np.exp(-0.5 * ((n - N / 2) / max(N / 10, 0.7)) ** 2).astype(complex)
    elif kind == 'train':
        sps = max(N // 4, 1)
        bits = np.array([0, 1, 1, 0, 1, 0, 0, 1])[: max(N // sps, 1) + 1]
        a = np.repeat(bits, sps)[:N].astype(float)
        if a.size < N:
            a = np.concatenate([a, np.zeros(N - a.size)])
        if N > 8:
            k = np.exp(-0.5 * (np.arange(-3, 4) / 1.2) ** 2)
            a = np.convolve(a, k / k.sum(), 'same')
        a = a.astype(complex)
        if not a.any():
            a[-1] = 1
    elif kind == 'random':
        a = rng.standard_normal(N) + 1j * rng.standard_normal(N)
    elif kind == 'lead0':  # first samples are zero
        a = rng.standard_normal(N) + 1j * rng.standard_normal(N)
        a[: max(N // 2, 1)] = 0
        if not a.any():
            a[-1] = 1
    elif kind == 'single_last':
        a = np.zeros(N, complex); a[-1] = 1
    elif kind == 'single_first':
        a = np.zeros(N, complex); a[0] = 1j
    elif kind == 'cw':
        a = np.ones(N, complex)
    elif kind == 'one_dip':  # a single 0 in ones
        a = np.ones(N, complex); a[N // 2] = 0
        if not a.any():
            a[:] = 1
    elif kind == 'zero':
        return np.zeros(N, complex)
    else:
        raise ValueError(kind)
    m = np.abs(a).max()
    return a / m * np.sqrt(P)


def ref_nlse(A0, w_ps, L, a_lin, b2, b3, g, nsteps):
    """independent reference: RK4 in the interaction picture, library sign convention."""
    D = -a_lin / 2 - 0.5j * b2 * w_ps ** 2 - 1j / 6 * b3 * w_ps ** 3
    h = L / nsteps
    e2 = np.exp(D * h / 2)
    A = A0.astype(complex)
    NL = lambda u: 1j * g * np.abs(u) ** 2 * u
    lin = lambda u: np.fft.ifft(e2 * np.fft.fft(u))
    for _ in range(nsteps):
        AI = lin(A)
        k1 = lin(h * NL(A))
        k2 = h * NL(AI + k1 / 2)
        k3 = h * NL(AI + k2 / 2)
        k4 = h * NL(lin(AI + k3))
        A = lin(AI + k1 / 6 + k2 / 3 + k3 / 3) + k4 / 6
    return A


def energy(a):
    return np.sum(np.abs(a) ** 2, axis=-1)


def check_basic(desc, x, out, alpha, L, tolE=1e-9):
    """shape, finiteness, per-polarisation energy, input untouched"""
    s_in = np.asarray(x.signal)
    s = out.signal
    if not isinstance(out, optical_signal):
        viol('type', desc, f'returned {type(out)}'); return False
    if s.shape != s_in.shape:
        viol('shape', desc, f'in {s_in.shape} out {s.shape}'); return False
    if out.n_pol != x.n_pol:
        viol('shape', desc, f'n_pol in {x.n_pol} out {out.n_pol}')
    if not np.all(np.isfinite(s)):
        viol('finite', desc, 'non-finite output'); return False
    Ein = np.atleast_1d(energy(s_in.astype(complex)))
    Eout = np.atleast_1d(energy(s))
    exp = Ein * 10 ** (-alpha * L / 10)
    for p in range(Ein.size):
        if Ein[p] == 0:
            if Eout[p] != 0:
                viol('energy', desc, f'pol {p}: empty in, out energy {Eout[p]}')
        else:
            r = abs(Eout[p] / exp[p] - 1)
            stat('energy_rel', r)
            if r > tolE:
                viol('energy', desc, f'pol {p}: expected {exp[p]:.12e} got {Eout[p]:.12e} (rel {r:.2e})')
    return True


def spm_closed(a, alpha, g, L):
    al = alpha * np.log(10) / 10
    Leff = L if al == 0 else -np.expm1(-al * L) / al
    return a * np.exp(-al * L / 2) * np.exp(1j * g * np.abs(a) ** 2 * Leff)


def relerr(a, b):
    nb = np.linalg.norm(b)
    return np.linalg.norm(a - b) / nb if nb else np.linalg.norm(a - b)


# ---------------------------------------------------------------- 1. enumerated corners
def part_corners():
    rng = np.random.default_rng(801)
    gv(sps=16, R=10e9)
    kinds = ['gauss', 'train', 'random', 'lead0', 'single_last', 'single_first', 'cw', 'one_dip', 'zero']
    Ns = [1, 2, 3, 4, 5, 7, 8, 15, 16, 17, 31, 32, 33, 64]
    # (alpha, b2, b3, gamma, L, phi_max, P)   gamma*P*L <= 10, P <= 0.5
    par = [
        (0, 0, 0, 0, 100, 0.05, 0.5),
        (0, 0, 0, 5, 4, 0.1, 0.5),            # 10 rad exactly, pure SPM
        (0, 0, 0, 5, 100, 5e-4, 0.02),        # 10 rad
        (0.5, 0, 0, 5, 100, 0.1, 0.02),       # loss+SPM 10 rad, 50 dB
        (0.5, 0, 0, 5, 100, 5e-4, 0.002),
        (0.5, 25, 0.2, 0, 100, 0.1, 0.5),     # linear
        (0, -25, -0.2, 0, 100, 5e-4, 0.5),
        (0.5, -25, 0.2, 5, 100, 0.1, 0.02),   # everything at its end, 10 rad
        (0.5, 25, -0.2, 5, 100, 0.01, 0.002),
        (0, 25, 0, 5, 4, 0.1, 0.5),
        (0, 0, 0.2, 5, 4, 0.1, 0.5),
        (0, 0, -0.2, 1e-9, 100, 5e-4, 0.5),   # gamma a hair above 0
        (1e-12, 0, 0, 5, 4, 0.1, 0.5),        # alpha a hair above 0
        (0, 1e-12, 0, 5, 4, 0.1, 0.5),
        (0.2, -21.7, 0.1, 1.3, 50, 0.05, 0.1),
        (0.2, -21.7, 0.1, 1.3, 50, 0.05, 1e-9),  # very weak signal: step beyond the fibre
        (0.5, -25, 0.2, 5, 1e-6, 0.1, 0.5),   # very short fibre
        (0.5, -25, 0.2, 5, 0.0402, 0.1, 0.5), # first step a hair short of / beyond L  (phi/(g P)=0.04)
        (0.5, -25, 0.2, 5, 0.04, 0.1, 0.5),   # first step == L exactly
        (0.5, -25, 0.2, 5, 0.08, 0.1, 0.5),
    ]
    for (alpha, b2, b3, g, L, phi, P), N, kind, npol in itertools.product(par, Ns, kinds, (1, 2, '2y0', '2x0')):
        if phi == 5e-4 and g * P * L > 1 and (N not in (1, 2, 17, 32) or kind not in ('gauss', 'lead0', 'random')):
            continue  # keep the 20000-step cases few
        a = make_field(kind, N, P, rng)
        if npol == 1:
            x = optical_signal(a)
        elif npol == 2:
            b = make_field('random' if kind != 'zero' else 'zero', N, P / 2, rng)
            # total peak power over both polarisations stays <= P
            a2 = a / np.sqrt(2)
            x = optical_signal(np.array([a2, b * np.sqrt(0.999)]))
        elif npol == '2y0':
            x = optical_signal(np.array([a, np.zeros(N, complex)]))
        else:
            x = optical_signal(np.array([np.zeros(N, complex), a]))
        desc = f'N={N} kind={kind} pol={npol} alpha={alpha} b2={b2} b3={b3} g={g} L={L} phi={phi} P={P}'
        sin0 = x.signal.copy()
        try:
            out = run(x, length=L, alpha=alpha, beta_2=b2, beta_3=b3, gamma=g, phi_max=phi)
        except TO:
            viol('terminates', desc, 'no return within 20 s'); continue
        except Exception as e:
            viol('raises', desc, f'{type(e).__name__}: {e}'); continue
        if not np.array_equal(sin0, x.signal):
            viol('input-mutated', desc, 'input signal changed')
        if not check_basic(desc, x, out, alpha, L):
            continue
        # closed-form SPM when no dispersion
        if b2 == 0 and b3 == 0:
            ex = spm_closed(x.signal.astype(complex), alpha, g, L)
            e = relerr(out.signal, ex)
            if alpha == 0 or g == 0:
                stat('spm_exact_err', e)
                if e > 1e-9:
                    viol('spm-closed', desc, f'rel err {e:.2e} (exact case)')
            else:
                stat('spm_loss_err_over_phi', e / phi)
                if e > CMAX * phi:
                    viol('spm-closed', desc, f'rel err {e:.3e} > {CMAX}*phi_max')
        # one pol == x of (x, empty y): exact
        if npol == 1:
            x2 = optical_signal(np.array([a, np.zeros(N, complex)]))
            try:
                o2 = run(x2, length=L, alpha=alpha, beta_2=b2, beta_3=b3, gamma=g, phi_max=phi)
            except Exception as e:
                viol('onepol', desc, f'two-pol call failed {type(e).__name__}: {e}'); continue
            if o2.signal.shape != (2, N):
                viol('onepol', desc, f'two-pol shape {o2.signal.shape}'); continue
            d = np.abs(o2.signal[0] - out.signal).max()
            stat('onepol_absdiff', d)
            if d > 1e-12 * max(np.sqrt(P), 1e-300):
                viol('onepol', desc, f'max |x2pol - 1pol| = {d:.3e}')
            if np.abs(o2.signal[1]).max() != 0:
                viol('onepol', desc, 'empty y polarisation not empty at the output')
            # repeated call gives the same answer
            o3 = run(x, length=L, alpha=alpha, beta_2=b2, beta_3=b3, gamma=g, phi_max=phi)
            if not np.array_equal(o3.signal, out.signal):
                viol('repeat', desc, 'second call differs from first')


# ---------------------------------------------------------------- 2. convergence to the NLSE
def part_convergence():
    rng = np.random.default_rng(802)
    cases = []
    # corners of the parameter box at 10 rad, and interior points
    for sps, R in ((16, 10e9), (8, 10e9), (4, 2.5e9)):
        for N in (17, 32, 63, 64):
            for kind in ('gauss', 'train', 'random', 'lead0', 'single_last'):
                cases.append((sps, R, N, kind))
    pars = [
        # alpha, b2, b3, g, L, P
        (0.0, -25, 0.0, 5, 100, 0.02),
        (0.0, 25, 0.2, 5, 100, 0.02),
        (0.5, -25, -0.2, 5, 100, 0.02),
        (0.5, 25, 0.2, 5, 100, 0.02),
        (0.2, -21.7, 0.1, 1.3, 50, 0.1),
        (0.0, -25, 0.2, 5, 4, 0.5),
        (0.5, 25, -0.2, 5, 4, 0.5),
        (0.25, 5, 0.0, 2, 10, 0.5),
        (0.5, 0.0, 0.2, 5, 100, 0.02),
        (0.2, -20, 0, 0.01, 100, 0.5),   # weak nonlinearity: single step territory
        (0.5, -25, 0.2, 0.2, 100, 0.5),  # exactly 10 rad with small gamma, P at its end
    ]
    idx = 0
    for (sps, R, N, kind) in cases:
        for (alpha, b2, b3, g, L, P) in pars:
            idx += 1
            if idx % 3:   # thin out: a third of the product
                continue
            gv(sps=sps, R=R)
            a = make_field(kind, N, P, rng)
            x = optical_signal(a)
            w_ps = x.w() * 1e-12
            al = alpha * np.log(10) / 10
            ref = ref_nlse(a, w_ps, L, al, b2, b3, g, 6000)
            ref2 = ref_nlse(a, w_ps, L, al, b2, b3, g, 3000)
            referr = relerr(ref2, ref)
            errs = []
            for phi in (0.1, 0.02, 5e-3):
                desc = f'conv sps={sps} R={R:g} N={N} kind={kind} alpha={alpha} b2={b2} b3={b3} g={g} L={L} P={P} phi={phi}'
                try:
                    out = run(x, length=L, alpha=alpha, beta_2=b2, beta_3=b3, gamma=g, phi_max=phi)
                except Exception as e:
                    viol('raises', desc, f'{type(e).__name__}: {e}'); break
                check_basic(desc, x, out, alpha, L)
                e = relerr(out.signal, ref)
                errs.append(e)
                stat('conv_err_over_phi', e / phi)
                if e > CONV_C * phi + 20 * referr:
                    viol('converges', desc, f'rel err vs reference {e:.3e} > CONV_C*phi_max (ref accuracy {referr:.1e})')
            if len(errs) == 3 and errs[2] > errs[0] + 20 * referr and errs[2] > 1e-6:
                viol('converges', desc, f'error grows as phi_max shrinks: {errs}')


# ---------------------------------------------------------------- 3. random sampling of the domain
def part_random():
    rng = np.random.default_rng(803)
    for it in range(400):
        sps = int(rng.choice([2, 4, 8, 16, 3, 5]))
        R = float(rng.choice([1e9, 2.5e9, 10e9, 25e9]))
        gv(sps=sps, R=R)
        N = int(rng.choice([1, 2, 3, 5, 8, 17, 24, 33, 48, 64]))
        kind = str(rng.choice(['gauss', 'train', 'random', 'lead0', 'single_last', 'one_dip']))
        alpha = float(rng.choice([0, rng.uniform(0, 0.5), 0.5]))
        b2 = float(rng.choice([0, rng.uniform(-25, 25), -25, 25]))
        b3 = float(rng.choice([0, rng.uniform(-0.2, 0.2), -0.2, 0.2]))
        g = float(rng.choice([0, rng.uniform(0, 5), 5]))
        L = float(rng.choice([rng.uniform(0.01, 100), 100, 1, 1e-3]))
        phi = float(rng.choice([5e-4, 0.1, 10 ** rng.uniform(np.log10(5e-4), -1)]))
        P = float(rng.uniform(0, 0.5)) if rng.random() < 0.8 else 0.5
        if g * P * L > 10:
            P = 10 / (g * L)
        if g * P * L / phi > 4000:   # keep run time bounded
            phi = max(g * P * L / 4000, 5e-4)
            if g * P * L / phi > 4000.01:
                P = 4000 * phi / (g * L)
        npol = int(rng.choice([1, 2]))
        a = make_field(kind, N, P, rng)
        if npol == 1:
            x = optical_signal(a)
        else:
            b = make_field('random', N, P / 2, rng)
            x = optical_signal(np.array([a / np.sqrt(2), b * 0.999]))
        Lk = int(L) if (L == int(L) and rng.random() < 0.5) else L   # integer vs float argument
        desc = f'rand#{it} sps={sps} R={R:g} N={N} kind={kind} pol={npol} alpha={alpha} b2={b2} b3={b3} g={g} L={Lk!r} phi={phi} P={P}'
        try:
            out = run(x, length=Lk, alpha=alpha, beta_2=b2, beta_3=b3, gamma=g, phi_max=phi)
        except TO:
            viol('terminates', desc, 'no return within 20 s'); continue
        except Exception as e:
            viol('raises', desc, f'{type(e).__name__}: {e}'); continue
        if not check_basic(desc, x, out, alpha, L):
            continue
        w_ps = x.w() * 1e-12
        al = alpha * np.log(10) / 10
        S = np.atleast_2d(x.signal)
        O = np.atleast_2d(out.signal)
        for p in range(S.shape[0]):
            ref = ref_nlse(S[p], w_ps, L, al, b2, b3, g, 2000)
            e = relerr(O[p], ref)
            stat('rand_err_over_phi', e / phi)
            if e > CONV_C * phi + 1e-6:
                viol('converges', desc, f'pol {p}: rel err vs reference {e:.3e} = {e/phi:.0f}*phi_max > CONV_C*phi_max')


# ---------------------------------------------------------------- 4. container / dtype / call-order corners
def part_types():
    gv(sps=8, R=10e9)
    rng = np.random.default_rng(804)
    kw = dict(length=20, alpha=0.3, beta_2=-20, beta_3=0.1, gamma=2, phi_max=0.05)
    a = make_field('lead0', 32, 0.2, rng)
    base = run(optical_signal(a), **kw).signal
    # real float input, list input, complex64, int zeros, 0/1 text-like ints scaled
    ar = np.abs(a)
    o_r = run(optical_signal(ar), **kw)
    ref = run(optical_signal(ar.astype(complex)), **kw)
    if relerr(o_r.signal, ref.signal) > 1e-12:
        viol('dtype', 'real float input', f'differs from complex input by {relerr(o_r.signal, ref.signal):.2e}')
    o_l = run(optical_signal(list(a)), **kw)
    if not np.array_equal(o_l.signal, base):
        viol('container', 'list input', 'differs from ndarray input')
    o_t = run(optical_signal(tuple(a)), **kw)
    if not np.array_equal(o_t.signal, base):
        viol('container', 'tuple input', 'differs from ndarray input')
    o_c = run(optical_signal(a.astype(np.complex64)), **kw)
    e = relerr(o_c.signal, base)
    stat('complex64_err', e)
    if e > 1e-4:
        viol('dtype', 'complex64 input', f'rel err {e:.2e}')
    check_basic('complex64 input', optical_signal(a.astype(np.complex64)), o_c, 0.3, 20, tolE=1e-5)
    z = optical_signal(np.zeros(8, int))
    o_z = run(z, **kw)
    check_basic('int zeros', z, o_z, 0.3, 20)
    z2 = optical_signal(np.zeros((2, 8), int))
    check_basic('int zeros 2pol', z2, run(z2, **kw), 0.3, 20)
    # scalar optical signals (length 1), both polarisation counts
    for npol in (1, 2):
        x = optical_signal(np.sqrt(0.5), n_pol=npol)
        o = run(x, length=4, alpha=0.5, beta_2=25, beta_3=0.2, gamma=5, phi_max=5e-4)
        check_basic(f'scalar n_pol={npol}', x, o, 0.5, 4)
        # a single sample has no dispersion: closed-form SPM with loss, per polarisation
        ex = spm_closed(x.signal.astype(complex), 0.5, 5, 4)
        e = relerr(o.signal, ex)
        if e > CMAX * 5e-4:
            viol('spm-closed', f'scalar n_pol={npol}', f'rel err {e:.2e}')
    # integer-valued arguments
    x = optical_signal(a)
    o_i = run(x, length=20, alpha=0, beta_2=-20, beta_3=0, gamma=2, phi_max=0.05)
    o_f = run(x, length=20.0, alpha=0.0, beta_2=-20.0, beta_3=0.0, gamma=2.0, phi_max=0.05)
    if not np.array_equal(o_i.signal, o_f.signal):
        viol('int-vs-float', 'integer arguments', 'differ from float arguments')
    # noise present: signal part must be unaffected by the presence of noise
    xn = optical_signal(a, 1e-3 * (rng.standard_normal(32) + 1j * rng.standard_normal(32)))
    o_n = run(xn, **kw)
    if not np.array_equal(o_n.signal, base):
        viol('noise-present', 'signal with noise', 'signal output differs from the noise-free call')
    # global state: a slot count in gv must not change the result
    gv(sps=8, R=10e9, N=5)
    o_g = run(optical_signal(a), **kw)
    if not np.array_equal(o_g.signal, base):
        viol('gv-state', 'gv(N=5) set', 'result depends on gv.N')
    gv(sps=8, R=10e9)
    # show_progress does not change the field
    try:
        o_p = run(optical_signal(a), show_progress=True, **kw)
        if not np.array_equal(o_p.signal, base):
            viol('progress', 'show_progress=True', 'field differs')
    except Exception as e:
        viol('progress', 'show_progress=True', f'{type(e).__name__}: {e}')


# ---------------------------------------------------------------- 5. SPM with loss, many (gamma P L, phi) combos incl. one step / one step + a bit
def part_spm_loss():
    gv(sps=16, R=10e9)
    rng = np.random.default_rng(805)
    for N in (1, 2, 17):
        for kind in ('random', 'lead0', 'cw'):
            for alpha in (1e-6, 0.05, 0.2, 0.5):
                for L in (1, 37.5, 100):
                    for phi in (5e-4, 5e-3, 0.1):
                        for nl in (0.5 * phi, phi, phi * (1 + 1e-12), 1.001 * phi, 2 * phi, 7.3 * phi, min(10, 300 * phi)):
                            g = 5.0
                            P = nl / (g * L)
                            if P > 0.5:
                                continue
                            a = make_field(kind, N, P, rng)
                            x = optical_signal(a)
                            desc = f'spmloss N={N} kind={kind} alpha={alpha} L={L} phi={phi} gPL={nl}'
                            try:
                                out = run(x, length=L, alpha=alpha, gamma=g, phi_max=phi)
                            except Exception as e:
                                viol('raises', desc, f'{type(e).__name__}: {e}'); continue
                            check_basic(desc, x, out, alpha, L)
                            e = relerr(out.signal, spm_closed(a, alpha, g, L))
                            stat('spm_loss_err_over_phi', e / phi)
                            if e > CMAX * phi:
                                viol('spm-closed', desc, f'rel err {e:.3e} > {CMAX} phi_max')


if __name__ == '__main__':
    import time
    for f in (part_types, part_spm_loss, part_corners, part_convergence, part_random):
        t0 = time.time()
        try:
            f()
        except TO:
            viol('terminates', f.__name__, 'timed out outside a guarded call')
        print(f'# {f.__name__} done in {time.time() - t0:.1f}s, violations so far {len(VIOL)}', flush=True)
    for k, v in sorted(STATS.items()):
        print(f'# stat {k} = {v:.3e}')
    if VIOL:
        print(f'{len(VIOL)} violations')
        sys.exit(1)
    print('PASS')
    sys.exit(0)
