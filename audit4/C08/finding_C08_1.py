import sys; sys.path[0:1] = []          # BORDERLINE: first-order convergence with a constant of 10..200 (see report)
import signal; signal.alarm(240)
import numpy as np
from numpy.fft import fft, ifft
from opticomlib import gv, optical_signal
from opticomlib.devices import FIBER
gv(sps=8, R=10e9)                       # pulse train 0110, 32 samples, peak 0.02 W, first samples zero
a = np.sqrt(0.02) * np.convolve(np.repeat([0, 1, 1, 0], 8), np.ones(5) / 5, 'same').astype(complex)
g, L, bad = 5.0, 100.0, 0               # gamma*P*L = 10 rad, alpha = 0
x = optical_signal(a); w = x.w() * 1e-12
for b2 in (-25.0, 25.0):
    D, h, r = -0.5j * b2 * w**2, L / 40000, a.copy()
    for _ in range(40000):              # reference: symmetric split step, 40000 uniform steps, 2nd half from the updated field
        r = ifft(np.exp(D * h) * fft(np.exp(0.5j * g * h * abs(r)**2) * r)); r = np.exp(0.5j * g * h * abs(r)**2) * r
    for phi in (0.1, 0.05, 5e-3, 5e-4):
        o = FIBER(x, length=L, beta_2=b2, gamma=g, phi_max=phi).signal
        e = np.linalg.norm(o - r) / np.linalg.norm(r)
        print(f'beta_2={b2:+.0f} phi_max={phi:g}: relative error vs NLSE {e:.3e} = {e / phi:.0f} x phi_max (expected a small multiple of phi_max, and < 1)')
        bad += e > 20 * phi
sys.exit(1 if bad else 0)
