import sys
del sys.path[0]
import itertools, warnings, copy
import numpy as np
import scipy.signal as sg
from scipy.constants import k as kB, e as qe

warnings.simplefilter("ignore")
from opticomlib import gv, optical_signal, electrical_signal
from opticomlib.devices import PD, LPF

MODES = ["ase-only", "thermal-only", "shot-only", "ase-thermal", "ase-shot", "thermal-shot", "all"]
viol = []


def bad(clause, inp, msg):
    line = f"VIOLATION [{clause}] {inp}: {msg}"
    viol.append(line)
    print(line, flush=True)


def relerr(a, b):
    a = np.asarray(a, float); b = np.asarray(b, float)
    s = max(np.max(np.abs(b)), 1e-300)
    return np.max(np.abs(a - b)) / s


def ref_filter(x, BW, fs):
    """independent reference: 4th order Bessel, zero-phase"""
    sos = sg.bessel(4, BW, "low", fs=fs, output="sos", norm="mag")
    return sg.sosfiltfilt(sos, x, padlen=min(15, len(x) - 1))


def H2(BW, fs, n=1 << 16):
    sos = sg.bessel(4, BW, "low", fs=fs, output="sos", norm="mag")
    _, H = sg.sosfreqz(sos, worN=n, whole=True)
    return np.abs(H) ** 2  # sosfiltfilt amplitude response |H|^2


def field(rng, N, npol, kind="rand", amp=1e-2):
    shape = (N,) if npol == 1 else (2, N)
    if kind == "rand":
        return amp * (rng.standard_normal(shape) + 1j * rng.standard_normal(shape))
    if kind == "cw":
        return np.full(shape, amp + 0j)
    if kind == "one1":  # a single 1 in zeros
        x = np.zeros(shape, complex); x[..., N // 2] = amp; return x
    if kind == "one0":  # single 0 in ones
        x = np.full(shape, amp + 0j); x[..., N // 2] = 0; return x
    if kind == "zero":
        return np.zeros(shape, complex)
    if kind == "first":
        x = np.zeros(shape, complex); x[..., 0] = amp; return x
    if kind == "last":
        x = np.zeros(shape, complex); x[..., -1] = amp; return x
    raise ValueError(kind)


def power_of(sig):
    p = np.abs(sig) ** 2
    return p if p.ndim == 1 else p.sum(axis=0)


def replay_noise(seed, x, BW, r, T, R, mode, i_dark, Fn, fs):
    """expected filtered noise for both plausible draw orders"""
    N = x.len()
    P = power_of(x.signal)
    if x.noise is not None:
        Pn = power_of(x.noise)
        beat = 2 * np.real(x.signal * np.conj(x.noise))
        beat = beat if beat.ndim == 1 else beat.sum(axis=0)
    else:
        Pn = np.zeros(N); beat = np.zeros(N)
    S_T = 4 * kB * T * 10 ** (Fn / 10) * (fs / 2) / R
    S_N = 2 * qe * (r * (P.mean() + Pn.mean()) + i_dark) * (fs / 2)
    outs = []
    for order in ("TS", "ST"):
        np.random.seed(seed)
        d = {}
        for c in order:
            if c == "T" and ("thermal" in mode or mode == "all"):
                d["T"] = np.random.normal(0, S_T ** 0.5, N)
            if c == "S" and ("shot" in mode or mode == "all"):
                d["S"] = np.random.normal(0, S_N ** 0.5, N)
        i = np.full(N, float(i_dark))
        if "ase" in mode or mode == "all":
            i = i + r * (beat + Pn)
        if "T" in d: i = i + d["T"]
        if "S" in d: i = i + d["S"]
        outs.append(ref_filter(i * R, BW, fs))
    return outs, S_T, S_N


# ---------------------------------------------------------------------------
def part_deterministic():
    rng = np.random.default_rng(1)
    for (sps, Rate) in [(16, 1e9), (8, 1000), (3, 1.0), (64, 40e9), (2, 2.5e13), (1, 7.0)]:
        gv(sps=sps, R=Rate)
        fs = gv.fs
        gvstate = (gv.sps, gv.R, gv.fs, gv.dt)
        Ns = list(range(17, 70)) + [127, 128, 129, 1000, 1001, 4096, 4097]
        for N in Ns:
            for npol in (1, 2):
                fracs = [1e-3, 0.01, 0.1, 0.25, 0.4, 0.49, 0.4999, float(np.nextafter(0.5, 0))] if N < 40 or N > 1000 else [0.05, 0.3]
                for frac in fracs:
                    BW = frac * fs
                    for kind in ("cw", "rand", "one1", "one0", "zero", "first", "last"):
                        if N > 40 and kind not in ("cw", "rand", "one1"):
                            continue
                        r = [1.0, 1, 0.5, 1e-9, float(np.nextafter(1, 0)), True][rng.integers(6)]
                        Rl = [50.0, 50, 1e-3, 1.0, 1e6, 7][rng.integers(6)]
                        amp = [1e-2, 1.0, 1e-9, 1e3][rng.integers(4)]
                        withn = bool(rng.integers(2))
                        sig = field(rng, N, npol, kind, amp)
                        noi = field(rng, N, npol, "rand", amp * 0.1) if withn else None
                        x = optical_signal(sig, noi) if withn else optical_signal(sig)
                        s0 = x.signal.copy(); n0 = None if x.noise is None else x.noise.copy()
                        mode = MODES[rng.integers(7)]
                        tag = f"fs={fs:g} N={N} npol={npol} BW/fs={frac:g} kind={kind} r={r!r} R={Rl!r} amp={amp:g} noise={withn} mode={mode}"
                        try:
                            y = PD(x, BW, r=r, R_load=Rl, include_noise=mode, T=[0, 0.0, 300, 300.0][rng.integers(4)],
                                   i_dark=[0, 0.0, 10e-9][rng.integers(3)], Fn=[0, 0.0, 3, 5.5][rng.integers(4)])
                        except Exception as ex:
                            bad("runs", tag, f"{type(ex).__name__}: {ex}")
                            continue
                        if y.len() != N or y.signal.shape != (N,) or y.noise is None or y.noise.shape != (N,):
                            bad("length", tag, f"out len {y.signal.shape} noise {None if y.noise is None else y.noise.shape}")
                            continue
                        if not isinstance(y, electrical_signal) or np.iscomplexobj(y.signal):
                            bad("type", tag, f"{type(y)} {y.signal.dtype}")
                        if not np.array_equal(x.signal, s0) or (n0 is not None and not np.array_equal(x.noise, n0)):
                            bad("input-mutated", tag, "")
                        if (gv.sps, gv.R, gv.fs, gv.dt) != gvstate:
                            bad("gv-mutated", tag, "")
                        base = float(r) * float(Rl) * power_of(sig)
                        # exact: library LPF of R*r*P
                        rp = r * np.abs(sig) ** 2  # same operation order as the documented formula R*(r*|Ex|^2 + r*|Ey|^2)
                        rp = rp if rp.ndim == 1 else rp.sum(axis=0)
                        lib = LPF(electrical_signal(rp * Rl), BW).signal
                        scale = max(np.max(np.abs(base)), 1e-300)
                        near_nyq = frac > 0.499  # poles within 1e-3 of z=-1 amplify rounding of a different summation order
                        if (np.max(np.abs(y.signal - lib)) > 1e-12 * scale) if not near_nyq else (np.max(np.abs(y.signal - lib)) > 1e-9 * scale):
                            bad("signal=LPF(R r P)", tag, f"err {np.max(np.abs(y.signal-lib))/scale:.3g}")
                        ref = ref_filter(base, BW, fs)
                        tol = 1e-7 if frac <= 1e-3 or frac > 0.499 else 1e-10
                        if np.max(np.abs(y.signal - ref)) > tol * scale:
                            bad("signal=ref filter", tag, f"err {np.max(np.abs(y.signal-ref))/scale:.3g}")
                        if kind == "cw":
                            P = amp ** 2 * npol
                            if relerr(y.signal, np.full(N, float(r) * P * float(Rl))) > tol:
                                bad("CW -> r P R", tag, f"err {relerr(y.signal, np.full(N, float(r)*P*float(Rl))):.3g}")
                        if kind == "zero" and np.any(y.signal != 0):
                            bad("zero field -> 0", tag, f"{np.max(np.abs(y.signal))}")
                        if not np.all(np.isfinite(y.signal)) or not np.all(np.isfinite(y.noise)):
                            bad("finite", tag, "nan/inf in output")
                        # deterministic under repeated call / other options
                        y2 = PD(x, BW, r=r, R_load=Rl, include_noise=MODES[rng.integers(7)].upper())
                        if not np.array_equal(y.signal, y2.signal):
                            bad("deterministic", tag, f"diff {np.max(np.abs(y.signal-y2.signal))}")
                        if withn:
                            y3 = PD(optical_signal(sig), BW, r=r, R_load=Rl, include_noise=mode)
                            if not np.array_equal(y.signal, y3.signal):
                                bad("signal indep of noise comp", tag, f"diff {np.max(np.abs(y.signal-y3.signal))}")


def part_invariance():
    rng = np.random.default_rng(2)
    gv(sps=16, R=1e9); fs = gv.fs
    for N in list(range(17, 40)) + [255, 256, 1023]:
        for frac in (0.01, 0.2, 0.45):
            BW = frac * fs
            for withn in (False, True):
                for npol in (1, 2):
                    sig = field(rng, N, npol, "rand", 0.03)
                    noi = field(rng, N, npol, "rand", 0.003) if withn else None
                    mk = lambda s, n: optical_signal(s, n) if n is not None else optical_signal(s)
                    tag = f"N={N} BW/fs={frac} npol={npol} noise={withn}"
                    y0 = PD(mk(sig, noi), BW, r=0.8, include_noise="ase-only", i_dark=0)
                    sc = np.max(np.abs(y0.signal)); scn = max(np.max(np.abs(y0.noise)), 1e-300)
                    # phase rotations: global, per-sample
                    for ph in (np.pi, -np.pi / 2, 1.234, rng.uniform(0, 2 * np.pi, N)):
                        rot = np.exp(1j * ph)
                        y1 = PD(mk(sig * rot, None if noi is None else noi * rot), BW, r=0.8, include_noise="ase-only", i_dark=0)
                        if np.max(np.abs(y1.signal - y0.signal)) > 1e-12 * sc:
                            bad("phase invariance (signal)", tag, f"{np.max(np.abs(y1.signal-y0.signal))/sc:.3g}")
                        if np.max(np.abs(y1.noise - y0.noise)) > 1e-11 * scn:
                            bad("phase invariance (beating)", tag, f"{np.max(np.abs(y1.noise-y0.noise))/scn:.3g}")
                    # unitary polarisation rotations
                    s2 = sig if npol == 2 else np.array([sig, np.zeros(N)])
                    n2 = None if noi is None else (noi if npol == 2 else np.array([noi, np.zeros(N)]))
                    for _ in range(4):
                        th, a, b, g = rng.uniform(0, 2 * np.pi, 4)
                        U = np.exp(1j * g) * np.array([[np.exp(1j * a) * np.cos(th), np.exp(1j * b) * np.sin(th)],
                                                      [-np.exp(-1j * b) * np.sin(th), np.exp(-1j * a) * np.cos(th)]])
                        y1 = PD(mk(U @ s2, None if n2 is None else U @ n2), BW, r=0.8, include_noise="ase-only", i_dark=0)
                        if np.max(np.abs(y1.signal - y0.signal)) > 1e-12 * sc:
                            bad("polarisation invariance (signal)", tag, f"{np.max(np.abs(y1.signal-y0.signal))/sc:.3g}")
                        if np.max(np.abs(y1.noise - y0.noise)) > 1e-11 * scn:
                            bad("polarisation invariance (beating)", tag, f"{np.max(np.abs(y1.noise-y0.noise))/scn:.3g}")
                    for U in (np.array([[0, 1], [1, 0]]), np.array([[1, 1], [1, -1]]) / np.sqrt(2), np.eye(2)):
                        y1 = PD(mk(U @ s2, None if n2 is None else U @ n2), BW, r=0.8, include_noise="ase-only", i_dark=0)
                        if np.max(np.abs(y1.signal - y0.signal)) > 1e-12 * sc:
                            bad("polarisation invariance (swap/45deg)", tag, f"{np.max(np.abs(y1.signal-y0.signal))/sc:.3g}")
                    # scaling
                    for k in (2, 0.5, 3.0, 1e-3, 1e4):
                        y1 = PD(mk(sig * k, None), BW, r=0.8, include_noise="ase-only", i_dark=0)
                        if np.max(np.abs(y1.signal - k * k * y0.signal)) > 1e-12 * k * k * sc:
                            bad("quadratic in amplitude", tag + f" k={k}", f"{np.max(np.abs(y1.signal-k*k*y0.signal))/(k*k*sc):.3g}")
                    for r1 in (1, 1.0, 0.4, 1e-6):
                        y1 = PD(mk(sig, None), BW, r=r1, include_noise="ase-only", i_dark=0)
                        if np.max(np.abs(y1.signal - r1 / 0.8 * y0.signal)) > 1e-12 * r1 / 0.8 * sc:
                            bad("linear in r", tag + f" r={r1}", "")
                    for R1 in (1, 50, 1e-2, 75.5, 1e5):
                        y1 = PD(mk(sig, None), BW, r=0.8, R_load=R1, include_noise="ase-only", i_dark=0)
                        if np.max(np.abs(y1.signal - R1 / 50 * y0.signal)) > 1e-12 * R1 / 50 * sc:
                            bad("linear in R_load", tag + f" R={R1}", "")


def part_noise_exact():
    """noise part = exactly the selected terms (RNG replay, either draw order)"""
    rng = np.random.default_rng(3)
    for (sps, Rate) in [(16, 1e9), (4, 1e3)]:
        gv(sps=sps, R=Rate); fs = gv.fs
        for N in (17, 18, 31, 32, 257, 5000):
            for npol in (1, 2):
                for withn in (False, True):
                    for mode in MODES:
                        for case in (str.lower, str.upper, str.title, lambda s: "".join(c.upper() if i % 2 else c for i, c in enumerate(s))):
                            m = case(mode)
                            frac = [0.02, 0.2, 0.45][rng.integers(3)]
                            BW = frac * fs
                            r = [1.0, 0.3][rng.integers(2)]; T = [0, 0.0, 300.0, 77][rng.integers(4)]
                            Rl = [50.0, 1e3, 1][rng.integers(3)]; idk = [0, 0.0, 10e-9, 1e-6][rng.integers(4)]; Fn = [0, 0.0, 3, 6.5][rng.integers(4)]
                            kind = ["rand", "cw", "zero", "one1"][rng.integers(4)]
                            sig = field(rng, N, npol, kind, 0.02)
                            noi = field(rng, N, npol, "rand", 0.002) if withn else None
                            x = optical_signal(sig, noi) if withn else optical_signal(sig)
                            tag = f"fs={fs:g} N={N} npol={npol} noise={withn} mode={m!r} BW/fs={frac} r={r} T={T} R={Rl} idark={idk} Fn={Fn} kind={kind}"
                            seed = int(rng.integers(1 << 30))
                            np.random.seed(seed)
                            try:
                                y = PD(x, BW, r=r, T=T, R_load=Rl, include_noise=m, i_dark=idk, Fn=Fn)
                            except Exception as ex:
                                bad("mode accepted (any case)", tag, f"{type(ex).__name__}: {ex}")
                                continue
                            exps, S_T, S_N = replay_noise(seed, x, BW, r, T, Rl, mode, idk, Fn, fs)
                            sc = max(max(np.max(np.abs(ex_)) for ex_ in exps), 1e-300)
                            err = min(np.max(np.abs(y.noise - ex_)) for ex_ in exps) / sc
                            if err > 1e-9:
                                bad("noise terms exactly those selected", tag, f"rel err {err:.3g}")
                            has_rand = ("thermal" in mode and T > 0) or ("shot" in mode and S_N > 0) or (mode == "all" and (T > 0 or S_N > 0))
                            if not has_rand:
                                y2 = PD(x, BW, r=r, T=T, R_load=Rl, include_noise=m, i_dark=idk, Fn=Fn)
                                if not np.array_equal(y.noise, y2.noise):
                                    bad("no random term selected -> deterministic noise", tag, "")


def part_stats():
    rng = np.random.default_rng(4)
    N = 1 << 18
    for (sps, Rate) in [(16, 1e9), (2, 50.0), (32, 1e12)]:
        gv(sps=sps, R=Rate); fs = gv.fs
        for frac in (0.05, 0.2, 0.4, 0.49):
            BW = frac * fs
            h2 = H2(BW, fs)
            neb = np.mean(h2 ** 2)
            rho2 = np.mean(h2 ** 4) / neb ** 2  # sum of squared autocorrelation
            for cfg in range(4):
                npol = 1 + cfg % 2
                withn = cfg >= 2
                r = [1.0, 0.6][cfg % 2]; T = [300.0, 50][cfg % 2]; Rl = [50.0, 1e3][cfg // 2]; Fn = [0, 4.0][cfg % 2]
                idk = [10e-9, 0][cfg // 2]
                sig = field(rng, N, npol, ["cw", "rand"][cfg % 2], 0.03)
                noi = field(rng, N, npol, "rand", 0.01) if withn else None
                x = optical_signal(sig, noi) if withn else optical_signal(sig)
                Ps = power_of(sig).mean(); Pn = 0 if noi is None else power_of(noi).mean()
                S_T = 4 * kB * T * 10 ** (Fn / 10) * (fs / 2) / Rl
                S_N = 2 * qe * (r * (Ps + Pn) + idk) * (fs / 2)
                for mode, S in (("thermal-only", S_T), ("shot-only", S_N), ("THERMAL-SHOT", S_T + S_N)):
                    fails = []
                    for seed in range(4):
                        np.random.seed(1000 + seed)
                        y = PD(x, BW, r=r, T=T, R_load=Rl, include_noise=mode, i_dark=idk, Fn=Fn)
                        v = y.noise - idk * Rl
                        expv = S * Rl ** 2 * neb
                        sd_var = expv * np.sqrt(2 * rho2 / N)
                        sd_mean = np.sqrt(expv * h2[0] ** 2 / N) if False else np.sqrt(S * Rl ** 2 / N)  # DC gain 1
                        zv = (v.var() - expv) / sd_var
                        zm = v.mean() / sd_mean
                        z = v / np.sqrt(expv)
                        neff = N / rho2
                        zk = (np.mean(z ** 4) - 3) / np.sqrt(96 / neff)  # rough, generous
                        zs = np.mean(z ** 3) / np.sqrt(15 / neff)
                        if abs(zv) > 6 or abs(zm) > 6 or abs(zk) > 8 or abs(zs) > 8:
                            fails.append((seed, round(zv, 1), round(zm, 1), round(zk, 1), round(zs, 1)))
                    if len(fails) >= 3:
                        bad("noise statistics (var, mean, kurt, skew z-scores)", f"fs={fs:g} BW/fs={frac} cfg={cfg} mode={mode}", f"{fails}")


def part_errors():
    gv(sps=16, R=1e9)
    x = optical_signal(np.ones(64, complex))

    def expect(exc, tag, **kw):
        try:
            PD(x, 5e9, **kw)
        except exc:
            return
        except Exception as ex:
            bad("documented errors", tag, f"expected {exc.__name__}, got {type(ex).__name__}: {ex}")
            return
        bad("documented errors", tag, f"expected {exc.__name__}, nothing raised")

    for r in (0, 0.0, -0.0, -1e-300, -1, 1.0000000000000002, 2, 1e300, float("inf"), -float("inf")):
        expect(ValueError, f"r={r!r}", r=r)
    for r in ("0.5", None, [0.5], (0.5,), 0.5j, np.array([0.5]), {}):
        expect(TypeError, f"r={r!r}", r=r)
    for T in (-1, -1e-300, -0.5, -float("inf")):
        expect(ValueError, f"T={T!r}", T=T)
    for T in ("300", None, [300], 300j):
        expect(TypeError, f"T={T!r}", T=T)
    for R in (-1, -1e-300, -50.0, -float("inf")):
        expect(ValueError, f"R_load={R!r}", R_load=R)
    for R in ("50", None, [50], 50j):
        expect(TypeError, f"R_load={R!r}", R_load=R)
    for m in (True, None, 5, ["all"], b"all", ("all",)):
        expect(TypeError, f"include_noise={m!r}", include_noise=m)
    for m in ("", "foo", "ase", "thermal", "shot", "all ", " all", "ase_only", "ase-only ", "thermal-ase", "shot-thermal", "only", "alls",
              "ase-thermal-shot", "none", "ALL-", "thermal-only,shot-only"):
        for withn in (False, True):
            try:
                PD(optical_signal(np.ones(64, complex), 0.1 * np.ones(64, complex)) if withn else x, 5e9, include_noise=m)
            except ValueError:
                continue
            except Exception as ex:
                bad("documented errors", f"include_noise={m!r} noise={withn}", f"expected ValueError, got {type(ex).__name__}: {ex}")
                continue
            bad("documented errors", f"include_noise={m!r} noise={withn}", "expected ValueError, nothing raised")
    for inp in (np.ones(64, complex), electrical_signal(np.ones(64)), [1, 2, 3], "1 0 1", None):
        try:
            PD(inp, 5e9)
        except TypeError:
            continue
        except Exception as ex:
            bad("documented errors", f"input={type(inp).__name__}", f"expected TypeError, got {type(ex).__name__}")
            continue
        bad("documented errors", f"input={type(inp).__name__}", "nothing raised")
    # valid corner values must be accepted
    for kw in (dict(r=1), dict(r=True), dict(r=1.0), dict(r=5e-324), dict(r=np.float64(0.5)), dict(T=0), dict(T=0.0), dict(T=-0.0), dict(T=True),
               dict(R_load=1e-300), dict(R_load=1e300), dict(R_load=1), dict(i_dark=0), dict(Fn=0), dict(Fn=0.0), dict(Fn=30), dict(T=1e6)):
        for m in MODES:
            try:
                y = PD(x, 5e9, include_noise=m, **kw)
                if y.len() != 64 or not np.all(np.isfinite(y.signal)) or not np.all(np.isfinite(y.noise)):
                    bad("valid corner accepted", f"{kw} mode={m}", "non-finite or wrong length")
            except Exception as ex:
                bad("valid corner accepted", f"{kw} mode={m}", f"{type(ex).__name__}: {ex}")
    # after failed calls the next good call still works, and sequences of calls do not interact
    y = PD(x, 5e9, include_noise="ase-only", i_dark=0)
    if relerr(y.signal, np.full(64, 50.0)) > 1e-12:
        bad("call order", "after failed calls", "CW result changed")


if __name__ == "__main__":
    part_errors()
    part_deterministic()
    part_invariance()
    part_noise_exact()
    part_stats()
    if viol:
        print(f"{len(viol)} violations")
        sys.exit(1)
    print("PASS")
    sys.exit(0)
