import sys, os
if sys.path and os.path.abspath(sys.path[0] or '.') == os.path.dirname(os.path.abspath(__file__)):
    del sys.path[0]
import warnings, itertools
warnings.filterwarnings('ignore')
import numpy as np
from scipy.constants import h, c
import scipy.signal as sg
import opticomlib
from opticomlib import gv, optical_signal, electrical_signal, binary_sequence
from opticomlib.devices import EDFA, BPF

assert opticomlib.__file__.startswith(os.environ.get('PYTHONPATH', '/tmp/wt25/C10').split(':')[0]), opticomlib.__file__

viol = []
def bad(clause, desc, msg):
    line = f"VIOLATION [{clause}] {desc}: {msg}"
    viol.append(line)
    print(line, flush=True)

def as2(a, n_pol):
    """expected two-row form of an input component"""
    a = np.asarray(a)
    if n_pol == 1:
        return np.array([a, np.zeros_like(a)])
    return a

def close(a, b, rtol=1e-12, atol=0.0):
    a = np.asarray(a); b = np.asarray(b)
    if a.shape != b.shape:
        return False
    return np.allclose(a, b, rtol=rtol, atol=atol * (np.abs(b).max() if b.size else 0) + 1e-300)

# ---------------------------------------------------------------- input builders
def make_input(kind, n_pol, N, with_noise, rng, amp=1e-3):
    """returns optical_signal"""
    def base(N):
        if kind == 'float':
            return amp * rng.standard_normal(N)
        if kind == 'complex':
            return amp * (rng.standard_normal(N) + 1j * rng.standard_normal(N))
        if kind == 'int':
            return rng.integers(-3, 4, N)
        if kind == 'uint8':
            return rng.integers(0, 3, N).astype(np.uint8)
        if kind == 'bool':
            return rng.integers(0, 2, N).astype(bool)
        if kind == 'float32':
            return (amp * rng.standard_normal(N)).astype(np.float32)
        if kind == 'complex64':
            return (amp * (rng.standard_normal(N) + 1j * rng.standard_normal(N))).astype(np.complex64)
        if kind == 'float16':
            return rng.standard_normal(N).astype(np.float16)
        if kind == 'longdouble':
            return (amp * rng.standard_normal(N)).astype(np.longdouble)
        if kind == 'tiny':
            return 1e-300 * rng.standard_normal(N)
        if kind == 'zeros':
            return np.zeros(N)
        if kind == 'ones':
            return np.ones(N)
        if kind == 'single1':
            x = np.zeros(N); x[N // 2] = 1.0; return x
        if kind == 'list':
            return list(amp * rng.standard_normal(N))
        raise ValueError(kind)
    if n_pol == 1:
        s = base(N)
        nz = None
        if with_noise:
            nz = 1e-5 * (rng.standard_normal(N) + 1j * rng.standard_normal(N)) if with_noise == 'c' else 1e-5 * rng.standard_normal(N)
        return optical_signal(s, nz, n_pol=1)
    s = [base(N), base(N)]
    nz = None
    if with_noise:
        if with_noise == 'c':
            nz = 1e-5 * (rng.standard_normal((2, N)) + 1j * rng.standard_normal((2, N)))
        else:
            nz = 1e-5 * rng.standard_normal((2, N))
    return optical_signal(s, nz, n_pol=2)

def check_exact(x, G, NF, desc, BW=None, seed=0):
    """clauses 1-4 exact part; returns (out, ase_estimate)"""
    sig_in = np.array(x.signal, copy=True)
    noi_in = None if x.noise is None else np.array(x.noise, copy=True)
    n_pol = x.n_pol
    N = x.len()
    np.random.seed(seed)
    try:
        y = EDFA(x, G, NF) if BW is None else EDFA(x, G, NF, BW)
    except Exception as e:
        bad('runs', desc, f"raised {type(e).__name__}: {e}")
        return None, None
    # input untouched
    if not (np.array_equal(sig_in, x.signal) and x.signal.dtype == sig_in.dtype):
        bad('input-untouched', desc, "input.signal was modified")
    if (noi_in is None) != (x.noise is None) or (noi_in is not None and not np.array_equal(noi_in, x.noise)):
        bad('input-untouched', desc, "input.noise was modified")
    if x.n_pol != n_pol:
        bad('input-untouched', desc, "input.n_pol was modified")
    # two polarisations
    if not isinstance(y, optical_signal):
        bad('two-pol', desc, f"returned {type(y).__name__}")
        return None, None
    if y.n_pol != 2 or y.signal.shape != (2, N):
        bad('two-pol', desc, f"n_pol={y.n_pol} signal.shape={y.signal.shape} expected (2,{N})")
        return y, None
    if y.noise is None or np.shape(y.noise) != (2, N):
        bad('noise-present', desc, f"noise shape {None if y.noise is None else np.shape(y.noise)} expected (2,{N})")
        return y, None
    if not (np.all(np.isfinite(y.signal)) and np.all(np.isfinite(y.noise))):
        bad('finite', desc, "non finite output")
    if BW is not None:
        return y, None
    g = np.sqrt(10 ** (G / 10))
    exp_sig = as2(sig_in.astype(np.result_type(sig_in.dtype, np.float64)), n_pol) * g
    if not close(y.signal, exp_sig, rtol=1e-13):
        bad('signal=sqrtG*input', desc, f"max err {np.abs(y.signal - exp_sig).max():.3e} (max expected {np.abs(exp_sig).max():.3e})")
    if n_pol == 1 and np.any(y.signal[1] != 0):
        bad('y-pol-no-signal', desc, f"y-pol signal max {np.abs(y.signal[1]).max():.3e}")
    exp_noi = 0 if noi_in is None else as2(noi_in.astype(np.result_type(noi_in.dtype, np.float64)), n_pol) * g
    ase = y.noise - exp_noi
    # the ASE must be what the documented generator gives with this seed (exactness of amplified noise)
    np.random.seed(seed)
    P = 10 ** (NF / 10) * h * gv.f0 * (10 ** (G / 10) - 1) * gv.fs
    r = np.sqrt(P / 4) * np.random.randn(4, N)
    ref = r[:2] + 1j * r[2:]
    scale = max(np.abs(ref).max(), np.abs(np.asarray(exp_noi)).max() if noi_in is not None else 0, 1e-300)
    if np.abs(ase - ref).max() > 1e-12 * scale:
        bad('noise=sqrtG*noise+ASE', desc, f"residual {np.abs(ase - ref).max():.3e} vs scale {scale:.3e}")
    return y, ase

# ---------------------------------------------------------------- 1. exhaustive small/corner enumeration (exact clauses)
gv(sps=16, R=1e9)
rng = np.random.default_rng(12345)
kinds = ['float', 'complex', 'int', 'uint8', 'bool', 'float32', 'complex64', 'float16', 'longdouble', 'tiny', 'zeros', 'ones', 'single1', 'list']
Ns = [1, 2, 3, 4, 5, 16, 17, 31, 32, 33]
Gs = [0, 0.0, 1e-9, 1e-3, 3, 20, 20.5, 40 - 1e-9, 40, 40.0]
NFs = [3, 3.0, 3 + 1e-9, 5.5, 10 - 1e-9, 10, 10.0]
cnt = 0
for kind, n_pol, N, wn in itertools.product(kinds, [1, 2], Ns, [None, 'r', 'c']):
    for G, NF in [(0, 3), (40, 10), (0.0, 10.0), (40.0, 3.0), (rng.choice(Gs), rng.choice(NFs))]:
        G = G if isinstance(G, (int, float)) else G.item()
        NF = NF if isinstance(NF, (int, float)) else NF.item()
        x = make_input(kind, n_pol, N, wn, rng)
        check_exact(x, G, NF, f"kind={kind} n_pol={n_pol} N={N} noise={wn} G={G!r} NF={NF!r}", seed=cnt)
        cnt += 1
for G, NF in itertools.product(Gs, NFs):
    for n_pol in (1, 2):
        for wn in (None, 'c'):
            x = make_input('complex', n_pol, 7, wn, rng)
            check_exact(x, G, NF, f"grid n_pol={n_pol} noise={wn} G={G!r} NF={NF!r}", seed=cnt); cnt += 1
for k in range(1500):
    sps = int(rng.integers(1, 65)); R = float(10 ** rng.uniform(5, 11)); wl = float(rng.uniform(800e-9, 1700e-9))
    gv(sps=sps, R=R, wavelength=wl)
    G = float(rng.uniform(0, 40)); NF = float(rng.uniform(3, 10))
    if k % 7 == 0: G = int(round(G))
    if k % 11 == 0: NF = int(round(max(NF, 3)))
    N = int(rng.integers(1, 200)); n_pol = int(rng.integers(1, 3)); wn = [None, 'r', 'c'][int(rng.integers(0, 3))]
    kind = kinds[int(rng.integers(0, len(kinds)))]
    x = make_input(kind, n_pol, N, wn, rng)
    check_exact(x, G, NF, f"random fs={gv.fs:.4g} wl={wl:.4g} kind={kind} n_pol={n_pol} N={N} noise={wn} G={G!r} NF={NF!r}", seed=cnt); cnt += 1
gv(sps=16, R=1e9)
print(f"# exact enumeration: {cnt} cases", flush=True)

# alternative constructions of inputs (scalars, strings, (1,N) arrays, 2-pol of length 1/2, 1-pol of length 2)
alt = {
    'scalar-1pol': lambda: optical_signal(2.0),
    'scalar-2pol': lambda: optical_signal(2.0, n_pol=2),
    'scalar-noise-1pol': lambda: optical_signal(2.0, 0.5),
    'scalar-noise-2pol': lambda: optical_signal(2.0, 0.5, n_pol=2),
    'int-scalar': lambda: optical_signal(3),
    'string01': lambda: optical_signal('1 0 1 1'),
    'string01-noise': lambda: optical_signal('1 0 1 1', '0 1 0 0'),
    'stringnum': lambda: optical_signal('1.5,2,3'),
    'string-2pol': lambda: optical_signal('1 0 1 1', n_pol=2),
    'row(1,N)-default': lambda: optical_signal(np.ones((1, 5))),
    'row(1,N)-npol1': lambda: optical_signal(np.arange(5.0)[None, :], n_pol=1),
    '(2,1)': lambda: optical_signal(np.array([[1.0], [2.0]])),
    '(2,2)': lambda: optical_signal(np.array([[1.0, 2.0], [3.0, 4.0]])),
    '(2,2)-npol1': lambda: optical_signal(np.array([[1.0, 2.0], [3.0, 4.0]]), n_pol=1),
    '(2,)-1pol': lambda: optical_signal(np.array([1.0, 2.0])),
    '(2,)-1pol-noise': lambda: optical_signal(np.array([1.0, 2.0]), np.array([0.1, 0.2j])),
    '(2,2)-noise': lambda: optical_signal(np.array([[1.0, 2.0], [3.0, 4.0]]), np.array([[0.1, 0.2], [0.3, 0.4j]])),
    'sliced-2pol': lambda: optical_signal(np.arange(20.0).reshape(2, 10), np.ones((2, 10)))[3:8],
    'sliced-2pol-int': lambda: optical_signal(np.arange(20.0).reshape(2, 10), np.ones((2, 10)))[3],
    'sliced-1pol': lambda: optical_signal(np.arange(10.0), np.ones(10))[::2],
    'sum': lambda: optical_signal(np.arange(4.0)) + optical_signal(np.ones(4), np.ones(4)),
    'prod-scalar': lambda: 2 * optical_signal(np.arange(4.0), np.ones(4)),
    'tuple': lambda: optical_signal((1.0, 2.0, 3.0)),
    'dtype-float32': lambda: optical_signal([1, 2, 3], [1, 1, 1], dtype=np.float32),
    'dtype-int8': lambda: optical_signal([1, 2, 3], [1, 1, 1], dtype=np.int8, n_pol=2),
    'noise-zero': lambda: optical_signal(np.ones(6), np.zeros(6)),
    'readonly': lambda: (lambda o: (o.signal.setflags(write=False), o.noise.setflags(write=False), o)[2])(optical_signal(np.ones(6), np.ones(6))),
    'noncontig': lambda: (lambda o: (setattr(o, 'signal', np.arange(24.0).reshape(2, 12)[:, ::2]), o)[1])(optical_signal(np.ones((2, 6)))),
    'copy()': lambda: optical_signal(np.arange(5.0), np.ones(5)).copy(),
    'edfa-output': lambda: EDFA(optical_signal(np.ones(9)), 10, 4),
    'bpf-output': lambda: BPF(optical_signal(np.ones(40), np.ones(40)), 4e9),
}
for name, f in alt.items():
    for G, NF in [(0, 3), (40, 10), (13.7, 4.2)]:
        try:
            x = f()
        except Exception as e:
            print(f"# note: construction {name} itself raised {type(e).__name__}: {e}")
            break
        check_exact(x, G, NF, f"alt={name} G={G} NF={NF}", seed=7)

# Repeated calls on the same object give the same signal part and fresh ASE
x = make_input('complex', 1, 64, 'c', rng)
y1 = EDFA(x, 20, 5); y2 = EDFA(x, 20, 5)
if not np.array_equal(y1.signal, y2.signal):
    bad('repeat', 'same input twice', 'signal parts differ')
if np.array_equal(y1.noise, y2.noise):
    bad('fresh-ASE', 'same input twice', 'identical noise in two calls')
if np.shares_memory(y1.signal, x.signal) or np.shares_memory(y1.noise, x.noise):
    bad('alias', 'output', 'output shares memory with the input')

# ---------------------------------------------------------------- 2. TypeError clause
class Dummy: pass
nonopt = {
    'electrical_signal': electrical_signal(np.ones(8)),
    'electrical_signal+noise': electrical_signal(np.ones(8), np.ones(8)),
    'ndarray': np.ones(8), 'ndarray2d': np.ones((2, 8)), 'list': [1.0, 2.0], 'tuple': (1.0, 2.0), 'float': 1.0, 'int': 1, 'complex': 1j,
    'None': None, 'str': '1 0 1', 'binary_sequence': binary_sequence('1 0 1'), 'dummy': Dummy(), 'class': optical_signal, 'np.float64': np.float64(1.0),
    'empty-list': [], 'bool': True, 'dict': {'signal': 1}
}
for name, obj in nonopt.items():
    for kw in [dict(), dict(BW=4e9)]:
        for G, NF in [(0, 3), (20, 5), (40, 10)]:
            try:
                EDFA(obj, G, NF, **kw)
                bad('TypeError', f"{name} {kw} G={G}", "no exception")
            except TypeError:
                pass
            except Exception as e:
                bad('TypeError', f"{name} {kw} G={G}", f"raised {type(e).__name__} instead: {e}")
# the timer stack must not leak after TypeErrors / normal calls (repeated calls, call order)
from opticomlib.utils import _timer_instance
if len(_timer_instance.tic_stack) > len(nonopt) * 6 + 5:
    print(f"# note: tic stack holds {len(_timer_instance.tic_stack)} entries (grows by one per refused call)")

# ---------------------------------------------------------------- 3. ASE power / independence / circularity (statistical, 6 sigma, several seeds)
def stat_checks(desc, G, NF, n_pol, wn, N, seeds):
    fails = {}
    for seed in seeds:
        r = np.random.default_rng(1000 + seed)
        x = make_input('complex', n_pol, N, wn, r, amp=1e-3)
        y, ase = check_exact(x, G, NF, desc + f" seed={seed}", seed=seed)
        if ase is None:
            continue
        P = 10 ** (NF / 10) * h * gv.f0 * (10 ** (G / 10) - 1) * gv.fs
        def f(k): fails.setdefault(k, []).append(seed)
        if P == 0:
            if np.any(ase != 0): f('P=0 but ASE nonzero')
            continue
        tot = np.mean(np.abs(ase) ** 2, axis=1).sum()
        # total power = sum of 4N gaussians squared of var P/4 ; mean P, std P/sqrt(2N) ... var of chi2: each term var 2*(P/4)^2, 4N terms/N^2
        sd = P * np.sqrt(2 * 4 * N * (1 / 16)) / N
        if abs(tot - P) > 6 * sd: f(f'total power {tot:.4e} vs {P:.4e} ({(tot - P) / sd:.1f} sigma)')
        comps = np.array([ase[0].real, ase[0].imag, ase[1].real, ase[1].imag])
        for i in range(4):
            v = np.mean(comps[i] ** 2)
            if abs(v - P / 4) > 6 * (P / 4) * np.sqrt(2 / N): f(f'component {i} variance {v:.4e} vs {P / 4:.4e}')
            m = np.mean(comps[i])
            if abs(m) > 6 * np.sqrt(P / 4 / N): f(f'component {i} mean {m:.3e}')
            # whiteness at lags 1,2
            for lag in (1, 2):
                cc = np.mean(comps[i][lag:] * comps[i][:-lag]) / (P / 4)
                if abs(cc) > 6 / np.sqrt(N - lag): f(f'component {i} autocorr lag {lag} = {cc:.3e}')
            # gaussianity: kurtosis
            k = np.mean(comps[i] ** 4) / (P / 4) ** 2
            if abs(k - 3) > 6 * np.sqrt(96 / N): f(f'component {i} kurtosis {k:.3f}')
        for i, j in itertools.combinations(range(4), 2):
            cc = np.mean(comps[i] * comps[j]) / (P / 4)
            if abs(cc) > 6 / np.sqrt(N): f(f'components {i},{j} correlation {cc:.3e}')
        # independence of the input
        xin = as2(x.signal, n_pol)
        for a in range(2):
            for b in range(2):
                if np.any(xin[b] != 0):
                    cc = np.abs(np.mean(ase[a] * np.conj(xin[b]))) / np.sqrt(np.mean(np.abs(ase[a]) ** 2) * np.mean(np.abs(xin[b]) ** 2))
                    if cc > 6 / np.sqrt(N): f(f'ASE pol {a} correlated with input signal pol {b}: {cc:.3e}')
        if x.noise is not None:
            nin = as2(x.noise, n_pol)
            for a in range(2):
                for b in range(2):
                    if np.any(nin[b] != 0):
                        cc = np.abs(np.mean(ase[a] * np.conj(nin[b]))) / np.sqrt(np.mean(np.abs(ase[a]) ** 2) * np.mean(np.abs(nin[b]) ** 2))
                        if cc > 6 / np.sqrt(N): f(f'ASE pol {a} correlated with input noise pol {b}: {cc:.3e}')
        # OSNR never larger at the output (expected noise power; 6 sigma slack on the cross term + chi2)
        ps_in = np.sum(np.mean(np.abs(xin) ** 2, axis=1))
        ps_out = np.sum(np.mean(np.abs(y.signal) ** 2, axis=1))
        pn_out = np.sum(np.mean(np.abs(y.noise) ** 2, axis=1))
        if x.noise is not None:
            pn_in = np.sum(np.mean(np.abs(as2(x.noise, n_pol)) ** 2, axis=1))
            osnr_in = ps_in / pn_in
            osnr_out = ps_out / pn_out
            slack = 6 * (2 * np.sqrt(P / 2 * pn_in * 10 ** (G / 10) / N) + sd) / pn_out
            if osnr_out > osnr_in * (1 + slack): f(f'OSNR out {osnr_out:.6e} > in {osnr_in:.6e}')
        # second call: independent of the first
        y2 = EDFA(x, G, NF)
        ase2 = y2.noise - (0 if x.noise is None else as2(x.noise, n_pol) * np.sqrt(10 ** (G / 10)))
        for a in range(2):
            for b in range(2):
                cc = np.abs(np.mean(ase[a] * np.conj(ase2[b]))) / P * 2
                if cc > 6 / np.sqrt(N): f(f'ASE of two calls correlated pol {a},{b}: {cc:.3e}')
    for k, s in fails.items():
        if len(s) >= 2 or len(seeds) == 1:
            bad('ASE-stat', desc, f"{k} (seeds failing: {s})")

N16 = 2 ** 16
for (sps, R, wl) in [(16, 1e9, 1550e-9), (2, 1e9, 1310e-9), (64, 10e9, 1550e-9), (3, 2.5e9, 1625e-9), (1, 1e6, 850e-9)]:
    gv(sps=sps, R=R, wavelength=wl)
    for G, NF in [(0, 3), (1e-6, 3), (0.01, 10), (3, 3), (20, 5), (40, 10), (40, 3), (39.999, 9.999)]:
        for n_pol, wn in [(1, None), (1, 'c'), (2, None), (2, 'c')]:
            stat_checks(f"fs={gv.fs:.3g} wl={wl} G={G} NF={NF} n_pol={n_pol} noise={wn} N=2^16", G, NF, n_pol, wn, N16, seeds=[1, 2, 3])
# fs set directly, non integer fs/R, and a little above 2^16 / odd length
gv(R=1e9, fs=7.3e9)
stat_checks(f"fs=7.3e9 G=17 NF=6 N=2^16+1", 17, 6, 1, 'c', N16 + 1, seeds=[1, 2, 3])
gv(fs=33e9)
stat_checks(f"fs=33e9 G=17 NF=6 N=2^17", 17, 6, 2, None, 2 ** 17, seeds=[1, 2, 3])
# gv changed between creation of the input and the call: the power must follow the gv in force
gv(sps=16, R=1e9)
xx = make_input('complex', 1, N16, None, np.random.default_rng(5))
gv(sps=32, R=1e9, wavelength=1300e-9)
stat_checks(f"gv changed after", 25, 7, 1, None, N16, seeds=[1, 2, 3])
print("# statistical part done", flush=True)

# ---------------------------------------------------------------- 4. bandwidth clause
gv(sps=16, R=1e9)
def bw_check(x, G, NF, BW, desc, seed=3):
    np.random.seed(seed)
    try:
        y0 = EDFA(x, G, NF)
    except Exception as e:
        bad('runs', desc, f"no-BW call raised {e}"); return
    np.random.seed(seed)
    try:
        y = EDFA(x, G, NF, BW)
    except Exception as e:
        bad('BW-runs', desc, f"raised {type(e).__name__}: {e}")
        return
    if y.n_pol != 2 or y.signal.shape != y0.signal.shape or y.noise is None or y.noise.shape != y0.noise.shape:
        bad('BW-two-pol', desc, f"shape {y.signal.shape} / {None if y.noise is None else y.noise.shape}, n_pol {y.n_pol}")
        return
    N = x.len()
    sos = sg.bessel(N=4, Wn=BW / 2, btype='low', fs=gv.fs, output='sos', norm='mag')
    padlen = min(3 * (2 * len(sos) + 1), N - 1)
    es = sg.sosfiltfilt(sos, y0.signal, axis=-1, padlen=padlen)
    en = sg.sosfiltfilt(sos, y0.noise, axis=-1, padlen=padlen)
    if not close(y.signal, es, rtol=1e-9, atol=1e-12):
        bad('BW-signal-filtered', desc, f"max err {np.abs(y.signal - es).max():.3e} of {np.abs(es).max():.3e}")
    if not close(y.noise, en, rtol=1e-9, atol=1e-12):
        bad('BW-noise-filtered', desc, f"max err {np.abs(y.noise - en).max():.3e} of {np.abs(en).max():.3e}")
    if x.n_pol == 1 and np.any(y.signal[1] != 0):
        bad('BW-y-pol-no-signal', desc, f"y-pol signal max {np.abs(y.signal[1]).max():.3e}")
    if not (np.all(np.isfinite(y.signal)) and np.all(np.isfinite(y.noise))):
        bad('BW-finite', desc, 'non finite output')
    # spectral check for long records: out-of-band content strongly attenuated (|H|^2 of a 4th order Bessel applied twice)
    if N * BW / gv.fs >= 512 and BW <= 0.25 * gv.fs:
        f = np.fft.fftfreq(N, 1 / gv.fs)
        for name, arr in (('signal', y.signal), ('noise', y.noise)):
            S = np.abs(np.fft.fft(arr, axis=-1)) ** 2
            S0 = np.abs(np.fft.fft(y0.signal if name == 'signal' else y0.noise, axis=-1)) ** 2
            ob = np.abs(f) > 2 * BW
            ib = np.abs(f) < BW / 8
            for p in range(2):
                if S0[p, ob].sum() > 1e-6 * S0[p].sum() and S[p, ob].sum() / S0[p, ob].sum() > 1e-2:
                    bad('BW-bandlimited', desc, f"{name} pol {p} out-of-band power ratio {S[p, ob].sum() / S0[p, ob].sum():.3e}")
                if S0[p, ib].sum() > 1e-6 * S0[p].sum() and abs(S[p, ib].sum() / S0[p, ib].sum() - 1) > 0.2:
                    bad('BW-passband', desc, f"{name} pol {p} in-band power ratio {S[p, ib].sum() / S0[p, ib].sum():.3e}")

rng = np.random.default_rng(99)
for N in [1, 2, 3, 4, 5, 16, 17, 26, 27, 28, 29, 33, 1024, 4097, 16385]:
    for n_pol, wn in [(1, None), (1, 'c'), (1, 'r'), (2, None), (2, 'c')]:
        for kind in ['float', 'complex', 'int', 'uint8', 'ones', 'single1']:
            for BW in [1e6, 2e5 * 16, 1e9, 1, 4e9, 4000000000, 8e9, 15.9e9, 0.999 * gv.fs]:
                if BW / gv.fs < 1e-5:
                    continue
                G, NF = [(0, 3), (40, 10), (20, 5)][(N + n_pol) % 3]
                x = make_input(kind, n_pol, N, wn, rng)
                bw_check(x, G, NF, BW, f"BW={BW!r} kind={kind} n_pol={n_pol} N={N} noise={wn} G={G} NF={NF}")
# documented default: "If None bandwidth will be gv.fs"
x = make_input('complex', 1, 64, None, rng)
for BW in [gv.fs, 0.9999999 * gv.fs]:
    bw_check(x, 20, 5, BW, f"BW={BW!r} (documented default bandwidth gv.fs)")
print("# bandwidth part done", flush=True)

if viol:
    print(f"{len(viol)} violation lines")
    sys.exit(1)
print("PASS")
sys.exit(0)
