# EDFA(x, G, NF, BW) with BW equal to the documented default bandwidth gv.fs (or above it) raises ValueError
import sys, os
if sys.path and os.path.abspath(sys.path[0] or '.') == os.path.dirname(os.path.abspath(__file__)): del sys.path[0]
import numpy as np
from opticomlib import gv, optical_signal
from opticomlib.devices import EDFA
gv(sps=16, R=1e9)                         # fs = 16e9
x = optical_signal(1e-3 * np.ones(64))
y = EDFA(x, 20, 5, BW=0.999 * gv.fs)      # just inside: fine
try:
    y = EDFA(x, 20, 5, BW=gv.fs)          # docstring: "If None bandwidth will be gv.fs"
except Exception as e:
    print("expected: a two-polarisation output limited to the full simulated band gv.fs (same as BW=None)")
    print(f"got:      {type(e).__name__}: {e}")
    sys.exit(1)
print("ok", y.signal.shape)
