import sys, os
if sys.path and os.path.abspath(sys.path[0] or '.') == os.path.dirname(os.path.abspath(__file__)):
    del sys.path[0]
import warnings
warnings.filterwarnings('ignore')
import itertools
import numpy as np
import scipy.signal as sg
from numpy.fft import fft, fftfreq, fftshift

import opticomlib
from opticomlib import gv, electrical_signal, optical_signal, binary_sequence
from opticomlib.devices import LPF, BPF

viol = []
seen = set()
def bad(clause, desc, detail=''):
    key = (clause, desc)
    if key in seen:
        return
    seen.add(key)
    viol.append(key)
    print(f'VIOLATION [{clause}] {desc} :: {detail}', flush=True)

def tryrun(clause, desc, f):
    try:
        return f()
    except Exception as e:
        bad(clause, desc, f'raised {type(e).__name__}: {e}')
        return None

rng = np.random.default_rng(11)

ORDERS = list(range(1, 9))
CUTS = [0.0100001, 0.02, 0.1, 0.25, 0.4, 0.4499999]
FSS = [1e-3, 1.0, 3, 16e9, 1e15]
SHORT_N = [17, 18, 19, 20, 27, 28, 29, 32, 33, 65]

def setfs(fs):
    gv(sps=16, fs=fs)
    assert gv.fs == fs

def rel(a, b):
    a = np.asarray(a); b = np.asarray(b)
    s = max(np.max(np.abs(a)), np.max(np.abs(b)), 1e-300)
    return np.max(np.abs(a - b)) / s

# --------------------------------------------------------------------------
# 1. algebraic clauses on short / corner records (length, linearity, constant,
#    signal/noise independence, polarisation independence, containers)
# --------------------------------------------------------------------------
def lpf_sig(x, BW, n, fs, **k):
    return LPF(x, BW, n, fs, **k)

for fs in FSS:
    setfs(fs)
    for n in ORDERS:
        for c in CUTS:
            BW = c * fs
            for N in SHORT_N:
                tag = f'fs={fs:g} n={n} cut={c} N={N}'
                x = rng.normal(size=N); y = rng.normal(size=N)
                a, b = 2.5, -0.75
                # ---------------- LPF ndarray
                def f():
                    Fx = LPF(x, BW, n, fs); Fy = LPF(y, BW, n, fs); Fxy = LPF(a * x + b * y, BW, n, fs)
                    if not isinstance(Fx, electrical_signal):
                        bad('type', 'LPF ndarray ' + tag, type(Fx))
                    if Fx.signal.shape != (N,):
                        bad('length', 'LPF ndarray ' + tag, Fx.signal.shape)
                    if Fx.noise is not None:
                        bad('noise', 'LPF ndarray noise appears ' + tag)
                    if np.iscomplexobj(Fx.signal):
                        bad('real', 'LPF ndarray complex out ' + tag)
                    if not np.all(np.isfinite(Fx.signal)):
                        bad('finite', 'LPF ndarray ' + tag)
                    e = rel(Fxy.signal, a * Fx.signal + b * Fy.signal)
                    if not e < 1e-9:
                        bad('linear', 'LPF ndarray ' + tag, e)
                    # gv.fs default path
                    Fg = LPF(x, BW, n)
                    if not np.array_equal(Fg.signal, Fx.signal):
                        bad('fs-default', 'LPF ndarray ' + tag)
                    # container, with and without noise
                    Es = LPF(electrical_signal(x), BW, n, fs)
                    if not np.array_equal(Es.signal, Fx.signal) or Es.noise is not None:
                        bad('container', 'LPF es(x) ' + tag)
                    En = LPF(electrical_signal(x, y), BW, n, fs)
                    if En.noise is None or not np.array_equal(En.signal, Fx.signal) or not np.array_equal(En.noise, Fy.signal):
                        bad('sig/noise', 'LPF es(x,y) ' + tag)
                    if En.signal.shape != (N,) or En.noise.shape != (N,):
                        bad('length', 'LPF es(x,y) ' + tag)
                    En2 = LPF(electrical_signal(y, x), BW, n, fs)
                    if not np.array_equal(En2.signal, Fy.signal) or not np.array_equal(En2.noise, Fx.signal):
                        bad('sig/noise', 'LPF es(y,x) ' + tag)
                    # zero noise is not "no noise"
                    Ez = LPF(electrical_signal(x, np.zeros(N)), BW, n, fs)
                    if Ez.noise is None or np.any(Ez.noise != 0) or not np.array_equal(Ez.signal, Fx.signal):
                        bad('sig/noise', 'LPF es(x,0) ' + tag)
                    # constants
                    for cst in (1.0, -3.7, 1e-12, 1e12, 0.0, 1e-300, -1e300):
                        C = LPF(np.full(N, cst), BW, n, fs).signal
                        if not np.max(np.abs(C - cst)) <= 1e-9 * abs(cst):
                            bad('constant', f'LPF const={cst} ' + tag, np.max(np.abs(C - cst)))
                    C = LPF(electrical_signal(np.full(N, 2.0), np.full(N, -5.0)), BW, n, fs)
                    if not (np.allclose(C.signal, 2.0, rtol=1e-9, atol=0) and np.allclose(C.noise, -5.0, rtol=1e-9, atol=0)):
                        bad('constant', 'LPF es const ' + tag)
                    # retH: shape and value
                    out, H = LPF(x, BW, n, fs, retH=True)
                    if not np.array_equal(out.signal, Fx.signal):
                        bad('retH', 'LPF retH output differs ' + tag)
                    fgrid = fftshift(fftfreq(N, 1 / fs))
                    sos = sg.bessel(n, BW, 'low', fs=fs, output='sos', norm='mag')
                    _, Href = sg.sosfreqz(sos, worN=2 * np.pi * fgrid / fs)
                    if H.shape != (N,) or not rel(H, Href) < 1e-9:
                        bad('retH', 'LPF retH grid/value ' + tag, H.shape)
                    out2, H2 = LPF(electrical_signal(x, y), BW, n, fs, retH=True)
                    if not np.array_equal(H2, H) or not np.array_equal(out2.noise, Fy.signal):
                        bad('retH', 'LPF retH container ' + tag)
                tryrun('exception', 'LPF ' + tag, f)

                # ---------------- BPF (cutoff = BW/2)
                BWb = 2 * BW
                xs = rng.normal(size=(2, N)) + 1j * rng.normal(size=(2, N))
                ys = rng.normal(size=(2, N)) + 1j * rng.normal(size=(2, N))
                ac, bc = 1.5 - 2j, -0.3 + 0.9j
                def g():
                    P0 = BPF(optical_signal(xs[0]), BWb, n); P1 = BPF(optical_signal(xs[1]), BWb, n)
                    Q0 = BPF(optical_signal(ys[0]), BWb, n); Q1 = BPF(optical_signal(ys[1]), BWb, n)
                    if P0.signal.shape != (N,) or P0.noise is not None or P0.n_pol != 1:
                        bad('length', 'BPF 1pol ' + tag, P0.signal.shape)
                    L = BPF(optical_signal(ac * xs[0] + bc * ys[0]), BWb, n)
                    e = rel(L.signal, ac * P0.signal + bc * Q0.signal)
                    if not e < 1e-9:
                        bad('linear', 'BPF 1pol ' + tag, e)
                    # real/imag independence (real coefficients)
                    R = BPF(optical_signal(xs[0].real + 0j), BWb, n)
                    if not rel(R.signal, P0.signal.real) < 1e-12 or np.max(np.abs(R.signal.imag)) != 0:
                        bad('linear', 'BPF real part ' + tag)
                    T = BPF(optical_signal(xs), BWb, n)
                    if T.signal.shape != (2, N) or T.n_pol != 2 or T.noise is not None:
                        bad('length', 'BPF 2pol ' + tag, T.signal.shape)
                    if not (np.array_equal(T.signal[0], P0.signal) and np.array_equal(T.signal[1], P1.signal)):
                        bad('polarisation', 'BPF 2pol vs 1pol ' + tag)
                    Tn = BPF(optical_signal(xs, ys), BWb, n)
                    if Tn.noise is None or Tn.noise.shape != (2, N) or not (np.array_equal(Tn.signal, T.signal) and np.array_equal(Tn.noise[0], Q0.signal) and np.array_equal(Tn.noise[1], Q1.signal)):
                        bad('sig/noise', 'BPF 2pol noise ' + tag)
                    Pn = BPF(optical_signal(xs[0], ys[1]), BWb, n)
                    if Pn.noise is None or not (np.array_equal(Pn.signal, P0.signal) and np.array_equal(Pn.noise, Q1.signal)):
                        bad('sig/noise', 'BPF 1pol noise ' + tag)
                    # n_pol=2 duplication of a 1D input
                    D = BPF(optical_signal(xs[0], n_pol=2), BWb, n)
                    if D.signal.shape != (2, N) or not (np.array_equal(D.signal[0], P0.signal) and np.array_equal(D.signal[1], P0.signal)):
                        bad('polarisation', 'BPF n_pol=2 dup ' + tag)
                    # y-pol exactly zero stays exactly zero
                    Z = BPF(optical_signal(np.array([xs[0], np.zeros(N)])), BWb, n)
                    if np.any(Z.signal[1] != 0) or not np.array_equal(Z.signal[0], P0.signal):
                        bad('polarisation', 'BPF zero y ' + tag)
                    for cst in (1.0 + 0j, -2 + 3j, 1e-9j):
                        C = BPF(optical_signal(np.full((2, N), cst), np.full((2, N), 2 * cst)), BWb, n)
                        if not (np.max(np.abs(C.signal - cst)) <= 1e-9 * abs(cst) and np.max(np.abs(C.noise - 2 * cst)) <= 2e-9 * abs(cst)):
                            bad('constant', f'BPF const={cst} ' + tag)
                    if not np.all(np.isfinite(T.signal)):
                        bad('finite', 'BPF ' + tag)
                tryrun('exception', 'BPF ' + tag, g)

# default order n=4 equals explicit n=4; keyword forms; int arguments
setfs(100.0)
x = rng.normal(size=40)
def h():
    if not np.array_equal(LPF(x, 10.0).signal, LPF(x, 10.0, 4, 100.0).signal): bad('default', 'LPF n default')
    if not np.array_equal(LPF(x, 10).signal, LPF(x, 10.0).signal): bad('int-arg', 'LPF BW int')
    if not np.array_equal(LPF(x, 10, fs=100).signal, LPF(x, 10.0).signal): bad('int-arg', 'LPF fs int')
    if not np.array_equal(LPF(input=x, BW=10.0, n=4, fs=100.0, retH=False).signal, LPF(x, 10.0).signal): bad('kw', 'LPF keywords')
    if not np.array_equal(LPF(x, np.float64(10.0), np.int64(4), np.float64(100.0)).signal, LPF(x, 10.0).signal): bad('np-arg', 'LPF numpy scalars')
    o = optical_signal(x + 1j * x[::-1])
    if not np.array_equal(BPF(o, 20.0).signal, BPF(o, 20.0, 4).signal): bad('default', 'BPF n default')
    if not np.array_equal(BPF(o, 20).signal, BPF(o, 20.0).signal): bad('int-arg', 'BPF BW int')
    # fs given differs from gv.fs -> given fs rules
    if not np.array_equal(LPF(x, 10.0, 4, 50.0).signal, sg.sosfiltfilt(sg.bessel(4, 10.0, fs=50.0, output='sos', norm='mag'), x, padlen=15)): bad('fs', 'LPF explicit fs')
    # repeated calls / call order and no mutation of the input
    x0 = x.copy(); e = electrical_signal(x, x[::-1]); s0, n0 = e.signal.copy(), e.noise.copy()
    r1 = LPF(e, 10.0); r2 = LPF(e, 10.0); LPF(x, 10.0)
    if not (np.array_equal(r1.signal, r2.signal) and np.array_equal(r1.noise, r2.noise)): bad('repeat', 'LPF repeated call')
    if not (np.array_equal(x, x0) and np.array_equal(e.signal, s0) and np.array_equal(e.noise, n0)): bad('mutation', 'LPF mutates input')
    o2 = optical_signal(np.array([x + 1j, 1j * x]), np.array([x, x]) + 0j); s0, n0 = o2.signal.copy(), o2.noise.copy()
    r1 = BPF(o2, 20.0); r2 = BPF(o2, 20.0)
    if not (np.array_equal(r1.signal, r2.signal) and np.array_equal(r1.noise, r2.noise)): bad('repeat', 'BPF repeated call')
    if not (np.array_equal(o2.signal, s0) and np.array_equal(o2.noise, n0)): bad('mutation', 'BPF mutates input')
    if r1.signal is o2.signal or np.shares_memory(r1.signal, o2.signal): bad('mutation', 'BPF aliases')
tryrun('exception', 'misc', h)

# container / dtype variety (real-valued data in every accepted container type)
def k():
    for N in (17, 18, 33):
        base = rng.integers(0, 2, size=N)
        base[0] = 1; base[-1] = 0
        ref = LPF(base.astype(float), 10.0, 4, 100.0).signal
        variants = {
            'int64': base.astype(np.int64), 'int32': base.astype(np.int32), 'int8': base.astype(np.int8),
            'uint8': base.astype(np.uint8), 'uint16': base.astype(np.uint16), 'uint64': base.astype(np.uint64), 'bool': base.astype(bool),
            'float32': base.astype(np.float32), 'float16': base.astype(np.float16), 'complex': base.astype(complex),
            'complex64': base.astype(np.complex64), 'longdouble': base.astype(np.longdouble),
            'strided': np.repeat(base.astype(float), 2)[::2], 'reversed-view': base[::-1].astype(float)[::-1], 'fortran': np.asfortranarray(base.astype(float)),
        }
        for nm, v in variants.items():
            for form in ('ndarray', 'es', 'es+noise'):
                tag = f'{nm} {form} N={N}'
                def q():
                    if form == 'ndarray':
                        r = LPF(v, 10.0, 4, 100.0)
                    elif form == 'es':
                        r = LPF(electrical_signal(v), 10.0, 4, 100.0)
                    else:
                        r = LPF(electrical_signal(v, v), 10.0, 4, 100.0)
                        if not rel(r.noise, ref) < 1e-6: bad('container', 'LPF noise ' + tag, rel(r.noise, ref))
                    if r.signal.shape != (N,) or not rel(r.signal, ref) < 1e-6:
                        bad('container', 'LPF ' + tag, rel(r.signal, ref))
                tryrun('exception', 'LPF ' + tag, q)
        # strings and binary_sequence slots inside an electrical_signal
        txt = ' '.join(str(b) for b in base)
        for nm, mk in (('str', lambda: electrical_signal(txt)), ('str,comma', lambda: electrical_signal(txt.replace(' ', ','))),
                       ('list', lambda: electrical_signal(list(base))), ('tuple-float', lambda: electrical_signal(tuple(float(b) for b in base))),
                       ('binseq.data', lambda: electrical_signal(binary_sequence(base).data)),
                       ('str+str noise', lambda: electrical_signal(txt, txt))):
            def q():
                r = LPF(mk(), 10.0, 4, 100.0)
                if r.signal.shape != (N,) or not rel(r.signal, ref) < 1e-12: bad('container', f'LPF {nm} N={N}', rel(r.signal, ref))
                if r.noise is not None and not rel(r.noise, ref) < 1e-12: bad('container', f'LPF noise {nm} N={N}')
            tryrun('exception', f'LPF {nm} N={N}', q)
        # mixed dtypes signal/noise
        for ds, dn in itertools.product((np.uint8, np.int64, np.float32, float, complex), repeat=2):
            def q():
                r = LPF(electrical_signal(base.astype(ds), (1 - base).astype(dn)), 10.0, 4, 100.0)
                r2 = LPF((1 - base).astype(float), 10.0, 4, 100.0).signal
                if not (rel(r.signal, ref) < 1e-6 and rel(r.noise, r2) < 1e-6): bad('container', f'LPF mixed {ds.__name__}/{dn.__name__} N={N}')
            tryrun('exception', f'LPF mixed {ds.__name__}/{dn.__name__} N={N}', q)
        # BPF dtypes: complex128, complex64, complex string
        zc = base + 1j * (1 - base)
        setfs(100.0)
        refb = BPF(optical_signal(zc.astype(complex)), 20.0).signal
        for nm, mk in (('c64', lambda: optical_signal(zc.astype(np.complex64))), ('c64 2pol', lambda: optical_signal(np.array([zc, zc]).astype(np.complex64))),
                       ('list', lambda: optical_signal(list(zc))), ('list2', lambda: optical_signal([list(zc), list(zc)])),
                       ('str', lambda: optical_signal(','.join(f'{int(z.real)}+{int(z.imag)}j' for z in zc))),
                       ('row', lambda: optical_signal(zc[None, :], n_pol=1)), ('c64+noise128', lambda: optical_signal(zc.astype(np.complex64), zc)),
                       ('sig c128 + noise float', lambda: optical_signal(zc, base.astype(float))),
                       ('clongdouble', lambda: optical_signal(zc.astype(np.clongdouble))),
                       ('copy()', lambda: optical_signal(np.array([zc, zc])).copy()), ('sliced', lambda: optical_signal(np.array([np.r_[zc, 0], np.r_[zc, 0]]))[:N]),
                       ('apply', lambda: optical_signal(np.array([zc, zc]) / 2).apply(lambda v: 2 * v)), ('w->t', lambda: optical_signal(np.array([zc, zc]))('w')('t')),
                       ('sum', lambda: optical_signal(np.array([zc, zc]) - 1) + 1), ('prod', lambda: 2 * optical_signal(zc / 2, n_pol=2)),
                       ('1pol copy', lambda: optical_signal(zc).copy()), ('1pol sum', lambda: optical_signal(zc - 1) + 1)):
            def q():
                r = BPF(mk(), 20.0)
                s = r.signal if r.signal.ndim == 1 else r.signal[0]
                if s.shape != (N,) or not rel(s, refb) < 1e-6: bad('container', f'BPF {nm} N={N}', rel(s, refb))
                if r.signal.ndim == 2 and not np.array_equal(r.signal[0], r.signal[1]): bad('polarisation', f'BPF {nm} N={N}')
            tryrun('exception', f'BPF {nm} N={N}', q)
tryrun('exception', 'containers', k)

# extreme composition on short records: single 1 in zeros / single 0 in ones at every position: linearity => sum of impulse responses = const
def m():
    for N in (17, 18, 21):
        for n in (1, 4, 7, 8):
            for c in (0.0100001, 0.2, 0.4499999):
                acc = np.zeros(N)
                for p in range(N):
                    d = np.zeros(N); d[p] = 1
                    r = LPF(d, c, n, 1.0).signal
                    r0 = LPF(1 - d, c, n, 1.0).signal
                    if not np.max(np.abs(r + r0 - 1)) < 1e-9: bad('linear', f'LPF impulse complement N={N} n={n} c={c} p={p}', np.max(np.abs(r + r0 - 1)))
                    acc += r
                if not np.max(np.abs(acc - 1)) < 1e-9: bad('constant', f'LPF sum of impulses N={N} n={n} c={c}', np.max(np.abs(acc - 1)))
tryrun('exception', 'impulses', m)

# --------------------------------------------------------------------------
# 2. frequency-domain clauses on long records, away from the edges
# --------------------------------------------------------------------------
def tone_gain(F, f, fs, N, cplx):
    t = np.arange(N) / fs
    x = np.exp(2j * np.pi * f * t) if cplx else np.cos(2 * np.pi * f * t)
    y = F(x)
    mid = slice(N // 2 - N // 8, N // 2 + N // 8)
    # complex gain by least squares on the middle of the record
    if cplx:
        g = np.vdot(x[mid], y[mid]) / np.vdot(x[mid], x[mid])
        res = np.max(np.abs(y[mid] - g * x[mid]))
    else:
        A = np.stack([np.cos(2 * np.pi * f * t[mid]), np.sin(2 * np.pi * f * t[mid])], 1)
        co, *_ = np.linalg.lstsq(A, y[mid], rcond=None)
        g = co[0] - 1j * co[1]
        res = np.max(np.abs(y[mid] - A @ co))
    pin = np.mean(np.abs(x[mid]) ** 2); pout = np.mean(np.abs(y[mid]) ** 2)
    return g, res, pin, pout

def freq_clauses(kind, fs, n, c, N):
    cut = c * fs
    if kind == 'LPF':
        F = lambda x: LPF(x, cut, n, fs).signal
        Fc = lambda x: LPF(electrical_signal(x * 0 + 1, x), cut, n, fs).noise  # noise path
        cplx = False
    elif kind == 'BPF1':
        setfs(fs)
        F = lambda x: BPF(optical_signal(x), 2 * cut, n).signal
        Fc = lambda x: BPF(optical_signal(np.array([0 * x, x]), np.array([x, 0 * x])), 2 * cut, n).noise[0]
        cplx = True
    tag = f'{kind} fs={fs:g} n={n} cut={c} N={N}'
    # cutoff: -6.0 dB, zero phase
    for sgn in ((1,) if not cplx else (1, -1)):
        for FF, nm in ((F, 'signal'), (Fc, 'noise/other pol')):
            g, res, pin, pout = tone_gain(FF, sgn * cut, fs, N, cplx)
            dB = 20 * np.log10(abs(g))
            if not abs(dB + 6.0) < 0.05: bad('-6dB', f'{tag} {nm} sgn={sgn}', f'{dB:.4f} dB')
            if not abs(np.angle(g)) < 1e-3: bad('zero-phase', f'{tag} {nm} sgn={sgn} at cutoff', np.angle(g))
            if not res < 1e-4: bad('tone-stationary', f'{tag} {nm} sgn={sgn} residual', res)
    # monotone attenuation, no gain > 1
    fr = np.concatenate([np.linspace(0, 0.5, 41)[1:-1] * fs, [0.999 * cut, 1.001 * cut, 0.499 * fs, 0.001 * fs]])
    fr.sort()
    gains = []
    for f in fr:
        g, res, pin, pout = tone_gain(F, f, fs, N, cplx)
        gains.append(abs(g))
        if not abs(g) <= 1 + 1e-9: bad('tone-power', f'{tag} f/fs={f / fs:.4f}', abs(g))
        if not pout <= pin * (1 + 1e-6): bad('tone-power', f'{tag} f/fs={f / fs:.4f} midpower', pout / pin)
        if abs(g) > 1e-4 and not abs(np.angle(g)) < 2e-3: bad('zero-phase', f'{tag} f/fs={f / fs:.4f}', np.angle(g))
    gains = np.array(gains)
    d = np.diff(gains)
    if np.any(d > 1e-6): bad('monotone', tag, f'max rise {d.max():.3g} at f/fs={fr[1:][np.argmax(d)] / fs:.4f}')
    # retH on the grid: |H|^2 equals the two-pass gain, H(0)=1, |H(cut)| = -3 dB
    if kind == 'LPF':
        _, H = LPF(np.zeros(N) + 1.0, cut, n, fs, retH=True)
        fg = fftshift(fftfreq(N, 1 / fs))
        i0 = np.argmin(np.abs(fg))
        if fg[i0] != 0 or not abs(H[i0] - 1) < 1e-9: bad('retH', f'{tag} H(0)', H[i0])
        for f, ga in zip(fr, gains):
            i = np.argmin(np.abs(fg - f))
            g, *_ = tone_gain(F, fg[i], fs, N, cplx)
            if not abs(abs(H[i]) ** 2 - abs(g)) < 2e-4: bad('retH', f'{tag} |H|^2 vs two-pass gain f/fs={fg[i] / fs:.4f}', (abs(H[i]) ** 2, abs(g)))
            j = np.argmin(np.abs(fg + f))
            if not abs(H[j] - np.conj(H[i])) < 1e-6 * max(abs(H[i]), 1e-12) + 1e-12 and abs(fg[j] + fg[i]) < 1e-9 * fs: bad('retH', f'{tag} hermitian')
        Hc = np.interp(cut, fg, np.abs(H))
        if not abs(20 * np.log10(Hc) + 3.0103) < 0.05: bad('retH', f'{tag} |H(cut)|', 20 * np.log10(Hc))
    # symmetric pulse -> symmetric response about the same instant (odd and even symmetric pulses)
    for width, even in ((1, False), (5, False), (4, True), (2, True), (64, True), (65, False)):
        Np = N
        x = np.zeros(Np)
        c0 = Np // 2
        if even:
            x[c0 - width // 2: c0 + width // 2] = 1; centre2 = 2 * c0 - 1   # symmetric about c0 - 0.5
        else:
            x[c0 - width // 2: c0 + width // 2 + 1] = 1; centre2 = 2 * c0
        xx = x * (1 + 0.5j) if cplx else x
        y = F(xx)
        K = N // 4
        idx = np.arange(-K, K + 1)
        left = y[(centre2 - (centre2 // 2 + idx) )]
        right = y[centre2 // 2 + idx]
        if not np.max(np.abs(left - right)) < 1e-6 * np.max(np.abs(y)): bad('zero-delay', f'{tag} pulse width={width}', np.max(np.abs(left - right)))
        w8 = np.abs(y) ** 2
        cen = np.sum(np.arange(Np) * w8) / np.sum(w8)   # energy centroid: the instant of the response
        if not abs(cen - centre2 / 2) < 1e-6: bad('zero-delay', f'{tag} pulse width={width} centroid', f'{cen} vs {centre2 / 2}')

for kind in ('LPF', 'BPF1'):
    for fs in (1.0, 16e9):
        for n in ORDERS:
            for c in (0.0100001, 0.013, 0.05, 0.125, 0.25, 0.37, 0.4499999):
                for N in (4096, 4095):
                    if N == 4095 and c not in (0.0100001, 0.25, 0.4499999):
                        continue
                    tryrun('exception', f'freq {kind} fs={fs:g} n={n} c={c} N={N}', lambda: freq_clauses(kind, fs, n, c, N))

# random sampled (fs, cutoff, order) for -6 dB and monotonicity
for i in range(40):
    fs = 10 ** rng.uniform(-3, 15); c = rng.uniform(0.01, 0.45); n = int(rng.integers(1, 9)); kind = ('LPF', 'BPF1')[i % 2]
    tryrun('exception', f'freq sampled {kind} fs={fs:g} n={n} c={c}', lambda: freq_clauses(kind, fs, n, c, 4096 + (i % 3)))

if viol:
    print(f'{len(viol)} violation(s)')
    sys.exit(1)
print('PASS')
sys.exit(0)
