"""Audit of property C12 (PPM encode/decode bijection; HDD/SDD emit valid codewords).

Prints one line per violated (clause, input); exits 1 if any clause is violated, else prints PASS.
"""
import sys
del sys.path[0]

import itertools
import warnings
import numpy as np

warnings.filterwarnings('ignore')

import opticomlib
from opticomlib.ppm import PPM_ENCODER, PPM_DECODER, HDD, SDD
from opticomlib.devices import DAC
from opticomlib.typing import gv, binary_sequence, electrical_signal

MS = [2, 4, 8, 16, 32, 64, 128, 256]
VIOL = []
NOTES = []
SEEN = {}


def viol(clause, desc):
    n = SEEN.get(clause, 0)
    SEEN[clause] = n + 1
    if n < 8:
        line = f'VIOLATION [{clause}] {desc}'
        VIOL.append(line)
        print(line, flush=True)
    elif n == 8:
        print(f'VIOLATION [{clause}] ... further violations of this clause suppressed', flush=True)
        VIOL.append(clause)


def note(msg):
    if msg not in NOTES:
        NOTES.append(msg)
        print('NOTE (outside C12 proper):', msg, flush=True)


def ref_encode(bits, M):
    k = M.bit_length() - 1
    n = len(bits) // k
    out = np.zeros(n * M, dtype=np.uint8)
    for s in range(n):
        v = 0
        for b in bits[s * k:(s + 1) * k]:
            v = 2 * v + int(b)
        out[s * M + v] = 1
    return out


def as_u8(x):
    if isinstance(x, binary_sequence):
        x = x.data
    return np.asarray(x).astype(np.uint8)


def containers(bits):
    """every accepted container type for the same bit list (bits non-empty)"""
    a = np.array(bits, dtype=np.uint8)
    ro = a.astype(bool)
    ro.setflags(write=False)
    strided = np.repeat(a, 2)[::2]
    s = ''.join(str(int(b)) for b in bits)
    return {
        'str': s,
        'str_spaces': ' '.join(s),
        'str_commas': ','.join(s),
        'str_padded': ' ' + s + ' ',
        'list_int': [int(b) for b in bits],
        'list_bool': [bool(b) for b in bits],
        'list_npint': list(a.astype(np.int64)),
        'tuple_int': tuple(int(b) for b in bits),
        'tuple_bool': tuple(bool(b) for b in bits),
        'nd_bool': a.astype(bool),
        'nd_bool_readonly': ro,
        'nd_uint8': a.copy(),
        'nd_int8': a.astype(np.int8),
        'nd_int64': a.astype(np.int64),
        'nd_float64': a.astype(np.float64),
        'nd_float32': a.astype(np.float32),
        'nd_strided': strided,
        'binary_sequence': binary_sequence(a.copy()),
    }


def snapshot(c):
    if isinstance(c, binary_sequence):
        return c.data.copy()
    if isinstance(c, np.ndarray):
        return c.copy()
    return type(c)(c)


def same(c, snap):
    if isinstance(c, binary_sequence):
        return np.array_equal(c.data, snap) and c.data.dtype == snap.dtype
    if isinstance(c, np.ndarray):
        return np.array_equal(c, snap) and c.dtype == snap.dtype
    return c == snap


# ---------------------------------------------------------------------------------------------
# E: encoder / decoder
# ---------------------------------------------------------------------------------------------
def check_encdec(inp, bits, M, tag):
    k = M.bit_length() - 1
    exp = ref_encode(bits, M)
    trunc = np.array(bits[:len(bits) // k * k], dtype=np.uint8)
    snap = snapshot(inp)
    try:
        e = PPM_ENCODER(inp, M)
    except Exception as ex:
        viol('E-enc-raises', f'{tag} M={M} bits={bits!r}: {type(ex).__name__}: {ex}')
        return
    if not isinstance(e, binary_sequence):
        viol('E-enc-type', f'{tag} M={M}: returned {type(e).__name__}')
        return
    ed = as_u8(e)
    if ed.size != exp.size:
        viol('E-enc-length', f'{tag} M={M} bits={bits!r}: {ed.size} slots, expected {exp.size}')
        return
    if ed.size and not np.all(ed.reshape(-1, M).sum(axis=1) == 1):
        viol('E-enc-one-ON-per-block', f'{tag} M={M} bits={bits!r}: {ed}')
    if not np.array_equal(ed, exp):
        viol('E-enc-position-big-endian', f'{tag} M={M} bits={bits!r}: got ON at {np.flatnonzero(ed)}, expected {np.flatnonzero(exp)}')
    if not same(inp, snap):
        viol('E-enc-mutates-input', f'{tag} M={M} bits={bits!r}')
    # decoder on the encoder's own output, and on that output in every container (done by caller for some)
    try:
        d = PPM_DECODER(e, M)
    except Exception as ex:
        viol('E-dec-raises', f'{tag} M={M} bits={bits!r}: {type(ex).__name__}: {ex}')
        return
    if not isinstance(d, binary_sequence):
        viol('E-dec-type', f'{tag} M={M}: returned {type(d).__name__}')
        return
    if not np.array_equal(as_u8(d), trunc):
        viol('E-roundtrip', f'{tag} M={M} bits={bits!r}: decoded {as_u8(d)}, expected {trunc}')


def check_decoder_containers(cw, bits_expected, M, tag):
    for name, c in containers(list(cw)).items():
        snap = snapshot(c)
        try:
            d = PPM_DECODER(c, M)
        except Exception as ex:
            viol('E-dec-container-raises', f'{tag}/{name} M={M}: {type(ex).__name__}: {ex}')
            continue
        if not np.array_equal(as_u8(d), bits_expected):
            viol('E-dec-container', f'{tag}/{name} M={M} cw={cw}: decoded {as_u8(d)} expected {bits_expected}')
        if not same(c, snap):
            viol('E-dec-mutates-input', f'{tag}/{name} M={M}')


def section_E():
    # exhaustive: every bit string of length 1..12, every M  (str container)
    for n in range(1, 13):
        for tup in itertools.product((0, 1), repeat=n):
            bits = list(tup)
            s = ''.join(map(str, bits))
            for M in MS:
                check_encdec(s, bits, M, 'exh/str')
    # every container type: exhaustive up to length 7, plus corner lengths around whole symbols
    for n in range(1, 8):
        for tup in itertools.product((0, 1), repeat=n):
            bits = list(tup)
            for M in (2, 4, 8, 256):
                for name, c in containers(bits).items():
                    check_encdec(c, bits, M, f'exh/{name}')
    rng = np.random.default_rng(12)
    for M in MS:
        k = M.bit_length() - 1
        for n in sorted({1, 2, k - 1, k, k + 1, 2 * k - 1, 2 * k, 2 * k + 1, 3 * k, 12, 7 * k + (k - 1)} - {0}):
            specials = [[0] * n, [1] * n, [1] + [0] * (n - 1), [0] * (n - 1) + [1], [0] + [1] * (n - 1), [1] * (n - 1) + [0],
                        [i % 2 for i in range(n)], [(i + 1) % 2 for i in range(n)]]
            specials += [list(rng.integers(0, 2, n)) for _ in range(3)]
            for bits in specials:
                bits = [int(b) for b in bits]
                for name, c in containers(bits).items():
                    check_encdec(c, bits, M, f'corner/{name}')
                cw = ref_encode(bits, M)
                if cw.size:
                    check_decoder_containers(cw, np.array(bits[:n // k * k], dtype=np.uint8), M, 'corner')
        # every single symbol value: first / last slot in particular
        for v in range(M):
            bits = [int(c) for c in format(v, f'0{k}b')]
            check_encdec(bits, bits, M, 'symbol')
            check_encdec(binary_sequence(bits), bits, M, 'symbol/bs')
    # long random sequences, all containers, lengths around whole symbols
    for M in MS:
        k = M.bit_length() - 1
        for seed in range(3):
            r = np.random.default_rng(1000 * M + seed)
            for n in (k * 997, k * 997 + 1, k * 997 + k - 1, 4096, 10007):
                p = (0.5, 0.02, 0.98)[seed]
                bits = [int(b) for b in (r.random(n) < p)]
                conts = containers(bits)
                for name in ('str', 'str_spaces', 'list_int', 'tuple_bool', 'nd_bool', 'nd_uint8', 'nd_float64', 'nd_strided', 'binary_sequence'):
                    check_encdec(conts[name], bits, M, f'long/{name}/n={n}')
    # numpy integer M (np.int64 is what np.log2 / array arithmetic hands back)
    for M in MS:
        bits = [1, 0, 1, 1, 0, 0, 1, 0] * 3
        try:
            e = PPM_ENCODER(bits, np.int64(M))
            d = PPM_DECODER(e, np.int64(M))
            if not np.array_equal(as_u8(e), ref_encode(bits, M)) or not np.array_equal(as_u8(d), bits[:len(bits) // (M.bit_length() - 1) * (M.bit_length() - 1)]):
                viol('E-npint-M', f'M=np.int64({M}) differs from M={M}')
        except TypeError:
            pass  # known: numpy scalar refused
        except Exception as ex:
            viol('E-npint-M', f'M=np.int64({M}): {type(ex).__name__}: {ex}')


# ---------------------------------------------------------------------------------------------
# H: hard decision decoder
# ---------------------------------------------------------------------------------------------
def check_hdd_output(inp_bits, out, M, tag):
    inp_bits = np.asarray(inp_bits).astype(np.uint8)
    if not isinstance(out, binary_sequence):
        viol('H-type', f'{tag} M={M}: returned {type(out).__name__}')
        return False
    o = as_u8(out)
    if o.size != inp_bits.size:
        viol('H-length', f'{tag} M={M} in={inp_bits}: {o.size} slots out')
        return False
    if o.size == 0:
        return True
    O = o.reshape(-1, M)
    I = inp_bits.reshape(-1, M)
    cnt = I.sum(axis=1)
    ok = True
    if not np.all(O.sum(axis=1) == 1):
        viol('H-one-ON-per-symbol', f'{tag} M={M} in={inp_bits} out={o}')
        ok = False
    if not np.array_equal(O[cnt == 1], I[cnt == 1]):
        viol('H-valid-symbol-unchanged', f'{tag} M={M} in={inp_bits} out={o}')
        ok = False
    multi = cnt > 1
    if np.any(O[multi] & ~I[multi].astype(bool)):
        viol('H-keeps-an-ON-slot', f'{tag} M={M} in={inp_bits} out={o}')
        ok = False
    return ok


def section_H():
    # exhaustive: every slot pattern of up to 16 slots for M <= 8
    for M in (2, 4, 8):
        for L in range(M, 17, M):
            for v in range(2 ** L):
                pat = np.array([(v >> (L - 1 - i)) & 1 for i in range(L)], dtype=np.uint8)
                valid = np.all(pat.reshape(-1, M).sum(axis=1) == 1)
                seeds = (0,) if valid else (0, 1, 7)
                for seed in seeds:
                    np.random.seed(seed)
                    try:
                        out = HDD(pat.astype(bool), M)
                    except Exception as ex:
                        viol('H-raises', f'M={M} pattern={pat} seed={seed}: {type(ex).__name__}: {ex}')
                        continue
                    check_hdd_output(pat, out, M, f'exh seed={seed}')
                # containers on a thinned subset (all of them for L <= 8)
                if L <= 8 or v % 257 == 0 or v in (0, 1, 2 ** L - 1, 2 ** L - 2, 2 ** (L - 1)):
                    for name, c in containers(list(pat)).items():
                        snap = snapshot(c)
                        np.random.seed(3)
                        try:
                            out = HDD(c, M)
                        except Exception as ex:
                            viol('H-container-raises', f'{name} M={M} pattern={pat}: {type(ex).__name__}: {ex}')
                            continue
                        check_hdd_output(pat, out, M, f'container {name}')
                        if not same(c, snap):
                            viol('H-mutates-input', f'{name} M={M} pattern={pat}')
                        if valid and not np.array_equal(as_u8(out), pat):
                            viol('H-identity-on-codewords', f'{name} M={M} pattern={pat} out={as_u8(out)}')
        # lengths that are not whole symbols -> ValueError
        for L in range(1, 34):
            if L % M == 0:
                continue
            for fill in (0, 1):
                pat = [fill] * L
                for name, c in containers(pat).items():
                    try:
                        out = HDD(c, M)
                        viol('H-rejects-partial-symbol', f'{name} M={M} length={L}: returned {as_u8(out)}')
                    except ValueError:
                        pass
                    except Exception as ex:
                        viol('H-rejects-partial-symbol', f'{name} M={M} length={L}: {type(ex).__name__} instead of ValueError: {ex}')
    # every M: all numpy seeds (a range of them), single symbols with 0, 1, 2, M-1, M ON slots; first/last slot
    for M in MS:
        pats = []
        z = np.zeros(M, np.uint8)
        pats.append(z.copy())
        pats.append(np.ones(M, np.uint8))
        for pos in (0, 1, M // 2, M - 2, M - 1):
            p = z.copy(); p[pos] = 1; pats.append(p)          # valid symbols
            q = np.ones(M, np.uint8); q[pos] = 0; pats.append(q)  # a single 0 in ones
        p = z.copy(); p[0] = 1; p[M - 1] = 1; pats.append(p)
        p = z.copy(); p[M - 2:] = 1; pats.append(p)
        p = z.copy(); p[:2] = 1; pats.append(p)
        seqs = list(pats) + [np.concatenate([a, b]) for a in pats[:6] for b in pats[:6]]
        for seed in range(40):
            for s in seqs:
                np.random.seed(seed)
                try:
                    out = HDD(s.copy(), M)
                except Exception as ex:
                    viol('H-raises', f'M={M} in={s} seed={seed}: {type(ex).__name__}: {ex}')
                    continue
                check_hdd_output(s, out, M, f'corner seed={seed}')
        # long random, different densities
        for seed in range(6):
            r = np.random.default_rng(seed)
            nsym = (1, 2, 3, 257, 1000, 1001)[seed]
            for p_on in (0.0, 1.0 / M, 0.5, 1.0):
                s = (r.random(nsym * M) < p_on).astype(np.uint8)
                for inp in (s.astype(bool), binary_sequence(s), ''.join(map(str, s)), list(map(int, s))):
                    np.random.seed(seed * 17 + 1)
                    try:
                        out = HDD(inp, M)
                    except Exception as ex:
                        viol('H-raises', f'M={M} nsym={nsym} p={p_on} {type(inp).__name__}: {type(ex).__name__}: {ex}')
                        continue
                    check_hdd_output(s, out, M, f'long {type(inp).__name__} nsym={nsym} p={p_on}')
            # identity on encoder output
            bits = r.integers(0, 2, nsym * (M.bit_length() - 1))
            e = PPM_ENCODER(bits, M)
            snap = e.data.copy()
            out = HDD(e, M)
            if not np.array_equal(as_u8(out), snap) or not np.array_equal(e.data, snap):
                viol('H-identity-on-codewords', f'M={M} nsym={nsym}: HDD(PPM_ENCODER(b)) != PPM_ENCODER(b)')
            if out.data is e.data:
                viol('H-aliases-input', f'M={M}: output shares the input buffer')
            if not np.array_equal(as_u8(PPM_DECODER(out, M)), bits):
                viol('H-decode-after-HDD', f'M={M} nsym={nsym}')
    # orders that are not powers of two -> ValueError
    bad_orders = [m for m in range(-8, 260) if m < 1 or (m & (m - 1))]
    for m in bad_orders:
        for L in (abs(m) if m else 4, 2 * abs(m) if m else 8, 0, 16):
            for inp in ([0] * L, '0' * L if L else [], np.zeros(L, bool), binary_sequence(np.zeros(L, np.uint8)) if L else np.zeros(0)):
                try:
                    out = HDD(inp, m)
                    viol('H-rejects-order', f'M={m} length={L} {type(inp).__name__}: returned {as_u8(out)}')
                except ValueError:
                    pass
                except Exception as ex:
                    viol('H-rejects-order', f'M={m} length={L} {type(inp).__name__}: {type(ex).__name__} instead of ValueError: {ex}')


# ---------------------------------------------------------------------------------------------
# S: soft decision decoder
# ---------------------------------------------------------------------------------------------
def check_sdd(x_arr, inp, M, sps, tag, exact=True):
    """x_arr: the total (signal+noise) samples, float array"""
    try:
        out = SDD(inp, M)
    except Exception as ex:
        viol('S-raises', f'{tag} M={M} sps={sps} n={x_arr.size}: {type(ex).__name__}: {ex}')
        return None
    if not isinstance(out, binary_sequence):
        viol('S-type', f'{tag} M={M} sps={sps}: returned {type(out).__name__}')
        return None
    o = as_u8(out)
    nslots = x_arr.size // sps
    if o.size != nslots:
        viol('S-length', f'{tag} M={M} sps={sps}: {o.size} slots for {nslots}')
        return None
    if nslots == 0:
        return o
    # independent integration: python-level exact for integer data, math.fsum otherwise
    import math
    E = np.array([math.fsum(x_arr[i * sps:(i + 1) * sps].tolist()) for i in range(nslots)]).reshape(-1, M)
    O = o.reshape(-1, M)
    if not np.all(O.sum(axis=1) == 1):
        viol('S-one-ON-per-symbol', f'{tag} M={M} sps={sps} out={o}')
        return o
    chosen = O.argmax(axis=1)
    Emax = E.max(axis=1)
    Ech = E[np.arange(E.shape[0]), chosen]
    tol = 0.0 if exact else 1e-12 * np.maximum(1.0, np.abs(E).max())
    badrow = np.flatnonzero(Ech < Emax - tol)
    if badrow.size:
        r = badrow[0]
        viol('S-largest-energy', f'{tag} M={M} sps={sps} symbol {r}: energies {E[r]} chose slot {chosen[r]}')
    return o


SPS_LIST = [1, 2, 3, 4, 5, 7, 8, 15, 16, 17, 32, 33]


def section_S():
    for sps in SPS_LIST:
        gv(sps=sps, R=1e9)
        for M in MS:
            r = np.random.default_rng(100 * sps + M)
            for nsym in (1, 2, 3, 17):
                n = nsym * M * sps
                # integer-valued data: exact sums, many ties
                xi = r.integers(-3, 4, n).astype(float)
                check_sdd(xi, electrical_signal(xi.copy()), M, sps, 'int-valued/es')
                check_sdd(xi, xi.copy(), M, sps, 'int-valued/ndarray')
                check_sdd(xi, xi.astype(np.int64), M, sps, 'int-valued/int64')
                if nsym <= 3 and n <= 3000:
                    check_sdd(xi, xi.tolist(), M, sps, 'int-valued/list')
                    check_sdd(xi, tuple(xi.tolist()), M, sps, 'int-valued/tuple')
                # signal + noise held separately
                sg_ = r.integers(0, 3, n).astype(float)
                nz = r.integers(-2, 3, n).astype(float)
                check_sdd(sg_ + nz, electrical_signal(sg_.copy(), nz.copy()), M, sps, 'signal+noise')
                # real-valued data
                xf = r.normal(0.2, 1.0, n)
                check_sdd(xf, electrical_signal(xf.copy()), M, sps, 'gaussian-valued', exact=False)
                # all equal energies (a constant record; all-zero record): any slot is a largest one, but exactly one ON
                for c in (0.0, 1.0, -1.0):
                    xc = np.full(n, c)
                    check_sdd(xc, electrical_signal(xc.copy()), M, sps, f'constant {c}')
                # the maximum is the LAST slot / the FIRST slot, by the smallest representable margin in one sample
                for pos in (0, M - 1):
                    xe = np.ones(n)
                    xe[(np.arange(nsym) * M + pos) * sps + (sps - 1)] = 1.0 + 2.0 ** -40
                    o = check_sdd(xe, electrical_signal(xe.copy()), M, sps, f'hair-above pos={pos}')
                    if o is not None and not np.all(o.reshape(-1, M).argmax(axis=1) == pos):
                        viol('S-largest-energy', f'hair-above M={M} sps={sps} pos={pos}: chose {o.reshape(-1, M).argmax(axis=1)}')
                # 0/1 data: valid codewords at sample level, bool / uint8 samples
                syms = r.integers(0, M, nsym)
                syms[0] = M - 1
                syms[-1] = 0 if nsym > 1 else M - 1
                cw = np.zeros(nsym * M, np.uint8)
                cw[np.arange(nsym) * M + syms] = 1
                wave = np.kron(cw, np.ones(sps, np.uint8))
                for inp, nm in ((wave.astype(bool), 'bool'), (wave.astype(np.uint8), 'uint8'), (wave.astype(float), 'float'),
                                (electrical_signal(wave.astype(float)), 'es'), (electrical_signal(wave.astype(bool)), 'es-bool'),
                                (electrical_signal(wave.astype(float), np.zeros(wave.size)), 'es+zero-noise')):
                    snap = inp.signal.copy() if isinstance(inp, electrical_signal) else inp.copy()
                    o = check_sdd(wave.astype(float), inp, M, sps, f'codeword/{nm}')
                    if o is not None and not np.array_equal(o, cw):
                        viol('S-identity-on-codewords', f'{nm} M={M} sps={sps} cw ON at {np.flatnonzero(cw)} out ON at {np.flatnonzero(o)}')
                    now = inp.signal if isinstance(inp, electrical_signal) else inp
                    if not np.array_equal(now, snap):
                        viol('S-mutates-input', f'{nm} M={M} sps={sps}')
                # noiseless waveforms out of the DAC
                for shape, kw in (('nrz', {}), ('rect', {}), ('rz', {}), ('gaussian', {}), ('gaussian', {'m': 2}), ('gaussian', {'m': 3, 'T': max(1, sps // 2)}),
                                  ('gaussian', {'T': 2 * sps}), ('gaussian', {'m': 4, 'T': 2 * sps})):
                    for Vout, bias in ((1.0, 0.0), (0.37, 0.11), (5, -1)):
                        try:
                            w = DAC(cw, Vout=Vout, bias=bias, pulse_shape=shape, **kw)
                        except Exception as ex:
                            note(f'DAC(pulse_shape={shape!r}) at sps={sps} raises {type(ex).__name__} (no waveform to give to SDD)')
                            continue
                        if shape == 'rz' and sps == 1:
                            note('DAC(pulse_shape="rz") at sps=1 is a constant waveform (no pulse): SDD cannot recover it')
                            continue
                        try:
                            o = as_u8(SDD(w, M))
                        except Exception as ex:
                            viol('S-raises', f'DAC {shape} {kw} M={M} sps={sps}: {type(ex).__name__}: {ex}')
                            continue
                        if not np.array_equal(o, cw):
                            if kw.get('T', sps) > sps:
                                # the pulse is wider than the slot: the waveform itself carries more energy in the OFF slot between two ON slots
                                # (SDD does pick the slot of largest energy); the DAC's half-sample late pulse at even sps tips the balance
                                note(f'DAC gaussian T={kw["T"]} (> sps={sps}): pattern ON,OFF,ON across a symbol boundary has its largest slot energy in the OFF slot; SDD follows it')
                            else:
                                viol('S-identity-on-noiseless-waveform', f'{shape} {kw} Vout={Vout} bias={bias} M={M} sps={sps} nsym={nsym}: ON at {np.flatnonzero(cw)} -> {np.flatnonzero(o)}')
            # rejection of lengths that are not whole symbols
            for n in sorted({1, sps, sps + 1, M * sps - 1, M * sps + 1, M * sps + sps, 2 * M * sps - sps, (M - 1) * sps, M, M * sps // 2 if M * sps // 2 else 1}):
                if n % (M * sps) == 0 or n <= 0:
                    continue
                for inp in (electrical_signal(np.ones(n)), np.ones(n), [1.0] * n):
                    try:
                        out = SDD(inp, M)
                        viol('S-rejects-partial-symbol', f'M={M} sps={sps} n={n} {type(inp).__name__}: returned {as_u8(out)}')
                    except ValueError:
                        pass
                    except Exception as ex:
                        viol('S-rejects-partial-symbol', f'M={M} sps={sps} n={n} {type(inp).__name__}: {type(ex).__name__} instead of ValueError: {ex}')
        # rejection of orders
        for m in [m for m in range(-8, 260) if m < 1 or (m & (m - 1))]:
            for n in (abs(m) * sps if m else sps, 16 * sps):
                for inp in (electrical_signal(np.ones(n)), np.ones(n)):
                    try:
                        out = SDD(inp, m)
                        viol('S-rejects-order', f'M={m} sps={sps} n={n}: returned {as_u8(out)}')
                    except ValueError:
                        pass
                    except Exception as ex:
                        viol('S-rejects-order', f'M={m} sps={sps} n={n}: {type(ex).__name__} instead of ValueError: {ex}')
    # exhaustive small: every symbol sequence of <= 3 symbols, M <= 4 (and <= 2 symbols M = 8), every sps 1..9, nrz waveform
    for sps in range(1, 10):
        gv(sps=sps, R=1e9)
        for M, reps in ((2, (1, 2, 3, 4)), (4, (1, 2, 3)), (8, (1, 2))):
            for ns in reps:
                for syms in itertools.product(range(M), repeat=ns):
                    cw = np.zeros(ns * M, np.uint8)
                    cw[np.arange(ns) * M + np.array(syms)] = 1
                    for shape in ('nrz', 'rz', 'gaussian'):
                        if sps == 1 and shape != 'nrz':
                            continue
                        w = DAC(cw, pulse_shape=shape)
                        o = as_u8(SDD(w, M))
                        if not np.array_equal(o, cw):
                            viol('S-identity-on-noiseless-waveform', f'exh {shape} M={M} sps={sps} syms={syms}: {cw} -> {o}')
                        d = as_u8(PPM_DECODER(SDD(w, M), M))
                        k = M.bit_length() - 1
                        expb = np.array([int(c) for s in syms for c in format(s, f'0{k}b')], np.uint8)
                        if not np.array_equal(d, expb):
                            viol('S-decode-after-SDD', f'exh {shape} M={M} sps={sps} syms={syms}')
    gv(sps=16, R=1e9)


def section_DSP_adjacent():
    """ppm.DSP is not named by C12; it is the packaged route 'threshold -> HDD -> decode' and 'SDD -> decode' on a waveform.
    Its failures on noiseless waveforms are printed as NOTES, they do not make the audit fail."""
    from opticomlib.ppm import DSP
    for sps in (2, 3, 4, 8, 16, 17):
        gv(sps=sps, R=1e9)
        for M in (2, 4, 8, 256):
            r = np.random.default_rng(sps * 1000 + M)
            k = M.bit_length() - 1
            for name, syms in (('one symbol', np.array([M - 1])), ('two symbols', np.array([0, M - 1])), ('all-zero bits x40', np.zeros(40, int)),
                               ('random x40', r.integers(0, M, 40))):
                cw = np.zeros(syms.size * M, np.uint8)
                cw[np.arange(syms.size) * M + syms] = 1
                bits = np.array([int(c) for s in syms for c in format(int(s), f'0{k}b')], np.uint8)
                for shape in ('nrz', 'rz', 'gaussian'):
                    w = DAC(cw, pulse_shape=shape)
                    for dec in ('hard', 'soft'):
                        np.random.seed(1)
                        try:
                            y = as_u8(DSP(w, M, dec))
                        except Exception as ex:
                            note(f'DSP {dec} on noiseless {shape} waveform sps={sps} M={M} {name}: {type(ex).__name__}')
                            continue
                        if not np.array_equal(y, bits):
                            note(f'DSP {dec} on noiseless {shape} waveform, sps={sps}: decoded bits differ from the transmitted ones (e.g. M={M}, {name})'
                                 if shape != 'rz' else f'DSP {dec} on noiseless rz waveform: bits differ (every sps, every M): SAMPLER(x, sps//2) reads the first sample after the RZ pulse')
    gv(sps=16, R=1e9)


if __name__ == '__main__':
    print('opticomlib from', opticomlib.__file__, flush=True)
    section_E()
    print('section E done', flush=True)
    section_H()
    print('section H done', flush=True)
    section_S()
    print('section S done', flush=True)
    section_DSP_adjacent()
    print('section DSP (adjacent, notes only) done', flush=True)
    if VIOL:
        print(f'{sum(SEEN.values())} violations in clauses: {sorted(SEEN)}')
        sys.exit(1)
    print('PASS')
    sys.exit(0)
