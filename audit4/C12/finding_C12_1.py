# ADJACENT to C12 (ppm.DSP is not named by the statement): hard decision on a NOISE-FREE RZ waveform decodes at BER 0.5.
# DAC(pulse_shape='rz') is ON for samples [0, sps//2) of a slot; ppm.DSP samples at SAMPLER(x, gv.sps//2) = first sample AFTER the pulse.
import sys; del sys.path[0]
import numpy as np
from opticomlib.ppm import PPM_ENCODER, DSP
from opticomlib.devices import DAC, SAMPLER
from opticomlib.typing import gv
gv(sps=16, R=1e9)
M = 4
bits = np.random.default_rng(0).integers(0, 2, 4000)
x = DAC(PPM_ENCODER(bits, M), pulse_shape='rz')          # noiseless waveform of a valid codeword
np.random.seed(0)
hard = DSP(x, M, 'hard').data
soft = DSP(x, M, 'soft').data
print('samples seen by the hard decision:', np.unique(SAMPLER(x, gv.sps // 2).signal))
print('expected 0 bit errors for both decisions; soft:', int((soft != bits).sum()), ' hard:', int((hard != bits).sum()), 'of', bits.size)
sys.exit(1 if (hard != bits).any() else 0)
