# ADJACENT to C12 (ppm.DSP / GET_EYE, smallest sps): noise-free gaussian waveform at sps=2 whose ON slots share a parity
# (2-PPM of all-zero bits = slots 1010...): GET_EYE returns mu0 = s0 = nan, threshold None; THRESHOLD_EST gives nan;
# every sample compares False, HDD raises random slots: about half of the bits of a NOISELESS record are wrong.
import sys; del sys.path[0]
import warnings; warnings.filterwarnings('ignore')
import numpy as np
from opticomlib.ppm import PPM_ENCODER, DSP
from opticomlib.devices import DAC, GET_EYE
from opticomlib.typing import gv
gv(sps=2, R=1e9)
M = 2
bits = np.zeros(500, int)
x = DAC(PPM_ENCODER(bits, M), pulse_shape='gaussian')
e = GET_EYE(x, nslots=8192)
np.random.seed(0)
y = DSP(x, M, 'hard').data
print('eye: mu0', e.mu0, 'mu1', e.mu1, 's0', e.s0, 'threshold', e.threshold)
print('expected 0 bit errors on the noiseless waveform, got', int((y != bits).sum()), 'of', bits.size)
sys.exit(1 if (y != bits).any() else 0)
