# BORDERLINE (waveform property, not an SDD fault): gaussian pulse at the inclusive end T = 2*sps, even sps in {2,4,6}.
# Slots ON,OFF,ON across a symbol boundary: the OFF slot integrates MORE than the ON slot before it, SDD (correctly) follows the energy,
# so SDD(DAC(codeword)) != codeword.  The DAC centres the pulse on sample sps/2 instead of (sps-1)/2 for even sps (half a sample late).
import sys; del sys.path[0]
import numpy as np
from opticomlib.ppm import SDD
from opticomlib.devices import DAC
from opticomlib.typing import gv
sps, M = 4, 4
gv(sps=sps, R=1e9)
cw = np.array([0, 0, 1, 0,   1, 0, 0, 0])
w = DAC(cw, pulse_shape='gaussian', T=2 * sps)
out = SDD(w, M).data
print('slot energies :', w.signal.real.reshape(-1, sps).sum(axis=1).round(3))
print('expected      :', cw)
print('SDD returned  :', out)
sys.exit(1 if not np.array_equal(out, cw) else 0)
