"""Audit of property C13 (fourth pass): analytic BER / receiver-noise formulas.

Prints one line per violated (clause, input); exit 1 if any, else PASS / exit 0.
"""
import sys
import os
_here = os.path.dirname(os.path.abspath(__file__))
if sys.path and os.path.abspath(sys.path[0] or '.') == _here:
    del sys.path[0]

import warnings
import numpy as np
warnings.filterwarnings('ignore')
np.seterr(all='ignore')

from scipy.stats import norm
from scipy.special import log_ndtr
from scipy.integrate import quad
from scipy.optimize import minimize_scalar
from scipy.constants import c, h, k as kB, e as qe
import scipy.signal as sg

from opticomlib import utils, ook, ppm
from opticomlib.typing import eye, gv, optical_signal
from opticomlib.devices import EDFA, PD

Qf = norm.sf
VIOL = []


def viol(clause, inp, msg):
    VIOL.append(clause)
    print(f'VIOLATION [{clause}] input={inp} :: {msg}')


# ---------------------------------------------------------------- references
def _refine(fun, mu, n=100001):
    """minimum of fun over [0, mu]: dense grid, then a bounded scalar minimisation around the best grid point"""
    r = np.linspace(0, mu, n)
    v = fun(r)
    i = int(np.nanargmin(v))
    lo, hi = r[max(i-1, 0)], r[min(i+1, n-1)]
    res = minimize_scalar(lambda x: float(fun(np.float64(x))), bounds=(lo, hi), method='bounded', options=dict(xatol=1e-14*mu))
    return min(v[i], res.fun) if np.isfinite(res.fun) else v[i]


def ook_ref(mu, s0, s1):
    return 0.5*_refine(lambda r: Qf((mu-r)/s1) + Qf(r/s0), mu)


def hard_ser(r, mu, s0, s1, M):
    return -np.expm1(log_ndtr((mu-r)/s1) + (M-1)*log_ndtr(r/s0))


def hard_ref(mu, s0, s1, M):
    return 0.5*M/(M-1)*_refine(lambda r: hard_ser(r, mu, s0, s1, M), mu)


def soft_ref(mu, s0, s1, M):
    """bit error probability of the soft decision, complementary integrand, split at the knee"""
    if s0 == 0:
        return 0.5*M/(M-1)*Qf(mu/s1)
    f = lambda x: -np.expm1((M-1)*log_ndtr((mu+s1*x)/s0))*np.exp(-x*x/2)/np.sqrt(2*np.pi)
    k = -mu/s1
    w = s0/s1
    pts = sorted(set([k-10*w, k-3*w, k-w, k, k+w, k+3*w, k+10*w, -8, -4, -2, 0, 2, 4, 8]))
    pts = [p for p in pts if -40 < p < 40]
    edges = [-40] + pts + [40]
    return 0.5*M/(M-1)*sum(quad(f, a, b, epsabs=0, epsrel=1e-12, limit=200)[0] for a, b in zip(edges[:-1], edges[1:]))


KNOWN_SOFT_FLOOR = 1e-8   # 1 - quad(...) below 1e-8 is a known, already reported limitation
MS = [2, 4, 8, 16, 32, 64, 128, 256]
FRACS = [1e-9, 1e-6, 1e-3, 0.1, 0.5, 1, 1.67, 2, 3, 4.34, 5, 8, 10, 13, 16, 19, 19.999, 20]
PAIRS = [(1, 1), (0.3, 0.3), (1e-9, 1e-9), (1e9, 1e9), (1, 1+2**-52), (1, 2), (2, 1), (1, 10), (10, 1),
         (1e-2, 1), (1, 1e-2), (1e-3, 1), (1e-4, 1), (1e-6, 1), (1, 1e-3), (1e3, 1), (1e6, 1), (3e-7, 2e-4)]


# ---------------------------------------------------------------- clause A: ook.theory_BER
def clause_A():
    for s0, s1 in PAIRS:
        s = max(s0, s1)
        for f in FRACS:
            mu = f*s
            got = float(ook.theory_BER(mu, s0, s1))
            ref = ook_ref(mu, s0, s1)
            # grid error bound: value at the nearest of 1000 grid points to the optimum
            r = np.linspace(0, mu, 1000)
            if not (got >= ref*(1-1e-9)):
                viol('A.never-below-min', (mu, s0, s1), f'got {got} < true min {ref}')
            if not np.isclose(got, 0.5*np.min(Qf((mu-r)/s1)+Qf(r/s0)), rtol=1e-9, atol=0):
                viol('A.grid-min', (mu, s0, s1), f'got {got}, 1000-point min {0.5*np.min(Qf((mu-r)/s1)+Qf(r/s0))}')
            if s0 == s1:
                q = Qf(mu/2/s0)
                # one grid step off the midpoint costs at most cosh(x*d) - 1 with x = mu/2s, d = mu/1998 s
                tol = np.cosh((mu/2/s0)*(mu/1998/s0)+1e-3) - 1 + 1e-9
                if not (q*(1-1e-12) <= got <= q*(1+tol)):
                    viol('A.equal-sigma', (mu, s0), f'got {got}, Q(mu/2s) {q}')
            if not (0 <= got <= 0.5*(1+1e-12)):
                viol('A.bound', (mu, s0, s1), f'got {got}')
    # integer / numpy scalar / degenerate container arguments
    for a in [(3, 1, 1), (np.int64(3), np.int32(1), 1), (np.float32(3), 1.0, np.float32(1)), (np.array(3), 1, 1), (np.array([3]), 1, 1), ([3], [1], [1]), (True, 1, 1)]:
        try:
            got = np.asarray(ook.theory_BER(*a), dtype=float).ravel()[0]
            if not np.isclose(got, float(ook.theory_BER(float(np.ravel(a[0])[0]), 1.0, 1.0)), rtol=1e-6):
                viol('A.types', a, f'got {got}')
        except Exception as ex:
            viol('A.types', a, f'{type(ex).__name__}: {ex}')


# ---------------------------------------------------------------- clause B: ppm.theory_BER
def clause_B():
    for s0, s1 in PAIRS:
        s = max(s0, s1)
        for f in FRACS:
            mu = f*s
            for M in MS:
                gh = float(ppm.theory_BER(mu, s0, s1, M, 'hard'))
                gs = float(ppm.theory_BER(mu, s0, s1, M, 'soft'))
                rs = soft_ref(mu, s0, s1, M)
                rh = hard_ref(mu, s0, s1, M)
                bound = M/2/(M-1)
                if not (-1e-15 <= gh <= bound*(1+1e-12)) or not (-KNOWN_SOFT_FLOOR <= gs <= bound*(1+1e-12)):
                    viol('B.bound', (mu, s0, s1, M), f'hard {gh} soft {gs} bound {bound}')
                if M == 2:
                    q = Qf(mu/np.hypot(s0, s1))
                    if abs(gs-q) > KNOWN_SOFT_FLOOR + 1e-6*q:
                        viol('B.soft-M2-closed-form', (mu, s0, s1), f'got {gs}, Q(mu/sqrt(s0^2+s1^2)) = {q}, rel.err {(gs-q)/q:.2e}')
                if abs(gs-rs) > KNOWN_SOFT_FLOOR + 1e-6*rs:
                    viol('B.soft-integral', (mu, s0, s1, M), f'got {gs}, integral {rs}, rel.err {(gs-rs)/rs:.2e}')
                if gs > gh*(1+1e-9) + KNOWN_SOFT_FLOOR:
                    viol('B.soft<=hard', (mu, s0, s1, M), f'soft {gs} > hard {gh} (true soft {rs}, true hard {rh})')
                # hard equals the minimum of the symbol error over the 1000-point grid
                if rh > 1e-10 and not (rh*(1-1e-5) <= gh):
                    viol('B.hard-below-min', (mu, s0, s1, M), f'got {gh} < true min {rh}')
    # monotone in mu (fine sweep) for equal and very unequal sigmas, ends M = 2 and 256
    mu = np.concatenate([np.arange(0.01, 6, 0.01), np.linspace(6, 20, 141)])
    for s0, s1 in [(1, 1), (1, 3), (3, 1), (1e-2, 1), (1e-4, 1), (1e-6, 1)]:
        m = mu*max(s0, s1)
        b = ook.theory_BER(m, s0, s1)
        k = np.where(np.diff(b) > 1e-12*b[:-1])[0]
        for i in k[:5]:
            viol('B.monotone-ook', (m[i], m[i+1], s0, s1), f'{b[i]} -> {b[i+1]}')
        for M in [2, 4, 256]:
            bh = ppm.theory_BER(m, s0, s1, M, 'hard')
            bs = ppm.theory_BER(m, s0, s1, M, 'soft')
            k = np.where(np.diff(bh) > 1e-9*bh[:-1] + 3e-16)[0]
            for i in k[:5]:
                viol('B.monotone-hard', (m[i], m[i+1], s0, s1, M), f'{bh[i]} -> {bh[i+1]}')
            k = np.where((np.diff(bs) > 1e-9*bs[:-1]) & (bs[1:] > 10*KNOWN_SOFT_FLOOR))[0]
            for i in k[:5]:
                viol('B.monotone-soft', (m[i], m[i+1], s0, s1, M), f'{bs[i]} -> {bs[i+1]}')
            k = np.where((bs > bh*(1+1e-9)) & (bs > 10*KNOWN_SOFT_FLOOR))[0]
            for i in k[:5]:
                viol('B.soft<=hard(sweep)', (m[i], s0, s1, M), f'soft {bs[i]} > hard {bh[i]}')
            if M == 2:
                q = Qf(m/np.hypot(s0, s1))
                k = np.where(np.abs(bs-q) > KNOWN_SOFT_FLOOR + 1e-6*q)[0]
                for i in k[:5]:
                    viol('B.soft-M2-closed-form(sweep)', (m[i], s0, s1), f'got {bs[i]}, closed form {q[i]}')


# ---------------------------------------------------------------- sampled inputs for clauses A, B, C
def clause_S():
    rng = np.random.default_rng(20260927)
    for it in range(400):
        s1 = 10**rng.uniform(-6, 6)
        s0 = s1*10**rng.uniform(-3, 3) if it % 4 else s1
        s = max(s0, s1)
        mu = s*(20*rng.uniform(0, 1)**2 if it % 3 else 10**rng.uniform(-6, np.log10(20)))
        if mu == 0:
            continue
        M = int(2**rng.integers(1, 9))
        go = float(ook.theory_BER(mu, s0, s1))
        ro = ook_ref(mu, s0, s1)
        r = np.linspace(0, mu, 1000)
        g1000 = 0.5*np.min(Qf((mu-r)/s1)+Qf(r/s0))
        if go < ro*(1-1e-9) or not np.isclose(go, g1000, rtol=1e-9, atol=0):
            viol('S.ook', (mu, s0, s1), f'got {go}, true min {ro}, grid min {g1000}')
        gh = float(ppm.theory_BER(mu, s0, s1, M, 'hard'))
        gs = float(ppm.theory_BER(mu, s0, s1, M, 'soft'))
        rs = soft_ref(mu, s0, s1, M)
        if abs(gs-rs) > KNOWN_SOFT_FLOOR + 1e-6*rs:
            viol('S.soft-integral', (mu, s0, s1, M), f'got {gs}, integral {rs}, rel.err {(gs-rs)/rs:.2e}')
        if gs > gh*(1+1e-9) + KNOWN_SOFT_FLOOR:
            viol('S.soft<=hard', (mu, s0, s1, M), f'soft {gs} > hard {gh}')
        if not (-KNOWN_SOFT_FLOOR <= gs <= M/2/(M-1)*(1+1e-12)) or not (0 <= gh <= M/2/(M-1)*(1+1e-12)):
            viol('S.bound', (mu, s0, s1, M), f'{gs} {gh}')
        mu0 = mu*rng.uniform(-3, 3)
        e = eye(mu0=mu0, mu1=mu0+mu, s0=s0, s1=s1)
        th = ook.THRESHOLD_EST(e)
        tp = ppm.THRESHOLD_EST(e, M)
        if not (mu0 <= th <= mu0+mu) or not (mu0 <= tp <= mu0+mu):
            viol('S.th-range', (mu0, mu, s0, s1, M), f'{th} {tp}')
        be = ook.BER_analizer('estimator', eye_obj=e)
        bh = ppm.BER_analizer('estimator', eye_obj=e, M=M, decision='hard')
        if not np.isclose(be, go, rtol=1e-6, atol=0) or abs(bh-gh) > 1e-6*gh + 1e-14:
            viol('S.estimator=theory', (mu0, mu, s0, s1, M), f'ook {be} vs {go}; hard {bh} vs {gh}')


# ---------------------------------------------------------------- clause V: vectorisation
def clause_V():
    mu = np.array([[1, 2, 5]]).T
    s0 = np.array([[1, 2, 3, 4]])
    funs = [('ook', lambda a, b, c_: ook.theory_BER(a, b, c_)),
            ('hard2', lambda a, b, c_: ppm.theory_BER(a, b, c_, 2, 'hard')),
            ('hard256', lambda a, b, c_: ppm.theory_BER(a, b, c_, 256, 'hard')),
            ('soft4', lambda a, b, c_: ppm.theory_BER(a, b, c_, 4, 'soft'))]
    cases = [(mu, s0, 1), (mu, s0, s0), (mu.astype(float), 0.5, s0*0.5), ([1, 2, 3], [1, 1, 1], [2, 2, 2]), ((1, 2, 3), 1, 1),
             (np.array([3]), 1, 1), (np.array(3), 1, 1), (np.array([1, 2], dtype=np.uint8), np.uint8(1), 1), (3, 1, 1),
             (np.arange(1, 6), np.arange(1, 6), np.arange(1, 6)[::-1])]
    for name, f in funs:
        for A, B, C in cases:
            try:
                out = f(A, B, C)
                bA, bB, bC = np.broadcast_arrays(np.asarray(A), np.asarray(B), np.asarray(C))
                exp = np.array([float(f(float(a), float(b), float(c_))) for a, b, c_ in zip(bA.ravel(), bB.ravel(), bC.ravel())]).reshape(bA.shape)
                if np.shape(out) != bA.shape or not np.allclose(out, exp, rtol=1e-12, atol=0):
                    viol('V.elementwise', (name, A, B, C), f'{out} vs {exp}')
            except Exception as ex:
                viol('V.elementwise', (name, A, B, C), f'{type(ex).__name__}: {ex}')
    P = np.array([-40, -30, -20])
    for kw in [dict(modulation='ook'), dict(modulation='OOK'), dict(modulation='ppm', M=4, decision='hard'),
               dict(modulation='PPM', M=4, decision='SOFT'), dict(modulation='ppm', M=np.int64(256), decision='Hard'),
               dict(modulation='ook', amplify=True, G=np.array([0, 20, 40]), NF=5, BW_opt=50e9),
               dict(modulation='ook', ER=np.array([3, 10, np.inf])), dict(modulation='ook', T=np.array([0, 300, 400]), R_L=[10, 50, 1e4])]:
        for PP in [P, list(P), P.astype(float), tuple(P)]:
            try:
                out = utils.theory_BER(PP, **kw)
                exp = []
                for i in range(3):
                    k1 = {a: (b[i] if isinstance(b, (np.ndarray, list)) else b) for a, b in kw.items()}
                    exp.append(float(utils.theory_BER(float(P[i]), **k1)))
                if not np.allclose(out, exp, rtol=1e-12, atol=0):
                    viol('V.utils', kw, f'{out} vs {exp}')
            except Exception as ex:
                viol('V.utils', kw, f'{type(ex).__name__}: {ex}')


# ---------------------------------------------------------------- clause C: estimators and thresholds
def logN(r, mu, S):
    return -(r-mu)**2/2/S - 0.5*np.log(2*np.pi*S)


def clause_C():
    pairs = [(1, 1), (0.3, 0.3), (1e-9, 1e-9), (1e9, 1e9), (1, 1+2**-52), (1, 1.0000001), (1, 2), (2, 1), (1, 10), (10, 1), (1e-2, 1), (1, 1e-2)]
    for s0, s1 in pairs:
        s = max(s0, s1)
        for f in [1e-2, 0.1, 0.5, 1, 2, 3, 5, 8, 10, 13, 16, 19, 19.999, 20]:
            d = f*s
            for k0 in [0, 1, -1, -0.5, 7, -7, 1/3]:
                mu0 = k0*d
                mu1 = mu0 + d
                step = d/999
                e = eye(mu0=mu0, mu1=mu1, s0=s0, s1=s1)
                # ---- OOK
                th = ook.THRESHOLD_EST(e)
                if not (mu0 <= th <= mu1):
                    viol('C.ook-th-range', (mu0, mu1, s0, s1), f'th {th}')
                th0 = ook.THRESHOLD_EST(eye(mu0=0.0, mu1=d, s0=s0, s1=s1))
                if abs((th-mu0)-th0) > 1.01*step and f >= 0.1:
                    viol('C.ook-th-translation', (mu0, d, s0, s1), f'{th-mu0} vs {th0}')
                if s0 == s1 and f >= 0.1 and abs(th-(mu0+mu1)/2) > 0.51*step + 1e-13*d:
                    viol('C.ook-th-midpoint', (mu0, d, s0), f'th-mu0 {th-mu0}, d/2 {d/2}')
                b = ook.BER_analizer('estimator', eye_obj=e)
                b0 = float(ook.theory_BER(d, s0, s1))
                if not np.isclose(b, b0, rtol=1e-6, atol=0):
                    viol('C.ook-estimator=theory', (mu0, d, s0, s1), f'{b} vs {b0}')
                # optimum_threshold, OOK
                for mod in ['ook', 'OOK', 'Ook']:
                    t = utils.optimum_threshold(mu0, mu1, s0**2, s1**2, mod)
                    res = logN(t, mu0, s0**2) - logN(t, mu1, s1**2)
                    scale = max((t-mu0)**2/2/s0**2, (t-mu1)**2/2/s1**2, 1)
                    if not np.isfinite(t) or abs(res) > 1e-8*scale*max(1, abs(k0))*10:
                        viol('C.opt-th-equation(ook)', (mu0, mu1, s0, s1), f't {t} residual {res}')
                    if s0 == s1 and abs(t-(mu0+mu1)/2) > 1e-12*d*max(1, abs(k0)):
                        viol('C.opt-th-midpoint', (mu0, mu1, s0), f't {t}')
                    if np.isfinite(t) and mu0 <= t <= mu1 and f >= 0.1 and abs(t-th) > 1.01*step:
                        viol('C.ook THRESHOLD_EST vs optimum_threshold', (mu0, d, s0, s1), f'{th} vs {t}')
                # ---- PPM
                for M in [2, 4, 16, 256]:
                    t = ppm.THRESHOLD_EST(e, M)
                    if not (mu0 <= t <= mu1):
                        viol('C.ppm-th-range', (mu0, mu1, s0, s1, M), f'th {t}')
                    # it minimises the symbol error of the hard decision (within the grid)
                    r = np.linspace(0, d, 1000)
                    ser = hard_ser(r, d, s0, s1, M)
                    ser_t = hard_ser(t-mu0, d, s0, s1, M)
                    if ser_t > ser.min()*(1+1e-6) + 1e-300 and f >= 0.1 and abs(k0) <= 1:
                        viol('C.ppm-th-minimises', (mu0, d, s0, s1, M), f'SER(th) {ser_t} vs grid min {ser.min()}')
                    bh = ppm.BER_analizer('estimator', eye_obj=e, M=M, decision='hard')
                    bh0 = float(ppm.theory_BER(d, s0, s1, M, 'hard'))
                    if abs(bh-bh0) > 1e-6*bh0 + 1e-14:
                        viol('C.ppm-estimator-hard=theory', (mu0, d, s0, s1, M), f'{bh} vs {bh0}')
                    if k0 in (0, 1, -0.5):
                        for dec in ['soft', 'SOFT', 'Soft']:
                            bs = ppm.BER_analizer('estimator', eye_obj=e, M=M, decision=dec)
                            bs0 = float(ppm.theory_BER(d, s0, s1, M, 'soft'))
                            if abs(bs-bs0) > 1e-6*bs0 + KNOWN_SOFT_FLOOR:
                                viol('C.ppm-estimator-soft=theory', (mu0, d, s0, s1, M), f'{bs} vs {bs0}')
                    # optimum_threshold solves (M-1) N0 = N1 whenever that equation has a root
                    to = utils.optimum_threshold(mu0, mu1, s0**2, s1**2, 'ppm', M)
                    disc = d**2 + 2*(s1**2-s0**2)*np.log(s1/s0*(M-1))
                    if disc >= 0:
                        res = np.log(M-1) + logN(to, mu0, s0**2) - logN(to, mu1, s1**2)
                        scale = max((to-mu0)**2/2/s0**2, (to-mu1)**2/2/s1**2, 1)
                        if not np.isfinite(to) or abs(res) > 1e-7*scale*max(1, abs(k0)):
                            viol('C.opt-th-equation(ppm)', (mu0, mu1, s0, s1, M), f't {to} residual {res}')
                        # high SNR: the density crossing and the SER minimiser coincide and lie between the levels
                        if d >= 12*s and mu0 <= to <= mu1 and abs(to-t) > 2.5*step:
                            viol('C.ppm THRESHOLD_EST vs optimum_threshold', (mu0, d, s0, s1, M), f'{t} vs {to}')
                        if d >= 12*s and not (mu0 <= to <= mu1):
                            viol('C.opt-th-range', (mu0, d, s0, s1, M), f'{to}')


# ---------------------------------------------------------------- clause D: receiver model of utils
def model_ref(mu, S, mod, M, dec):
    s = np.sqrt(S)
    x = np.linspace(mu[0], mu[1], 5000)
    if mod == 'ook':
        return np.nanmin(0.5*(Qf((mu[1]-x)/s[1]) + Qf((x-mu[0])/s[0])))
    if dec == 'hard':
        return M/2/(M-1)*np.nanmin(-np.expm1(log_ndtr((mu[1]-x)/s[1]) + (M-1)*log_ndtr((x-mu[0])/s[0])))
    return soft_ref(mu[1]-mu[0], s[0], s[1], M)


def clause_D():
    f0 = c/1550e-9
    P = np.linspace(-50, 0, 101)
    rx = [(False, None, None, None), (True, 0, 3, 5.000001e9), (True, 0, 10, 50e9), (True, 40, 3, 5.000001e9),
          (True, 40, 10, 1e12), (True, 20, 5, 50e9)]
    for amp, G, NF, BWo in rx:
        for ER in [3, 10, 60, np.inf]:
            for r in [1e-6, 0.01, 0.1, 1.0, 1]:
                for R_L in [10, 50, 1e4]:
                    for T in [0, 300, 400]:
                        for NFe in [0, 6]:
                            kw = dict(ER=ER, amplify=amp, G=G, NF=NF, BW_opt=BWo, r=r, R_L=R_L, T=T, NF_el=NFe)
                            kw2 = {k: v for k, v in kw.items() if k not in ('T', 'NF_el')}
                            # closed forms of the model
                            mu, muA = utils.average_voltages(-30, 'ppm', 8, **kw2)
                            S = utils.noise_variances(-30, 'ppm', 8, BW_el=5e9, T=T, NF_el=NFe, **kw2)
                            g = 10**(G/10) if amp else 1
                            pase = 10**(NF/10)*h*f0*(g-1)*BWo if amp else 0
                            er = 10**(ER/10)
                            pon = 1e-6*8/(1+7/er)
                            mu_e = r*R_L*(g*np.array([pon/er, pon]) + pase)
                            l = 5e9/BWo if amp else 1
                            S_e = 4*kB*T*5e9*R_L*10**(NFe/10) + 2*qe*mu_e*5e9*R_L + 2*(r*R_L*pase)*(mu_e-r*R_L*pase)*l + (r*R_L*pase)**2*(1-l/2)*l
                            if not np.allclose(mu, mu_e, rtol=1e-9) or not np.isclose(muA, r*R_L*pase, rtol=1e-9) or not np.isclose(utils.p_ase(amp, 1550e-9, G, NF, BWo), pase, rtol=1e-9):
                                viol('D.levels', kw, f'{mu} vs {mu_e}')
                            if not np.allclose(S, S_e, rtol=1e-9):
                                viol('D.variances', kw, f'{S} vs {S_e}')
                            for mod, M, dec in [('ook', None, None), ('ppm', 2, 'hard'), ('ppm', 256, 'hard'), ('ppm', 4, 'hard')]:
                                b = utils.theory_BER(P, mod, M=M, decision=dec, f0=f0, **kw)
                                if not np.all(np.isfinite(b)):
                                    viol('D.finite', (mod, M, dec, kw), f'P={P[~np.isfinite(b)][:3]}')
                                    continue
                                bound = 0.5 if mod == 'ook' else M/2/(M-1)
                                if b.max() > bound*(1+1e-12) or b.min() < 0:
                                    viol('D.bound', (mod, M, dec, kw), f'{b.max()} {b.min()}')
                                k = np.where(np.diff(b) > 1e-12*b[:-1] + 3e-16)[0]
                                for i in k[:3]:
                                    viol('D.monotone-in-power', (mod, M, dec, kw, P[i]), f'{b[i]} -> {b[i+1]}')
                                for p in [-50, -37.3, 0]:
                                    mu, _ = utils.average_voltages(p, mod, M, **kw2)
                                    S = utils.noise_variances(p, mod, M, BW_el=5e9, T=T, NF_el=NFe, **kw2)
                                    rf = model_ref(mu, S, mod, M, dec)
                                    gt = float(utils.theory_BER(p, mod, M=M, decision=dec, f0=f0, **kw))
                                    if abs(gt-rf) > 1e-9*rf + (3e-14 if mod == 'ppm' else 0):
                                        viol('D.theory_BER=integral(model)', (mod, M, dec, kw, p), f'{gt} vs {rf}')
    # soft decision of the receiver model (slower: fewer corners, finer power sweep at the degenerate ones)
    Pf = np.arange(-50, -30, 0.25)
    for amp, G, NF, BWo in [(False, None, None, None), (True, 0, 3, 5.000001e9), (True, 40, 10, 1e12)]:
        for ER in [3, 60, np.inf]:
            for r in [0.01, 0.1, 1.0]:
                for T in [0, 300]:
                    for M in [2, 4, 16, 256]:
                        kw = dict(ER=ER, amplify=amp, G=G, NF=NF, BW_opt=BWo, r=r, T=T)
                        kw2 = {k: v for k, v in kw.items() if k != 'T'}
                        bs = utils.theory_BER(Pf, 'ppm', M=M, decision='soft', f0=f0, **kw)
                        bh = utils.theory_BER(Pf, 'ppm', M=M, decision='hard', f0=f0, **kw)
                        if not np.all(np.isfinite(bs)):
                            viol('D.finite(soft)', (M, kw), '')
                            continue
                        k = np.where((bs > bh*(1+1e-9)) & (bs > 10*KNOWN_SOFT_FLOOR))[0]
                        for i in k[:3]:
                            mu, _ = utils.average_voltages(Pf[i], 'ppm', M, **kw2)
                            S = utils.noise_variances(Pf[i], 'ppm', M, T=T, **kw2)
                            viol('D.soft<=hard', (M, kw, Pf[i]), f'soft {bs[i]} > hard {bh[i]} (integral on the model: {model_ref(mu, S, "ppm", M, "soft")})')
                        k = np.where((np.diff(bs) > 1e-9*bs[:-1]) & (bs[1:] > 10*KNOWN_SOFT_FLOOR))[0]
                        for i in k[:3]:
                            viol('D.monotone-in-power(soft)', (M, kw, Pf[i]), f'{bs[i]} -> {bs[i+1]}')
                        for i in range(0, len(Pf), 8):
                            mu, _ = utils.average_voltages(Pf[i], 'ppm', M, **kw2)
                            S = utils.noise_variances(Pf[i], 'ppm', M, T=T, **kw2)
                            rf = model_ref(mu, S, 'ppm', M, 'soft')
                            if abs(bs[i]-rf) > KNOWN_SOFT_FLOOR + 1e-6*rf:
                                viol('D.theory_BER=integral(model,soft)', (M, kw, Pf[i]), f'{bs[i]} vs {rf}, rel.err {(bs[i]-rf)/rf:.2e}')


# ---------------------------------------------------------------- clause E: device models (statistical, 6 sigma)
def clause_E():
    gv(sps=16, R=1e9, N=4096)   # fs = 16 GHz, 65536 samples
    n = gv.t.size
    fs = gv.fs
    for seed in [1, 2, 3]:
        for G, NF in [(0, 3), (1e-3, 3), (20, 5), (40, 10)]:
            np.random.seed(seed)
            x = optical_signal(np.full(n, 1e-3))
            y = EDFA(x, G=G, NF=NF)
            pn = np.sum(np.mean(np.abs(y.noise)**2, axis=-1))
            ex = utils.p_ase(True, 1550e-9, G, NF, fs)
            if ex == 0:
                if pn != 0:
                    viol('E.EDFA-ase', (G, NF, seed), f'{pn} vs 0')
            elif abs(pn/ex-1) > 6/np.sqrt(2*n):
                viol('E.EDFA-ase', (G, NF, seed), f'{pn} vs {ex}')
            ps = np.sum(np.mean(np.abs(y.signal)**2, axis=-1))
            if not np.isclose(ps, 1e-6*10**(G/10), rtol=1e-9):
                viol('E.EDFA-gain', (G, NF), f'{ps}')
        # PD thermal and shot noise densities: white noise of density S/(fs/2) through |H|^4 (zero-phase Bessel)
        for BW in [fs/8, fs/4]:
            sos = sg.bessel(4, BW, btype='low', fs=fs, output='sos', norm='mag')
            fgrid, H = sg.sosfreqz(sos, worN=1 << 14, fs=fs)
            enbw = np.trapz(np.abs(H)**4, fgrid)
            if not (0.6 < enbw/BW < 1.1):
                viol('E.PD-enbw', (BW,), f'{enbw/BW}')
            for T, R_L, Fn in [(300, 50, 0), (400, 1e4, 3), (300, 10, 0), (0, 50, 0)]:
                np.random.seed(seed)
                x = optical_signal(np.full(n, np.sqrt(1e-3)))
                y = PD(x, BW, r=1.0, T=T, R_load=R_L, include_noise='thermal-only', i_dark=0, Fn=Fn)
                v = np.var(y.noise[n//8:-n//8])
                ex = 4*kB*T*enbw*R_L*10**(Fn/10)
                neff = 2*enbw/fs*n*0.75/2
                if ex == 0:
                    if v > 1e-40:
                        viol('E.PD-thermal', (T, R_L, Fn, BW, seed), f'{v} vs 0')
                elif abs(v/ex-1) > 6*np.sqrt(2/neff):
                    viol('E.PD-thermal', (T, R_L, Fn, BW, seed), f'{v} vs {ex}')
                np.random.seed(seed)
                y = PD(x, BW, r=0.5, T=T, R_load=R_L, include_noise='shot-only', i_dark=0)
                v = np.var(y.noise[n//8:-n//8])
                mu_v = 0.5*1e-3*R_L
                ex = 2*qe*mu_v*enbw*R_L
                if abs(v/ex-1) > 6*np.sqrt(2/neff):
                    viol('E.PD-shot', (R_L, BW, seed), f'{v} vs {ex}')
    gv.clean() if hasattr(gv, 'clean') else None


if __name__ == '__main__':
    for fn in [clause_A, clause_B, clause_S, clause_V, clause_C, clause_D, clause_E]:
        try:
            fn()
        except Exception as ex:
            import traceback
            traceback.print_exc()
            viol(fn.__name__, '-', f'audit aborted: {type(ex).__name__}: {ex}')
        sys.stdout.flush()
    if VIOL:
        from collections import Counter
        print('SUMMARY', dict(Counter(VIOL)))
        sys.exit(1)
    print('PASS')
    sys.exit(0)
