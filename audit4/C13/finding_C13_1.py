import sys; del sys.path[0]
import numpy as np
from scipy.stats import norm
from opticomlib import ppm, utils
bad = 0
# (a) M = 2 soft decision must equal Q(mu/sqrt(s0^2+s1^2)) and never exceed the hard decision; s0 << s1 (both > 0)
mu, s0, s1 = 1.67, 1e-4, 1.0
soft, hard = float(ppm.theory_BER(mu, s0, s1, 2, 'soft')), float(ppm.theory_BER(mu, s0, s1, 2, 'hard'))
q = norm.sf(mu/np.hypot(s0, s1))
print(f'ppm.theory_BER({mu},{s0},{s1},2): soft {soft:.6e}  expected Q(mu/sqrt(s0^2+s1^2)) = {q:.6e}  hard {hard:.6e}')
bad += abs(soft-q) > 1e-6*q + 1e-8 or soft > hard
# (b) receiver model at the inclusive ends T = 0, ER = inf, unamplified: the OFF level is noise free (s0 = 0)
kw = dict(M=4, T=0, r=0.1)   # P_avg = -48.95 dBm, ER = inf and amplify = False are the defaults
soft, hard = float(utils.theory_BER(-48.95, 'ppm', decision='soft', **kw)), float(utils.theory_BER(-48.95, 'ppm', decision='hard', **kw))
m, _ = utils.average_voltages(-48.95, 'ppm', 4, amplify=False, r=0.1)
S = utils.noise_variances(-48.95, 'ppm', 4, amplify=False, r=0.1, T=0)
exact = 4/2/3*norm.sf(m[1]/S[1]**0.5)   # with S[0] = 0 the soft symbol error is P(ON sample < OFF level)
print(f'utils.theory_BER(-48.95,ppm,M=4,T=0,r=0.1): soft {soft:.6e}  expected {exact:.6e} (<= hard {hard:.6e})')
bad += soft > hard or abs(soft-exact) > 1e-6*exact + 1e-8
sys.exit(1 if bad else 0)
